(* CukeProofs.v — C11 for the cucumber-expression matcher: a step is bound only if the complete text is in
   the language of the expression, with exactly one argument per parameter (none for a parameterless
   expression - which still binds), each delimiting its text. *)
From BV Require Import Base UStr StepMatch Regex RegexProofs Cuke.

Lemma group_names_lit s : group_names (lit_rx s) = [].
Proof. induction s as [|c r IH]; cbn; [reflexivity|exact IH]. Qed.

Lemma group_names_alts ws : group_names (alts_rx ws) = [].
Proof.
  induction ws as [|w r IH]; [reflexivity|]. destruct r as [|w2 r2]; cbn [alts_rx group_names].
  - apply group_names_lit.
  - rewrite group_names_lit. exact IH.
Qed.

Lemma group_names_atom a : group_names (atom_rx a) = if is_param a then [None] else [].
Proof.
  destruct a; cbn [atom_rx group_names is_param]; try reflexivity.
  - apply group_names_lit.
  - apply group_names_lit.
  - apply group_names_alts.
Qed.

Lemma group_names_cuke p : group_names (cuke_rx p) = map (fun _ => None) (filter is_param p).
Proof.
  induction p as [|a r IH]; [reflexivity|]. cbn [cuke_rx group_names filter]. rewrite group_names_atom, IH.
  destruct (is_param a); reflexivity.
Qed.

Lemma rargs_from_length names : forall i text cs, length (rargs_from names i text cs) = length names.
Proof. induction names as [|n r IH]; intros i text cs; cbn [rargs_from length]; [reflexivity|]. now rewrite IH. Qed.

Lemma rargs_from_names names : forall i text cs, map ra_name (rargs_from names i text cs) = names.
Proof.
  induction names as [|n r IH]; intros i text cs; cbn [rargs_from map]; [reflexivity|]. rewrite IH.
  destruct (cap_get i cs) as [[s e]|]; reflexivity.
Qed.

(* one argument per parameter, all of them unnamed (cucumber-expression arguments are passed by position) *)
Theorem cuke_one_argument_per_parameter p text args :
  cuke_check_match p text = Some args ->
  length args = length (filter is_param p) /\ Forall (fun a => ra_name a = None) args.
Proof.
  unfold cuke_check_match, rx_check_match. destruct (rx_match true (cuke_rx p) text) as [cs|]; [|discriminate].
  intros H. inversion H as [H1]. clear H H1. rewrite group_names_cuke. split.
  - now rewrite rargs_from_length, map_length.
  - rewrite Forall_forall. intros a Hin.
    assert (In (ra_name a) (map ra_name (rargs_from (map (fun _ : catom => None) (filter is_param p)) 1 text cs)))
      by (apply in_map; exact Hin).
    rewrite rargs_from_names in H. apply in_map_iff in H as [x [E _]]. now symmetry.
Qed.

(* a parameterless expression that matches does bind: with no arguments *)
Theorem cuke_parameterless_expression_binds_without_arguments p text :
  filter is_param p = [] ->
  cuke_check_match p text = match rx_match true (cuke_rx p) text with Some _ => Some [] | None => None end.
Proof.
  intros H. unfold cuke_check_match, rx_check_match. destruct (rx_match true (cuke_rx p) text); [|reflexivity].
  rewrite group_names_cuke, H. reflexivity.
Qed.

(* a bound step: the complete step text is in the language of the expression *)
Theorem cuke_binds_only_complete_texts p text args :
  cuke_check_match p text = Some args -> lang (cuke_rx p) text.
Proof.
  unfold cuke_check_match, rx_check_match. destruct (rx_match true (cuke_rx p) text) as [cs|] eqn:M; [|discriminate].
  intros _. exact (anchored_regex_matches_only_complete_texts _ _ _ M).
Qed.

(* every argument delimits its original text inside the step text *)
Theorem cuke_arguments_delimit_their_text p text args :
  cuke_check_match p text = Some args ->
  Forall (fun a => match ra_span a with
                   | None => ra_text a = None
                   | Some (s, e) => s <= e <= length text /\ ra_text a = Some (firstn (e - s) (skipn s text))
                   end) args.
Proof. exact (reported_arguments_delimit_their_text true (cuke_rx p) text args). Qed.

(* the expression 'I have INT cucumber(s)' on 'I have 3 cucumbers': bound, the argument is 3 at 7..8;
   'I peel/slice it' is parameterless and binds 'I slice it' with no arguments, and not 'I slice it!' *)
Example cuke_examples :
  let s := map (fun c => N.of_nat c) in
  cuke_check_match [CLit (s [73;32;104;97;118;101;32]); CPInt; CLit (s [32;99;117;99;117;109;98;101;114]); COptional (s [115])]
                   (s [73;32;104;97;118;101;32;51;32;99;117;99;117;109;98;101;114;115])
  = Some [mkRArg (Some (7, 8)) (Some (s [51])) None] /\
  cuke_check_match [CLit (s [73;32]); CAlternative [s [112;101;101;108]; s [115;108;105;99;101]]; CLit (s [32;105;116])]
                   (s [73;32;115;108;105;99;101;32;105;116]) = Some [] /\
  cuke_check_match [CLit (s [73;32]); CAlternative [s [112;101;101;108]; s [115;108;105;99;101]]; CLit (s [32;105;116])]
                   (s [73;32;115;108;105;99;101;32;105;116;33]) = None.
Proof. vm_compute. repeat split. Qed.
