(* RunnerOrder.v — C02 at the level of a whole run: the step-function calls of a run are, in
   run order, one block per scenario / outline row, each block carrying that scenario's id and
   being a subsequence (a prefix, with the default continue_after_failed_step = false) of
   feature background ++ rule background ++ the scenario's own steps. *)
From BV Require Import Base Status Rollup Runner RunnerSteps RunnerQuiet RunnerHooks.
From BVGen Require Import StatusTable.

Fixpoint step_calls (ev : list event) : list (nat * nat) :=
  match ev with
  | [] => []
  | EStep _ sid scen _ :: r => (scen, sid) :: step_calls r
  | _ :: r => step_calls r
  end.

Lemma step_calls_app a b : step_calls (a ++ b) = step_calls a ++ step_calls b.
Proof. induction a as [|e a IH]; [reflexivity|]. destruct e; cbn; now rewrite ?IH. Qed.

Lemma no_calls_no_step_calls ev : call_ids ev = [] -> step_calls ev = [].
Proof. induction ev as [|e r IH]; [reflexivity|]. destruct e; cbn; try discriminate; auto. Qed.

(* every call in [ev] is made on behalf of scenario [scid] *)
Definition owned (scid : nat) (ev : list event) : Prop := step_calls ev = map (pair scid) (call_ids ev).

Lemma owned_app scid a b : owned scid a -> owned scid b -> owned scid (a ++ b).
Proof. unfold owned. intros A B. now rewrite step_calls_app, call_ids_app, map_app, A, B. Qed.

Lemma owned_quiet scid ev : call_ids ev = [] -> owned scid ev.
Proof. unfold owned. intros H. now rewrite (no_calls_no_step_calls _ H), H. Qed.

Lemma run_step_owned cfg st wip scid s st' status skip ev :
  run_step cfg st wip scid s = (st', status, skip, ev) -> owned scid ev.
Proof.
  unfold run_step.
  assert (D : forall k, run_defined_step cfg st wip scid k (st_id s) = (st', status, skip, ev) -> owned scid ev).
  { intros k. unfold run_defined_step.
    destruct (run_hook cfg st HBeforeStep (st_id s)) as [[st1 rb] eb] eqn:E1.
    apply run_hook_calls in E1 as [C1 _].
    destruct rb.
    - destruct (run_hook cfg st1 HAfterStep (st_id s)) as [[st3 ra] ea] eqn:E3.
      apply run_hook_calls in E3 as [C3 _].
      intros E; inversion E; subst. apply owned_quiet. cbn [call_ids].
      now rewrite !call_ids_app, C1, C3.
    - match goal with |- context [run_hook cfg ?S HAfterStep (st_id s)] =>
        destruct (run_hook cfg S HAfterStep (st_id s)) as [[st3 ra] ea] eqn:E3 end.
      apply run_hook_calls in E3 as [C3 _].
      intros E; inversion E; subst. unfold owned.
      repeat (rewrite ?step_calls_app, ?call_ids_app; cbn [step_calls call_ids app]).
      rewrite (no_calls_no_step_calls _ C1), (no_calls_no_step_calls _ C3), C1, C3.
      reflexivity. }
  destruct (st_kind s); try apply D.
  intros E; inversion E; subst. apply owned_quiet. reflexivity.
Qed.

Lemma steps_loop_owned cfg wip dry scid steps : forall st l st' l' sts ev,
  steps_loop cfg st wip dry scid l steps = (st', l', sts, ev) -> owned scid ev.
Proof.
  induction steps as [|s r IH]; intros st l st' l' sts ev; cbn [steps_loop].
  - intros E; inversion E; subst. apply owned_quiet. reflexivity.
  - destruct (l_run_steps l).
    + destruct (run_step cfg st wip scid s) as [[[st1 status] skip] ev1] eqn:E1.
      apply run_step_owned in E1.
      match goal with |- context [steps_loop cfg st1 wip dry scid ?l1 r] =>
        destruct (steps_loop cfg st1 wip dry scid l1 r) as [[[st2 l2] sts2] ev2] eqn:E2 end.
      apply IH in E2. intros E; inversion E; subst. now apply owned_app.
    + destruct (l_failed l || dry).
      * match goal with |- context [let '(status, ev) := ?X in _] => destruct X as [status0 ev0] eqn:E0 end.
        destruct (steps_loop cfg st wip dry scid l r) as [[[st2 l2] sts2] ev2] eqn:E2.
        apply IH in E2. intros E; inversion E; subst. apply owned_app; [|assumption].
        apply owned_quiet. destruct (st_kind s), dry; inversion E0; subst; reflexivity.
      * destruct (steps_loop cfg st wip dry scid l r) as [[[st2 l2] sts2] ev2] eqn:E2.
        apply IH in E2. intros E; inversion E; subst. assumption.
Qed.

(* what relates a block of calls to the step list of its scenario *)
Definition in_order (cont : bool) (cs steps : list nat) : Prop :=
  subseq cs steps /\ (cont = false -> exists n, cs = firstn n steps).

Lemma in_order_nil cont steps : in_order cont [] steps.
Proof. split; [apply subseq_nil_l|]. intros _. exists 0. reflexivity. Qed.

Lemma run_scenario_calls cfg st id all_steps oe eff own st' res fld ev :
  run_scenario cfg st id all_steps oe eff own = (st', res, fld, ev) ->
  exists cs, step_calls ev = map (pair id) cs /\ in_order (c_cont cfg) cs (map st_id all_steps).
Proof.
  unfold run_scenario. cbv zeta.
  set (hc := negb (c_dry cfg) && sel cfg eff).
  assert (F1 : forall st1 hf e, (if hc then
        let '(sa, b1, e1) := run_tag_hooks cfg (push st) HBeforeTag own in
        let '(sb, b2, e2) := run_hook cfg sa HBeforeScenario id in (sb, b1 || b2, e1 ++ e2)
      else (push st, false, [])) = (st1, hf, e) -> call_ids e = []).
  { intros st1 hf e. destruct hc.
    - destruct (run_tag_hooks cfg (push st) HBeforeTag own) as [[sa b1] e1] eqn:E1.
      apply run_tag_hooks_calls in E1.
      destruct (run_hook cfg sa HBeforeScenario id) as [[sb b2] e2] eqn:E2. apply run_hook_calls in E2 as [E2 _].
      intros E; inversion E; subst. now rewrite call_ids_app, E1, E2.
    - intros E; inversion E; subst. reflexivity. }
  match goal with |- context [if hc then ?A else ?B] => destruct (if hc then A else B) as [[st1 hf] evb] end.
  specialize (F1 _ _ _ eq_refl).
  match goal with |- context [scenario_steps ?a ?b ?c0 ?d ?e ?f ?g ?h] =>
    destruct (scenario_steps a b c0 d e f g h) as [[[st2 l2] statuses] ev_steps] eqn:E2 end.
  assert (S : owned id ev_steps /\ in_order (c_cont cfg) (call_ids ev_steps) (map st_id all_steps)).
  { unfold scenario_steps in E2.
    match type of E2 with (if ?b then _ else _) = _ => destruct b end.
    - inversion E2; subst. split; [apply owned_quiet; reflexivity|apply in_order_nil].
    - split; [eapply steps_loop_owned; eauto|]. split.
      + eapply steps_loop_calls_in_order; eauto.
      + intros Hc. eapply steps_loop_prefix; eauto. }
  destruct S as [So Si].
  assert (F3 : forall st3 hf2 e, (if hc then
        let '(sa, b1, e1) := run_hook cfg st2 HAfterScenario id in
        let '(sb, b2, e2) := run_tag_hooks cfg sa HAfterTag own in (sb, hf || b1 || b2, e1 ++ e2)
      else (st2, hf, [])) = (st3, hf2, e) -> call_ids e = []).
  { intros st3 hf2 e. destruct hc.
    - destruct (run_hook cfg st2 HAfterScenario id) as [[sa b1] e1] eqn:E1. apply run_hook_calls in E1 as [E1 _].
      destruct (run_tag_hooks cfg sa HAfterTag own) as [[sb b2] e2] eqn:E3.
      apply run_tag_hooks_calls in E3.
      intros E; inversion E; subst. now rewrite call_ids_app, E1, E3.
    - intros E; inversion E; subst. reflexivity. }
  match goal with |- context [if hc then ?A else ?B] => destruct (if hc then A else B) as [[st3 hf2] eva] end.
  specialize (F3 _ _ _ eq_refl).
  destruct (pop st3) as [[st4 cr] evp] eqn:E4. apply pop_quiet in E4. apply allq_calls in E4.
  intros E; inversion E; subst; clear E.
  exists (call_ids ev_steps). split; [|exact Si].
  assert (A : call_ids (if sel cfg eff || c_show_skipped cfg
                        then EFmt (FScenario id) :: map (fun s => EFmt (FStepAnn (st_id s))) all_steps else []) = []).
  { destruct (sel cfg eff || c_show_skipped cfg); [|reflexivity]. cbn. clear. induction all_steps; cbn; auto. }
  rewrite !step_calls_app, (no_calls_no_step_calls _ F1), (no_calls_no_step_calls _ A),
          (no_calls_no_step_calls _ F3), (no_calls_no_step_calls _ E4). cbn [app]. rewrite app_nil_r. exact So.
Qed.

(* ---- the expected blocks, in run order *)
Definition sitem_specs (bg : list step) (it : sitem) : list (nat * list step) :=
  match it with
  | SScen s => [(sc_id s, bg ++ sc_steps s)]
  | SOutline o => map (fun rw => (rw_id rw, bg ++ o_steps o)) (outline_rows o)
  end.

Definition rule_specs (inh : list step) (r : rule) : list (nat * list step) :=
  flat_map (sitem_specs (inh ++ opt_steps (r_bg r))) (r_items r).

Definition fitem_specs (bg : list step) (it : fitem) : list (nat * list step) :=
  match it with FItem i => sitem_specs bg i | FRule r => rule_specs bg r end.

Definition feature_specs (f : feature) : list (nat * list step) :=
  flat_map (fitem_specs (opt_steps (f_bg f))) (f_items f).

Fixpoint calls_match (cont : bool) (specs : list (nat * list step)) (calls : list (nat * nat)) : Prop :=
  match specs with
  | [] => calls = []
  | (id, steps) :: r =>
      exists cs rest, calls = map (pair id) cs ++ rest /\ in_order cont cs (map st_id steps) /\
                      calls_match cont r rest
  end.

Lemma calls_match_none cont specs : calls_match cont specs [].
Proof.
  induction specs as [|[id steps] r IH]; cbn; [reflexivity|].
  exists [], []. repeat split; auto using in_order_nil. apply subseq_nil_l. intros _. exists 0. reflexivity.
Qed.

Lemma calls_match_app cont a b ca cb :
  calls_match cont a ca -> calls_match cont b cb -> calls_match cont (a ++ b) (ca ++ cb).
Proof.
  revert ca. induction a as [|[id steps] r IH]; intros ca; cbn.
  - intros -> H. exact H.
  - intros (cs & rest & -> & Hi & Hr) Hb. exists cs, (rest ++ cb). repeat split; try apply Hi.
    + now rewrite app_assoc.
    + now apply IH.
Qed.

Lemma run_rows_calls cfg all_steps oe anc rows : forall st stopped st' rs fld ev,
  run_rows cfg st all_steps oe anc rows stopped = (st', rs, fld, ev) ->
  calls_match (c_cont cfg) (map (fun rw => (rw_id rw, all_steps)) rows) (step_calls ev).
Proof.
  induction rows as [|rw r IH]; intros st stopped st' rs fld ev; cbn [run_rows map].
  - intros E; inversion E; subst. reflexivity.
  - destruct stopped.
    + destruct (run_rows cfg st all_steps oe anc r true) as [[[st2 rs2] f2] ev2] eqn:E2.
      intros E; inversion E; subst. apply IH in E2.
      exists []. eexists. split; [reflexivity|]. split; [apply in_order_nil|exact E2].
    + destruct (run_scenario cfg st (rw_id rw) all_steps oe (rw_tags rw ++ anc) (rw_tags rw))
        as [[[st1 res] fld1] ev1] eqn:E1.
      apply run_scenario_calls in E1 as (cs & C1 & C2).
      match goal with |- context [run_rows cfg st1 all_steps oe anc r ?B] =>
        destruct (run_rows cfg st1 all_steps oe anc r B) as [[[st2 rs2] f2] ev2] eqn:E2 end.
      apply IH in E2. intros E; inversion E; subst. rewrite step_calls_app, C1.
      exists cs. eexists. split; [reflexivity|]. split; [exact C2|exact E2].
Qed.

Lemma run_sitem_calls cfg st bg anc it st' res fld ev :
  run_sitem cfg st bg anc it = (st', res, fld, ev) ->
  calls_match (c_cont cfg) (sitem_specs bg it) (step_calls ev).
Proof.
  destruct it as [s|o]; cbn [run_sitem sitem_specs].
  - match goal with |- context [run_scenario ?a ?b ?c0 ?d ?e ?f ?g] =>
      destruct (run_scenario a b c0 d e f g) as [[[st1 r1] f1] e1] eqn:E1 end.
    apply run_scenario_calls in E1 as (cs & C1 & C2).
    intros E; inversion E; subst. exists cs, []. rewrite app_nil_r. repeat split; try apply C2. exact C1.
  - unfold run_outline.
    match goal with |- context [run_rows ?a ?b ?c0 ?d ?e ?f ?g] =>
      destruct (run_rows a b c0 d e f g) as [[[st1 r1] f1] e1] eqn:E1 end.
    apply run_rows_calls in E1. intros E; inversion E; subst. exact E1.
Qed.

Lemma run_sitems_calls cfg bg anc items : forall st stopped st' rs fld ev,
  run_sitems cfg st bg anc items stopped = (st', rs, fld, ev) ->
  calls_match (c_cont cfg) (flat_map (sitem_specs bg) items) (step_calls ev).
Proof.
  induction items as [|it r IH]; intros st stopped st' rs fld ev; cbn [run_sitems flat_map].
  - intros E; inversion E; subst. reflexivity.
  - destruct stopped.
    + destruct (run_sitems cfg st bg anc r true) as [[[st2 rs2] f2] ev2] eqn:E2.
      intros E; inversion E; subst. apply IH in E2.
      apply (calls_match_app _ _ _ [] _ (calls_match_none _ _) E2).
    + destruct (run_sitem cfg st bg anc it) as [[[st1 res] fld1] ev1] eqn:E1.
      apply run_sitem_calls in E1.
      match goal with |- context [run_sitems cfg st1 bg anc r ?B] =>
        destruct (run_sitems cfg st1 bg anc r B) as [[[st2 rs2] f2] ev2] eqn:E2 end.
      apply IH in E2. intros E; inversion E; subst. rewrite step_calls_app. now apply calls_match_app.
Qed.

Lemma open_close_no_calls cfg :
  (forall st0 (hc : bool) hb id tags st1 hf e,
     (if hc then let '(sa, b1, e1) := run_tag_hooks cfg st0 HBeforeTag tags in
                 let '(sb, b2, e2) := run_hook cfg sa hb id in (sb, b1 || b2, e1 ++ e2)
      else (st0, false, [])) = (st1, hf, e) -> call_ids e = []) /\
  (forall st2 (hc hf : bool) ha id tags st3 hf2 e,
     (if hc then let '(sa, b1, e1) := run_hook cfg st2 ha id in
                 let '(sb, b2, e2) := run_tag_hooks cfg sa HAfterTag tags in (sb, hf || b1 || b2, e1 ++ e2)
      else (st2, hf, [])) = (st3, hf2, e) -> call_ids e = []).
Proof.
  split.
  - intros st0 hc hb id tags st1 hf e. destruct hc.
    + destruct (run_tag_hooks cfg st0 HBeforeTag tags) as [[sa b1] e1] eqn:E1. apply run_tag_hooks_calls in E1.
      destruct (run_hook cfg sa hb id) as [[sb b2] e2] eqn:E2. apply run_hook_calls in E2 as [E2 _].
      intros E; inversion E; subst. now rewrite call_ids_app, E1, E2.
    + intros E; inversion E; subst. reflexivity.
  - intros st2 hc hf ha id tags st3 hf2 e. destruct hc.
    + destruct (run_hook cfg st2 ha id) as [[sa b1] e1] eqn:E1. apply run_hook_calls in E1 as [E1 _].
      destruct (run_tag_hooks cfg sa HAfterTag tags) as [[sb b2] e2] eqn:E2. apply run_tag_hooks_calls in E2.
      intros E; inversion E; subst. now rewrite call_ids_app, E1, E2.
    + intros E; inversion E; subst. reflexivity.
Qed.

Lemma run_rule_calls cfg st r anc inh fhb st' res fld ev :
  run_rule cfg st r anc inh fhb = (st', res, fld, ev) ->
  calls_match (c_cont cfg) (rule_specs inh r) (step_calls ev).
Proof.
  unfold run_rule. cbv zeta. destruct (open_close_no_calls cfg) as [Ho Hc].
  set (hc := negb (c_dry cfg) && rule_runs cfg anc r).
  match goal with |- context [if hc then ?A else ?B] => destruct (if hc then A else B) as [[st1 hf] evb] eqn:E1 end.
  apply Ho in E1.
  match goal with |- context [run_sitems ?a ?b ?c0 ?d ?e ?f] =>
    destruct (run_sitems a b c0 d e f) as [[[st2 rs] itf] evi] eqn:E3 end.
  apply run_sitems_calls in E3.
  match goal with |- context [if hc then ?A else ?B] => destruct (if hc then A else B) as [[st3 hf2] eva] eqn:E5 end.
  apply Hc in E5.
  destruct (pop st3) as [[st4 cr] evp] eqn:E4. apply pop_quiet in E4. apply allq_calls in E4.
  intros E; inversion E; subst; clear E.
  assert (A : call_ids (if rule_runs cfg anc r || c_show_skipped cfg
      then EFmt (FRuleEv (r_id r)) :: (if match r_bg r with Some _ => true | None => fhb end
                                       then [EFmt (FBackground (map st_id (opt_steps (r_bg r))))] else []) else []) = []).
  { destruct (rule_runs cfg anc r || c_show_skipped cfg); [|reflexivity].
    destruct (match r_bg r with Some _ => true | None => fhb end); reflexivity. }
  rewrite !step_calls_app, (no_calls_no_step_calls _ E1), (no_calls_no_step_calls _ A),
          (no_calls_no_step_calls _ E5), (no_calls_no_step_calls _ E4). cbn [app]. rewrite app_nil_r. exact E3.
Qed.

Lemma run_fitems_calls cfg bg hb anc items : forall st stopped st' rs fld ev,
  run_fitems cfg st bg hb anc items stopped = (st', rs, fld, ev) ->
  calls_match (c_cont cfg) (flat_map (fitem_specs bg) items) (step_calls ev).
Proof.
  induction items as [|it r IH]; intros st stopped st' rs fld ev; cbn [run_fitems flat_map].
  - intros E; inversion E; subst. reflexivity.
  - destruct stopped.
    + destruct (run_fitems cfg st bg hb anc r true) as [[[st2 rs2] f2] ev2] eqn:E2.
      intros E; inversion E; subst. apply IH in E2.
      apply (calls_match_app _ _ _ [] _ (calls_match_none _ _) E2).
    + assert (S1 : forall st1 res fld1 ev1, run_fitem cfg st bg hb anc it = (st1, res, fld1, ev1) ->
                   calls_match (c_cont cfg) (fitem_specs bg it) (step_calls ev1)).
      { intros st1 res fld1 ev1. destruct it as [i|rl]; cbn [run_fitem fitem_specs].
        - destruct (run_sitem cfg st bg anc i) as [[[sa ra] fa] ea] eqn:Ea. apply run_sitem_calls in Ea.
          intros E; inversion E; subst. exact Ea.
        - destruct (run_rule cfg st rl anc bg hb) as [[[sa ra] fa] ea] eqn:Ea. apply run_rule_calls in Ea.
          intros E; inversion E; subst. exact Ea. }
      destruct (run_fitem cfg st bg hb anc it) as [[[st1 res] fld1] ev1] eqn:E1.
      specialize (S1 _ _ _ _ eq_refl).
      match goal with |- context [run_fitems cfg st1 bg hb anc r ?B] =>
        destruct (run_fitems cfg st1 bg hb anc r B) as [[[st2 rs2] f2] ev2] eqn:E2 end.
      apply IH in E2. intros E; inversion E; subst. rewrite step_calls_app. now apply calls_match_app.
Qed.

Lemma run_feature_calls cfg st f st' res fld ev :
  run_feature cfg st f = (st', res, fld, ev) ->
  calls_match (c_cont cfg) (feature_specs f) (step_calls ev).
Proof.
  unfold run_feature. cbv zeta. destruct (open_close_no_calls cfg) as [Ho Hc].
  set (hc := negb (c_dry cfg) && feature_should_run cfg f).
  match goal with |- context [if hc then ?A else ?B] => destruct (if hc then A else B) as [[st1 hf] evb] eqn:E1 end.
  apply Ho in E1.
  match goal with |- context [run_fitems ?a ?b ?c0 ?d ?e ?f0 ?g] =>
    destruct (run_fitems a b c0 d e f0 g) as [[[st2 rs] itf] evi] eqn:E3 end.
  apply run_fitems_calls in E3.
  match goal with |- context [if hc then ?A else ?B] => destruct (if hc then A else B) as [[st3 hf2] eva] eqn:E5 end.
  apply Hc in E5.
  destruct (pop st3) as [[st4 cr] evp] eqn:E4. apply pop_quiet in E4. apply allq_calls in E4.
  intros E; inversion E; subst; clear E.
  assert (A : forall b : bool, call_ids (if b
      then EFmt (FFeature (f_id f)) :: (if match f_bg f with Some _ => true | None => false end
                                        then [EFmt (FBackground (map st_id (opt_steps (f_bg f))))] else []) else []) = []).
  { intros []; [|reflexivity]. destruct (f_bg f); reflexivity. }
  assert (B : forall b : bool, call_ids (if b then [EFmt FEof] else []) = []) by (intros []; reflexivity).
  rewrite !step_calls_app, (no_calls_no_step_calls _ E1), (no_calls_no_step_calls _ (A _)),
          (no_calls_no_step_calls _ E5), (no_calls_no_step_calls _ E4), (no_calls_no_step_calls _ (B _)).
  cbn [app]. rewrite !app_nil_r. exact E3.
Qed.

Lemma run_features_calls cfg fs : forall st flag st' rs fld ev,
  run_features cfg st fs flag = (st', rs, fld, ev) ->
  calls_match (c_cont cfg) (flat_map feature_specs fs) (step_calls ev).
Proof.
  induction fs as [|f r IH]; intros st flag st' rs fld ev; cbn [run_features flat_map].
  - intros E; inversion E; subst. reflexivity.
  - destruct flag.
    + destruct (run_feature cfg st f) as [[[st1 res] fld1] ev1] eqn:E1. apply run_feature_calls in E1.
      match goal with |- context [run_features cfg st1 r ?B] =>
        destruct (run_features cfg st1 r B) as [[[st2 rs2] f2] ev2] eqn:E2 end.
      apply IH in E2. intros E; inversion E; subst. cbn [step_calls]. rewrite step_calls_app.
      now apply calls_match_app.
    + destruct (run_features cfg st r false) as [[[st2 rs2] f2] ev2] eqn:E2.
      apply IH in E2. intros E; inversion E; subst.
      apply (calls_match_app _ _ _ [] _ (calls_match_none _ _) E2).
Qed.

Theorem run_calls_follow_the_document cfg fs rs verdict ab evs :
  run_model cfg fs = (rs, verdict, ab, evs) ->
  calls_match (c_cont cfg) (flat_map feature_specs fs) (step_calls evs).
Proof.
  unfold run_model.
  destruct (run_hook cfg (mkState false [[]]) HBeforeAll 0) as [[st1 b1] e1] eqn:E1. apply run_hook_calls in E1 as [E1 _].
  destruct (run_features cfg st1 fs (negb (aborted st1))) as [[[st2 rs2] af] e2] eqn:E2.
  apply run_features_calls in E2.
  destruct (run_hook cfg st2 HAfterAll 0) as [[st3 b3] e3] eqn:E3. apply run_hook_calls in E3 as [E3 _].
  intros E; inversion E; subst; clear E.
  assert (C : call_ids (cleanup_events match stack st3 with [] => [] | fr :: _ => fr end) = []).
  { generalize (match stack st3 with [] => [] | fr :: _ => fr end). intros l. unfold cleanup_events.
    induction (rev l) as [|c r IH]; cbn; auto. }
  rewrite !step_calls_app, (no_calls_no_step_calls _ E1), (no_calls_no_step_calls _ E3), (no_calls_no_step_calls _ C).
  cbn [app step_calls]. rewrite app_nil_r. exact E2.
Qed.
