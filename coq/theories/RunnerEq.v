(* RunnerEq.v — decidable equality of the observable outputs of Runner.v
   (used by the generated case files to compare with the implementation). *)
From BV Require Import Base Status Rollup Runner.

Definition skind_eq_dec : forall a b : skind, {a = b} + {a <> b}.
Proof. decide equality. Defined.
Definition hookname_eq_dec : forall a b : hookname, {a = b} + {a <> b}.
Proof. decide equality. Defined.
Definition fevent_eq_dec : forall a b : fevent, {a = b} + {a <> b}.
Proof.
  decide equality; try apply Nat.eq_dec; try apply Bool.bool_dec; try apply status_eq_dec.
  apply list_eq_dec, Nat.eq_dec.
Defined.
Definition event_eq_dec : forall a b : event, {a = b} + {a <> b}.
Proof.
  decide equality; try apply Nat.eq_dec; try apply Bool.bool_dec;
    try apply hookname_eq_dec; try apply skind_eq_dec; try apply fevent_eq_dec.
Defined.
Definition opt_status_eq_dec : forall a b : option status, {a = b} + {a <> b}.
Proof. decide equality; apply status_eq_dec. Defined.
Definition scen_res_eq_dec : forall a b : scen_res, {a = b} + {a <> b}.
Proof.
  decide equality; try apply Nat.eq_dec; try apply Bool.bool_dec; try apply opt_status_eq_dec.
  apply list_eq_dec, status_eq_dec.
Defined.
Definition item_res_eq_dec : forall a b : item_res, {a = b} + {a <> b}.
Proof.
  decide equality; try apply Nat.eq_dec; try apply status_eq_dec; try apply scen_res_eq_dec.
  apply list_eq_dec, scen_res_eq_dec.
Defined.
Definition rule_res_eq_dec : forall a b : rule_res, {a = b} + {a <> b}.
Proof.
  decide equality; try apply Nat.eq_dec; try apply Bool.bool_dec; try apply status_eq_dec.
  apply list_eq_dec, item_res_eq_dec.
Defined.
Definition fitem_res_eq_dec : forall a b : fitem_res, {a = b} + {a <> b}.
Proof. decide equality; [apply item_res_eq_dec | apply rule_res_eq_dec]. Defined.
Definition feat_res_eq_dec : forall a b : feat_res, {a = b} + {a <> b}.
Proof.
  decide equality; try apply Nat.eq_dec; try apply Bool.bool_dec; try apply status_eq_dec.
  apply list_eq_dec, fitem_res_eq_dec.
Defined.

Definition run_output := (list feat_res * bool * bool * list event)%type.

Definition run_output_eqb (a b : run_output) : bool :=
  let '(r1, f1, a1, e1) := a in
  let '(r2, f2, a2, e2) := b in
  (if list_eq_dec feat_res_eq_dec r1 r2 then true else false)
  && Bool.eqb f1 f2 && Bool.eqb a1 a2
  && (if list_eq_dec event_eq_dec e1 e2 then true else false).

(* configuration as data, for case files *)
Record cfgdata := mkCfgData {
  d_dry : bool; d_stop : bool; d_show_skipped : bool; d_expr : texpr;
  d_hooks : list hookname; d_faults : list (hookname * nat);
  d_hook_cleanups : list (hookname * nat * list (nat * bool));
  d_wip : nat; d_cont : bool; d_excl : option nat; d_aborts : list (hookname * nat) }.

Definition hook_in (h : hookname) (l : list hookname) : bool :=
  existsb (fun x => if hookname_eq_dec h x then true else false) l.

Definition site_in (h : hookname) (k : nat) (l : list (hookname * nat)) : bool :=
  existsb (fun x => (if hookname_eq_dec h (fst x) then true else false) && Nat.eqb k (snd x)) l.

Fixpoint site_cleanups (h : hookname) (k : nat) (l : list (hookname * nat * list (nat * bool)))
  : list (nat * bool) :=
  match l with
  | [] => []
  | (h', k', cs) :: r =>
      if (if hookname_eq_dec h h' then true else false) && Nat.eqb k k' then cs ++ site_cleanups h k r
      else site_cleanups h k r
  end.

Definition config_of (d : cfgdata) : config :=
  mkConfig (d_dry d) (d_stop d) (d_show_skipped d) (teval (d_expr d))
           (fun h => hook_in h (d_hooks d)) (fun h k => site_in h k (d_faults d))
           (fun h k => site_cleanups h k (d_hook_cleanups d)) (d_wip d) (d_cont d)
           (fun h k => site_in h k (d_aborts d))
           (fun t => match d_excl d with Some x => Nat.eqb x t | None => false end).

Definition run_case (c : cfgdata * list feature) : run_output :=
  run_model (config_of (fst c)) (snd c).
