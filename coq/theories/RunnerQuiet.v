(* RunnerQuiet.v — dry-run never calls user code (C02, C12); a de-selected scenario is silent
   and ends skipped (C09, C01). *)
From BV Require Import Base Status Rollup Runner RunnerSteps RunnerVerdict.
From BVGen Require Import StatusTable.

Definition quiet (e : event) : bool := negb (is_call e) && negb (is_hook e).
Definition allq (l : list event) : bool := forallb quiet l.

Lemma allq_app a b : allq (a ++ b) = allq a && allq b.
Proof. apply forallb_app. Qed.

Lemma allq_calls l : allq l = true -> call_ids l = [].
Proof.
  induction l as [|e l IH]; [reflexivity|]. cbn. intros H. apply andb_true_iff in H as [He Hl].
  destruct e; cbn in *; try discriminate; auto.
Qed.

Lemma quiet_fmt_list l : forallb (fun e => match e with EFmt _ => true | _ => false end) l = true -> allq l = true.
Proof.
  induction l as [|e l IH]; [reflexivity|]. cbn. intros H. apply andb_true_iff in H as [He Hl].
  destruct e; try discriminate. cbn. now apply IH.
Qed.

Lemma run_hook_dry cfg st h k : c_dry cfg = true -> run_hook cfg st h k = (st, false, []).
Proof. unfold run_hook. now intros ->. Qed.

Lemma run_tag_hooks_dry cfg st h tags : c_dry cfg = true -> run_tag_hooks cfg st h tags = (st, false, []).
Proof.
  intros Hd. revert st. induction tags as [|t r IH]; intros st; cbn [run_tag_hooks]; [reflexivity|].
  rewrite run_hook_dry, IH by assumption. reflexivity.
Qed.

Lemma norun_quiet cfg wip dry scid steps : forall st l st' l' sts ev,
  l_run_steps l = false ->
  steps_loop cfg st wip dry scid l steps = (st', l', sts, ev) -> allq ev = true.
Proof.
  induction steps as [|s r IH]; intros st l st' l' sts ev Hr; cbn [steps_loop].
  - intros E; inversion E; subst. reflexivity.
  - rewrite Hr. destruct (l_failed l || dry).
    + match goal with |- context [let '(status, ev) := ?X in _] => destruct X as [status0 ev0] eqn:E0 end.
      destruct (steps_loop cfg st wip dry scid l r) as [[[st2 l2] sts2] ev2] eqn:E2.
      apply IH in E2; [|assumption].
      intros E; inversion E; subst; clear E. rewrite allq_app, E2.
      destruct (st_kind s), dry; inversion E0; subst; reflexivity.
    + destruct (steps_loop cfg st wip dry scid l r) as [[[st2 l2] sts2] ev2] eqn:E2.
      apply IH in E2; [|assumption].
      intros E; inversion E; subst; clear E. assumption.
Qed.

Lemma cleanup_events_quiet fr : allq (cleanup_events fr) = true.
Proof.
  unfold cleanup_events. induction (rev fr) as [|c l IH]; [reflexivity|]. cbn. exact IH.
Qed.

Lemma pop_quiet st st' cr ev : pop st = (st', cr, ev) -> allq ev = true.
Proof.
  unfold pop. destruct (stack st); intros E; inversion E; subst; [reflexivity|apply cleanup_events_quiet].
Qed.

Lemma scen_ann_quiet (b : bool) id (steps : list step) :
  allq (if b then EFmt (FScenario id) :: map (fun s => EFmt (FStepAnn (st_id s))) steps else []) = true.
Proof. destruct b; [|reflexivity]. cbn. induction steps; cbn; auto. Qed.

(* ---- dry-run: nothing of the user's is called, at any level *)
Lemma run_scenario_dry cfg st id all_steps oe eff own st' res fld ev :
  c_dry cfg = true -> run_scenario cfg st id all_steps oe eff own = (st', res, fld, ev) -> allq ev = true.
Proof.
  intros Hd. unfold run_scenario. rewrite Hd. cbn [negb andb].
  match goal with |- context [scenario_steps ?a ?b ?c ?d ?e ?f ?g ?h] =>
    destruct (scenario_steps a b c d e f g h) as [[[st2 l2] statuses] ev_steps] eqn:E3 end.
  destruct (pop st2) as [[st4 cr] ev_pop] eqn:E6. apply pop_quiet in E6.
  intros E; inversion E; subst; clear E. cbn [app]. rewrite !allq_app, scen_ann_quiet, E6.
  unfold scenario_steps in E3. destruct (aborted st).
  - inversion E3; subst. reflexivity.
  - rewrite Hd in E3. rewrite andb_false_r in E3. apply norun_quiet in E3; [|reflexivity]. now rewrite E3.
Qed.

Lemma run_rows_dry cfg (Hd : c_dry cfg = true) all_steps oe anc rows : forall st stopped st' rs fld ev,
  run_rows cfg st all_steps oe anc rows stopped = (st', rs, fld, ev) -> allq ev = true.
Proof.
  induction rows as [|rw r IH]; intros st stopped st' rs fld ev; cbn [run_rows].
  - intros E; inversion E; subst. reflexivity.
  - destruct stopped.
    + destruct (run_rows cfg st all_steps oe anc r true) as [[[st2 rs2] f2] ev2] eqn:E2.
      intros E; inversion E; subst. eapply IH; eauto.
    + destruct (run_scenario cfg st (rw_id rw) all_steps oe (rw_tags rw ++ anc) (rw_tags rw))
        as [[[st1 res] f1] ev1] eqn:E1.
      match goal with |- context [run_rows cfg st1 all_steps oe anc r ?b] =>
        destruct (run_rows cfg st1 all_steps oe anc r b) as [[[st2 rs2] f2] ev2] eqn:E2 end.
      intros E; inversion E; subst. rewrite allq_app.
      erewrite run_scenario_dry by eauto. eapply IH; eauto.
Qed.

Lemma run_sitem_dry cfg (Hd : c_dry cfg = true) st bg anc it st' res fld ev :
  run_sitem cfg st bg anc it = (st', res, fld, ev) -> allq ev = true.
Proof.
  destruct it as [s|o]; cbn [run_sitem].
  - match goal with |- context [run_scenario ?a ?b ?c ?d ?e ?f ?g] =>
      destruct (run_scenario a b c d e f g) as [[[st1 r1] f1] ev1] eqn:E1 end.
    intros E; inversion E; subst. eapply run_scenario_dry; eauto.
  - unfold run_outline.
    match goal with |- context [run_rows ?a ?b ?c ?d ?e ?f ?g] =>
      destruct (run_rows a b c d e f g) as [[[st1 rs] f1] ev1] eqn:E1 end.
    intros E; inversion E; subst. eapply run_rows_dry; eauto.
Qed.

Lemma run_sitems_dry cfg (Hd : c_dry cfg = true) bg anc items : forall st stopped st' rs fld ev,
  run_sitems cfg st bg anc items stopped = (st', rs, fld, ev) -> allq ev = true.
Proof.
  induction items as [|it r IH]; intros st stopped st' rs fld ev; cbn [run_sitems].
  - intros E; inversion E; subst. reflexivity.
  - destruct stopped.
    + destruct (run_sitems cfg st bg anc r true) as [[[st2 rs2] f2] ev2] eqn:E2.
      intros E; inversion E; subst. eapply IH; eauto.
    + destruct (run_sitem cfg st bg anc it) as [[[st1 res] f1] ev1] eqn:E1.
      match goal with |- context [run_sitems cfg st1 bg anc r ?b] =>
        destruct (run_sitems cfg st1 bg anc r b) as [[[st2 rs2] f2] ev2] eqn:E2 end.
      intros E; inversion E; subst. rewrite allq_app.
      erewrite run_sitem_dry by eauto. eapply IH; eauto.
Qed.

Lemma run_rule_dry cfg (Hd : c_dry cfg = true) st r anc inh fhb st' res fld ev :
  run_rule cfg st r anc inh fhb = (st', res, fld, ev) -> allq ev = true.
Proof.
  unfold run_rule. rewrite Hd. cbn [negb andb].
  match goal with |- context [run_sitems ?a ?b ?c ?d ?e ?f] =>
    destruct (run_sitems a b c d e f) as [[[st2 rs] itf] evi] eqn:E3 end.
  apply run_sitems_dry in E3; [|assumption].
  destruct (pop st2) as [[st4 cr] evp] eqn:E6. apply pop_quiet in E6.
  intros E; inversion E; subst; clear E. cbn [app]. rewrite !allq_app, E3, E6.
  destruct (rule_runs cfg anc r || c_show_skipped cfg); [|reflexivity].
  destruct (match r_bg r with Some _ => true | None => fhb end); reflexivity.
Qed.

Lemma run_fitems_dry cfg (Hd : c_dry cfg = true) bg hb anc items : forall st stopped st' rs fld ev,
  run_fitems cfg st bg hb anc items stopped = (st', rs, fld, ev) -> allq ev = true.
Proof.
  induction items as [|it r IH]; intros st stopped st' rs fld ev; cbn [run_fitems].
  - intros E; inversion E; subst. reflexivity.
  - destruct stopped.
    + destruct (run_fitems cfg st bg hb anc r true) as [[[st2 rs2] f2] ev2] eqn:E2.
      intros E; inversion E; subst. eapply IH; eauto.
    + destruct (run_fitem cfg st bg hb anc it) as [[[st1 res] f1] ev1] eqn:E1.
      match goal with |- context [run_fitems cfg st1 bg hb anc r ?b] =>
        destruct (run_fitems cfg st1 bg hb anc r b) as [[[st2 rs2] f2] ev2] eqn:E2 end.
      intros E; inversion E; subst. rewrite allq_app.
      assert (allq ev1 = true) as ->.
      { destruct it as [i|rr]; cbn [run_fitem] in E1.
        - destruct (run_sitem cfg st bg anc i) as [[[sx rx] fx] ex] eqn:Ex.
          inversion E1; subst. eapply run_sitem_dry; eauto.
        - destruct (run_rule cfg st rr anc bg hb) as [[[sx rx] fx] ex] eqn:Ex.
          inversion E1; subst. eapply run_rule_dry; eauto. }
      eapply IH; eauto.
Qed.

Lemma run_feature_dry cfg (Hd : c_dry cfg = true) st f st' res fld ev :
  run_feature cfg st f = (st', res, fld, ev) -> allq ev = true.
Proof.
  unfold run_feature. rewrite Hd. cbn [negb andb].
  match goal with |- context [run_fitems ?a ?b ?c ?d ?e ?f ?g] =>
    destruct (run_fitems a b c d e f g) as [[[st2 rs] itf] evi] eqn:E3 end.
  apply run_fitems_dry in E3; [|assumption].
  destruct (pop st2) as [[st4 cr] evp] eqn:E6. apply pop_quiet in E6.
  intros E; inversion E; subst; clear E. cbn [app]. rewrite !allq_app, E3, E6.
  match goal with |- context [feature_runs cfg ?b f] => destruct (feature_runs cfg b f || c_show_skipped cfg) end; [|reflexivity].
  destruct (f_bg f); reflexivity.
Qed.

Lemma run_features_dry cfg (Hd : c_dry cfg = true) fs : forall st flag st' rs fld ev,
  run_features cfg st fs flag = (st', rs, fld, ev) -> allq ev = true.
Proof.
  induction fs as [|f r IH]; intros st flag st' rs fld ev; cbn [run_features].
  - intros E; inversion E; subst. reflexivity.
  - destruct flag.
    + destruct (run_feature cfg st f) as [[[st1 res] f1] ev1] eqn:E1.
      match goal with |- context [run_features cfg st1 r ?b] =>
        destruct (run_features cfg st1 r b) as [[[st2 rs2] f2] ev2] eqn:E2 end.
      intros E; inversion E; subst. cbn. rewrite allq_app.
      erewrite run_feature_dry by eauto. eapply IH; eauto.
    + destruct (run_features cfg st r false) as [[[st2 rs2] f2] ev2] eqn:E2.
      intros E; inversion E; subst. eapply IH; eauto.
Qed.

Theorem dry_run_calls_nothing cfg fs rs verdict ab evs :
  c_dry cfg = true -> run_model cfg fs = (rs, verdict, ab, evs) ->
  forallb (fun e => negb (is_call e) && negb (is_hook e)) evs = true.
Proof.
  intros Hd. unfold run_model. rewrite !run_hook_dry by assumption.
  destruct (run_features cfg _ fs _) as [[[st2 rs2] anyf] e2] eqn:E2.
  apply run_features_dry in E2; [|assumption].
  rewrite run_hook_dry by assumption.
  intros E; inversion E; subst; clear E. cbn [app]. fold quiet. fold (allq (e2 ++ cleanup_events
    match stack st2 with [] => [] | fr :: _ => fr end ++ [EFmt FClose])).
  rewrite !allq_app, E2, cleanup_events_quiet. reflexivity.
Qed.

(* ---- a de-selected scenario: no hook, no step call, result skipped (or untested after an abort) *)
Lemma state_eta st : mkState (aborted st) (stack st) = st.
Proof. destruct st; reflexivity. Qed.

Lemma norun_silent cfg wip scid steps : forall st l st' l' sts ev,
  l_run_steps l = false -> l_failed l = false ->
  steps_loop cfg st wip false scid l steps = (st', l', sts, ev) -> ev = [].
Proof.
  induction steps as [|s r IH]; intros st l st' l' sts ev Hr Hf; cbn [steps_loop].
  - intros E; inversion E; subst. reflexivity.
  - rewrite Hr, Hf. cbn [orb].
    destruct (steps_loop cfg st wip false scid l r) as [[[st2 l2] sts2] ev2] eqn:E2.
    apply IH in E2; [|assumption|assumption].
    intros E; inversion E; subst; clear E. reflexivity.
Qed.

Lemma run_scenario_unselected cfg st id all_steps oe eff own :
  sel cfg eff = false ->
  run_scenario cfg st id all_steps oe eff own =
  (st,
   mkScenRes id
     (if oe then Some skipped
      else scenario_compute false (map (fun _ => if aborted st then untested else skipped) all_steps))
     false (map (fun _ => if aborted st then untested else skipped) all_steps),
   false,
   if c_show_skipped cfg
   then EFmt (FScenario id) :: map (fun s => EFmt (FStepAnn (st_id s))) all_steps else []).
Proof.
  intros He. destruct st as [ab stk]. unfold run_scenario. rewrite He. rewrite andb_false_r.
  cbn [orb negb andb aborted]. unfold scenario_steps. destruct ab.
  - cbn [pop push stack aborted app l_failed cleanups_raise existsb cleanup_events rev map orb].
    rewrite app_nil_r. destruct oe; reflexivity.
  - cbn [andb].
    destruct (steps_loop cfg (push (mkState false stk)) (mem_nat (c_wip cfg) eff) false id
                         (mkLoop false false false) all_steps)
      as [[[st2 l2] sts] evs] eqn:E.
    pose proof E as Es. apply norun_silent in Es; [|reflexivity|reflexivity].
    apply norun_spec in E as (A & B & C & D & F); [|reflexivity].
    subst st2 l2 evs sts.
    cbn [l_failed pop push stack aborted app orb cleanups_raise existsb cleanup_events rev map].
    rewrite app_nil_r. destruct oe; reflexivity.
Qed.

Lemma run_scenario_unselected_no_bad :
  forall cfg st id all_steps oe eff own,
    sel cfg eff = false ->
    exists res ev,
      run_scenario cfg st id all_steps oe eff own = (st, res, false, ev) /\
      existsb RunnerVerdict.bad ev = false.
Proof.
  intros cfg st id all_steps oe eff own He.
  rewrite (run_scenario_unselected cfg st id all_steps oe eff own He).
  eexists; eexists; split; [reflexivity|].
  destruct (c_show_skipped cfg); [|reflexivity]. cbn.
  induction all_steps as [|s r IH]; [reflexivity|exact IH].
Qed.

(* ---- selection = tag expression and not excluded; exclusion is inherited *)
Lemma sel_le cfg t : c_expr cfg t = false -> sel cfg t = false.
Proof. unfold sel. intros ->. reflexivity. Qed.
Lemma sel_expr cfg t : sel cfg t = true -> c_expr cfg t = true.
Proof. unfold sel. intros H. now apply andb_true_iff in H as [H _]. Qed.
Lemma excluded_inherited cfg own anc : excluded cfg anc = true -> excluded cfg (own ++ anc) = true.
Proof. unfold excluded. intros H. rewrite existsb_app, H. apply orb_true_r. Qed.
Lemma sel_excluded cfg own anc : excluded cfg anc = true -> sel cfg (own ++ anc) = false.
Proof. intros H. unfold sel. rewrite (excluded_inherited _ own _ H). apply andb_false_r. Qed.

(* does any scenario of the item run? *)
Definition sitem_any_sel (cfg : config) (anc : list nat) (it : sitem) : bool :=
  match it with
  | SScen s => sel cfg (sc_tags s ++ anc)
  | SOutline o => existsb (fun rw => sel cfg (rw_tags rw ++ anc)) (outline_rows o)
  end.

Lemma existsb_false_weaken {A} (p q : A -> bool) l :
  (forall x, q x = true -> p x = true) -> existsb p l = false -> existsb q l = false.
Proof.
  intros H. induction l as [|x r IH]; cbn; [reflexivity|]. intros E. apply orb_false_iff in E as [E1 E2].
  rewrite (IH E2), orb_false_r. destruct (q x) eqn:Q; [|reflexivity]. apply H in Q. congruence.
Qed.

Lemma sitem_any_sel_le cfg anc it : sitem_should_run cfg anc it = false -> sitem_any_sel cfg anc it = false.
Proof.
  destruct it as [s|o]; cbn [sitem_should_run sitem_any_sel]; intros H.
  - now apply sel_le.
  - apply orb_false_iff in H as [_ H]. revert H. apply existsb_false_weaken. intros x. apply sel_expr.
Qed.

Lemma sitem_any_sel_excluded cfg anc it : excluded cfg anc = true -> sitem_any_sel cfg anc it = false.
Proof.
  intros H. destruct it as [s|o]; cbn [sitem_any_sel].
  - now apply sel_excluded.
  - induction (outline_rows o) as [|rw r IH]; cbn; [reflexivity|]. now rewrite (sel_excluded _ _ _ H), IH.
Qed.

(* an item that runs nothing: no scenario of it is selected (tag expression and exclusions), a rule does not run *)
Definition fitem_runs (cfg : config) (anc : list nat) (it : fitem) : bool :=
  match it with
  | FItem i => sitem_any_sel cfg anc i
  | FRule r => rule_runs cfg anc r
  end.

Lemma fitem_runs_le cfg anc it : fitem_should_run cfg anc it = false -> fitem_runs cfg anc it = false.
Proof.
  destruct it as [i|r]; cbn [fitem_should_run fitem_runs]; intros H.
  - now apply sitem_any_sel_le.
  - unfold rule_runs. now rewrite H.
Qed.

