(* UStr.v - Python str operations on lists of code points.  Model only. *)
From BV Require Import Base.
From BVGen Require Import UnicodeTables.

Definition memN (c : N) (l : list N) : bool := existsb (N.eqb c) l.
Definition is_space (c : N) : bool := memN c space_cps.

Fixpoint prefixb (p s : ustr) : bool :=
  match p, s with
  | [], _ => true
  | a :: p', b :: s' => N.eqb a b && prefixb p' s'
  | _ :: _, [] => false
  end.
Definition startswith (s p : ustr) : bool := prefixb p s.

Fixpoint drop_while (f : N -> bool) (s : ustr) : ustr :=
  match s with [] => [] | c :: r => if f c then drop_while f r else s end.
Definition lstrip (s : ustr) : ustr := drop_while is_space s.
Definition rstrip (s : ustr) : ustr := rev (drop_while is_space (rev s)).
Definition strip (s : ustr) : ustr := rstrip (lstrip s).

(* str.split(): runs of whitespace separate, no empty words *)
Fixpoint split_ws_aux (s : ustr) (cur : ustr) : list ustr :=
  match s with
  | [] => match cur with [] => [] | _ => [rev cur] end
  | c :: r => if is_space c
              then match cur with [] => split_ws_aux r [] | _ => rev cur :: split_ws_aux r [] end
              else split_ws_aux r (c :: cur)
  end.
Definition split_ws (s : ustr) : list ustr := split_ws_aux s [].

(* str.split(sep) for a one-character separator *)
Fixpoint split_on_aux (sep : N) (s : ustr) (cur : ustr) : list ustr :=
  match s with
  | [] => [rev cur]
  | c :: r => if N.eqb c sep then rev cur :: split_on_aux sep r [] else split_on_aux sep r (c :: cur)
  end.
Definition split_on (sep : N) (s : ustr) : list ustr := split_on_aux sep s [].

Fixpoint join (sep : ustr) (l : list ustr) : ustr :=
  match l with
  | [] => []
  | [x] => x
  | x :: r => x ++ sep ++ join sep r
  end.

(* str.replace(old, new): leftmost, non-overlapping; old non-empty.  Fuel = length s. *)
Fixpoint replace_aux (fuel : nat) (old new s : ustr) : ustr :=
  match fuel with
  | 0 => s
  | S f =>
      match s with
      | [] => []
      | c :: r => if prefixb old s then new ++ replace_aux f old new (skipn (length old) s)
                  else c :: replace_aux f old new r
      end
  end.
Definition replace_all (old new s : ustr) : ustr := replace_aux (S (length s)) old new s.

(* str.replace(old, new, 1)?  behave uses plain replace; `text.replace("  ", " ")` is replace_all *)
Definition contains_char (c : N) (s : ustr) : bool := memN c s.

Fixpoint contains_sub_aux (fuel : nat) (sub s : ustr) : bool :=
  match fuel with
  | 0 => false
  | S f => prefixb sub s || match s with [] => false | _ :: r => contains_sub_aux f sub r end
  end.
Definition contains_sub (sub s : ustr) : bool := contains_sub_aux (S (length s)) sub s.

Definition all_digits (s : ustr) : bool :=
  match s with [] => false | _ => forallb (fun c => memN c ascii_digit_cps) s end.

(* decimal text of a number: str(n) *)
Fixpoint digits_of_uint (d : Decimal.uint) : ustr :=
  match d with
  | Decimal.Nil => []
  | Decimal.D0 r => 48%N :: digits_of_uint r | Decimal.D1 r => 49%N :: digits_of_uint r
  | Decimal.D2 r => 50%N :: digits_of_uint r | Decimal.D3 r => 51%N :: digits_of_uint r
  | Decimal.D4 r => 52%N :: digits_of_uint r | Decimal.D5 r => 53%N :: digits_of_uint r
  | Decimal.D6 r => 54%N :: digits_of_uint r | Decimal.D7 r => 55%N :: digits_of_uint r
  | Decimal.D8 r => 56%N :: digits_of_uint r | Decimal.D9 r => 57%N :: digits_of_uint r
  end.
Definition z_to_str (z : Z) : ustr :=
  match z with
  | Z0 => [48%N]
  | Zpos p => digits_of_uint (Pos.to_uint p)
  | Zneg p => 45%N :: digits_of_uint (Pos.to_uint p)
  end.

Definition nat_to_str (n : nat) : ustr := z_to_str (Z.of_nat n).
