(* Cuke.v — the cucumber-expression step matcher (behave/cucumber_expression.py,
   StepMatcher4CucumberExpressions.check_match) for expressions built from literal text, optional
   text, alternative words and the parameters int, word and the anonymous one: the expression
   is the regular expression the cucumber_expressions library compiles it to, anchored at both
   ends, run by the backtracking matcher of Regex.v; one argument per parameter.
   (The string and float parameters and custom parameter types are outside the model.)  Model only. *)
From BV Require Import Base UStr StepMatch Regex.

Inductive catom :=
| CLit (s : ustr)                  (* literal text, blanks included *)
| COptional (s : ustr)             (* optional text in parentheses: a non-capturing optional group *)
| CAlternative (ws : list ustr)    (* words separated by slashes: a non-capturing alternation *)
| CPInt                            (* the int parameter: one group, an optional minus and digits *)
| CPWord                           (* the word parameter: one group, one or more non-blank characters *)
| CPAnon.                          (* the anonymous parameter: one group, any characters, greedy *)

Fixpoint lit_rx (s : ustr) : rx :=
  match s with [] => REps | c :: r => RSeq (RChar c) (lit_rx r) end.

Fixpoint alts_rx (ws : list ustr) : rx :=
  match ws with
  | [] => REps
  | [w] => lit_rx w
  | w :: r => RAlt (lit_rx w) (alts_rx r)
  end.

Definition int_rx : rx :=
  RAlt (RSeq (ROpt true (RChar 45%N)) (RPlus true (RClass CDigit))) (RPlus true (RClass CDigit)).

Definition atom_rx (a : catom) : rx :=
  match a with
  | CLit s => lit_rx s
  | COptional s => ROpt true (RNGroup (lit_rx s))
  | CAlternative ws => RNGroup (alts_rx ws)
  | CPInt => RGroup None int_rx
  | CPWord => RGroup None (RPlus true (RClass CNonSpace))
  | CPAnon => RGroup None (RStar true (RClass CAny))
  end.

Fixpoint cuke_rx (p : list catom) : rx :=
  match p with [] => REps | a :: r => RSeq (atom_rx a) (cuke_rx r) end.

Definition is_param (a : catom) : bool :=
  match a with CPInt | CPWord | CPAnon => true | _ => false end.

(* check_match: None = no match; Some args = bound, one argument per parameter in text order *)
Definition cuke_check_match (p : list catom) (text : ustr) : option (list rarg) :=
  rx_check_match true (cuke_rx p) text.
