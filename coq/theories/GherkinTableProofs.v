(* GherkinTableProofs.v - C04 at the level of the state machine, step tables: the rows written
   under a step become that step's table - heading, rows in file order, every cell, every row
   with the number of its line - and the steps, scenarios and tags that follow are read as if
   the table had not been there. *)
From BV Require Import Base UStr GherkinTypes Gherkin GherkinProofs GherkinRowProofs GherkinBlockProofs GherkinTagProofs.

(* ------------------------------------------------------------------ strings *)
Lemma drop_while_idem f s : drop_while f (drop_while f s) = drop_while f s.
Proof.
  induction s as [|c r IH]; [reflexivity|]. cbn. destruct (f c) eqn:E; [exact IH|]. cbn. now rewrite E.
Qed.

Lemma drop_while_head f s c r : drop_while f s = c :: r -> f c = false.
Proof.
  induction s as [|x s IH]; cbn; [discriminate|]. destruct (f x) eqn:E; [exact IH|].
  intros H; inversion H; subst. exact E.
Qed.

Lemma drop_while_not f c r : f c = false -> drop_while f (c :: r) = c :: r.
Proof. intros H. cbn. now rewrite H. Qed.

Lemma drop_while_app_keep f a c b : f c = false -> exists p, drop_while f (a ++ c :: b) = p ++ c :: b.
Proof.
  intros H. induction a as [|x a IH]; cbn.
  - rewrite H. exists []. reflexivity.
  - destruct (f x); [exact IH|]. exists (x :: a). reflexivity.
Qed.

Lemma rstrip_keeps_head c r : is_space c = false -> exists r', rstrip (c :: r) = c :: r'.
Proof.
  intros H. unfold rstrip. cbn [rev].
  destruct (drop_while_app_keep is_space (rev r) c [] H) as [p E]. rewrite E.
  rewrite rev_app_distr. cbn. eexists. reflexivity.
Qed.

Lemma lstrip_strip s : lstrip (strip s) = strip s.
Proof.
  unfold strip. destruct (lstrip s) as [|c r] eqn:E; [reflexivity|].
  apply drop_while_head in E. destruct (rstrip_keeps_head c r E) as [r' ->].
  unfold lstrip. now apply drop_while_not.
Qed.

Lemma rstrip_idem s : rstrip (rstrip s) = rstrip s.
Proof. unfold rstrip. now rewrite rev_involutive, drop_while_idem. Qed.

Lemma strip_idem s : strip (strip s) = strip s.
Proof. unfold strip at 1. rewrite lstrip_strip. unfold strip. apply rstrip_idem. Qed.

Lemma drop_while_suffix f s : exists p, s = p ++ drop_while f s.
Proof.
  induction s as [|c r [p IH]]; [exists []; reflexivity|]. cbn. destruct (f c).
  - exists (c :: p). cbn. now f_equal.
  - exists []. reflexivity.
Qed.

Lemma rstrip_prefix s : exists t, s = rstrip s ++ t.
Proof.
  unfold rstrip. destruct (drop_while_suffix is_space (rev s)) as [p E].
  exists (rev p). rewrite <- rev_app_distr, <- E. now rewrite rev_involutive.
Qed.

Lemma prefixb_app p a b : prefixb p a = true -> prefixb p (a ++ b) = true.
Proof.
  revert a. induction p as [|x p IH]; intros a; [reflexivity|]. destruct a as [|y a]; cbn; [discriminate|].
  intros H. apply andb_true_iff in H as [H1 H2]. now rewrite H1, IH.
Qed.

Lemma doc_fact_strip line : doc_fact line = None -> doc_fact (strip line) = None.
Proof.
  unfold doc_fact. rewrite lstrip_strip.
  destruct (prefixb [34; 34; 34]%N (lstrip line) || prefixb [39; 39; 39]%N (lstrip line)) eqn:E; [discriminate|].
  intros _. apply orb_false_iff in E as [E1 E2].
  destruct (rstrip_prefix (lstrip line)) as [t Ht]. fold (strip line) in Ht.
  destruct (prefixb [34; 34; 34]%N (strip line)) eqn:P1.
  - apply (prefixb_app _ _ t) in P1. rewrite <- Ht in P1. congruence.
  - destruct (prefixb [39; 39; 39]%N (strip line)) eqn:P2; [|reflexivity].
    apply (prefixb_app _ _ t) in P2. rewrite <- Ht in P2. congruence.
Qed.

(* ------------------------------------------------------------------ closing a step table *)
Definition with_table (st : pstep) (t : ptable) : pstep :=
  mkPStep (ps_kw st) (ps_type st) (ps_name st) (ps_line st) (ps_text st) (Some t).

Definition closed_feature (f : pfeature) (s : pscen) (rest : list fitem) (st : pstep) (r : list pstep) (t : ptable) : pfeature :=
  with_items f (FScen (with_steps s (with_table st (table_rows_in_order t) :: r)) :: rest).

Lemma close_table_eq m f s rest st r t :
  at_feature_scenario m f s rest -> sc_steps s = st :: r -> m_table m = Some t -> m_in_examples m = false ->
  close_table m =
  upd_table (upd_tree m (Some (closed_feature f s rest st r t)) (m_cont m) (m_det_rule m) (m_stmt m) (m_det m)) None false.
Proof.
  intros W HS T E. pose proof (get_stmt_at _ _ _ _ W) as G. destruct W as [A [B [C D]]].
  unfold close_table. rewrite T, E. unfold set_last_step. rewrite G. cbn [view_steps]. rewrite HS. cbn [view_set_steps].
  unfold set_stmt. rewrite A. unfold set_item. rewrite B, C, D. unfold closed_feature, with_items, with_steps, with_table.
  rewrite ?A, ?B. reflexivity.
Qed.

Lemma table_closes m f s rest st r t line :
  m_st m = StTable -> at_feature_scenario m f s rest -> sc_steps s = st :: r -> m_table m = Some t -> m_in_examples m = false ->
  strip line <> [] -> first_is cp_hash (strip line) = false -> starts_pipe (strip line) = false ->
  feed (ROk m) line = feed (ROk (upd_st (close_table m) StSteps)) (strip line).
Proof.
  intros ST W HS T E NB NC P.
  assert (NB2 : strip (strip line) <> []) by (now rewrite strip_idem).
  assert (NC2 : first_is cp_hash (strip (strip line)) = false) by (now rewrite strip_idem).
  rewrite (feed_nonblank m line NB). rewrite (action_dispatch _ line NB NC). cbn [upd_line m_st]. rewrite ST.
  unfold a_table. rewrite match_pipe, P.
  rewrite (feed_nonblank _ (strip line) NB2). rewrite (action_dispatch _ (strip line) NB2 NC2). cbn [upd_line upd_st m_st].
  f_equal.
  assert (W1 : at_feature_scenario (upd_line m (S (m_line m))) f s rest)
    by (destruct W as [A [B [C D]]]; unfold at_feature_scenario; cbn; auto).
  rewrite (close_table_eq _ f s rest st r t W1 HS T E), (close_table_eq m f s rest st r t W HS T E).
  reflexivity.
Qed.

(* what the closed state looks like *)
Lemma closed_state m f s rest st r t :
  at_feature_scenario m f s rest -> sc_steps s = st :: r -> m_table m = Some t -> m_in_examples m = false ->
  let s' := with_steps s (with_table st (table_rows_in_order t) :: r) in
  let m' := upd_st (close_table m) StSteps in
  m_st m' = StSteps /\ at_feature_scenario m' (with_items f (FScen s' :: rest)) s' rest /\
  m_table m' = None /\ m_in_examples m' = false /\ m_line m' = m_line m /\ m_kw m' = m_kw m /\ m_tags m' = m_tags m /\
  m_lang m' = m_lang m /\ m_last m' = m_last m /\ m_lines m' = m_lines m.
Proof.
  intros W HS T E s' m'. unfold m'. rewrite (close_table_eq m f s rest st r t W HS T E).
  destruct W as [A [B [C D]]]. unfold at_feature_scenario, closed_feature. cbn. repeat split; auto.
Qed.

(* ------------------------------------------------------------------ reading the rows *)
Record row_line (kw : kwtable) (line : ustr) : Prop := {
  rl_nodoc : doc_fact line = None;
  rl_nonblank : strip line <> [];
  rl_nocomment : first_is cp_hash (strip line) = false;
  rl_pipe : starts_pipe (strip line) = true;
  rl_nostep : step_fact kw (strip line) = None;
  rl_notag : starts_at (strip line) = false;
  rl_norule : first_alias (k_rule kw) (strip line) = None;
  rl_noscenario : first_alias (k_scenario kw) (strip line) = None;
  rl_nooutline : first_alias (k_outline kw) (strip line) = None;
  rl_noexamples : first_alias (k_examples kw) (strip line) = None }.

Lemma sub_taggable_none m s :
  starts_at s = false -> first_alias (k_rule (m_kw m)) s = None -> first_alias (k_scenario (m_kw m)) s = None ->
  first_alias (k_outline (m_kw m)) s = None -> first_alias (k_examples (m_kw m)) s = None ->
  sub_taggable m s = ROk None.
Proof. intros A R S O E. unfold sub_taggable. rewrite match_at, A, R, S, O, E. reflexivity. Qed.

(* the heading row, directly after a step *)
Lemma feed_heading_row m f s rest st r line :
  m_st m = StSteps -> at_feature_scenario m f s rest -> sc_steps s = st :: r -> m_table m = None ->
  row_line (m_kw m) line ->
  let m' := upd_table (upd_st (upd_line m (S (m_line m))) StTable)
                      (Some (mkPTable (row_cells (strip line)) [] (S (m_line m)))) (m_in_examples m) in
  feed (ROk m) line = ROk m'.
Proof.
  intros ST W HS T [ND NB NC P NS NA NR NSc NO NE] m'.
  set (m1 := upd_line m (S (m_line m))).
  assert (W1 : at_feature_scenario m1 f s rest) by (destruct W as [A [B [C D]]]; unfold at_feature_scenario; cbn; auto).
  rewrite (feed_nonblank m line NB). fold m1. rewrite (action_dispatch m1 line NB NC). cbn [m1 upd_line m_st]. rewrite ST.
  unfold a_steps. rewrite ND. unfold parse_step. cbn [m1 upd_line m_kw]. rewrite NS. cbn [rbind].
  rewrite (sub_taggable_none m1 (strip line) NA NR NSc NO NE). cbn [rbind].
  rewrite match_pipe, P. unfold stmt_has_steps. rewrite (get_stmt_at _ _ _ _ W1). cbn [view_steps]. rewrite HS.
  unfold a_table_row. cbn [upd_st m_table m1 upd_line]. rewrite T. reflexivity.
Qed.

(* a further row *)
Lemma feed_body_row m t line :
  m_st m = StTable -> m_table m = Some t -> strip line <> [] -> first_is cp_hash (strip line) = false ->
  starts_pipe (strip line) = true -> length (row_cells (strip line)) = length (pt_head t) ->
  feed (ROk m) line =
  ROk (upd_table (upd_line m (S (m_line m)))
                 (Some (mkPTable (pt_head t) ((row_cells (strip line), S (m_line m)) :: pt_rows t) (pt_line t))) (m_in_examples m)).
Proof.
  intros ST T NB NC P LEN.
  rewrite (feed_nonblank m line NB). rewrite (action_dispatch _ line NB NC). cbn [upd_line m_st]. rewrite ST.
  unfold a_table. rewrite match_pipe, P. unfold a_table_row. cbn [upd_line m_table]. rewrite T, LEN, Nat.eqb_refl. reflexivity.
Qed.

(* ------------------------------------------------------------------ the settled view of a state *)
(* (f, s): the feature and its newest scenario as they will be once a pending step table is closed *)
Definition settled (m : mstate) (f : pfeature) (s : pscen) (rest : list fitem) : Prop :=
  m_in_examples m = false /\ m_lines m = [] /\
  ((m_table m = None /\ (m_st m = StSteps \/ m_st m = StScenario) /\ at_feature_scenario m f s rest) \/
   (exists f0 s0 st r t,
      m_st m = StTable /\ m_table m = Some t /\ at_feature_scenario m f0 s0 rest /\ sc_steps s0 = st :: r /\
      s = with_steps s0 (with_table st (table_rows_in_order t) :: r) /\ f = with_items f0 (FScen s :: rest))).

Lemma step_line_strip kw line t k text : step_line kw line t k text -> step_line kw (strip line) t k text.
Proof. intros [ND NB NC SF NS]. split; rewrite ?strip_idem; auto using doc_fact_strip. Qed.

Lemma scenario_line_strip kw line alias name : scenario_line kw line alias name -> scenario_line kw (strip line) alias name.
Proof. intros [ND NB NC NT NS NR SC]. split; rewrite ?strip_idem; auto using doc_fact_strip. Qed.

Lemma tag_line_strip kw line names : tag_line kw line names -> tag_line kw (strip line) names.
Proof. intros [ND NB NC AT NS TG]. split; rewrite ?strip_idem; auto using doc_fact_strip. Qed.

Lemma step_fact_not_pipe kw line t k text : step_line kw line t k text -> True.
Proof. trivial. Qed.

(* a step line, wherever the scenario stands *)
Lemma feed_step_line_settled m f s rest line t k text :
  settled m f s rest -> step_line (m_kw m) line t k text -> starts_pipe (strip line) = false ->
  let st := mkPStep (rstrip k) t text (S (m_line m)) None None in
  exists m', feed (ROk m) line = ROk m' /\
             settled m' (with_items f (FScen (with_steps s (st :: sc_steps s)) :: rest)) (with_steps s (st :: sc_steps s)) rest /\
             m_st m' = StSteps /\ m_table m' = None /\
             m_line m' = S (m_line m) /\ m_kw m' = m_kw m /\ m_tags m' = m_tags m /\ m_lang m' = m_lang m.
Proof.
  intros [IE [LN [[T [ST W]] | (f0 & s0 & st0 & r & t0 & ST & T & W & HS & ES & EF)]]] SL P st.
  - assert (X : exists m', feed (ROk m) line = ROk m' /\ m_st m' = StSteps /\
             at_feature_scenario m' (with_items f (FScen (with_steps s (st :: sc_steps s)) :: rest)) (with_steps s (st :: sc_steps s)) rest /\
             frame_eq m m' /\ m_line m' = S (m_line m) /\ m_last m' = Some t).
    { destruct ST as [ST|ST]; [apply feed_step_line|apply feed_first_step_line]; assumption. }
    destruct X as (m' & FD & ST' & W' & FR & L' & _).
    destruct FR as (_ & _ & _ & G & K & _ & _ & _ & _ & _ & TG & LNS & TB & IE').
    exists m'. split; [exact FD|]. split.
    + split; [congruence|]. split; [congruence|]. left. split; [congruence|]. split; [left; exact ST'|exact W'].
    + repeat split; congruence.
  - destruct SL as [ND NB NC SF NS0].
    rewrite (table_closes m f0 s0 rest st0 r t0 line ST W HS T IE NB NC P).
    destruct (closed_state m f0 s0 rest st0 r t0 W HS T IE) as (ST1 & W1 & T1 & IE1 & L1 & K1 & TG1 & G1 & _ & LN1).
    set (m1 := upd_st (close_table m) StSteps) in *.
    assert (SL1 : step_line (m_kw m1) (strip line) t k text).
    { rewrite K1. apply step_line_strip. split; assumption. }
    rewrite <- ES in W1. rewrite <- EF in W1.
    destruct (feed_step_line m1 f s rest (strip line) t k text ST1 W1 SL1) as (m' & FD & ST' & W' & FR & L' & _).
    destruct FR as (_ & _ & _ & G & K & _ & _ & _ & _ & _ & TG & LNS & TB & IE').
    exists m'. split; [exact FD|]. rewrite L1 in *. split.
    + split; [congruence|]. split; [congruence|]. left. split; [congruence|]. split; [left; exact ST'|exact W'].
    + repeat split; congruence.
Qed.

(* ------------------------------------------------------------------ a pending table and its rows *)
Definition pending (m : mstate) (f0 : pfeature) (s0 : pscen) (rest : list fitem) (st : pstep) (r : list pstep) (t : ptable) : Prop :=
  m_in_examples m = false /\ m_st m = StTable /\ m_table m = Some t /\ at_feature_scenario m f0 s0 rest /\ sc_steps s0 = st :: r /\
  m_lines m = [].

Lemma pending_settled m f0 s0 rest st r t :
  pending m f0 s0 rest st r t ->
  settled m (closed_feature f0 s0 rest st r t) (with_steps s0 (with_table st (table_rows_in_order t) :: r)) rest.
Proof.
  intros (IE & ST & T & W & HS & LN). split; [exact IE|]. split; [exact LN|]. right. exists f0, s0, st, r, t.
  split; [exact ST|]. split; [exact T|]. split; [exact W|]. split; [exact HS|]. split; reflexivity.
Qed.

Lemma feed_heading m f s rest st r line :
  m_st m = StSteps -> m_table m = None -> m_in_examples m = false -> m_lines m = [] -> at_feature_scenario m f s rest -> sc_steps s = st :: r ->
  row_line (m_kw m) line ->
  exists m', feed (ROk m) line = ROk m' /\
             pending m' f s rest st r (mkPTable (row_cells (strip line)) [] (S (m_line m))) /\
             m_line m' = S (m_line m) /\ m_kw m' = m_kw m /\ m_tags m' = m_tags m /\ m_lang m' = m_lang m.
Proof.
  intros ST T IE LN W HS RL. eexists. split; [apply (feed_heading_row m f s rest st r line ST W HS T RL)|].
  destruct W as [A [B [C D]]]. unfold pending, at_feature_scenario. cbn. repeat split; auto.
Qed.

Lemma feed_body m f s rest st r t line :
  pending m f s rest st r t -> row_line (m_kw m) line -> length (row_cells (strip line)) = length (pt_head t) ->
  exists m', feed (ROk m) line = ROk m' /\
             pending m' f s rest st r (mkPTable (pt_head t) ((row_cells (strip line), S (m_line m)) :: pt_rows t) (pt_line t)) /\
             m_line m' = S (m_line m) /\ m_kw m' = m_kw m /\ m_tags m' = m_tags m /\ m_lang m' = m_lang m.
Proof.
  intros (IE & ST & T & W & HS & LN) [ND NB NC P _ _ _ _ _ _] LEN.
  eexists. split; [apply (feed_body_row m t line ST T NB NC P LEN)|].
  destruct W as [A [B [C D]]]. unfold pending, at_feature_scenario. cbn. rewrite IE. repeat split; auto.
Qed.

(* the rows as the parser should deliver them, the first one standing on line ln + 1 *)
Fixpoint rows_from (rows : list ustr) (ln : nat) : list (list ustr * nat) :=
  match rows with
  | [] => []
  | l :: r => (row_cells (strip l), S ln) :: rows_from r (S ln)
  end.

Lemma feed_body_rows rows : forall m f s rest st r t,
  pending m f s rest st r t ->
  Forall (fun l => row_line (m_kw m) l /\ length (row_cells (strip l)) = length (pt_head t)) rows ->
  exists m', fold_left feed rows (ROk m) = ROk m' /\
             pending m' f s rest st r (mkPTable (pt_head t) (rev (rows_from rows (m_line m)) ++ pt_rows t) (pt_line t)) /\
             m_line m' = m_line m + length rows /\ m_kw m' = m_kw m /\ m_tags m' = m_tags m /\ m_lang m' = m_lang m.
Proof.
  induction rows as [|l rows IH]; intros m f s rest st r t PD OK.
  - exists m. cbn [fold_left rows_from rev app length]. rewrite Nat.add_0_r. destruct t as [th tr tl]. cbn [pt_head pt_rows pt_line].
    split; [reflexivity|]. split; [exact PD|]. repeat split.
  - inversion OK as [|? ? [RL LEN] OK']. subst.
    destruct (feed_body m f s rest st r t l PD RL LEN) as (m1 & FD1 & PD1 & L1 & K1 & T1 & G1).
    assert (OK1 : Forall (fun l0 => row_line (m_kw m1) l0 /\
               length (row_cells (strip l0)) = length (pt_head (mkPTable (pt_head t) ((row_cells (strip l), S (m_line m)) :: pt_rows t) (pt_line t)))) rows)
      by (rewrite K1; exact OK').
    destruct (IH m1 f s rest st r _ PD1 OK1) as (m' & FD' & PD' & L' & K' & T' & G').
    exists m'. cbn [fold_left]. rewrite FD1. split; [exact FD'|]. cbn [pt_head pt_rows pt_line] in PD'. split.
    + cbn [rows_from rev]. rewrite L1 in PD'. rewrite <- app_assoc. exact PD'.
    + cbn [length]. repeat split; try congruence. lia.
Qed.

(* ------------------------------------------------------------------ steps with tables *)
(* a step: its line, type, keyword, text - and the lines of its table (none, or heading and rows) *)
Definition rstep : Type := (ustr * stept * ustr * ustr * list ustr)%type.

Definition rstep_lines (x : rstep) : list ustr := let '(line, _, _, _, rows) := x in line :: rows.

Definition rstep_ok (kw : kwtable) (x : rstep) : Prop :=
  let '(line, t, k, text, rows) := x in
  step_line kw line t k text /\ starts_pipe (strip line) = false /\
  Forall (fun l => row_line kw l /\
                   length (row_cells (strip l)) = length (row_cells (strip (hd [] rows)))) rows.

Definition table_of (rows : list ustr) (ln : nat) : option ptable :=
  match rows with
  | [] => None
  | h :: body => Some (mkPTable (row_cells (strip h)) (rows_from body (S ln)) (S ln))
  end.

Fixpoint rsteps_of (xs : list rstep) (ln : nat) : list pstep :=
  match xs with
  | [] => []
  | (_, t, k, text, rows) :: r =>
      mkPStep (rstrip k) t text (S ln) None (table_of rows (S ln)) :: rsteps_of r (S ln + length rows)
  end.

Lemma feed_rstep m f s rest x :
  settled m f s rest -> rstep_ok (m_kw m) x ->
  let '(line, t, k, text, rows) := x in
  let st := mkPStep (rstrip k) t text (S (m_line m)) None (table_of rows (S (m_line m))) in
  exists m', fold_left feed (rstep_lines x) (ROk m) = ROk m' /\
             settled m' (with_items f (FScen (with_steps s (st :: sc_steps s)) :: rest)) (with_steps s (st :: sc_steps s)) rest /\
             m_line m' = S (m_line m) + length rows /\ m_kw m' = m_kw m /\ m_tags m' = m_tags m /\ m_lang m' = m_lang m.
Proof.
  destruct x as [[[[line t] k] text] rows]. intros SE (SL & NP & RS).
  destruct (feed_step_line_settled m f s rest line t k text SE SL NP) as (m1 & FD1 & SE1 & ST1 & T1 & L1 & K1 & TG1 & G1).
  cbn [rstep_lines fold_left]. rewrite FD1.
  destruct rows as [|h body].
  - exists m1. cbn [fold_left table_of length]. rewrite Nat.add_0_r. split; [reflexivity|]. split; [exact SE1|]. repeat split; assumption.
  - inversion RS as [|? ? [RLh _] RB]. subst. cbn [hd] in RB.
    destruct SE1 as [IE1 [LN1 [[_ [_ W1]] | (f0 & s0 & st0 & r0 & t0 & STx & _)]]]; [|congruence].
    set (st1 := mkPStep (rstrip k) t text (S (m_line m)) None None) in *.
    assert (RLh1 : row_line (m_kw m1) h) by (now rewrite K1).
    destruct (feed_heading m1 _ _ rest st1 (sc_steps s) h ST1 T1 IE1 LN1 W1 eq_refl RLh1) as (m2 & FD2 & PD2 & L2 & K2 & TG2 & G2).
    assert (RB2 : Forall (fun l => row_line (m_kw m2) l /\
                length (row_cells (strip l)) = length (pt_head (mkPTable (row_cells (strip h)) [] (S (m_line m1))))) body)
      by (rewrite K2, K1; exact RB).
    destruct (feed_body_rows body m2 _ _ rest st1 (sc_steps s) _ PD2 RB2) as (m3 & FD3 & PD3 & L3 & K3 & TG3 & G3).
    exists m3. cbn [fold_left]. rewrite FD2. split; [exact FD3|]. split.
    + apply pending_settled in PD3. rewrite app_nil_r in PD3.
      unfold closed_feature, with_table, with_items, with_steps, table_rows_in_order in *.
      cbn in PD3 |- *. rewrite !rev_involutive in PD3. rewrite L2, L1 in PD3. exact PD3.
    + cbn [length]. repeat split; try congruence. lia.
Qed.

Lemma settled_items m f s rest : settled m f s rest -> f_items f = FScen s :: rest.
Proof.
  intros [_ [_ [[_ [_ W]] | (f0 & s0 & st & r & t & _ & _ & _ & _ & _ & ->)]]]; [apply W|reflexivity].
Qed.

Lemma with_same f s rest : f_items f = FScen s :: rest -> with_items f (FScen (with_steps s (sc_steps s)) :: rest) = f.
Proof. intros D. destruct f, s; cbn in *. now rewrite D. Qed.

Lemma rsteps_are_read xs : forall m f s rest,
  settled m f s rest -> Forall (rstep_ok (m_kw m)) xs ->
  exists m' f' s',
    fold_left feed (flat_map rstep_lines xs) (ROk m) = ROk m' /\ settled m' f' s' rest /\
    m_line m' = m_line m + length (flat_map rstep_lines xs) /\ m_kw m' = m_kw m /\ m_tags m' = m_tags m /\ m_lang m' = m_lang m /\
    s' = with_steps s (rev (rsteps_of xs (m_line m)) ++ sc_steps s) /\ f' = with_items f (FScen s' :: rest).
Proof.
  induction xs as [|x xs IH]; intros m f s rest SE OK.
  - exists m, f, s. cbn [flat_map fold_left rsteps_of rev app length]. rewrite Nat.add_0_r.
    split; [reflexivity|]. split; [exact SE|]. split; [reflexivity|]. split; [reflexivity|]. split; [reflexivity|].
    split; [reflexivity|]. split.
    + destruct s; reflexivity.
    + pose proof (settled_items _ _ _ _ SE) as D. destruct f; cbn in *. now rewrite D.
  - inversion OK as [|? ? H1 OK']. subst.
    pose proof (feed_rstep m f s rest x SE H1) as FR. destruct x as [[[[line t] k] text] rows].
    destruct FR as (m1 & FD1 & SE1 & L1 & K1 & TG1 & G1).
    assert (OK1 : Forall (rstep_ok (m_kw m1)) xs) by (now rewrite K1).
    destruct (IH m1 _ _ rest SE1 OK1) as (m' & f' & s' & FD' & SE' & L' & K' & TG' & G' & ES & EF).
    exists m', f', s'. cbn [flat_map]. rewrite fold_left_app, FD1. split; [exact FD'|]. split; [exact SE'|].
    split; [rewrite L', L1, app_length; cbn [rstep_lines length]; lia|].
    split; [congruence|]. split; [congruence|]. split; [congruence|]. split.
    + rewrite ES. cbn [rsteps_of rev]. rewrite L1. unfold with_steps. cbn. now rewrite <- app_assoc.
    + rewrite EF. unfold with_items. cbn. reflexivity.
Qed.

(* ------------------------------------------------------------------ tag lines and scenario lines after a table *)
Definition body (m : mstate) (f : pfeature) : Prop :=
  m_in_examples m = false /\ m_lines m = [] /\
  ((m_table m = None /\ in_feature_body m /\ m_cont m = CFeat /\ m_feat m = Some f) \/
   (exists f0 s0 rest st r t, pending m f0 s0 rest st r t /\ f = closed_feature f0 s0 rest st r t)).

Lemma settled_body m f s rest : settled m f s rest -> body m f.
Proof.
  intros [IE [LN [[T [ST W]] | (f0 & s0 & st & r & t & ST & T & W & HS & ES & EF)]]]; split; try exact IE; split; try exact LN.
  - left. destruct W as [A [B [C D]]]. repeat split; auto.
    destruct ST as [ST|ST]; [right; left; exact ST|right; right; left; exact ST].
  - right. exists f0, s0, rest, st, r, t.
    split; [split; [exact IE|]; split; [exact ST|]; split; [exact T|]; split; [exact W|]; split; [exact HS|exact LN]|]. rewrite EF, ES. reflexivity.
Qed.

Lemma starts_at_not_pipe s : starts_at s = true -> starts_pipe s = false.
Proof.
  destruct s as [|c r]; [reflexivity|]. unfold starts_at, starts_pipe.
  destruct (N.eq_dec c 64) as [->|N1]; [reflexivity|].
  intros H. exfalso. destruct c as [|p]; [discriminate|].
  repeat (destruct p as [p|p|]; try discriminate). congruence.
Qed.

Lemma feed_tag_line_body m f line names :
  body m f -> tag_line (m_kw m) line names ->
  exists m', feed (ROk m) line = ROk m' /\ body m' f /\ m_table m' = None /\ m_st m' = StTaggable /\
             m_line m' = S (m_line m) /\ m_kw m' = m_kw m /\
             m_tags m' = m_tags m ++ map (fun n => (n, S (m_line m))) names.
Proof.
  intros [IE [LN [[T [ST [C F]]] | (f0 & s0 & rest & st & r & t & PD & EF)]]] TL.
  - destruct (feed_tag_line m f line names C F ST TL) as (m' & FD & ST' & C' & F' & L' & K' & TG' & TB' & IE' & LN').
    exists m'. split; [exact FD|]. split.
    + split; [congruence|]. split; [congruence|]. left. repeat split; try congruence. right; right; right; exact ST'.
    + repeat split; congruence.
  - destruct PD as (_ & ST & T & W & HS & _). pose proof TL as [ND NB NC AT NS TG].
    rewrite (table_closes m f0 s0 rest st r t line ST W HS T IE NB NC (starts_at_not_pipe _ AT)).
    destruct (closed_state m f0 s0 rest st r t W HS T IE) as (ST1 & W1 & T1 & IE1 & L1 & K1 & TG1 & G1 & _ & LN1).
    set (m1 := upd_st (close_table m) StSteps) in *.
    assert (TL1 : tag_line (m_kw m1) (strip line) names) by (rewrite K1; now apply tag_line_strip).
    destruct W1 as [A1 [B1 [C1 D1]]].
    assert (ST1' : in_feature_body m1) by (right; left; exact ST1).
    destruct (feed_tag_line m1 _ (strip line) names B1 C1 ST1' TL1) as (m' & FD & ST' & C' & F' & L' & K' & TG' & TB' & IE' & LN').
    rewrite L1, TG1 in TG'. rewrite L1 in L'.
    exists m'. split; [exact FD|]. split.
    + split; [congruence|]. split; [congruence|]. left. repeat split; try congruence.
      * right; right; right; exact ST'.
      * rewrite F', EF. reflexivity.
    + repeat split; congruence.
Qed.

Lemma tag_lines_body tls : forall m f,
  body m f -> Forall (fun x => tag_line (m_kw m) (fst x) (snd x)) tls ->
  exists m', fold_left feed (map fst tls) (ROk m) = ROk m' /\ body m' f /\
             m_line m' = m_line m + length tls /\ m_kw m' = m_kw m /\ m_tags m' = m_tags m ++ tags_of tls (m_line m).
Proof.
  induction tls as [|[line names] r IH]; intros m f B OK.
  - exists m. cbn [map fold_left length tags_of]. rewrite app_nil_r, Nat.add_0_r. split; [reflexivity|]. split; [exact B|]. repeat split.
  - inversion OK as [|? ? H1 OK']. subst. cbn [fst snd] in H1.
    destruct (feed_tag_line_body m f line names B H1) as (m1 & FD1 & B1 & _ & _ & L1 & K1 & T1).
    assert (OK1 : Forall (fun x => tag_line (m_kw m1) (fst x) (snd x)) r) by (now rewrite K1).
    destruct (IH m1 f B1 OK1) as (m' & FD' & B' & L' & K' & T').
    exists m'. cbn [map fst fold_left]. rewrite FD1. split; [exact FD'|]. split; [exact B'|]. repeat split.
    + rewrite L', L1. cbn [length]. lia.
    + congruence.
    + rewrite T', T1, L1. cbn [tags_of]. now rewrite <- app_assoc.
Qed.

Lemma scenario_line_not_pipe kw line alias name : scenario_line kw line alias name -> True.
Proof. trivial. Qed.

Lemma feed_scenario_line_body m f line alias name :
  body m f -> scenario_line (m_kw m) line alias name -> starts_pipe (strip line) = false ->
  exists m', feed (ROk m) line = ROk m' /\
             settled m' (with_items f (FScen (new_scenario m alias name) :: f_items f)) (new_scenario m alias name) (f_items f) /\
             m_line m' = S (m_line m) /\ m_kw m' = m_kw m /\ m_tags m' = [].
Proof.
  intros [IE [LN [[T [ST [C F]]] | (f0 & s0 & rest & st & r & t & PD & EF)]]] SL P.
  - destruct (feed_scenario_line_anywhere m f line alias name C F ST SL) as (m' & FD & ST' & W' & L' & K' & TG' & G' & TB' & IE' & LN').
    exists m'. split; [exact FD|]. split.
    + split; [congruence|]. split; [congruence|]. left. split; [congruence|]. split; [right; exact ST'|exact W'].
    + repeat split; congruence.
  - destruct PD as (_ & ST & T & W & HS & _). pose proof SL as [ND NB NC NT NS NR SC].
    rewrite (table_closes m f0 s0 rest st r t line ST W HS T IE NB NC P).
    destruct (closed_state m f0 s0 rest st r t W HS T IE) as (ST1 & W1 & T1 & IE1 & L1 & K1 & TG1 & G1 & _ & LN1).
    set (m1 := upd_st (close_table m) StSteps) in *.
    assert (SL1 : scenario_line (m_kw m1) (strip line) alias name) by (rewrite K1; now apply scenario_line_strip).
    destruct W1 as [A1 [B1 [C1 D1]]].
    assert (ST1' : in_feature_body m1) by (right; left; exact ST1).
    destruct (feed_scenario_line_anywhere m1 _ (strip line) alias name B1 C1 ST1' SL1) as (m' & FD & ST' & W' & L' & K' & TG' & G' & TB' & IE' & LN').
    exists m'. split; [exact FD|]. split.
    + split; [congruence|]. split; [congruence|]. left. split; [congruence|]. split; [right; exact ST'|].
      unfold new_scenario in *. rewrite L1, TG1 in W'. rewrite EF. exact W'.
    + repeat split; congruence.
Qed.

(* ------------------------------------------------------------------ scenarios with tags and step tables *)
Definition rscen : Type := (list (ustr * list ustr) * (ustr * ustr * ustr) * list rstep)%type.

Definition rscen_lines (x : rscen) : list ustr :=
  let '(tls, (line, _, _), steps) := x in map fst tls ++ line :: flat_map rstep_lines steps.

Definition rscen_ok (kw : kwtable) (x : rscen) : Prop :=
  let '(tls, (line, alias, name), steps) := x in
  Forall (fun y => tag_line kw (fst y) (snd y)) tls /\ scenario_line kw line alias name /\
  starts_pipe (strip line) = false /\ Forall (rstep_ok kw) steps.

Fixpoint expected_rich (scens : list rscen) (ln : nat) : list fitem :=
  match scens with
  | [] => []
  | (tls, (_, alias, name), steps) :: r =>
      let l1 := ln + length tls in
      FScen (mkPScen false alias name (S l1) (tags_of tls ln) [] (rsteps_of steps (S l1)) []) ::
      expected_rich r (S l1 + length (flat_map rstep_lines steps))
  end.

Lemma rich_scenarios_are_read scens : forall m f,
  body m f -> m_tags m = [] -> Forall (rscen_ok (m_kw m)) scens ->
  exists m' f',
    fold_left feed (flat_map rscen_lines scens) (ROk m) = ROk m' /\ body m' f' /\ m_tags m' = [] /\ m_kw m' = m_kw m /\
    rev (map fin_item (f_items f')) = rev (map fin_item (f_items f)) ++ expected_rich scens (m_line m) /\
    with_items f' [] = with_items f [].
Proof.
  induction scens as [|[[tls [[line alias] name]] steps] scens IH]; intros m f B T OK.
  - exists m, f. cbn [flat_map fold_left expected_rich]. rewrite app_nil_r.
    split; [reflexivity|]. split; [exact B|]. repeat split; auto.
  - inversion OK as [|? ? H1 OK']. subst. destruct H1 as (TL & SL & NP & STP).
    destruct (tag_lines_body tls m f B TL) as (m0 & FD0 & B0 & L0 & K0 & T0).
    assert (SL0 : scenario_line (m_kw m0) line alias name) by (now rewrite K0).
    destruct (feed_scenario_line_body m0 f line alias name B0 SL0 NP) as (m1 & FD1 & SE1 & L1 & K1 & T1).
    assert (STP1 : Forall (rstep_ok (m_kw m1)) steps) by (now rewrite K1, K0).
    destruct (rsteps_are_read steps m1 _ _ (f_items f) SE1 STP1) as (m2 & f2 & s2 & FD2 & SE2 & L2 & K2 & T2 & _ & ES & EF).
    assert (OK2 : Forall (rscen_ok (m_kw m2)) scens) by (rewrite K2, K1, K0; exact OK').
    assert (T2' : m_tags m2 = []) by congruence.
    destruct (IH m2 f2 (settled_body _ _ _ _ SE2) T2' OK2) as (m' & f' & FD' & B' & T' & K' & IT' & HD').
    exists m', f'. cbn [flat_map rscen_lines]. rewrite !fold_left_app. rewrite FD0. cbn [fold_left]. rewrite FD1, FD2.
    split; [exact FD'|]. split; [exact B'|]. split; [exact T'|]. split; [congruence|]. split.
    + rewrite IT'. rewrite EF. cbn [with_items f_items map rev fin_item]. rewrite ES.
      assert (FS : fin_scen (with_steps (new_scenario m0 alias name) (rev (rsteps_of steps (m_line m1)) ++ sc_steps (new_scenario m0 alias name))) =
                   mkPScen false alias name (S (m_line m + length tls)) (tags_of tls (m_line m)) [] (rsteps_of steps (S (m_line m + length tls))) []).
      { unfold new_scenario. rewrite T0, T. cbn [sc_steps app]. rewrite L1, L0. apply fin_scen_with_steps_tags. }
      rewrite FS. rewrite <- app_assoc. cbn [app expected_rich]. rewrite L2, L1, L0. reflexivity.
    + rewrite HD', EF. unfold with_items. cbn. reflexivity.
Qed.

(* C04 for features whose scenarios carry tags and whose steps carry tables: the model delivered
   after the end of the text (finish_table closes a table the text ends in) is exactly what was
   written - tags and their lines, steps, table headings, rows in order, cells, row lines *)
Theorem a_feature_with_tags_and_step_tables_is_read_back_exactly kw code fline falias fname scens :
  feature_line kw fline falias fname -> Forall (rscen_ok kw) scens ->
  exists m',
    finish_table (fold_left feed (fline :: flat_map rscen_lines scens) (ROk (init_state code kw VFeature StInitial))) = ROk m' /\
    m_table m' = None /\
    option_map fin_feature (m_feat m') = Some (mkPFeat falias fname 1 [] [] None (expected_rich scens 1) code).
Proof.
  intros [NB NC NT FA] OK. set (m0 := init_state code kw VFeature StInitial).
  assert (F0 : feed (ROk m0) fline = ROk (upd_st (build_feature (upd_line m0 1) falias fname) StFeature)).
  { rewrite (feed_nonblank m0 fline NB). rewrite (action_dispatch _ fline NB NC). cbn [upd_line m_st m0 init_state].
    unfold a_initial. rewrite match_at, NT. cbn [upd_line m_kw m0 init_state]. now rewrite FA. }
  set (m1 := upd_st (build_feature (upd_line m0 1) falias fname) StFeature) in *.
  set (f1 := mkPFeat falias fname 1 [] [] None [] code).
  assert (B1 : body m1 f1).
  { split; [reflexivity|]. split; [reflexivity|]. left. split; [reflexivity|]. split; [left; reflexivity|]. split; reflexivity. }
  destruct (rich_scenarios_are_read scens m1 f1 B1 eq_refl OK) as (m' & f' & FD & B' & T' & K' & IT & HD).
  cbn [fold_left]. rewrite F0, FD. unfold finish_table. cbn [rbind].
  assert (FIN : fin_feature f' = mkPFeat falias fname 1 [] [] None (expected_rich scens 1) code).
  { unfold fin_feature. rewrite IT. cbn [f_items map rev app m_line m1 upd_st build_feature upd_tags upd_tree upd_line m0 init_state f1].
    unfold with_items in HD. cbn in HD. inversion HD as [[H1 H2 H3 H4 H5 H6 H7]]. rewrite H1, H2, H3, H4, H5, H6, H7. reflexivity. }
  destruct B' as [IE [_ [[TB [ST [C F]]] | (f0 & s0 & rest & st & r & t & PD & EF)]]].
  - rewrite TB. eexists. split; [reflexivity|]. split; [exact TB|]. rewrite F. cbn [option_map]. now rewrite FIN.
  - destruct PD as (_ & ST & TB & W & HS & _). rewrite TB.
    destruct (closed_state m' f0 s0 rest st r t W HS TB IE) as (_ & W1 & T1 & _).
    eexists. split; [reflexivity|]. split; [exact T1|].
    destruct W1 as [_ [_ [C1 _]]]. rewrite C1. cbn [option_map]. fold (closed_feature f0 s0 rest st r t). rewrite <- EF. now rewrite FIN.
Qed.

(* non-vacuity: an English step with a two-row table satisfies the hypotheses *)
Example an_english_step_with_a_table :
  rstep_ok english ([32; 32; 32; 32; 71; 105; 118; 101; 110; 32; 97; 32; 116; 97; 98; 108; 101]%N, SGiven, [71; 105; 118; 101; 110; 32]%N, [97; 32; 116; 97; 98; 108; 101]%N, [[32; 32; 32; 32; 32; 32; 124; 32; 97; 32; 124; 32; 98; 32; 124]%N; [32; 32; 32; 32; 32; 32; 124; 32; 49; 32; 124; 32; 50; 32; 124; 32; 32]%N]).
Proof.
  split; [|split; [vm_compute; reflexivity|]].
  - split; try (vm_compute; congruence); try (vm_compute; reflexivity). exists RGiven. split; vm_compute; reflexivity.
  - repeat constructor; try (vm_compute; congruence); try (vm_compute; reflexivity).
Qed.
