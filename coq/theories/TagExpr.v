(* TagExpr.v - tag expressions: the v2 dialect (cucumber_tag_expressions tokenizer and
   shunting-yard parser as subclassed by behave.tag_expression.parser, builder normalisation,
   printers of behave.tag_expression.model), fnmatch-style wildcard operands, the v1 dialect
   (behave.tag_expression.v1) and the auto-detection (behave.tag_expression.builder).  Model only. *)
From BV Require Import Base UStr.
From BVGen Require Import UnicodeTables.

Inductive texp :=
| XTrue | XLit (name : ustr) | XMat (pat : ustr) | XNot (e : texp) | XAnd (a b : texp) | XOr (a b : texp).

(* code points *)
Definition cLP : N := 40. Definition cRP : N := 41. Definition cBS : N := 92. Definition cSP : N := 32.
Definition cAT : N := 64. Definition cSTAR : N := 42. Definition cQM : N := 63. Definition cLB : N := 91.
Definition cRB : N := 93. Definition cBANG : N := 33. Definition cDASH : N := 45. Definition cTILDE : N := 126.
Definition cCOMMA : N := 44. Definition cCOLON : N := 58.

(* ---- fnmatch.fnmatchcase for * ? [seq] [!seq] with ranges *)
(* parse a bracket expression starting after '[': returns (negated, items, rest) or None when unclosed *)
Inductive citem := CChar (c : N) | CRange (a b : N).
Fixpoint class_items (fuel : nat) (s : ustr) (first : bool) (acc : list citem) : option (list citem * ustr) :=
  match fuel with
  | 0 => None
  | S f =>
      match s with
      | [] => None
      | c :: r =>
          if N.eqb c cRB && negb first then Some (rev acc, r)
          else match r with
               | d :: e :: r' =>
                   if N.eqb d cDASH && negb (N.eqb e cRB)
                   then class_items f r' false (CRange c e :: acc)
                   else class_items f r false (CChar c :: acc)
               | _ => class_items f r false (CChar c :: acc)
               end
      end
  end.

Definition class_match (items : list citem) (c : N) : bool :=
  existsb (fun i => match i with CChar x => N.eqb x c | CRange a b => N.leb a c && N.leb c b end) items.

Fixpoint glob_aux (fuel : nat) (pat s : ustr) : bool :=
  match fuel with
  | 0 => false
  | S f =>
      match pat with
      | [] => match s with [] => true | _ => false end
      | p :: pr =>
          if N.eqb p cSTAR then
            glob_aux f pr s || match s with [] => false | _ :: sr => glob_aux f pat sr end
          else if N.eqb p cQM then match s with [] => false | _ :: sr => glob_aux f pr sr end
          else if N.eqb p cLB then
            let '(neg, body) := match pr with b :: r => if N.eqb b cBANG then (true, r) else (false, pr) | [] => (false, pr) end in
            match class_items (S (length body)) body true [] with
            | Some (items, rest) =>
                match s with
                | [] => false
                | c :: sr => if Bool.eqb (class_match items c) (negb neg) then glob_aux f rest sr else false
                end
            | None => match s with c :: sr => N.eqb c cLB && glob_aux f pr sr | [] => false end
            end
          else match s with c :: sr => N.eqb c p && glob_aux f pr sr | [] => false end
      end
  end.
Definition glob_match (pat s : ustr) : bool := glob_aux (S (length pat + length s) * 2) pat s.

Definition has_magic (s : ustr) : bool := memN cSTAR s || memN cQM s || memN cLB s.

(* ---- meaning *)
Definition mem_tag (t : ustr) (tags : list ustr) : bool := existsb (ustr_eqb t) tags.

Fixpoint xeval (e : texp) (tags : list ustr) : bool :=
  match e with
  | XTrue => true
  | XLit n => mem_tag n tags
  | XMat p => existsb (glob_match p) tags
  | XNot a => negb (xeval a tags)
  | XAnd a b => xeval a tags && xeval b tags
  | XOr a b => xeval a tags || xeval b tags
  end.

(* ---- tokenizer.  None = TagExpressionError (illegal escape) *)
Fixpoint tokenize_aux (s : ustr) (escaped : bool) (tok : ustr) (acc : list ustr) : option (list ustr) :=
  match s with
  | [] => Some (rev (match tok with [] => acc | _ => rev tok :: acc end))
  | c :: r =>
      if escaped then
        if N.eqb c cLP || N.eqb c cRP || N.eqb c cBS || is_space c
        then tokenize_aux r false (c :: tok) acc
        else None
      else if N.eqb c cBS then tokenize_aux r true tok acc
      else if N.eqb c cLP || N.eqb c cRP || is_space c then
        let acc1 := match tok with [] => acc | _ => rev tok :: acc end in
        let acc2 := if N.eqb c cSP then acc1 else [c] :: acc1 in
        tokenize_aux r false [] acc2
      else tokenize_aux r false (c :: tok) acc
  end.
Definition tokenize (s : ustr) : option (list ustr) := tokenize_aux s false [] [].

(* ---- shunting yard *)
Inductive optok := OOr | OAnd | ONot | OLParen.
Definition kw_or : ustr := [111; 114]%N.
Definition kw_and : ustr := [97; 110; 100]%N.
Definition kw_not : ustr := [110; 111; 116]%N.

Definition prec (o : optok) : Z := match o with OOr => 0 | OAnd => 1 | ONot => 2 | OLParen => (-2) end.
Definition is_operation (o : optok) : bool := match o with OLParen => false | _ => true end.
(* token.has_lower_precedence_than(other), token binary (left associative) *)
Definition lower_prec (tok other : optok) : bool := Z.leb (prec tok) (prec other).

Inductive perr := ErrSyntax | ErrOperands | ErrMissingOpen | ErrUnclosed | ErrEscape | ErrAssert.
Inductive pres (A : Type) := POk (a : A) | PErr (e : perr).
Arguments POk {A}. Arguments PErr {A}.

Definition push_expr (o : optok) (exprs : list texp) : pres (list texp) :=
  match o with
  | OOr => match exprs with b :: a :: r => POk (XOr a b :: r) | _ => PErr ErrOperands end
  | OAnd => match exprs with b :: a :: r => POk (XAnd a b :: r) | _ => PErr ErrOperands end
  | ONot => match exprs with a :: r => POk (XNot a :: r) | _ => PErr ErrOperands end
  | OLParen => PErr ErrSyntax
  end.

(* pop operators while they are operations of at least the token's precedence *)
Fixpoint pop_while (tok : optok) (ops : list optok) (exprs : list texp) : pres (list optok * list texp) :=
  match ops with
  | o :: r => if is_operation o && lower_prec tok o
              then match push_expr o exprs with POk ex => pop_while tok r ex | PErr e => PErr e end
              else POk (ops, exprs)
  | [] => POk (ops, exprs)
  end.

Fixpoint pop_to_paren (ops : list optok) (exprs : list texp) : pres (list optok * list texp) :=
  match ops with
  | OLParen :: r => POk (r, exprs)
  | o :: r => match push_expr o exprs with POk ex => pop_to_paren r ex | PErr e => PErr e end
  | [] => PErr ErrMissingOpen
  end.

Fixpoint pop_all (ops : list optok) (exprs : list texp) : pres (list texp) :=
  match ops with
  | [] => POk exprs
  | OLParen :: _ => PErr ErrUnclosed
  | o :: r => match push_expr o exprs with POk ex => pop_all r ex | PErr e => PErr e end
  end.

Definition make_operand (t : ustr) : texp := if has_magic t then XMat t else XLit t.

(* expect_operand = true: an operand (or "not" / "(") must come next *)
Fixpoint sy_loop (toks : list ustr) (ops : list optok) (exprs : list texp) (expect_operand : bool) : pres texp :=
  match toks with
  | [] =>
      match pop_all ops exprs with
      | POk [e] => POk e
      | POk _ => PErr ErrAssert
      | PErr e => PErr e
      end
  | t :: r =>
      if ustr_eqb t kw_or || ustr_eqb t kw_and then
        if expect_operand then PErr ErrSyntax
        else let o := if ustr_eqb t kw_or then OOr else OAnd in
             match pop_while o ops exprs with
             | POk (ops1, ex1) => sy_loop r (o :: ops1) ex1 true
             | PErr e => PErr e
             end
      else if ustr_eqb t kw_not then
        if expect_operand then sy_loop r (ONot :: ops) exprs true else PErr ErrSyntax
      else if ustr_eqb t [cLP] then
        if expect_operand then sy_loop r (OLParen :: ops) exprs true else PErr ErrSyntax
      else if ustr_eqb t [cRP] then
        if expect_operand then PErr ErrSyntax
        else match pop_to_paren ops exprs with
             | POk (ops1, ex1) => sy_loop r ops1 ex1 false
             | PErr e => PErr e
             end
      else
        if expect_operand then sy_loop r ops (make_operand t :: exprs) false else PErr ErrSyntax
  end.

Definition parse_tokens (toks : list ustr) : pres texp :=
  match toks with [] => POk XTrue | _ => sy_loop toks [] [] true end.

(* builder: remove every '@', one pass of replace("  ", " ") *)
Definition normalize_v2 (s : ustr) : ustr := replace_all [cSP; cSP] [cSP] (filter (fun c => negb (N.eqb c cAT)) s).

Definition parse_v2 (s : ustr) : pres texp :=
  match tokenize (normalize_v2 s) with
  | Some toks => parse_tokens toks
  | None => PErr ErrEscape
  end.

(* list form: "(t1) and (t2)" *)
Definition join_terms (terms : list ustr) : ustr :=
  join ([cSP] ++ kw_and ++ [cSP]) (map (fun t => [cLP] ++ t ++ [cRP]) terms).
Definition parse_v2_list (terms : list ustr) : pres texp := parse_v2 (join_terms terms).

(* ---- printers: Literal.__str__ escapes \ ( ) and whitespace; Matcher prints its raw pattern *)
Definition esc_lit (n : ustr) : ustr :=
  flat_map (fun c => if N.eqb c cBS || N.eqb c cLP || N.eqb c cRP || is_space c then [cBS; c] else [c]) n.

Fixpoint to_str (e : texp) : ustr :=
  match e with
  | XTrue => []
  | XLit n => esc_lit n
  | XMat p => esc_lit p
  | XNot a =>
      match a with
      | XAnd _ _ | XOr _ _ => kw_not ++ [cSP] ++ to_str a
      | _ => kw_not ++ [cSP; cLP; cSP] ++ to_str a ++ [cSP; cRP]
      end
  | XAnd a b => [cLP; cSP] ++ to_str a ++ [cSP] ++ kw_and ++ [cSP] ++ to_str b ++ [cSP; cRP]
  | XOr a b => [cLP; cSP] ++ to_str a ++ [cSP] ++ kw_or ++ [cSP] ++ to_str b ++ [cSP; cRP]
  end.

Definition to_string_pretty (e : texp) : ustr :=
  replace_all [cSP; cRP] [cRP] (replace_all [cLP; cSP] [cLP] (to_str e)).

(* ---- v1 *)
Definition normalize_tag_v1 (t : ustr) : ustr :=
  let t := strip t in
  match t with
  | c :: r =>
      if N.eqb c cAT then r
      else if (N.eqb c cDASH || N.eqb c cTILDE) then
        match r with
        | d :: r' => if N.eqb d cAT then cDASH :: r' else cDASH :: r
        | [] => [cDASH]
        end
      else t
  | [] => t
  end.

Inductive v1err := V1BadLimit | V1Inconsistent.

(* one OR-group: returns the normalized alternatives (limits checked for syntax only) *)
Definition v1_group (expr : ustr) : option (list ustr) :=
  let alts := map normalize_tag_v1 (split_on cCOMMA (strip expr)) in
  let heads := map (fun t => match split_on cCOLON t with h :: _ => h | [] => [] end) alts in
  let ok := forallb (fun t => match split_on cCOLON t with
                              | _ :: lim :: _ => all_digits lim
                              | _ => true end) alts in
  if ok then Some heads else None.

Fixpoint v1_groups (parts : list ustr) : option (list (list ustr)) :=
  match parts with
  | [] => Some []
  | p :: r => match v1_group p, v1_groups r with
              | Some g, Some gs => Some (g :: gs)
              | _, _ => None
              end
  end.

Definition v1_test (tags : list ustr) (x : ustr) : bool :=
  match x with
  | c :: r => if N.eqb c cDASH then negb (mem_tag r tags) else mem_tag x tags
  | [] => mem_tag x tags
  end.
Definition v1_check (ands : list (list ustr)) (tags : list ustr) : bool :=
  forallb (fun ors => existsb (v1_test tags) ors) ands.

(* ---- auto detection *)
Inductive dialect := DV1 | DV2 | DMixed.
Definition pad_parens (s : ustr) : ustr :=
  flat_map (fun c => if N.eqb c cLP || N.eqb c cRP then [cSP; c; cSP] else [c]) s.
Definition select_auto (text : ustr) : dialect :=
  let words := split_ws (pad_parens text) in
  let v1_prefix := existsb (fun w => match w with c :: _ => N.eqb c cTILDE || N.eqb c cDASH | [] => false end) words in
  let v1_kw := existsb (fun w => memN cCOMMA w) words || v1_prefix in
  let v2_kw := existsb (fun w => ustr_eqb w kw_and || ustr_eqb w kw_or || ustr_eqb w kw_not
                                 || ustr_eqb w [cLP] || ustr_eqb w [cRP]) words
               || existsb has_magic words in
  if v1_prefix && v2_kw then DMixed
  else if v2_kw then DV2
  else if v1_kw || Nat.ltb 1 (length words) then DV1
  else DV2.
