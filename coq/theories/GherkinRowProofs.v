(* GherkinRowProofs.v - C04: a table row written with escaped pipes is read back cell by cell. *)
From BV Require Import Base UStr GherkinTypes Gherkin UserDataProofs.

Definition cp_pipe : N := 124%N.
Definition cp_bs : N := 92%N.
Definition cp_sp : N := 32%N.

Definition escape_cell (c : ustr) : ustr := flat_map (fun x => if N.eqb x cp_pipe then [cp_bs; cp_pipe] else [x]) c.
Definition padded (c : ustr) : ustr := [cp_sp] ++ escape_cell c ++ [cp_sp].
Definition render_row (cells : list ustr) : ustr := cp_pipe :: concat (map (fun c => padded c ++ [cp_pipe]) cells).

Definition cell_ok (c : ustr) : bool := no_pad c && negb (memN cp_bs c).

(* ---- splitting ---- *)
Lemma split_escaped c rest cur :
  memN cp_bs c = false ->
  split_cells_aux (escape_cell c ++ rest) false cur = split_cells_aux rest false (rev (escape_cell c) ++ cur).
Proof.
  revert cur. induction c as [|x c IH]; intros cur H; [reflexivity|].
  unfold memN in H. cbn [existsb] in H. apply orb_false_elim in H as [Hx Hc]. fold (memN cp_bs c) in Hc.
  unfold escape_cell. cbn [flat_map]. fold (escape_cell c). destruct (N.eqb x cp_pipe) eqn:P.
  - apply N.eqb_eq in P. subst x. cbn [app split_cells_aux].
    change (N.eqb cp_bs 124) with false. change (N.eqb cp_bs 92) with true. cbn [andb negb].
    change (N.eqb cp_pipe 124) with true. cbn [andb negb]. change (N.eqb cp_pipe 92) with false.
    rewrite IH by exact Hc. cbn [rev]. now rewrite <- !app_assoc.
  - cbn [app split_cells_aux]. unfold cp_pipe in P. rewrite P. cbn [andb].
    assert (N.eqb x 92 = false) as -> by (unfold cp_bs in Hx; now rewrite N.eqb_sym).
    rewrite IH by exact Hc. cbn [rev]. now rewrite <- !app_assoc.
Qed.

Lemma split_row cells : forall cur,
  forallb (fun c => negb (memN cp_bs c)) cells = true -> cells <> [] ->
  split_cells_aux (removelast (concat (map (fun c => padded c ++ [cp_pipe]) cells))) false cur =
  match cells with
  | c :: cs => (rev cur ++ padded c) :: map padded cs
  | [] => []
  end.
Proof.
  induction cells as [|c cs IH]; intros cur H NE; [congruence|].
  cbn [forallb] in H. apply andb_true_iff in H as [Hc Hcs]. apply negb_true_iff in Hc.
  cbn [map concat]. destruct cs as [|c2 cs].
  - cbn [map concat]. rewrite app_nil_r. rewrite removelast_last. unfold padded. cbn [app split_cells_aux].
    change (N.eqb cp_sp 124) with false. cbn [andb]. change (N.eqb cp_sp 92) with false.
    rewrite split_escaped by exact Hc. cbn [app split_cells_aux]. change (N.eqb cp_sp 124) with false. cbn [andb].
    cbn [rev]. rewrite !rev_app_distr, rev_involutive. cbn [rev app]. rewrite <- !app_assoc. reflexivity.
  - assert (NE2 : concat (map (fun c => padded c ++ [cp_pipe]) (c2 :: cs)) <> []).
    { cbn [map concat]. unfold padded. cbn. discriminate. }
    rewrite removelast_app by exact NE2.
    unfold padded at 1. rewrite <- !app_assoc. cbn [app split_cells_aux].
    change (N.eqb cp_sp 124) with false. cbn [andb]. change (N.eqb cp_sp 92) with false.
    rewrite split_escaped by exact Hc. cbn [app split_cells_aux]. change (N.eqb cp_sp 124) with false. cbn [andb].
    change (N.eqb cp_sp 92) with false. change (N.eqb cp_pipe 124) with true. cbn [andb negb].
    rewrite (IH [] Hcs) by discriminate. cbn [rev app map]. f_equal.
    unfold padded. rewrite !rev_app_distr, rev_involutive. cbn [rev app]. rewrite <- !app_assoc. reflexivity.
Qed.

(* ---- un-escaping ---- *)
Lemma unescape_aux c rest : forall fuel,
  memN cp_bs c = false -> length (escape_cell c ++ rest) < fuel ->
  exists fuel', length rest < fuel' /\
    replace_aux fuel [cp_bs; cp_pipe] [cp_pipe] (escape_cell c ++ rest) = c ++ replace_aux fuel' [cp_bs; cp_pipe] [cp_pipe] rest.
Proof.
  induction c as [|x c IH]; intros fuel H L; [exists fuel; split; [exact L|reflexivity]|].
  unfold memN in H. cbn [existsb] in H. apply orb_false_elim in H as [Hx Hc]. fold (memN cp_bs c) in Hc.
  unfold escape_cell in *. cbn [flat_map] in *. fold (escape_cell c) in *. destruct fuel as [|f]; [lia|].
  destruct (N.eqb x cp_pipe) eqn:P.
  - apply N.eqb_eq in P. subst x. cbn [app] in *. cbn [replace_aux prefixb].
    rewrite !N.eqb_refl. cbn [andb length skipn app]. cbn [length] in L.
    destruct (IH f Hc) as [f' [L' E]]; [lia|]. exists f'. split; [exact L'|]. now rewrite E.
  - cbn [app] in *. cbn [replace_aux prefixb].
    assert (N.eqb cp_bs x = false) as -> by exact Hx. cbn [andb]. cbn [length] in L.
    destruct (IH f Hc) as [f' [L' E]]; [lia|]. exists f'. split; [exact L'|]. now rewrite E.
Qed.

Lemma replace_step_other fuel x r :
  N.eqb cp_bs x = false ->
  replace_aux (S fuel) [cp_bs; cp_pipe] [cp_pipe] (x :: r) = x :: replace_aux fuel [cp_bs; cp_pipe] [cp_pipe] r.
Proof. intros H. cbn [replace_aux prefixb]. now rewrite H. Qed.

Lemma unescape_padded c : memN cp_bs c = false ->
  replace_all [cp_bs; cp_pipe] [cp_pipe] (padded c) = [cp_sp] ++ c ++ [cp_sp].
Proof.
  intros H. unfold replace_all, padded. cbn [app length]. rewrite replace_step_other by reflexivity. f_equal.
  destruct (unescape_aux c [cp_sp] (S (length (escape_cell c ++ [cp_sp]))) H) as [f' [L' E]]; [lia|].
  rewrite E. f_equal. cbn [length] in L'. destruct f' as [|f'']; [lia|].
  rewrite replace_step_other by reflexivity. now destruct f''.
Qed.

Lemma cell_text_padded c : cell_ok c = true -> cell_text (padded c) = c.
Proof.
  unfold cell_ok. intros H. apply andb_true_iff in H as [NP B]. apply negb_true_iff in B.
  unfold cell_text. change [92; 124]%N with [cp_bs; cp_pipe]. change [124%N] with [cp_pipe].
  rewrite unescape_padded by exact B. apply strip_padded; [reflexivity|reflexivity|exact NP].
Qed.

(* C04: the cells of a rendered row (pipes escaped, one blank of padding) are read back exactly *)
Theorem row_cells_reads_back_the_cells cells :
  cells <> [] -> forallb cell_ok cells = true -> row_cells (render_row cells) = cells.
Proof.
  intros NE H. unfold row_cells, render_row. cbn [tl].
  assert (HB : forallb (fun c => negb (memN cp_bs c)) cells = true).
  { rewrite forallb_forall in *. intros c Hin. specialize (H c Hin). unfold cell_ok in H. now apply andb_true_iff in H as [_ H]. }
  rewrite (split_row cells [] HB NE). destruct cells as [|c cs]; [congruence|]. cbn [rev app map].
  cbn [forallb] in H. apply andb_true_iff in H as [Hc Hcs]. rewrite cell_text_padded by exact Hc. f_equal.
  rewrite map_map. clear -Hcs. induction cs as [|x cs IH]; [reflexivity|]. cbn [forallb] in Hcs. apply andb_true_iff in Hcs as [Hx Hr].
  cbn [map]. rewrite cell_text_padded by exact Hx. f_equal. now apply IH.
Qed.
