(* RollupProofs.v — lemmas about Rollup.v.  Everything that mentions a
   predicate is proved by case analysis over the 16 members against the
   *generated* tables, so the proofs are re-checked against what the code
   says now. *)
From BV Require Import Base Status Rollup.
From BVGen Require Import StatusTable.

Ltac st_cases s := destruct s; cbn in *; try discriminate; try reflexivity; try tauto; auto.

(* ------------------------------------------------------------ classification *)
Definition reportable (s : status) : bool :=
  match s with unknown | executing => false | _ => true end.

Definition b2n (b : bool) : nat := if b then 1 else 0.

Definition class_count (s : status) : nat :=
  b2n (is_passed s) + b2n (is_failure s) + b2n (is_error s)
  + b2n (status_eqb s skipped) + b2n (is_untested s).

Lemma classes_partition_all :
  forallb (fun s => if reportable s then class_count s =? 1 else class_count s =? 0) all_status = true.
Proof. vm_compute. reflexivity. Qed.

Lemma classes_partition s : reportable s = true -> class_count s = 1.
Proof.
  intros H. pose proof classes_partition_all as A.
  rewrite forallb_forall in A. specialize (A s (all_status_complete s)).
  rewrite H in A. now apply Nat.eqb_eq.
Qed.

Lemma has_failed_def s : has_failed s = is_error s || is_failure s.
Proof. destruct s; vm_compute; reflexivity. Qed.

Lemma members_match : status_members_match = true.
Proof. vm_compute. reflexivity. Qed.

Lemma eq_string_coherent : status_eq_string_coherent = true.
Proof. vm_compute. reflexivity. Qed.

(* OuterStatus.from_inner_status is only applied to element statuses (outline
   rows); on the step-only members untested_pending/untested_undefined it is the
   identity, the documented table is the one of ScenarioStatus.from_step_status. *)
Lemma from_inner_doc s t :
  is_untested s = false \/ s = untested -> doc_outer s = Some t -> from_inner s = t.
Proof. destruct s; cbn; intros [U|U] E; inversion E; try discriminate; vm_compute; reflexivity. Qed.

Lemma from_step_doc s t : doc_outer s = Some t -> from_step s = Some t.
Proof. destruct s; cbn; intros E; inversion E; vm_compute; reflexivity. Qed.

Lemma final_members s :
  is_final s = match s with
               | skipped | passed | xfailed | xpassed | failed | error | hook_error
               | undefined | untested_undefined | pending | pending_warn => true
               | _ => false end.
Proof. destruct s; vm_compute; reflexivity. Qed.

Lemma elem_status_final s : elem_status s = true -> s <> untested -> is_final s = true.
Proof. destruct s; cbn; try discriminate; intros _ H; try (vm_compute; reflexivity); congruence. Qed.

Lemma untested_not_final : is_final untested = false.
Proof. vm_compute. reflexivity. Qed.

(* ------------------------------------------------------------ scenario *)
(* characterisation by the first decisive step *)
Fixpoint first_decisive (steps : list status) : option status :=
  match steps with
  | [] => None
  | s :: r => if scen_decisive s then Some s else first_decisive r
  end.

Definition scen_of_decisive (s : status) : option status :=
  if is_error s then Some error
  else if is_failure s then Some failed
  else if is_untested s then Some untested
  else if status_eqb s skipped then Some skipped
  else None.

Lemma scen_steps_status_spec steps :
  scen_steps_status steps =
  match first_decisive steps with
  | None => Some passed
  | Some s => scen_of_decisive s
  end.
Proof.
  induction steps as [|s r IH]; [reflexivity|].
  cbn [scen_steps_status first_decisive].
  destruct s; cbn; try reflexivity; exact IH.
Qed.

Lemma scen_of_decisive_step s :
  step_status s = true -> scen_decisive s = true -> scen_of_decisive s = from_step s.
Proof. destruct s; cbn; try discriminate; intros _ _; vm_compute; reflexivity. Qed.

(* no crash and range on step statuses *)
Lemma scen_steps_status_total steps :
  forallb step_status steps = true ->
  exists t, scen_steps_status steps = Some t /\ elem_status t = true.
Proof.
  induction steps as [|s r IH]; cbn [forallb scen_steps_status]; intros H.
  - exists passed; split; reflexivity.
  - apply andb_true_iff in H as [Hs Hr]. specialize (IH Hr).
    destruct s; cbn in Hs; try discriminate; cbn;
      try exact IH; eexists; split; reflexivity.
Qed.

Lemma scenario_compute_total hf steps :
  forallb step_status steps = true ->
  exists t, scenario_compute hf steps = Some t /\ elem_status t = true.
Proof.
  intros H. unfold scenario_compute. destruct hf.
  - exists hook_error; split; reflexivity.
  - now apply scen_steps_status_total.
Qed.

(* passed only if every step passed (pending_warn counts as passed) *)
Lemma scen_passed_all_passed steps :
  scen_steps_status steps = Some passed -> forallb is_passed steps = true.
Proof.
  induction steps as [|s r IH]; cbn [scen_steps_status forallb]; [reflexivity|].
  destruct s; cbn; try discriminate; intros H; try (rewrite (IH H)); try reflexivity;
    inversion H.
Qed.

Lemma scen_all_passed_passed steps :
  forallb (fun s => status_eqb s passed || status_eqb s pending_warn) steps = true ->
  scen_steps_status steps = Some passed.
Proof.
  induction steps as [|s r IH]; cbn [scen_steps_status forallb]; [reflexivity|].
  intros H; apply andb_true_iff in H as [Hs Hr].
  destruct s; cbn in Hs; try discriminate; cbn; exact (IH Hr).
Qed.

(* nothing executed -> untested, never passed *)
Lemma scen_all_untested steps :
  steps <> [] -> forallb is_untested steps = true -> scen_steps_status steps = Some untested.
Proof.
  destruct steps as [|s r]; [congruence|]. intros _ H. cbn [forallb] in H.
  apply andb_true_iff in H as [Hs _].
  destruct s; cbn in Hs; try discriminate; reflexivity.
Qed.

Lemma scen_all_skipped steps :
  steps <> [] -> forallb (fun s => status_eqb s skipped) steps = true ->
  scen_steps_status steps = Some skipped.
Proof.
  destruct steps as [|s r]; [congruence|]. intros _ H. cbn [forallb] in H.
  apply andb_true_iff in H as [Hs _].
  destruct s; cbn in Hs; try discriminate; reflexivity.
Qed.

(* error / failure inside, with nothing untested or skipped in front of it *)
Definition not_us (s : status) : bool := negb (is_untested s) && negb (status_eqb s skipped).

Lemma scen_error_inside steps :
  forallb step_status steps = true ->
  existsb is_error steps = true ->
  forallb (fun s => negb (is_failure s)) steps = true ->
  forallb not_us steps = true ->
  scen_steps_status steps = Some error.
Proof.
  induction steps as [|s r IH]; cbn [existsb forallb scen_steps_status]; [discriminate|].
  intros Hst He Hf Hu. apply andb_true_iff in Hst as [Hst1 Hst2].
  apply andb_true_iff in Hf as [Hf1 Hf2]. apply andb_true_iff in Hu as [Hu1 Hu2].
  destruct s; cbn in *; try discriminate; try reflexivity; apply IH; auto.
Qed.

Lemma scen_failure_inside steps :
  forallb step_status steps = true ->
  existsb is_failure steps = true ->
  forallb (fun s => negb (is_error s)) steps = true ->
  forallb not_us steps = true ->
  scen_steps_status steps = Some failed.
Proof.
  induction steps as [|s r IH]; cbn [existsb forallb scen_steps_status]; [discriminate|].
  intros Hst He Hf Hu. apply andb_true_iff in Hst as [Hst1 Hst2].
  apply andb_true_iff in Hf as [Hf1 Hf2]. apply andb_true_iff in Hu as [Hu1 Hu2].
  destruct s; cbn in *; try discriminate; try reflexivity; apply IH; auto.
Qed.

Lemma scen_has_failed_inside steps :
  forallb step_status steps = true ->
  existsb has_failed steps = true ->
  forallb not_us steps = true ->
  exists t, scen_steps_status steps = Some t /\ has_failed t = true.
Proof.
  induction steps as [|s r IH]; cbn [existsb forallb scen_steps_status]; [discriminate|].
  intros Hst He Hu. apply andb_true_iff in Hst as [Hst1 Hst2]. apply andb_true_iff in Hu as [Hu1 Hu2].
  destruct s; cbn in *; try discriminate;
    try (apply IH; assumption);
    try (eexists; split; [reflexivity| vm_compute; reflexivity]).
Qed.

(* the scenario is skipped exactly when its first decisive step is skipped *)
Lemma scen_skipped_iff steps :
  scen_steps_status steps = Some skipped <-> first_decisive steps = Some skipped.
Proof.
  rewrite scen_steps_status_spec. destruct (first_decisive steps) as [s|].
  - destruct s; cbn; split; intros H; try discriminate; try reflexivity; inversion H.
  - split; discriminate.
Qed.

(* plain reading "skipped only if everything in it is skipped" is false of the code *)
Lemma scen_skipped_plain_refuted :
  exists steps, scen_steps_status steps = Some skipped /\
                forallb (fun s => status_eqb s skipped) steps = false /\
                forallb step_status steps = true.
Proof. exists [passed; skipped; skipped]. vm_compute. repeat split. Qed.

(* plain reading "error-class inside -> error" is false in dry-run shape *)
Lemma scen_error_plain_refuted :
  exists steps, existsb is_error steps = true /\
                forallb (fun s => negb (is_failure s)) steps = true /\
                scen_steps_status steps = Some untested.
Proof. exists [untested; undefined]. vm_compute. repeat split. Qed.

(* ------------------------------------------------------------ container *)
Lemma container_loop_no_decisive items sk pc :
  forallb (fun s => negb (is_error s) && negb (is_failure s) && negb (status_eqb s untested)) items = true ->
  container_loop items sk pc =
  if sk && forallb (fun s => status_eqb s skipped) items then skipped else passed.
Proof.
  revert sk pc; induction items as [|s r IH]; intros sk pc H; cbn [container_loop forallb] in *.
  - now rewrite andb_true_r.
  - apply andb_true_iff in H as [Hs Hr].
    destruct (is_error s) eqn:E1; [cbn in Hs; discriminate|].
    destruct (is_failure s) eqn:E2; [cbn in Hs; discriminate|].
    destruct (status_eqb s untested) eqn:E3; [cbn in Hs; discriminate|].
    rewrite IH by assumption.
    destruct (status_eqb s skipped); cbn; [reflexivity|]. now rewrite andb_false_r.
Qed.

Lemma container_skipped_gen items : forall sk pc,
  container_loop items sk pc = skipped <->
  sk = true /\ forallb (fun s => status_eqb s skipped) items = true.
Proof.
  induction items as [|s r IH]; intros sk pc; cbn [container_loop forallb].
  - destruct sk; split; intros H; try discriminate; try tauto. destruct H; discriminate.
  - destruct s; cbn; try (apply IH); try (rewrite IH).
    all: split; intros H; try discriminate.
    all: try (destruct H as [A B]; discriminate).
    all: destruct pc; discriminate.
Qed.

Lemma container_skipped_iff items :
  container_loop items true 0 = skipped <-> forallb (fun s => status_eqb s skipped) items = true.
Proof. rewrite container_skipped_gen. tauto. Qed.

Lemma container_all_untested items :
  items <> [] -> forallb (fun s => status_eqb s untested) items = true ->
  container_loop items true 0 = untested.
Proof.
  destruct items as [|s r]; [congruence|]. intros _ H. cbn [forallb] in H.
  apply andb_true_iff in H as [Hs _]. destruct s; cbn in Hs; try discriminate. reflexivity.
Qed.

Lemma container_passed_children items sk pc :
  forallb elem_status items = true ->
  container_loop items sk pc = passed ->
  forallb (fun s => status_eqb s passed || status_eqb s skipped) items = true.
Proof.
  revert sk pc; induction items as [|s r IH]; intros sk pc H; cbn [container_loop forallb] in *; [reflexivity|].
  apply andb_true_iff in H as [Hs Hr].
  destruct s; cbn in Hs; try discriminate; cbn.
  all: try discriminate.
  all: try (intros E; eapply IH; eauto; fail).
  all: destruct pc; discriminate.
Qed.

Lemma container_passed_some_passed items :
  forallb elem_status items = true ->
  container_loop items true 0 = passed ->
  items = [] \/ existsb (fun s => status_eqb s passed) items = true.
Proof.
  intros Hr Hp. destruct items as [|s0 r0]; [now left|right].
  pose proof (container_passed_children _ _ _ Hr Hp) as Hc.
  destruct (existsb (fun s => status_eqb s passed) (s0 :: r0)) eqn:E; [reflexivity|].
  exfalso.
  assert (Hall : forallb (fun s => status_eqb s skipped) (s0 :: r0) = true).
  { rewrite forallb_forall in *. intros x Hx. specialize (Hc x Hx).
    apply orb_true_iff in Hc as [Hc|Hc]; [|exact Hc].
    assert (existsb (fun s => status_eqb s passed) (s0 :: r0) = true)
      by (apply existsb_exists; exists x; split; assumption).
    congruence. }
  apply container_skipped_iff in Hall. congruence.
Qed.

Lemma container_error_inside items :
  existsb is_error items = true ->
  forallb (fun s => negb (is_failure s)) items = true ->
  forallb (fun s => negb (status_eqb s untested)) items = true ->
  forall sk pc, container_loop items sk pc = error.
Proof.
  induction items as [|s r IH]; cbn [existsb forallb container_loop]; [discriminate|].
  intros He Hf Hu sk pc.
  apply andb_true_iff in Hf as [Hf1 Hf2]. apply andb_true_iff in Hu as [Hu1 Hu2].
  destruct s; cbn in *; try discriminate; try reflexivity; apply IH; auto.
Qed.

Lemma container_failure_inside items :
  existsb is_failure items = true ->
  forallb (fun s => negb (is_error s)) items = true ->
  forallb (fun s => negb (status_eqb s untested)) items = true ->
  forall sk pc, container_loop items sk pc = failed.
Proof.
  induction items as [|s r IH]; cbn [existsb forallb container_loop]; [discriminate|].
  intros He Hf Hu sk pc.
  apply andb_true_iff in Hf as [Hf1 Hf2]. apply andb_true_iff in Hu as [Hu1 Hu2].
  destruct s; cbn in *; try discriminate; try reflexivity; apply IH; auto.
Qed.

Lemma container_range items sk pc : elem_status (container_loop items sk pc) = true.
Proof.
  revert sk pc; induction items as [|s r IH]; intros sk pc; cbn [container_loop].
  - destruct sk; reflexivity.
  - destruct (is_error s); [reflexivity|]. destruct (is_failure s); [reflexivity|].
    destruct (status_eqb s untested); [destruct (0 <? pc); reflexivity|]. apply IH.
Qed.

Lemma container_compute_range hf items : elem_status (container_compute hf items) = true.
Proof. unfold container_compute; destruct hf; [reflexivity|apply container_range]. Qed.

(* aborted run: some passed, then untested -> failed, never passed *)
Lemma container_untested_never_passed items sk pc :
  existsb (fun s => status_eqb s untested) items = true ->
  container_loop items sk pc <> passed.
Proof.
  revert sk pc; induction items as [|s r IH]; intros sk pc; cbn [existsb container_loop]; [discriminate|].
  intros H. destruct s; cbn in *; try discriminate; try (apply IH; assumption).
  all: destruct pc; discriminate.
Qed.

Lemma container_error_plain_refuted :
  exists items, existsb is_error items = true /\ forallb elem_status items = true /\
                container_compute false items = untested.
Proof. exists [untested; error]. vm_compute. repeat split. Qed.

(* ------------------------------------------------------------ outline *)
Lemma outline_loop_inr rows k pc k' :
  outline_loop rows k pc = inr k' ->
  forallb (fun s => negb (has_failed (from_inner s)) && negb (status_eqb s untested)) rows = true /\
  k' = k + count_occ_b (fun s => status_eqb s skipped) rows.
Proof.
  revert k pc; induction rows as [|s r IH]; intros k pc; cbn [outline_loop forallb count_occ_b].
  - intros E; inversion E; split; [reflexivity|lia].
  - destruct (has_failed (from_inner s)) eqn:Hf; [discriminate|].
    destruct (status_eqb s untested) eqn:Hu; [discriminate|].
    destruct (status_eqb s skipped) eqn:Hs; [|destruct (status_eqb s passed)];
      intros E; apply IH in E as [A B]; cbn; split; auto; lia.
Qed.

Lemma outline_loop_inl rows k pc t :
  outline_loop rows k pc = inl t ->
  (has_failed t = true /\ exists s, In s rows /\ t = from_inner s)
  \/ (In untested rows /\ (t = untested \/ t = failed)).
Proof.
  revert k pc; induction rows as [|s r IH]; intros k pc; cbn [outline_loop]; [discriminate|].
  destruct (has_failed (from_inner s)) eqn:Hf.
  - intros E; inversion E; subst. left. split; [assumption|]. exists s; split; [now left|reflexivity].
  - destruct (status_eqb s untested) eqn:Hu.
    + apply status_eqb_eq in Hu; subst s. intros E; inversion E. right. split; [now left|].
      destruct (0 <? pc); auto.
    + destruct (status_eqb s skipped); [|destruct (status_eqb s passed)];
        intros E; apply IH in E as [[A [x [Hx Ex]]]|[A B]];
        try (left; split; [assumption|exists x; split; [now right|assumption]]);
        right; (split; [now right|assumption]).
Qed.

Lemma count_all_iff {A} (p : A -> bool) l :
  count_occ_b p l = length l <-> forallb p l = true.
Proof.
  induction l as [|x r IH]; cbn; [tauto|].
  assert (count_occ_b p r <= length r) by (clear; induction r as [|y r IH]; cbn; [lia|destruct (p y); cbn; lia]).
  destruct (p x); cbn; [rewrite <- IH; lia|]. split; [lia|discriminate].
Qed.

Lemma outline_skipped_iff expected rows :
  rows <> [] ->
  (outline_compute expected rows = skipped <->
   forallb (fun s => status_eqb s skipped) rows = true).
Proof.
  intros Hne. unfold outline_compute. destruct rows as [|s0 r0]; [congruence|].
  set (rows := s0 :: r0) in *. destruct (outline_loop rows 0 0) as [t|k] eqn:E.
  - apply outline_loop_inl in E as [[Hf [s [Hin Et]]]|[Hin Ht]]; split.
    + intros ->. vm_compute in Hf. discriminate.
    + intros Hall. exfalso. rewrite forallb_forall in Hall. specialize (Hall s Hin).
      apply status_eqb_eq in Hall; subst s. subst t. vm_compute in Hf. discriminate.
    + intros ->. destruct Ht; discriminate.
    + intros Hall. exfalso. rewrite forallb_forall in Hall. specialize (Hall _ Hin). discriminate.
  - apply outline_loop_inr in E as [Hnf Hk]. cbn [plus] in Hk. subst k.
    destruct (0 <? count_occ_b _ rows) eqn:E0; destruct (count_occ_b _ rows =? length rows) eqn:E1; cbn [andb].
    + apply Nat.eqb_eq in E1. split; [intros _|reflexivity]. now apply count_all_iff.
    + split; [discriminate|]. intros H. apply count_all_iff in H. apply Nat.eqb_neq in E1. congruence.
    + split; [discriminate|]. intros H. apply count_all_iff in H. apply Nat.ltb_ge in E0.
      subst rows. cbn [length] in H. lia.
    + split; [discriminate|]. intros H. apply count_all_iff in H. apply Nat.eqb_neq in E1. congruence.
Qed.

Lemma outline_failed_inside expected rows :
  existsb (fun s => has_failed (from_inner s)) rows = true ->
  forallb (fun s => negb (status_eqb s untested)) rows = true ->
  has_failed (outline_compute expected rows) = true.
Proof.
  intros H Hu. unfold outline_compute. destruct rows as [|s0 r0]; [discriminate|].
  set (rows := s0 :: r0) in *. destruct (outline_loop rows 0 0) as [t|k] eqn:E.
  - apply outline_loop_inl in E as [[Hf _]|[Hin _]]; [assumption|].
    rewrite forallb_forall in Hu. specialize (Hu _ Hin). discriminate.
  - apply outline_loop_inr in E as [Hnf _]. exfalso.
    apply existsb_exists in H as [x [Hx Hfx]]. rewrite forallb_forall in Hnf.
    specialize (Hnf x Hx). rewrite Hfx in Hnf. discriminate.
Qed.

Lemma outline_passed_rows expected rows :
  rows <> [] ->
  forallb elem_status rows = true ->
  outline_compute expected rows = passed ->
  forallb (fun s => status_eqb s passed || status_eqb s skipped) rows = true /\
  existsb (fun s => status_eqb s passed) rows = true.
Proof.
  intros Hne Hr Hp.
  assert (Hns : forallb (fun s => status_eqb s skipped) rows = false).
  { destruct (forallb (fun s => status_eqb s skipped) rows) eqn:E; [|reflexivity].
    apply (outline_skipped_iff expected rows Hne) in E. congruence. }
  unfold outline_compute in Hp. destruct rows as [|s0 r0]; [congruence|].
  set (rows := s0 :: r0) in *. destruct (outline_loop rows 0 0) as [t|k] eqn:E.
  - subst t. apply outline_loop_inl in E as [[Hf _]|[_ [Ht|Ht]]];
      [vm_compute in Hf|..]; discriminate.
  - apply outline_loop_inr in E as [Hnf _].
    assert (Hall : forallb (fun s => status_eqb s passed || status_eqb s skipped) rows = true).
    { rewrite forallb_forall in *. intros x Hx. specialize (Hnf x Hx). specialize (Hr x Hx).
      destruct x; cbn in Hr; try discriminate; vm_compute in Hnf |- *; congruence. }
    split; [exact Hall|].
    destruct (existsb (fun s => status_eqb s passed) rows) eqn:Ex; [reflexivity|exfalso].
    assert (forallb (fun s => status_eqb s skipped) rows = true); [|congruence].
    rewrite forallb_forall in *. intros x Hx. specialize (Hall x Hx).
    apply orb_true_iff in Hall as [Hc|Hc]; [|exact Hc].
    assert (existsb (fun s => status_eqb s passed) rows = true)
      by (apply existsb_exists; exists x; split; assumption).
    congruence.
Qed.

Lemma outline_all_untested expected rows :
  rows <> [] -> forallb (fun s => status_eqb s untested) rows = true ->
  outline_compute expected rows = untested.
Proof.
  destruct rows as [|s r]; [congruence|]. intros _ H. cbn [forallb] in H.
  apply andb_true_iff in H as [Hs _]. apply status_eqb_eq in Hs; subst s. reflexivity.
Qed.

Lemma outline_never_built expected : 0 < expected -> outline_compute expected [] = untested.
Proof. intros H. cbn. destruct expected; [lia|reflexivity]. Qed.

Lemma outline_untested_never_passed expected rows :
  existsb (fun s => status_eqb s untested) rows = true ->
  outline_compute expected rows <> passed.
Proof.
  intros H. unfold outline_compute. destruct rows as [|s0 r0]; [discriminate|].
  set (rows := s0 :: r0) in *. destruct (outline_loop rows 0 0) as [t|k] eqn:E.
  - apply outline_loop_inl in E as [[Hf _]|[_ [Ht|Ht]]]; subst; try discriminate.
    intros ->. vm_compute in Hf. discriminate.
  - apply outline_loop_inr in E as [Hnf _]. exfalso.
    apply existsb_exists in H as [x [Hx Hux]]. rewrite forallb_forall in Hnf.
    specialize (Hnf x Hx). rewrite Hux in Hnf. rewrite andb_false_r in Hnf. discriminate.
Qed.

Lemma outline_range expected rows :
  forallb elem_status rows = true -> elem_status (outline_compute expected rows) = true.
Proof.
  intros Hr. unfold outline_compute. destruct rows as [|s0 r0]; [destruct (0 <? expected); reflexivity|].
  set (rows := s0 :: r0) in *. destruct (outline_loop rows 0 0) as [t|k] eqn:E.
  - apply outline_loop_inl in E as [[Hf [s [Hin ->]]]|[_ [->| ->]]]; try reflexivity.
    rewrite forallb_forall in Hr.
    specialize (Hr s Hin). destruct s; cbn in Hr; try discriminate; vm_compute; reflexivity.
  - destruct (_ && _); reflexivity.
Qed.

(* ------------------------------------------------------------ cached status *)
Lemma read_after_clear computed : read_status untested computed = computed.
Proof. unfold read_status. now rewrite untested_not_final. Qed.

Lemma read_after_set s computed : is_final s = true -> read_status s computed = s.
Proof. unfold read_status. now intros ->. Qed.
