(* GherkinRuleProofs.v - C04 at the level of the state machine: Rules.  A feature (no feature background) whose
   feature-level scenarios and outlines are followed by Rules - tag lines, the Rule line, description lines, scenarios
   and outlines with everything GherkinOutlineProofs covers - is read back exactly.  The content of a rule is handled
   by the zoom of GherkinZoom.v: inside a rule the machine does what it does inside a feature. *)
From BV Require Import Base UStr GherkinTypes Gherkin GherkinProofs GherkinRowProofs GherkinBlockProofs GherkinTagProofs
                       GherkinTableProofs GherkinDocProofs GherkinRichProofs GherkinDescrProofs GherkinBgProofs GherkinOutlineProofs GherkinZoom.

(* ------------------------------------------------------------------ the Rule line *)
Record rule_line (kw : kwtable) (line alias name : ustr) : Prop := {
  ul_nodoc : doc_fact line = None;
  ul_nonblank : strip line <> [];
  ul_nocomment : first_is cp_hash (strip line) = false;
  ul_notag : starts_at (strip line) = false;
  ul_nostep : step_fact kw (strip line) = None;
  ul_nopipe : starts_pipe (strip line) = false;
  ul_rule : first_alias (k_rule kw) (strip line) = Some (alias, name) }.

Lemma rule_line_strip kw line alias name : rule_line kw line alias name -> rule_line kw (strip line) alias name.
Proof. intros [ND NB NC NT NS NP RL]. split; rewrite ?strip_idem; auto using doc_fact_strip. Qed.

Definition zctx_of (f : pfeature) : zctx := mkZ (f_kw f) (f_name f) (f_line f) (f_tags f) (f_descr f) (f_bg f) (f_lang f) (f_items f).
Definition rule_feat (m : mstate) (bg : option pbg) (alias name : ustr) : pfeature := mkPFeat alias name (S (m_line m)) (m_tags m) [] bg [] (m_lang m).

(* the zoomed state right after the Rule line: the rule as a feature without items *)
Definition zstart (mz m : mstate) (bg : option pbg) (alias name : ustr) : Prop :=
  m_st mz = StFeature /\ m_cont mz = CFeat /\ m_feat mz = Some (rule_feat m bg alias name) /\ m_stmt mz = PRuleS /\
  m_tags mz = [] /\ m_table mz = None /\ m_in_examples mz = false /\ m_lines mz = [] /\ m_line mz = S (m_line m) /\ m_kw mz = m_kw m.

Definition rstart (m0 m : mstate) (bg : option pbg) (alias name : ustr) : mstate :=
  mkM StFeature (m_line m0) (m_last m0) (m_ml_start m0) (m_ml_lead m0) (m_ml_term m0) (m_lang m0) (m_kw m0) (m_variant m0)
      (Some (rule_feat m bg alias name)) CFeat (m_det_rule m0) PRuleS (m_det m0) [] (m_lines m0) (m_table m0) (m_in_examples m0).

Lemma sub_taggable_rule m s alias name :
  starts_at s = false -> first_alias (k_rule (m_kw m)) s = Some (alias, name) ->
  sub_taggable m s = rbind (build_rule m alias name) (fun m' => ROk (Some (upd_st m' StRule))).
Proof. intros A R. unfold sub_taggable. rewrite match_at, A, R. reflexivity. Qed.

Lemma build_rule_unzoom m0 m f alias name :
  m_cont m0 = CFeat -> m_feat m0 = Some f -> m_line m0 = S (m_line m) -> m_tags m0 = m_tags m -> m_lang m0 = m_lang m ->
  rbind (build_rule m0 alias name) (fun m' => ROk (Some (upd_st m' StRule))) = ROk (Some (unzoom (zctx_of f) (rstart m0 m (f_bg f) alias name))).
Proof.
  intros C F L T G. unfold build_rule. rewrite F. cbn [rbind]. f_equal. f_equal.
  unfold unzoom, rstart, wrap, rule_feat, zctx_of, rule_of, vf_of. cbn.
  destruct m0, f. cbn in *. subst. reflexivity.
Qed.

Lemma feed_rule_line_anywhere m f line alias name :
  m_cont m = CFeat -> m_feat m = Some f -> in_feature_body m ->
  m_table m = None -> m_in_examples m = false -> m_lines m = [] -> rule_line (m_kw m) line alias name ->
  exists mz, feed (ROk m) line = ROk (unzoom (zctx_of f) mz) /\ zstart mz m (f_bg f) alias name.
Proof.
  intros C F ST TB IE LN [ND NB NC NT NS NP RL].
  set (m1 := upd_line m (S (m_line m))).
  assert (ZS : forall m0, m_line m0 = S (m_line m) -> m_kw m0 = m_kw m -> m_table m0 = None -> m_in_examples m0 = false -> m_lines m0 = [] ->
                          zstart (rstart m0 m (f_bg f) alias name) m (f_bg f) alias name).
  { intros m0 L0 K0 T0 I0 N0. unfold zstart, rstart. cbn. repeat split; auto. }
  rewrite (feed_nonblank m line NB). fold m1. rewrite (action_dispatch m1 line NB NC). cbn [m1 upd_line m_st].
  destruct ST as [ST|[ST|[ST|ST]]]; rewrite ST.
  - unfold a_feature. rewrite (sub_taggable_rule m1 (strip line) alias name NT RL).
    rewrite (build_rule_unzoom m1 m f alias name C F eq_refl eq_refl eq_refl). cbn [rbind].
    eexists. split; [reflexivity|]. apply ZS; auto.
  - unfold a_steps. rewrite ND. unfold parse_step. cbn [m1 upd_line m_kw]. rewrite NS. cbn [rbind].
    rewrite (sub_taggable_rule m1 (strip line) alias name NT RL).
    rewrite (build_rule_unzoom m1 m f alias name C F eq_refl eq_refl eq_refl). cbn [rbind].
    eexists. split; [reflexivity|]. apply ZS; auto.
  - unfold a_scenario. unfold parse_step. cbn [upd_last m1 upd_line m_kw]. rewrite NS. cbn [rbind].
    rewrite (sub_taggable_rule (upd_last m1 None) (strip line) alias name NT RL).
    rewrite (build_rule_unzoom (upd_last m1 None) m f alias name C F eq_refl eq_refl eq_refl). cbn [rbind].
    eexists. split; [reflexivity|]. apply ZS; auto.
  - unfold a_taggable. rewrite (sub_taggable_rule m1 (strip line) alias name NT RL).
    rewrite (build_rule_unzoom m1 m f alias name C F eq_refl eq_refl eq_refl). cbn [rbind].
    eexists. split; [reflexivity|]. apply ZS; auto.
Qed.

(* the Rule line after anything a feature body can end with: it closes a pending step table or Examples table first *)
Lemma feed_rule_line_obody m f line alias name :
  obody m f -> rule_line (m_kw m) line alias name ->
  exists mz, feed (ROk m) line = ROk (unzoom (zctx_of f) mz) /\ zstart mz m (f_bg f) alias name.
Proof.
  intros OB RL.
  assert (CLEAN : forall mc, m_in_examples mc = false -> m_lines mc = [] -> m_table mc = None -> in_feature_body mc ->
                   m_cont mc = CFeat -> m_feat mc = Some f -> m_line mc = m_line m -> m_tags mc = m_tags m -> m_kw mc = m_kw m ->
                   m_lang mc = m_lang m ->
                   forall l, rule_line (m_kw mc) l alias name ->
                   exists mz, feed (ROk mc) l = ROk (unzoom (zctx_of f) mz) /\ zstart mz m (f_bg f) alias name).
  { intros mc IE LN T ST C F Lc TGc Kc Gc l RLc.
    destruct (feed_rule_line_anywhere mc f l alias name C F ST T IE LN RLc) as (mz & FD & ZS).
    exists mz. split; [exact FD|]. unfold zstart, rule_feat in *. rewrite Lc, TGc, Kc, Gc in ZS. exact ZS. }
  pose proof RL as [ND NB NC NT NS NP RLn].
  destruct OB as [[IE [LN [[T [ST [C F]]] | (f0 & s0 & rest & st & r & t & PD & EF)]]] | (s & rest & OV)].
  - apply (CLEAN m IE LN T ST C F eq_refl eq_refl eq_refl eq_refl line RL).
  - destruct PD as (_ & ST & T & W & HS & _).
    rewrite (table_closes m f0 s0 rest st r t line ST W HS T IE NB NC NP).
    destruct (closed_state m f0 s0 rest st r t W HS T IE) as (ST1 & W1 & T1 & IE1 & L1 & K1 & TG1 & G1 & _ & LN1).
    set (m1 := upd_st (close_table m) StSteps) in *.
    destruct W1 as [A1 [B1 [C1 D1]]].
    assert (RL1 : rule_line (m_kw m1) (strip line) alias name) by (rewrite K1; now apply rule_line_strip).
    apply (CLEAN m1); try assumption; try congruence.
    + right; left; exact ST1.
    + rewrite C1, EF. reflexivity.
  - destruct (oview_reduce m f s rest line OV ND NB NC NP) as (mc & FD & OR & TGc & Lc & Kc & Gc).
    rewrite FD. pose proof (oready_body _ _ _ _ OR) as [IEc [LNc [[Tc [STc [Cc Fc]]] | (f0 & s0 & rest0 & st & r & t & PD & _)]]].
    + assert (RLc : rule_line (m_kw mc) (strip line) alias name) by (rewrite Kc; now apply rule_line_strip).
      apply (CLEAN mc); assumption.
    + destruct OR as (_ & _ & Tc & _). destruct PD as (_ & _ & Tp & _). congruence.
Qed.

(* ------------------------------------------------------------------ lists of items: scenarios below, rules on top *)
Definition is_rule (i : fitem) : bool := negb (is_scen i).

Lemma is_scen_fin i : is_scen (fin_item i) = is_scen i.
Proof. destruct i; reflexivity. Qed.

Lemma forallb_scen_fin l : forallb is_scen (map fin_item l) = forallb is_scen l.
Proof. induction l as [|i l IH]; cbn; [reflexivity|]. now rewrite is_scen_fin, IH. Qed.
Lemma forallb_rule_fin l : forallb is_rule (map fin_item l) = forallb is_rule l.
Proof. induction l as [|i l IH]; cbn; [reflexivity|]. unfold is_rule at 1 3. now rewrite is_scen_fin, IH. Qed.

Lemma forallb_rev {A} (p : A -> bool) l : forallb p (rev l) = forallb p l.
Proof.
  induction l as [|x l IH]; cbn; [reflexivity|]. rewrite forallb_app, IH. cbn. rewrite Bool.andb_true_r. apply Bool.andb_comm.
Qed.

Lemma scens_app a b : scens (a ++ b) = scens a ++ scens b.
Proof. induction a as [|[s|r] a IH]; cbn; [reflexivity| |]; now rewrite IH. Qed.
Lemma scens_rev l : scens (rev l) = rev (scens l).
Proof. induction l as [|[s|r] l IH]; cbn; [reflexivity| |]; rewrite scens_app, IH; cbn; [reflexivity|now rewrite app_nil_r]. Qed.
Lemma scens_fin l : scens (map fin_item l) = map fin_scen (scens l).
Proof. induction l as [|[s|r] l IH]; cbn; [reflexivity| |]; now rewrite IH. Qed.
Lemma scens_rules l : forallb is_rule l = true -> scens l = [].
Proof. induction l as [|[s|r] l IH]; cbn; [reflexivity|discriminate|exact IH]. Qed.

Lemma span_app P O : forallb is_rule P = true -> forallb is_scen O = true -> span_rules (P ++ O) = (P, O).
Proof.
  induction P as [|[s|r] P IH]; cbn; intros HP HO.
  - now apply span_scens.
  - discriminate HP.
  - now rewrite (IH HP HO).
Qed.

Lemma split_fin l A B :
  rev (map fin_item l) = A ++ B -> exists P O, l = P ++ O /\ map fin_item P = rev B /\ map fin_item O = rev A.
Proof.
  intros H. assert (E : map fin_item l = rev B ++ rev A).
  { rewrite <- rev_app_distr, <- H. now rewrite rev_involutive. }
  destruct (map_eq_app _ _ _ _ E) as (P & O & EL & EP & EO). exists P, O. auto.
Qed.

Lemma expected_items_scen its : forall ln, forallb is_scen (expected_items its ln) = true.
Proof.
  induction its as [|it its IH]; intros ln; cbn; [reflexivity|]. rewrite IH.
  destruct it as [[[[tls [[line alias] name]] ds] steps] | [[[[tls [[line alias] name]] ds] steps] blocks]]; reflexivity.
Qed.

(* ------------------------------------------------------------------ rules *)
Definition arule : Type := (list (ustr * list ustr) * (ustr * ustr * ustr) * list ustr * list item)%type.

Definition arule_lines (r : arule) : list ustr :=
  let '(tls, (line, _, _), ds, its) := r in map fst tls ++ line :: ds ++ flat_map item_lines its.

Definition arule_ok (kw : kwtable) (r : arule) : Prop :=
  let '(tls, (line, alias, name), ds, its) := r in
  Forall (fun x => tag_line kw (fst x) (snd x)) tls /\ rule_line kw line alias name /\ Forall (descr_line kw) ds /\
  Forall (item_ok kw) its /\ Forall (nobg kw) (arule_lines r).

Definition expected_rule (r : arule) (ln : nat) : prule :=
  let '(tls, (_, alias, name), ds, its) := r in
  let l1 := S (ln + length tls) in
  mkPRule alias name l1 (tags_of tls ln) (map strip ds) None (scens (expected_items its (l1 + length ds))).

Fixpoint expected_rules (rules : list arule) (ln : nat) : list fitem :=
  match rules with
  | [] => []
  | r :: rest => FRule (expected_rule r ln) :: expected_rules rest (ln + length (arule_lines r))
  end.

Lemma expected_rules_rule rules : forall ln, forallb is_rule (expected_rules rules ln) = true.
Proof. induction rules as [|r rules IH]; intros ln; cbn; [reflexivity|apply IH]. Qed.

(* the end of the text can be processed, and then the feature is f *)
Definition fin_ok (m : mstate) (f : pfeature) : Prop :=
  exists m'', finish_table (ROk m) = ROk m'' /\ m_table m'' = None /\ m_feat m'' = Some f.

Lemma fin_ok_unzoom z m vf : ztree z m -> fin_ok m vf -> fin_ok (unzoom z m) (wrap z vf).
Proof.
  intros T (m'' & FIN & TB & FF). unfold fin_ok, finish_table in *. cbn [rbind] in *.
  change (m_table (unzoom z m)) with (m_table m). destruct (m_table m) as [t|].
  - rewrite (uz_close_table z m T). inversion FIN. subst m''. eexists. split; [reflexivity|]. split; [exact TB|].
    cbn. unfold vf_of. cbn in FF. now rewrite FF.
  - inversion FIN. subst m''. eexists. split; [reflexivity|]. split; [exact TB|]. cbn. unfold vf_of. now rewrite FF.
Qed.

Lemma Forall_flat_map {A B} (P : B -> Prop) (f : A -> list B) l : Forall (fun a => Forall P (f a)) l -> Forall P (flat_map f l).
Proof. induction 1; cbn; [constructor|]. apply Forall_app. auto. Qed.

Lemma fold_feed_line lines m m' : fold_left feed lines (ROk m) = ROk m' -> m_line m' = m_line m + length lines.
Proof. intros H. pose proof (fold_feed_spec lines m) as S. now rewrite H in S. Qed.

Lemma with_items_fields f g : with_items f [] = with_items g [] ->
  f_kw f = f_kw g /\ f_name f = f_name g /\ f_line f = f_line g /\ f_tags f = f_tags g /\ f_descr f = f_descr g /\ f_bg f = f_bg g /\ f_lang f = f_lang g.
Proof. unfold with_items. intros H. inversion H. repeat split; assumption. Qed.

Lemma rules_are_read rules : forall m f,
  obody m f -> m_tags m = [] -> Forall (arule_ok (m_kw m)) rules ->
  exists m' f', fold_left feed (flat_map arule_lines rules) (ROk m) = ROk m' /\ fin_ok m' f' /\
     with_items f' [] = with_items f [] /\
     rev (map fin_item (f_items f')) = rev (map fin_item (f_items f)) ++ expected_rules rules (m_line m).
Proof.
  induction rules as [|[[[tls [[line alias] name]] ds] its] rules IH]; intros m f OB T OK.
  - exists m, f. cbn [flat_map fold_left expected_rules]. rewrite app_nil_r. split; [reflexivity|]. split; [exact (finish_obody m f OB)|]. split; reflexivity.
  - inversion OK as [|? ? H1 OK']. subst. destruct H1 as (TL & RL & DL & IT & NBG).
    (* the rule's tag lines and the Rule line *)
    destruct (tag_lines_obody tls m f OB TL) as (m0 & FD0 & OB0 & T0 & L0 & K0).
    rewrite T in T0. cbn [app] in T0.
    assert (RL0 : rule_line (m_kw m0) line alias name) by (now rewrite K0).
    destruct (feed_rule_line_obody m0 f line alias name OB0 RL0) as (mz0 & FD1 & ZS).
    destruct ZS as (ZST & ZC & ZF & ZP & ZTG & ZTB & ZIE & ZLN & ZL & ZK).
    set (z := zctx_of f) in *. set (vf0 := rule_feat m0 (f_bg f) alias name) in *.
    (* the zoomed world: description lines, items, then the remaining rules *)
    assert (DLz : Forall (descr_line (m_kw mz0)) ds) by (now rewrite ZK, K0).
    destruct (feature_descr_lines_are_read ds mz0 vf0 ZST ZTB ZIE ZLN ZC ZF DLz)
      as (mzD & FDD & STD & TBD & IED & LND & CD & FDf & LD & KD & TGD).
    set (vfD := mkPFeat (f_kw vf0) (f_name vf0) (f_line vf0) (f_tags vf0) (rev (map strip ds) ++ f_descr vf0) (f_bg vf0) (f_items vf0) (f_lang vf0)) in *.
    assert (OBD : obody mzD vfD).
    { left. split; [exact IED|]. split; [exact LND|]. left. split; [exact TBD|]. split; [left; exact STD|]. split; assumption. }
    assert (TGD' : m_tags mzD = []) by (rewrite TGD; exact ZTG).
    assert (ITz : Forall (item_ok (m_kw mzD)) its) by (now rewrite KD, ZK, K0).
    destruct (items_are_read its mzD vfD OBD TGD' ITz) as (mz2 & vf2 & FD2 & OB2 & T2 & K2 & IT2 & HD2).
    destruct (with_items_fields vf2 vfD HD2) as (H2a & H2b & H2c & H2d & H2e & H2f & H2g).
    assert (OK2 : Forall (arule_ok (m_kw mz2)) rules) by (now rewrite K2, KD, ZK, K0).
    destruct (IH mz2 vf2 OB2 T2 OK2) as (mz3 & vf3 & FD3 & FIN3 & HD3 & IT3).
    destruct (with_items_fields vf3 vf2 HD3) as (H3a & H3b & H3c & H3d & H3e & H3f & H3g).
    set (zl := ds ++ flat_map item_lines its ++ flat_map arule_lines rules).
    assert (FZ : fold_left feed zl (ROk mz0) = ROk mz3).
    { unfold zl. rewrite !fold_left_app. rewrite FDD, FD2. exact FD3. }
    assert (ZI : zinv z mz0).
    { split.
      - exists vf0. split; [exact ZF|]. split; [reflexivity|]. left. split; [exact ZC|]. split; [reflexivity|congruence].
      - rewrite ZST, ZC, ZP. unfold sigok. intuition congruence. }
    assert (NBz : Forall (nobg (m_kw mz0)) zl).
    { rewrite ZK, K0. unfold zl. cbn [arule_lines] in NBG.
      apply Forall_app in NBG. destruct NBG as [_ NBG]. inversion NBG as [|? ? _ NBG']. subst.
      apply Forall_app in NBG'. destruct NBG' as [N1 N2].
      apply Forall_app. split; [exact N1|]. apply Forall_app. split; [exact N2|].
      apply Forall_flat_map. eapply Forall_impl; [|exact OK'].
      intros [[[tls' [[line' alias'] name']] ds'] its'] (_ & _ & _ & _ & X). exact X. }
    destruct (run_unzoom z zl mz0 mz3 ZI NBz FZ) as [FR ZI3].
    (* back in the real world *)
    exists (unzoom z mz3), (wrap z vf3).
    assert (LINES : flat_map arule_lines ((tls, (line, alias, name), ds, its) :: rules) = map fst tls ++ line :: zl).
    { cbn [flat_map arule_lines]. unfold zl. rewrite <- !app_assoc. cbn [app]. rewrite <- !app_assoc. reflexivity. }
    split.
    { refine (eq_trans (f_equal (fun l => fold_left feed l (ROk m)) LINES) _).
      rewrite fold_left_app, FD0. cbn [fold_left]. rewrite FD1. exact FR. }
    split; [apply fin_ok_unzoom; [destruct ZI3 as [X _]; exact X|exact FIN3]|].
    (* the lines the zoomed run went through *)
    pose proof (fold_feed_line _ _ _ FD2) as L2.
    assert (IT3' : rev (map fin_item (f_items vf3)) =
                   expected_items its (m_line mzD) ++ expected_rules rules (m_line mz2)).
    { rewrite IT3, IT2. reflexivity. }
    destruct (split_fin _ _ _ IT3') as (P & O & EL & EP & EO).
    assert (HP : forallb is_rule P = true).
    { rewrite <- forallb_rule_fin, EP, forallb_rev. apply expected_rules_rule. }
    assert (HO : forallb is_scen O = true).
    { rewrite <- forallb_scen_fin, EO, forallb_rev. apply expected_items_scen. }
    unfold wrap. rewrite EL, (span_app P O HP HO).
    split.
    { unfold with_items, z, zctx_of. cbn. destruct f. reflexivity. }
    cbn [f_items]. rewrite map_app, rev_app_distr. cbn [map rev fin_item]. rewrite EP, rev_involutive. rewrite <- app_assoc. cbn [app].
    unfold z, zctx_of. cbn [z_below expected_rules].
    assert (LL : m_line mz2 = m_line m + length (arule_lines (tls, (line, alias, name), ds, its))).
    { rewrite L2, LD, ZL, L0. cbn [arule_lines]. rewrite !app_length, map_length. cbn [length]. rewrite app_length. unfold ustr in *. lia. }
    rewrite LL. do 2 f_equal.
    unfold fin_rule, rule_of, expected_rule. cbn [r_kw r_name r_line r_tags r_descr r_bg r_items option_map].
    rewrite <- scens_fin, EO, scens_rev, rev_involutive.
    rewrite H3a, H3b, H3c, H3d, H3e, H2a, H2b, H2c, H2d, H2e. unfold vfD, vf0, rule_feat. cbn.
    rewrite app_nil_r, rev_involutive, T0, LD, ZL, L0. reflexivity.
Qed.

(* C04 for features with Rules: the feature's description, its feature-level scenarios and outlines, then any number of
   Rules, each with tag lines, a description and its own scenarios and outlines - everything is read back as written *)
Theorem a_feature_with_rules_is_read_back_exactly kw code fline falias fname fds its rules :
  feature_line kw fline falias fname -> Forall (descr_line kw) fds -> Forall (item_ok kw) its -> Forall (arule_ok kw) rules ->
  exists m',
    finish_table (fold_left feed (fline :: fds ++ flat_map item_lines its ++ flat_map arule_lines rules)
                            (ROk (init_state code kw VFeature StInitial))) = ROk m' /\
    m_table m' = None /\
    option_map fin_feature (m_feat m') =
    Some (mkPFeat falias fname 1 [] (map strip fds) None
                  (expected_items its (1 + length fds) ++
                   expected_rules rules (1 + length fds + length (flat_map item_lines its))) code).
Proof.
  intros [NB NC NT FA] FD OK RK. set (m0 := init_state code kw VFeature StInitial).
  assert (F0 : feed (ROk m0) fline = ROk (upd_st (build_feature (upd_line m0 1) falias fname) StFeature)).
  { rewrite (feed_nonblank m0 fline NB). rewrite (action_dispatch _ fline NB NC). cbn [upd_line m_st m0 init_state].
    unfold a_initial. rewrite match_at, NT. cbn [upd_line m_kw m0 init_state]. now rewrite FA. }
  set (m1 := upd_st (build_feature (upd_line m0 1) falias fname) StFeature) in *.
  set (f1 := mkPFeat falias fname 1 [] [] None [] code).
  destruct (feature_descr_lines_are_read fds m1 f1 eq_refl eq_refl eq_refl eq_refl eq_refl eq_refl FD)
    as (mD & FDD & STD & TD & IED & LND & CD & FDf & LD & KD & TGD).
  set (fD := mkPFeat (f_kw f1) (f_name f1) (f_line f1) (f_tags f1) (rev (map strip fds) ++ f_descr f1) (f_bg f1) (f_items f1) (f_lang f1)) in *.
  assert (BD : obody mD fD).
  { left. split; [exact IED|]. split; [exact LND|]. left. split; [exact TD|]. split; [left; exact STD|]. split; assumption. }
  assert (OKD : Forall (item_ok (m_kw mD)) its) by (rewrite KD; exact OK).
  assert (TGD' : m_tags mD = []) by (rewrite TGD; reflexivity).
  destruct (items_are_read its mD fD BD TGD' OKD) as (m' & f' & FD' & B' & T' & K' & IT & HD).
  destruct (with_items_fields f' fD HD) as (Ha & Hb & Hc & Hd & He & Hf & Hg).
  assert (RK' : Forall (arule_ok (m_kw m')) rules) by (rewrite K', KD; exact RK).
  destruct (rules_are_read rules m' f' B' T' RK') as (m2 & f2 & FD2 & (m'' & FIN & TB & FF) & HD2 & IT2).
  destruct (with_items_fields f2 f' HD2) as (Ga & Gb & Gc & Gd & Ge & Gf & Gg).
  cbn [fold_left]. rewrite F0. rewrite !fold_left_app, FDD, FD', FD2.
  exists m''. split; [exact FIN|]. split; [exact TB|]. rewrite FF. cbn [option_map]. f_equal.
  pose proof (fold_feed_line _ _ _ FD') as L'.
  unfold fin_feature. rewrite IT2, IT, L', LD.
  rewrite Ga, Gb, Gc, Gd, Ge, Gf, Gg, Ha, Hb, Hc, Hd, He, Hf, Hg.
  cbn [fD f1 f_kw f_name f_line f_tags f_descr f_bg f_lang f_items map rev app option_map m_line m1 upd_st build_feature upd_tags upd_tree upd_line m0 init_state].
  rewrite app_nil_r, rev_involutive. reflexivity.
Qed.

(* ... and the same with a Background (with steps) between the feature's description and its items: the scenarios and
   outlines of the feature and of every Rule then inherit it; the Rules themselves have no Background of their own *)
Theorem a_feature_with_background_items_and_rules_is_read_back_exactly
        kw code fline falias fname fds bline balias bname bsteps its rules :
  feature_line kw fline falias fname -> Forall (descr_line kw) fds ->
  background_line kw bline balias bname -> bsteps <> [] ->
  Forall (fun x => let '(line, t, k, text) := x in step_line kw line t k text) bsteps ->
  Forall (item_ok kw) its -> Forall (arule_ok kw) rules ->
  let lb := 1 + length fds in
  exists m',
    finish_table (fold_left feed (fline :: fds ++ bline :: map (fun x => fst (fst (fst x))) bsteps ++
                                  flat_map item_lines its ++ flat_map arule_lines rules)
                            (ROk (init_state code kw VFeature StInitial))) = ROk m' /\
    m_table m' = None /\
    option_map fin_feature (m_feat m') =
    Some (mkPFeat falias fname 1 [] (map strip fds)
                  (Some (mkPBg balias bname (S lb) (steps_of bsteps (S lb)) []))
                  (expected_items its (S lb + length bsteps) ++
                   expected_rules rules (S lb + length bsteps + length (flat_map item_lines its))) code).
Proof.
  intros [NB NC NT FA] FD BL BNE BS OK RK lb. set (m0 := init_state code kw VFeature StInitial).
  assert (F0 : feed (ROk m0) fline = ROk (upd_st (build_feature (upd_line m0 1) falias fname) StFeature)).
  { rewrite (feed_nonblank m0 fline NB). rewrite (action_dispatch _ fline NB NC). cbn [upd_line m_st m0 init_state].
    unfold a_initial. rewrite match_at, NT. cbn [upd_line m_kw m0 init_state]. now rewrite FA. }
  set (m1 := upd_st (build_feature (upd_line m0 1) falias fname) StFeature) in *.
  set (f1 := mkPFeat falias fname 1 [] [] None [] code).
  destruct (feature_descr_lines_are_read fds m1 f1 eq_refl eq_refl eq_refl eq_refl eq_refl eq_refl FD)
    as (mD & FDD & STD & TD & IED & LND & CD & FDf & LD & KD & TGD).
  set (fD := mkPFeat (f_kw f1) (f_name f1) (f_line f1) (f_tags f1) (rev (map strip fds) ++ f_descr f1) (f_bg f1) (f_items f1) (f_lang f1)) in *.
  assert (BLD : background_line (m_kw mD) bline balias bname) by (rewrite KD; exact BL).
  assert (TGD' : m_tags mD = []) by (rewrite TGD; reflexivity).
  destruct (feed_background_line mD fD bline balias bname STD CD FDf eq_refl eq_refl TGD' BLD)
    as (mB & FDB & STB & WB & LB & KB & TGB & TBB & IEB & LNB & GB).
  assert (BSB : Forall (fun x => let '(line, t, k, text) := x in step_line (m_kw mB) line t k text) bsteps) by (rewrite KB, KD; exact BS).
  destruct (bg_steps_are_read bsteps mB _ _ (or_introl STB) WB BSB) as (mS & fS & bS & FDS & STS & WS & FRS & LS & EBS & EFS).
  assert (STS' : m_st mS = StSteps) by (destruct STS as [X|[X _]]; [exact X|congruence]).
  destruct FRS as (_ & _ & _ & GS & KS & _ & _ & _ & _ & _ & TGS & LNS & TBS & IES).
  destruct WS as (AS & BSc & CS & DS & ES).
  assert (BODY : body mS fS).
  { split; [congruence|]. split; [congruence|]. left. split; [congruence|]. split; [right; left; exact STS'|]. split; assumption. }
  assert (OKS : Forall (item_ok (m_kw mS)) its) by (rewrite KS, KB, KD; exact OK).
  assert (TGS' : m_tags mS = []) by congruence.
  destruct (items_are_read its mS fS (or_introl BODY) TGS' OKS) as (m' & f' & FD' & B' & T' & K' & IT & HD).
  destruct (with_items_fields f' fS HD) as (Ha & Hb & Hc & Hd & He & Hf & Hg).
  assert (RK' : Forall (arule_ok (m_kw m')) rules) by (rewrite K', KS, KB, KD; exact RK).
  destruct (rules_are_read rules m' f' B' T' RK') as (m2 & f2 & FD2 & (m'' & FIN & TB & FF) & HD2 & IT2).
  destruct (with_items_fields f2 f' HD2) as (Ga & Gb & Gc & Gd & Ge & Gf & Gg).
  cbn [fold_left]. rewrite F0. rewrite fold_left_app, FDD. cbn [fold_left]. rewrite FDB. rewrite !fold_left_app, FDS, FD', FD2.
  exists m''. split; [exact FIN|]. split; [exact TB|]. rewrite FF. cbn [option_map]. f_equal.
  pose proof (fold_feed_line _ _ _ FD') as L'.
  unfold fin_feature. rewrite IT2, IT, L', LS, LB, LD.
  rewrite Ga, Gb, Gc, Gd, Ge, Gf, Gg, Ha, Hb, Hc, Hd, He, Hf, Hg.
  rewrite EFS, EBS. rewrite ?LB, ?LD.
  cbn [set_feat_bg bg_with_steps fD f1 f_kw f_name f_line f_tags f_items f_descr f_bg f_lang map rev app option_map fin_bg
       bg_kw bg_name bg_line bg_steps bg_descr m_line m1 upd_st build_feature upd_tags upd_tree upd_line m0 init_state].
  unfold fin_bg, bg_with_steps, lb. cbn [bg_kw bg_name bg_line bg_steps bg_descr rev app].
  rewrite ?app_nil_r, ?rev_involutive. reflexivity.
Qed.

(* non-vacuity: an English feature with a feature-level scenario and a tagged Rule with a description and a scenario
   satisfies every hypothesis of the theorem *)
Example an_english_feature_with_a_rule :
  let fline := [70; 101; 97; 116; 117; 114; 101; 58; 32; 70]%N in
  let its := [IScen ([], ([32; 32; 83; 99; 101; 110; 97; 114; 105; 111; 58; 32; 65]%N, [83; 99; 101; 110; 97; 114; 105; 111]%N, [65]%N), [],
                     [([32; 32; 32; 32; 71; 105; 118; 101; 110; 32; 97; 32; 117; 115; 101; 114]%N, SGiven, [71; 105; 118; 101; 110; 32]%N, [97; 32; 117; 115; 101; 114]%N, None, [])])] in
  let rules := [([([32; 32; 64; 114]%N, [[114]%N])], ([32; 32; 82; 117; 108; 101; 58; 32; 82]%N, [82; 117; 108; 101]%N, [82]%N), [[32; 32; 32; 32; 97; 98; 111; 117; 116; 32; 116; 104; 101; 32; 114; 117; 108; 101]%N],
                 [IScen ([], ([32; 32; 32; 32; 83; 99; 101; 110; 97; 114; 105; 111; 58; 32; 66]%N, [83; 99; 101; 110; 97; 114; 105; 111]%N, [66]%N), [],
                         [([32; 32; 32; 32; 32; 32; 84; 104; 101; 110; 32; 120]%N, SThen, [84; 104; 101; 110; 32]%N, [120]%N, None, [])])])] in
  feature_line english fline [70; 101; 97; 116; 117; 114; 101]%N [70]%N /\ Forall (item_ok english) its /\ Forall (arule_ok english) rules.
Proof.
  cbv zeta. split; [|split].
  - split; try (vm_compute; congruence); vm_compute; reflexivity.
  - repeat constructor; try (vm_compute; congruence); try (vm_compute; reflexivity).
    + exists RGiven. split; vm_compute; reflexivity.
  - repeat constructor; try (vm_compute; congruence); try (vm_compute; reflexivity).
    + exists RThen. split; vm_compute; reflexivity.
Qed.
