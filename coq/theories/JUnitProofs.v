(* JUnitProofs.v - proofs about JUnit.v *)
From BV Require Import Base UStr Status JUnit.
From BVGen Require Import StatusTable JUnitTables.
From Coq Require Import ZifyBool ZifyN.

(* ---- counters equal the numbers of entries ---- *)
Definition count_child (p : child -> bool) (cases : list tcase) : nat :=
  fold_right (fun tc acc => length (filter p (tc_children tc)) + acc) 0 cases.
Definition is_err (c : child) : bool := match c with CError => true | _ => false end.
Definition is_fail (c : child) : bool := match c with CFailure | CUndefinedFailure => true | _ => false end.
Definition is_skip (c : child) : bool := match c with CSkipped => true | _ => false end.

Definition consistent (x : counts * list tcase) : Prop :=
  n_tests (fst x) = length (snd x) /\ n_errors (fst x) = count_child is_err (snd x) /\
  n_failed (fst x) = count_child is_fail (snd x) /\ n_skipped (fst x) = count_child is_skip (snd x).

Lemma count_child_app p a b : count_child p (a ++ b) = count_child p a + count_child p b.
Proof. unfold count_child. induction a as [|x a IH]; cbn [app fold_right]; [reflexivity|]. rewrite IH. lia. Qed.

(* skipped scenarios are never failures or errors (the status predicates are generated from the code) *)
Lemma skipped_is_no_problem : is_error skipped = false /\ is_failure skipped = false.
Proof. split; reflexivity. Qed.

Lemma process_consistent show acc s : consistent acc -> consistent (process show acc s).
Proof.
  destruct acc as [c cases]. unfold consistent. cbn [fst snd]. intros [T [E [F K]]]. unfold process.
  destruct (is_error (j_status s)) eqn:IE.
  - assert (status_eqb (j_status s) skipped = false) as ->.
    { destruct (status_eqb (j_status s) skipped) eqn:X; [|reflexivity]. unfold status_eqb in X.
      destruct (status_eq_dec (j_status s) skipped) as [Y|]; [|discriminate]. rewrite Y in IE. discriminate. }
    cbn [negb orb fst snd n_tests n_errors n_failed n_skipped]. rewrite app_length, !count_child_app. cbn. lia.
  - destruct (is_failure (j_status s)) eqn:IF.
    + assert (status_eqb (j_status s) skipped = false) as ->.
      { destruct (status_eqb (j_status s) skipped) eqn:X; [|reflexivity]. unfold status_eqb in X.
        destruct (status_eq_dec (j_status s) skipped) as [Y|]; [|discriminate]. rewrite Y in IF. discriminate. }
      cbn [negb orb fst snd n_tests n_errors n_failed n_skipped]. rewrite app_length, !count_child_app. cbn. lia.
    + destruct (mem_status (j_status s) junit_skipped_statuses && show) eqn:SK.
      * apply andb_true_iff in SK as [_ SH]. subst show. rewrite orb_true_r.
        destruct (existsb _ (j_steps s)); cbn [fst snd n_tests n_errors n_failed n_skipped];
          rewrite app_length, !count_child_app; cbn; lia.
      * destruct (negb (status_eqb (j_status s) skipped) || show); cbn [fst snd n_tests n_errors n_failed n_skipped];
          rewrite ?app_length, ?count_child_app; cbn; lia.
Qed.

Theorem counters_match_entries show scens : consistent (report show scens).
Proof.
  unfold report.
  assert (G : forall acc, consistent acc -> consistent (fold_left (process show) scens acc)).
  { induction scens as [|s scens IH]; intros acc H; [exact H|]. cbn [fold_left]. apply IH. now apply process_consistent. }
  apply G. repeat split.
Qed.

(* ---- the test cases are the scenarios to report, in order; problems always carry an entry ---- *)
Definition kids_of (show : bool) (s : jscen) : list child :=
  if is_error (j_status s) then [CError]
  else if is_failure (j_status s) then [CFailure]
  else if mem_status (j_status s) junit_skipped_statuses && show
       then if existsb (fun st => mem_status st junit_problematic_statuses) (j_steps s) then [CUndefinedFailure; CSkipped] else [CSkipped]
       else [].

Definition tcase_of (show : bool) (s : jscen) : tcase :=
  mkTC (attr_content (j_name s)) (j_status s) (kids_of show s)
       (cdata_content (match j_stdout s with [] => [] | o => captured lbl_out o end))
       (match j_stderr s with [] => None | e => Some (cdata_content (captured lbl_err e)) end).

Definition reported (show : bool) (s : jscen) : bool := negb (status_eqb (j_status s) skipped) || show.

Lemma process_cases show c cases s :
  snd (process show (c, cases) s) = cases ++ (if reported show s then [tcase_of show s] else []).
Proof.
  unfold process, reported, tcase_of, kids_of.
  destruct (is_error (j_status s)); [|destruct (is_failure (j_status s));
    [|destruct (mem_status (j_status s) junit_skipped_statuses && show); [destruct (existsb _ (j_steps s))|]]];
    cbn [snd]; destruct (negb (status_eqb (j_status s) skipped) || show); cbn [snd]; now rewrite ?app_nil_r.
Qed.

Theorem test_cases_are_the_reported_scenarios show scens :
  snd (report show scens) = map (tcase_of show) (filter (reported show) scens).
Proof.
  unfold report.
  assert (G : forall c cases, snd (fold_left (process show) scens (c, cases)) =
                              cases ++ map (tcase_of show) (filter (reported show) scens)).
  { induction scens as [|s scens IH]; intros c cases; cbn [fold_left filter map]; [now rewrite app_nil_r|].
    destruct (process show (c, cases) s) as [c' cases'] eqn:P. rewrite IH.
    assert (cases' = snd (process show (c, cases) s)) as -> by (now rewrite P). rewrite process_cases.
    destruct (reported show s); cbn [map]; now rewrite <- app_assoc. }
  apply G.
Qed.

Theorem a_failed_or_errored_scenario_is_reported_with_an_entry show s :
  has_failed (j_status s) = true ->
  reported show s = true /\ (kids_of show s = [CError] \/ kids_of show s = [CFailure]).
Proof.
  intros H. unfold reported, kids_of.
  assert (X : is_error (j_status s) = true \/ is_failure (j_status s) = true) by (destruct (j_status s); cbn in *; auto; discriminate).
  assert (NS : status_eqb (j_status s) skipped = false) by (destruct (j_status s); try reflexivity; cbn in H; discriminate).
  rewrite NS. split; [reflexivity|]. destruct (is_error (j_status s)); [now left|]. destruct X as [X|X]; [discriminate|]. rewrite X. now right.
Qed.

(* ---- characters ---- *)
Definition code_point (c : N) : Prop := (c <= 1114111)%N.

Lemma invalid_ranges_cover_the_illegal_characters c :
  code_point c -> junit_invalid c = false -> xml_char c = true.
Proof.
  unfold code_point, junit_invalid, in_nranges, junit_invalid_ranges, xml_char. cbn [existsb fst snd]. intros L H.
  repeat (apply orb_false_elim in H as [?H H]). lia.
Qed.

Lemma digits_of_uint_digits d : Forall (fun c => (48 <= c <= 57)%N) (digits_of_uint d).
Proof. induction d; cbn [digits_of_uint]; constructor; try assumption; lia. Qed.

Lemma uplus_chars c : Forall (fun x => xml_char x = true) (uplus c).
Proof.
  unfold uplus, pad4. repeat constructor. apply Forall_app. split.
  - apply Forall_forall. intros x Hin. apply repeat_spec in Hin. now subst.
  - assert (D : Forall (fun x => (48 <= x <= 57)%N) (z_to_str (Z.of_N c))).
    { destruct c as [|p]; cbn; [repeat constructor; lia|apply digits_of_uint_digits]. }
    eapply Forall_impl; [|exact D]. cbv beta. intros x Hx. unfold xml_char. lia.
Qed.

Theorem escape_invalid_yields_xml_chars s :
  Forall code_point s -> Forall (fun x => xml_char x = true) (escape_invalid s).
Proof.
  intros H. unfold escape_invalid. induction H as [|c s Hc Hs IH]; cbn [flat_map]; [constructor|].
  apply Forall_app. split; [|exact IH].
  destruct (junit_invalid c) eqn:J; [apply uplus_chars|]. constructor; [|constructor].
  now apply invalid_ranges_cover_the_illegal_characters.
Qed.

(* ---- attribute values: the XML AttValue grammar - no raw less-than, ampersand or double quote, only references ---- *)
Definition entity_ok (t : ustr) : bool :=
  match t with
  | 38%N :: r => match rev r with
                 | 59%N :: body => forallb (fun c => xml_char c && negb (N.eqb c 60) && negb (N.eqb c 38) && negb (N.eqb c 34) && negb (N.eqb c 59)) body
                 | _ => false
                 end
  | _ => false
  end.

(* facts about ElementTree's escape table (decided by evaluation of the generated table) *)
Lemma escape_table_facts :
  forallb (fun e => entity_ok (snd e)) et_attr_escapes = true /\
  forallb (fun c => match assoc_esc c et_attr_escapes with Some _ => true | None => false end) [60; 38; 34]%N = true.
Proof. vm_compute. split; reflexivity. Qed.

Definition attr_token (t : ustr) : Prop :=
  entity_ok t = true \/ exists c, t = [c] /\ c <> 60%N /\ c <> 38%N /\ c <> 34%N /\ xml_char c = true.

Lemma assoc_esc_in c l t : assoc_esc c l = Some t -> In (c, t) l.
Proof.
  induction l as [|[a u] l IH]; [discriminate|]. cbn [assoc_esc]. destruct (N.eqb a c) eqn:E.
  - intros H. inversion H. apply N.eqb_eq in E. subst. now left.
  - intros H. right. now apply IH.
Qed.

Theorem attribute_text_is_a_valid_attvalue v :
  Forall code_point v ->
  exists toks, attr_content v = concat toks /\ Forall attr_token toks.
Proof.
  intros H. unfold attr_content, et_escape_attrib.
  pose proof (escape_invalid_yields_xml_chars v H) as X.
  induction X as [|c s Hc Hs IH]; [exists []; split; [reflexivity|constructor]|].
  destruct IH as [toks [E F]]. cbn [flat_map]. destruct (assoc_esc c et_attr_escapes) as [t|] eqn:A.
  - exists (t :: toks). split; [cbn [concat]; now rewrite E|]. constructor; [|exact F]. left.
    destruct escape_table_facts as [T _]. rewrite forallb_forall in T. apply (T (c, t)). now apply assoc_esc_in.
  - exists ([c] :: toks). split; [cbn [concat]; now rewrite E|]. constructor; [|exact F]. right. exists c.
    destruct escape_table_facts as [_ T]. cbn [forallb] in T.
    repeat split; try exact Hc; intros ->; rewrite A in T; cbn in T; discriminate.
Qed.

(* ---- CDATA sections never contain "]]>" ---- *)
Fixpoint has_end (s : ustr) : bool := match s with [] => false | _ :: r => prefixb cdata_end s || has_end r end.

Lemma has_end_no93 w X : forallb (fun c => negb (N.eqb c 93)) w = true -> has_end (w ++ X) = has_end X.
Proof.
  induction w as [|c w IH]; intros H; [reflexivity|]. cbn [forallb] in H. apply andb_true_iff in H as [Hc H].
  cbn [app has_end]. rewrite IH by exact H. apply negb_true_iff in Hc.
  unfold cdata_end. cbn [prefixb]. rewrite N.eqb_sym, Hc. reflexivity.
Qed.

Definition special (c : N) : bool := N.eqb c 93 || N.eqb c 62.

Section FlatMap.
  Variable f : N -> ustr.
  Hypothesis f_special : forall c, special c = true -> f c = [c].
  Hypothesis f_other : forall c, special c = false ->
    (exists h t, f c = h :: t /\ special h = false) /\ forallb (fun x => negb (N.eqb x 93)) (f c) = true.

  Lemma prefix_flat_map p r :
    forallb special p = true -> prefixb p (flat_map f r) = prefixb p r.
  Proof.
    revert r. induction p as [|a p IH]; intros r H; [reflexivity|].
    cbn [forallb] in H. apply andb_true_iff in H as [Ha H].
    destruct r as [|x r]; [reflexivity|]. cbn [flat_map]. destruct (special x) eqn:S.
    - rewrite (f_special x S). cbn [app prefixb]. now rewrite IH.
    - destruct (f_other x S) as [[h [t [E Sh]]] _]. rewrite E. cbn [app prefixb].
      assert (N.eqb a h = false) as ->.
      { destruct (N.eqb a h) eqn:X; [|reflexivity]. apply N.eqb_eq in X. subst. congruence. }
      assert (N.eqb a x = false) as ->.
      { destruct (N.eqb a x) eqn:X; [|reflexivity]. apply N.eqb_eq in X. subst. congruence. }
      reflexivity.
  Qed.

  Lemma has_end_flat_map s : has_end (flat_map f s) = has_end s.
  Proof.
    induction s as [|c s IH]; [reflexivity|]. cbn [flat_map]. destruct (special c) eqn:S.
    - rewrite (f_special c S). cbn [app has_end]. rewrite IH. f_equal.
      change (c :: flat_map f s) with (flat_map f (c :: s)) at 1 || idtac.
      assert (P : prefixb cdata_end (flat_map f (c :: s)) = prefixb cdata_end (c :: s)) by (apply prefix_flat_map; reflexivity).
      cbn [flat_map] in P. rewrite (f_special c S) in P. exact P.
    - destruct (f_other c S) as [_ N93]. rewrite has_end_no93 by exact N93. rewrite IH.
      cbn [has_end]. unfold cdata_end at 1. cbn [prefixb].
      assert (N.eqb 93 c = false) as ->.
      { unfold special in S. apply orb_false_elim in S as [S _]. now rewrite N.eqb_sym. }
      reflexivity.
  Qed.
End FlatMap.

Lemma escape_invalid_keeps_no_end s : has_end (escape_invalid s) = has_end s.
Proof.
  unfold escape_invalid. apply has_end_flat_map.
  - intros c S. assert (junit_invalid c = false) as ->; [|reflexivity].
    unfold special in S. apply orb_true_iff in S as [S|S]; apply N.eqb_eq in S; subst; reflexivity.
  - intros c S. destruct (junit_invalid c).
    + split; [exists 85%N, (43%N :: pad4 (z_to_str (Z.of_N c))); split; reflexivity|].
      unfold uplus. cbn [app forallb]. cbn [N.eqb Pos.eqb negb andb].
      unfold pad4. rewrite forallb_app. apply andb_true_iff. split.
      * apply forallb_forall. intros x Hin. apply repeat_spec in Hin. now subst.
      * apply forallb_forall. intros x Hin.
        assert (D : Forall (fun x => (48 <= x <= 57)%N) (z_to_str (Z.of_N c))).
        { destruct c as [|p]; cbn; [repeat constructor; lia|apply digits_of_uint_digits]. }
        rewrite Forall_forall in D. specialize (D x Hin). apply negb_true_iff. apply N.eqb_neq. lia.
    + split; [exists c, []; split; [reflexivity|exact S]|]. cbn [forallb]. unfold special in S.
      apply orb_false_elim in S as [S _]. now rewrite S.
Qed.

(* replacing "]]>" by "]]&gt;" leaves no "]]>" *)
Lemma starts_gt f r : length r < f ->
  prefixb [62%N] (replace_aux f cdata_end cdata_end_escaped r) = true -> prefixb [62%N] r = true.
Proof.
  intros L. destruct f as [|f]; [lia|]. destruct r as [|y r]; [discriminate|]. cbn [replace_aux].
  destruct (prefixb cdata_end (y :: r)); [discriminate|]. cbn [prefixb]. auto.
Qed.

Lemma starts_bracket_gt f r : length r < f ->
  prefixb [93; 62]%N (replace_aux f cdata_end cdata_end_escaped r) = true -> prefixb [93; 62]%N r = true.
Proof.
  intros L. destruct f as [|f]; [lia|]. destruct r as [|x r]; [discriminate|]. cbn [replace_aux].
  destruct (prefixb cdata_end (x :: r)); [discriminate|]. cbn [prefixb]. intros H.
  apply andb_true_iff in H as [H1 H2]. rewrite H1. cbn [andb]. apply (starts_gt f r); [cbn [length] in L; lia|exact H2].
Qed.

Lemma has_end_escaped Z : has_end (cdata_end_escaped ++ Z) = has_end Z.
Proof. unfold cdata_end_escaped. cbn [app has_end]. unfold cdata_end. cbn [prefixb N.eqb Pos.eqb andb orb]. reflexivity. Qed.

Lemma replace_leaves_no_end f s : length s < f -> has_end (replace_aux f cdata_end cdata_end_escaped s) = false.
Proof.
  revert s. induction f as [|f IH]; intros s L; [lia|]. destruct s as [|c r]; [reflexivity|]. cbn [replace_aux].
  destruct (prefixb cdata_end (c :: r)) eqn:P.
  - rewrite has_end_escaped. apply IH.
    cbn [length] in L. unfold cdata_end. cbn [length]. destruct r as [|a [|b r']]; cbn [skipn length] in *; lia.
  - cbn [has_end]. rewrite IH by (cbn [length] in L; lia). rewrite orb_false_r.
    destruct (prefixb cdata_end (c :: replace_aux f cdata_end cdata_end_escaped r)) eqn:Q; [|reflexivity]. exfalso.
    unfold cdata_end in Q at 1. cbn [prefixb] in Q. apply andb_true_iff in Q as [Q1 Q2].
    apply (starts_bracket_gt f r) in Q2; [|cbn [length] in L; lia].
    unfold cdata_end in P. cbn [prefixb] in P. rewrite Q1 in P. cbn [andb] in P. cbn [prefixb] in Q2. congruence.
Qed.

Theorem cdata_text_never_contains_the_terminator text : has_end (cdata_content text) = false.
Proof.
  unfold cdata_content, escape_cdata. destruct (strip_escapes text) as [|c r] eqn:E; [reflexivity|].
  rewrite escape_invalid_keeps_no_end. unfold replace_all. apply replace_leaves_no_end. lia.
Qed.

(* has_end is the substring test *)
Lemma has_end_spec s : has_end s = true <-> exists a b, s = a ++ cdata_end ++ b.
Proof.
  split.
  - induction s as [|c s IH]; [discriminate|]. cbn [has_end]. intros H. apply orb_true_iff in H as [H|H].
    + exists [], (skipn (length cdata_end) (c :: s)). cbn [app].
      clear IH. revert H. generalize (c :: s) as t. intros t H.
      assert (G : forall p t, prefixb p t = true -> t = p ++ skipn (length p) t).
      { induction p as [|a p IHp]; intros [|b t'] Hp; try reflexivity; try discriminate.
        cbn in Hp. apply andb_true_iff in Hp as [E Hp]. apply N.eqb_eq in E. subst. cbn. f_equal. now apply IHp. }
      now apply G.
    + destruct (IH H) as [a [b E]]. exists (c :: a), b. now rewrite E.
  - intros [a [b E]]. subst s. induction a as [|x a IH]; cbn [app has_end].
    + reflexivity.
    + rewrite IH. apply orb_true_r.
Qed.

Theorem cdata_text_is_made_of_xml_chars text :
  Forall code_point (strip_escapes text) -> Forall (fun x => xml_char x = true) (cdata_content text).
Proof.
  intros H. unfold cdata_content, escape_cdata. destruct (strip_escapes text) as [|c r] eqn:E; [constructor|].
  apply escape_invalid_yields_xml_chars.
  (* replacing "]]>" by "]]&gt;" introduces only '&', 'g', 't', ';' *)
  assert (G : forall f s, Forall code_point s -> Forall code_point (replace_aux f cdata_end cdata_end_escaped s)).
  { induction f as [|f IH]; intros s Hs; [exact Hs|]. destruct s as [|x s']; [constructor|]. cbn [replace_aux].
    destruct (prefixb cdata_end (x :: s')).
    - apply Forall_app. split; [unfold cdata_end_escaped, code_point; repeat constructor; lia|].
      apply IH. clear -Hs. revert Hs. generalize (x :: s'). intros l Hl. unfold cdata_end. cbn [length].
      destruct l as [|a [|b [|c0 l']]]; cbn [skipn]; try constructor;
        inversion Hl as [|? ? ? H1]; subst; inversion H1 as [|? ? ? H2]; subst; inversion H2; subst; assumption.
    - inversion Hs; subst. constructor; [assumption|]. now apply IH. }
  now apply G.
Qed.
