(* GherkinBgProofs.v - C04 at the level of the state machine: the feature's Background (its line
   and its plain Given/When/Then steps), in front of everything GherkinDescrProofs covers. *)
From BV Require Import Base UStr GherkinTypes Gherkin GherkinProofs GherkinRowProofs GherkinBlockProofs GherkinTagProofs
                       GherkinTableProofs GherkinDocProofs GherkinRichProofs GherkinDescrProofs.

(* the statement being filled is the feature's background; no scenario yet *)
Definition at_feature_bg (m : mstate) (f : pfeature) (b : pbg) : Prop :=
  m_stmt m = PBg /\ m_cont m = CFeat /\ m_feat m = Some f /\ f_bg f = Some b /\ f_items f = [].

Definition bg_with_steps (b : pbg) (l : list pstep) : pbg := mkPBg (bg_kw b) (bg_name b) (bg_line b) l (bg_descr b).

Lemma get_stmt_bg m f b : at_feature_bg m f b -> get_stmt m = Some (VBg b).
Proof. intros (A & B & C & D & _). unfold get_stmt, cont_bg. now rewrite A, B, C, D. Qed.

Lemma append_step_bg m f b st :
  at_feature_bg m f b ->
  exists m', append_step m st = Some m' /\
             at_feature_bg m' (set_feat_bg f (Some (bg_with_steps b (st :: bg_steps b)))) (bg_with_steps b (st :: bg_steps b)) /\
             frame_eq m m' /\ m_line m' = m_line m /\ m_last m' = m_last m /\ m_st m' = m_st m.
Proof.
  intros W. pose proof (get_stmt_bg _ _ _ W) as G. destruct W as (A & B & C & D & E).
  unfold append_step. rewrite G. cbn [view_steps view_set_steps]. eexists. split; [reflexivity|].
  unfold set_stmt. rewrite A. unfold set_cont_bg. rewrite B, C.
  split; [|split; [|repeat split]].
  - unfold at_feature_bg, set_feat_bg, bg_with_steps. cbn. repeat split; auto.
  - unfold frame_eq. cbn. repeat split; auto.
Qed.

Record background_line (kw : kwtable) (line alias name : ustr) : Prop := {
  bl_nonblank : strip line <> [];
  bl_nocomment : first_is cp_hash (strip line) = false;
  bl_notag : starts_at (strip line) = false;
  bl_norule : first_alias (k_rule kw) (strip line) = None;
  bl_noscenario : first_alias (k_scenario kw) (strip line) = None;
  bl_nooutline : first_alias (k_outline kw) (strip line) = None;
  bl_noexamples : first_alias (k_examples kw) (strip line) = None;
  bl_background : first_alias (k_background kw) (strip line) = Some (alias, name) }.

Lemma feed_background_line m f line alias name :
  m_st m = StFeature -> m_cont m = CFeat -> m_feat m = Some f -> f_bg f = None -> f_items f = [] -> m_tags m = [] ->
  background_line (m_kw m) line alias name ->
  let b := mkPBg alias name (S (m_line m)) [] [] in
  exists m', feed (ROk m) line = ROk m' /\ m_st m' = StBackground /\ at_feature_bg m' (set_feat_bg f (Some b)) b /\
             m_line m' = S (m_line m) /\ m_kw m' = m_kw m /\ m_tags m' = [] /\ m_table m' = m_table m /\
             m_in_examples m' = m_in_examples m /\ m_lines m' = m_lines m /\ m_lang m' = m_lang m.
Proof.
  intros ST C F BG IT TG [NB NC NA NR NSc NO NE BK] b.
  set (m1 := upd_line m (S (m_line m))).
  rewrite (feed_nonblank m line NB). fold m1. rewrite (action_dispatch m1 line NB NC). cbn [m1 upd_line m_st]. rewrite ST.
  unfold a_feature. rewrite (sub_taggable_none m1 (strip line) NA NR NSc NO NE). cbn [rbind m1 upd_line m_kw]. rewrite BK.
  unfold build_background. cbn [m1 upd_line m_tags m_cont]. rewrite TG, C. unfold cont_bg. cbn [m1 upd_line m_cont m_feat]. rewrite C, F, BG.
  cbn [rbind]. eexists. split; [reflexivity|].
  unfold set_cont_bg. cbn [m1 upd_line m_cont m_feat]. rewrite C, F.
  unfold at_feature_bg, set_feat_bg, b. cbn. repeat split; auto.
Qed.

(* a step line of the background: the first one (state "background") or a later one (state "steps") *)
Lemma feed_bg_step_line m f b line t k text :
  (m_st m = StBackground \/ m_st m = StSteps) -> at_feature_bg m f b -> step_line (m_kw m) line t k text ->
  let st := mkPStep (rstrip k) t text (S (m_line m)) None None in
  exists m', feed (ROk m) line = ROk m' /\ m_st m' = StSteps /\
             at_feature_bg m' (set_feat_bg f (Some (bg_with_steps b (st :: bg_steps b)))) (bg_with_steps b (st :: bg_steps b)) /\
             frame_eq m m' /\ m_line m' = S (m_line m).
Proof.
  intros ST W [ND NB NC [rt [SF TY]] NS] st.
  set (m1 := upd_line m (S (m_line m))).
  assert (W1 : at_feature_bg m1 f b) by (destruct W as (A & B & C & D & E); unfold at_feature_bg; cbn; auto).
  rewrite (feed_nonblank m line NB). fold m1. rewrite (action_dispatch m1 line NB NC). cbn [m1 upd_line m_st].
  destruct ST as [ST|ST]; rewrite ST.
  - unfold a_scenario. set (m1' := upd_last m1 None).
    rewrite (parse_step_plain m1' (strip line) rt k text t SF TY NS). cbn [rbind].
    set (m2 := upd_last m1' (Some t)).
    assert (W2 : at_feature_bg m2 f b) by (destruct W1 as (A & B & C & D & E); unfold at_feature_bg; cbn; auto).
    destruct (append_step_bg m2 f b (mkPStep (rstrip k) t text (m_line m1') None None) W2) as [m3 [AP [W3 [FR [L3 [LA S3]]]]]].
    rewrite AP. eexists. split; [reflexivity|]. split; [reflexivity|]. split.
    + destruct W3 as (A & B & C & D & E). unfold at_feature_bg. cbn. auto.
    + split; [|cbn; rewrite L3; reflexivity].
      apply (frame_trans m m2); [unfold frame_eq; cbn; repeat split|].
      destruct FR as [F1 [F2 [F3 [F4 [F5 [F6 [F7 [F8 [F9 [F10 [F11 [F12 [F13 F14]]]]]]]]]]]]]. unfold frame_eq. cbn. repeat split; assumption.
  - unfold a_steps. rewrite ND.
    rewrite (parse_step_plain m1 (strip line) rt k text t SF TY NS). cbn [rbind].
    set (m2 := upd_last m1 (Some t)).
    assert (W2 : at_feature_bg m2 f b) by (destruct W1 as (A & B & C & D & E); unfold at_feature_bg; cbn; auto).
    destruct (append_step_bg m2 f b (mkPStep (rstrip k) t text (m_line m1) None None) W2) as [m3 [AP [W3 [FR [L3 [LA S3]]]]]].
    rewrite AP. exists m3. split; [reflexivity|]. split; [rewrite S3; exact ST|]. split; [exact W3|].
    split; [|rewrite L3; reflexivity].
    apply (frame_trans m m2 m3); [|exact FR]. unfold frame_eq. cbn. repeat split.
Qed.

Lemma bg_steps_are_read lines : forall m f b,
  (m_st m = StBackground \/ m_st m = StSteps) -> at_feature_bg m f b ->
  Forall (fun x => let '(line, t, k, text) := x in step_line (m_kw m) line t k text) lines ->
  exists m' f' b',
    fold_left feed (map (fun x => fst (fst (fst x))) lines) (ROk m) = ROk m' /\
    (m_st m' = StSteps \/ (lines = [] /\ m_st m' = m_st m)) /\
    at_feature_bg m' f' b' /\ frame_eq m m' /\ m_line m' = m_line m + length lines /\
    b' = bg_with_steps b (rev (steps_of lines (m_line m)) ++ bg_steps b) /\ f' = set_feat_bg f (Some b').
Proof.
  induction lines as [|[[[line t] k] text] lines IH]; intros m f b ST W F.
  - exists m, f, b. cbn [map fold_left steps_of rev app length]. split; [reflexivity|]. split; [right; auto|]. split; [exact W|].
    split; [apply frame_refl|]. split; [lia|]. destruct W as (_ & _ & _ & D & _). destruct b, f; cbn in *. split; [reflexivity|]. now rewrite D.
  - inversion F as [|? ? H1 H2]. subst.
    destruct (feed_bg_step_line m f b line t k text ST W H1) as [m1 [FD [ST1 [W1 [FR1 L1]]]]].
    assert (KW : m_kw m1 = m_kw m) by (destruct FR1 as [_ [_ [_ [_ [K _]]]]]; exact K).
    assert (F1 : Forall (fun x => let '(line0, t0, k0, text0) := x in step_line (m_kw m1) line0 t0 k0 text0) lines) by (now rewrite KW).
    destruct (IH m1 _ _ (or_intror ST1) W1 F1) as [m' [f' [b' [FD' [ST' [W' [FR' [L' [EB EF]]]]]]]]].
    exists m', f', b'. cbn [map fold_left fst]. rewrite FD. split; [exact FD'|]. split.
    + left. destruct ST' as [X|[_ X]]; congruence.
    + split; [exact W'|]. split; [apply (frame_trans m m1 m'); assumption|]. split; [cbn [length]; lia|]. split.
      * rewrite EB. cbn [steps_of rev]. rewrite L1. unfold bg_with_steps. cbn. now rewrite <- app_assoc.
      * rewrite EF. unfold set_feat_bg. cbn. reflexivity.
Qed.

(* C04: feature line, feature description, background with its steps, then the scenarios *)
Theorem a_feature_with_background_is_read_back_exactly kw code fline falias fname fds bline balias bname bsteps scens :
  feature_line kw fline falias fname -> Forall (descr_line kw) fds ->
  background_line kw bline balias bname -> bsteps <> [] ->
  Forall (fun x => let '(line, t, k, text) := x in step_line kw line t k text) bsteps ->
  Forall (yscen_ok kw) scens ->
  let lb := 1 + length fds in
  exists m',
    finish_table (fold_left feed (fline :: fds ++ bline :: map (fun x => fst (fst (fst x))) bsteps ++ flat_map yscen_lines scens)
                            (ROk (init_state code kw VFeature StInitial))) = ROk m' /\
    m_table m' = None /\
    option_map fin_feature (m_feat m') =
    Some (mkPFeat falias fname 1 [] (map strip fds)
                  (Some (mkPBg balias bname (S lb) (steps_of bsteps (S lb)) []))
                  (expected_y scens (S lb + length bsteps)) code).
Proof.
  intros [NB NC NT FA] FD BL BNE BS OK lb. set (m0 := init_state code kw VFeature StInitial).
  assert (F0 : feed (ROk m0) fline = ROk (upd_st (build_feature (upd_line m0 1) falias fname) StFeature)).
  { rewrite (feed_nonblank m0 fline NB). rewrite (action_dispatch _ fline NB NC). cbn [upd_line m_st m0 init_state].
    unfold a_initial. rewrite match_at, NT. cbn [upd_line m_kw m0 init_state]. now rewrite FA. }
  set (m1 := upd_st (build_feature (upd_line m0 1) falias fname) StFeature) in *.
  set (f1 := mkPFeat falias fname 1 [] [] None [] code).
  destruct (feature_descr_lines_are_read fds m1 f1 eq_refl eq_refl eq_refl eq_refl eq_refl eq_refl FD)
    as (mD & FDD & STD & TD & IED & LND & CD & FDf & LD & KD & TGD).
  set (fD := mkPFeat (f_kw f1) (f_name f1) (f_line f1) (f_tags f1) (rev (map strip fds) ++ f_descr f1) (f_bg f1) (f_items f1) (f_lang f1)) in *.
  assert (BLD : background_line (m_kw mD) bline balias bname) by (rewrite KD; exact BL).
  assert (TGD' : m_tags mD = []) by (rewrite TGD; reflexivity).
  destruct (feed_background_line mD fD bline balias bname STD CD FDf eq_refl eq_refl TGD' BLD)
    as (mB & FDB & STB & WB & LB & KB & TGB & TBB & IEB & LNB & GB).
  assert (BSB : Forall (fun x => let '(line, t, k, text) := x in step_line (m_kw mB) line t k text) bsteps) by (rewrite KB, KD; exact BS).
  destruct (bg_steps_are_read bsteps mB _ _ (or_introl STB) WB BSB) as (mS & fS & bS & FDS & STS & WS & FRS & LS & EBS & EFS).
  assert (STS' : m_st mS = StSteps) by (destruct STS as [X|[X _]]; [exact X|congruence]).
  destruct FRS as (_ & _ & _ & GS & KS & _ & _ & _ & _ & _ & TGS & LNS & TBS & IES).
  destruct WS as (AS & BSc & CS & DS & ES).
  assert (BODY : body mS fS).
  { split; [congruence|]. split; [congruence|]. left. split; [congruence|]. split; [right; left; exact STS'|]. split; assumption. }
  assert (OKS : Forall (yscen_ok (m_kw mS)) scens) by (rewrite KS, KB, KD; exact OK).
  assert (TGS' : m_tags mS = []) by congruence.
  destruct (y_scenarios_are_read scens mS fS BODY TGS' OKS) as (m' & f' & FD' & B' & T' & K' & IT & HD).
  cbn [fold_left]. rewrite F0. rewrite fold_left_app, FDD. cbn [fold_left]. rewrite FDB. rewrite fold_left_app, FDS, FD'.
  unfold finish_table. cbn [rbind].
  assert (FIN : fin_feature f' = mkPFeat falias fname 1 [] (map strip fds)
                  (Some (mkPBg balias bname (S lb) (steps_of bsteps (S lb)) [])) (expected_y scens (S lb + length bsteps)) code).
  { unfold fin_feature. rewrite IT. rewrite LS, LB, LD.
    unfold with_items in HD. cbn in HD. inversion HD as [[H1 H2 H3 H4 H5 H6 H7]]. rewrite H1, H2, H3, H4, H5, H6, H7.
    rewrite EFS, EBS. rewrite ?LB, ?LD.
    cbn [set_feat_bg bg_with_steps fD f1 f_kw f_name f_line f_tags f_items f_descr f_bg f_lang map rev app option_map fin_bg
         bg_kw bg_name bg_line bg_steps bg_descr m_line m1 upd_st build_feature upd_tags upd_tree upd_line m0 init_state].
    unfold fin_bg, bg_with_steps, lb. cbn [bg_kw bg_name bg_line bg_steps bg_descr rev app].
    rewrite ?app_nil_r, ?rev_involutive. reflexivity. }
  destruct B' as [IE [_ [[TB [ST [C F]]] | (f0 & s0 & rest & st & r & t & PD & EF)]]].
  - rewrite TB. eexists. split; [reflexivity|]. split; [exact TB|]. rewrite F. cbn [option_map]. now rewrite FIN.
  - destruct PD as (_ & ST & TB & W & HS & _). rewrite TB.
    destruct (closed_state m' f0 s0 rest st r t W HS TB IE) as (_ & W1 & T1 & _).
    eexists. split; [reflexivity|]. split; [exact T1|].
    destruct W1 as [_ [_ [C1 _]]]. rewrite C1. cbn [option_map]. fold (closed_feature f0 s0 rest st r t). rewrite <- EF. now rewrite FIN.
Qed.
