(* GherkinTypes.v - types shared by the generated keyword tables and the parser model. *)
From BV Require Import Base.

Record kwtable := mkKw {
  k_feature : list ustr; k_rule : list ustr; k_background : list ustr; k_scenario : list ustr;
  k_outline : list ustr; k_examples : list ustr;
  k_given : list ustr; k_when : list ustr; k_then : list ustr; k_and : list ustr; k_but : list ustr }.
