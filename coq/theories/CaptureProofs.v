(* CaptureProofs.v — C18 lemmas about Capture.v *)
From BV Require Import Base Capture.

(* a scenario as the runner drives the controller: setup, then per step start / writes / stop *)
Definition step_ops (writes : list (chan * nat)) : list capop :=
  CapStart :: map (fun w => CapWrite (fst w) (snd w)) writes ++ [CapStop].

Definition markers (c : chan) (writes : list (chan * nat)) : list nat :=
  map snd (filter (fun w => match fst w, c with ChOut, ChOut | ChErr, ChErr | ChLog, ChLog => true | _, _ => false end) writes).

Definition streams_real (st : capst) : Prop :=
  sys_out st = None /\ sys_err st = None /\ old_out st = false /\ old_err st = false.

Definition ready (cfg : capcfg) (st : capst) : Prop :=
  streams_real st /\ crashed st = false /\
  (cc_log cfg = true -> existsb (handler_eqb (HCapture (gen st))) (root_handlers st) = true /\
                        (cc_clear cfg = true -> user_ids (root_handlers st) = [])).

Lemma cap_run_app cfg st a b :
  cap_run cfg st (a ++ b) =
  let '(s1, o1) := cap_run cfg st a in let '(s2, o2) := cap_run cfg s1 b in (s2, o1 ++ o2).
Proof.
  revert st; induction a as [|op a IH]; intros st; cbn [cap_run app].
  - destruct (cap_run cfg st b); reflexivity.
  - destruct (cap_step cfg st op) as [s1 o]. rewrite IH. destruct (cap_run cfg s1 a) as [s2 o2].
    destruct (cap_run cfg s2 b) as [s3 o3]. destruct op; reflexivity.
Qed.

(* ---- stop always gives the real streams back (for an enabled channel), from ANY state *)
Lemma stop_restores cfg st :
  let st' := fst (cap_step cfg st CapStop) in
  (cc_out cfg = true -> old_out st = true -> sys_out st' = None) /\
  (cc_err cfg = true -> old_err st = true -> sys_err st' = None) /\
  (cc_out cfg = true -> old_out st' = false) /\ (cc_err cfg = true -> old_err st' = false).
Proof. cbn. destruct (cc_out cfg), (cc_err cfg), (old_out st), (old_err st); cbn; repeat split; auto; discriminate. Qed.

(* ---- disabled channel: writes pass straight through, whatever the controller does *)
Definition never_captures_out (st : capst) : Prop := sys_out st = None.

Lemma disabled_out_step cfg st op :
  cc_out cfg = false -> sys_out st = None ->
  sys_out (fst (cap_step cfg st op)) = None /\
  real_out (fst (cap_step cfg st op)) =
  real_out st ++ match op with CapWrite ChOut m => [m] | _ => [] end.
Proof.
  intros Hc Hs. destruct op; cbn; rewrite ?Hc, ?Hs; cbn; rewrite ?app_nil_r; auto.
  - destruct (cc_err cfg); [destruct (old_err st)|]; cbn; rewrite ?app_nil_r; auto.
  - destruct (cc_err cfg); [destruct (old_err st)|]; cbn; rewrite ?app_nil_r; auto.
  - destruct (cc_log cfg && has_log st); cbn; rewrite ?app_nil_r; auto.
  - destruct c; cbn; rewrite ?Hs; cbn; rewrite ?app_nil_r; auto.
    + destruct (sys_err st); [destruct (Nat.eqb _ _)|]; cbn; rewrite ?app_nil_r; auto.
    + destruct (root_handlers st); cbn; rewrite ?app_nil_r; auto.
      destruct (sys_err st); [destruct (Nat.eqb _ _)|]; cbn; rewrite ?app_nil_r; auto.
Qed.

Fixpoint out_writes (ops : list capop) : list nat :=
  match ops with
  | [] => []
  | CapWrite ChOut m :: r => m :: out_writes r
  | _ :: r => out_writes r
  end.

Lemma disabled_passes_through cfg ops : forall st,
  cc_out cfg = false -> sys_out st = None ->
  real_out (fst (cap_run cfg st ops)) = real_out st ++ out_writes ops /\
  sys_out (fst (cap_run cfg st ops)) = None.
Proof.
  induction ops as [|op ops IH]; intros st Hc Hs; cbn [cap_run out_writes].
  - cbn. rewrite app_nil_r. auto.
  - destruct (cap_step cfg st op) as [st1 o] eqn:E.
    pose proof (disabled_out_step cfg st op Hc Hs) as [A B]. rewrite E in A, B. cbn [fst] in A, B.
    destruct (IH st1 Hc A) as [C D]. destruct (cap_run cfg st1 ops) as [st2 os]. cbn [fst] in *.
    split; [|exact D]. rewrite C, B. rewrite <- app_assoc. f_equal.
    destruct op; try reflexivity. destruct c; reflexivity.
Qed.

(* ---- one captured step: nothing reaches the real streams, everything lands in the buffers,
   and the real streams are back afterwards *)
Definition capturing (st : capst) : Prop :=
  sys_out st = Some (gen st) /\ sys_err st = Some (gen st) /\ old_out st = true /\ old_err st = true /\
  existsb (handler_eqb (HCapture (gen st))) (root_handlers st) = true /\
  user_ids (root_handlers st) = [].

Definition only (c c' : chan) (m : nat) : list nat :=
  match c, c' with ChOut, ChOut | ChErr, ChErr | ChLog, ChLog => [m] | _, _ => [] end.

Definition same_env (s s' : capst) : Prop :=
  real_out s' = real_out s /\ real_err s' = real_err s /\ handler_seen s' = handler_seen s /\
  crashed s' = crashed s /\ gen s' = gen s /\ root_handlers s' = root_handlers s /\
  root_level s' = root_level s.

Lemma write_while_capturing cfg s c m :
  capturing s ->
  let s' := fst (cap_step cfg s (CapWrite c m)) in
  capturing s' /\ same_env s s' /\
  buf_out s' = buf_out s ++ only ChOut c m /\ buf_err s' = buf_err s ++ only ChErr c m /\
  buf_log s' = buf_log s ++ only ChLog c m.
Proof.
  intros (A1 & A2 & A3 & A4 & A5 & A6). unfold capturing, same_env.
  destruct c; cbn [cap_step].
  - rewrite A1, Nat.eqb_refl. cbn. rewrite !app_nil_r. repeat split; auto.
  - rewrite A2, Nat.eqb_refl. cbn. rewrite !app_nil_r. repeat split; auto.
  - destruct (root_handlers s) as [|h0 hs] eqn:Eh; [discriminate|]. rewrite <- Eh in *.
    rewrite A5, A6. cbn. rewrite !app_nil_r. repeat split; auto.
Qed.

Lemma markers_cons c w ws : markers c (w :: ws) = only c (fst w) (snd w) ++ markers c ws.
Proof. destruct w as [c' m]. unfold markers. cbn. destruct c', c; reflexivity. Qed.

Lemma writes_while_capturing cfg ws : forall s,
  capturing s ->
  let s' := fst (cap_run cfg s (map (fun w => CapWrite (fst w) (snd w)) ws)) in
  capturing s' /\ same_env s s' /\
  buf_out s' = buf_out s ++ markers ChOut ws /\ buf_err s' = buf_err s ++ markers ChErr ws /\
  buf_log s' = buf_log s ++ markers ChLog ws.
Proof.
  induction ws as [|w ws IH]; intros s Hc.
  - cbn. rewrite !app_nil_r. unfold same_env. split; [exact Hc|]. repeat split; auto.
  - cbn [map cap_run].
    pose proof (write_while_capturing cfg s (fst w) (snd w) Hc) as (B0 & B1 & B2 & B3 & B4).
    destruct (cap_step cfg s (CapWrite (fst w) (snd w))) as [s1 o1]. cbn [fst] in *.
    specialize (IH s1 B0). destruct (cap_run cfg s1 _) as [s2 o2]. cbn [fst] in *.
    destruct IH as (C0 & C1 & C2 & C3 & C4). split; [exact C0|]. split.
    + unfold same_env in *. destruct B1 as (b1&b2&b3&b4&b5&b6&b7), C1 as (c1&c2&c3&c4&c5&c6&c7).
      repeat split; congruence.
    + rewrite C2, C3, C4, B2, B3, B4, !markers_cons, <- !app_assoc. auto.
Qed.

Lemma start_from_ready cfg st :
  cc_out cfg = true -> cc_err cfg = true -> cc_log cfg = true -> cc_clear cfg = true ->
  ready cfg st ->
  let s' := fst (cap_step cfg st CapStart) in
  capturing s' /\ same_env st s' /\ buf_out s' = buf_out st /\ buf_err s' = buf_err st /\ buf_log s' = buf_log st.
Proof.
  intros Ho He Hl Hc [[S1 [S2 [S3 S4]]] [Hcr Hlog]]. destruct (Hlog Hl) as [Hin Hnone]. specialize (Hnone Hc).
  cbn [cap_step]. rewrite Ho, He, S3, S4. unfold capturing, same_env. cbn. rewrite orb_false_r.
  repeat split; auto.
Qed.

Lemma stop_from_capturing cfg st :
  cc_out cfg = true -> cc_err cfg = true -> cc_log cfg = true ->
  capturing st -> crashed st = false ->
  let s' := fst (cap_step cfg st CapStop) in
  ready cfg s' /\ same_env st s' /\ buf_out s' = buf_out st /\ buf_err s' = buf_err st /\ buf_log s' = buf_log st.
Proof.
  intros Ho He Hl (A1 & A2 & A3 & A4 & A5 & A6) Hcr. cbn [cap_step]. rewrite Ho, He, A3, A4.
  unfold ready, streams_real, same_env. cbn. rewrite orb_false_r. repeat split; auto.
Qed.

Theorem captured_step cfg st writes :
  cc_out cfg = true -> cc_err cfg = true -> cc_log cfg = true -> cc_clear cfg = true ->
  ready cfg st ->
  let st' := fst (cap_run cfg st (step_ops writes)) in
  ready cfg st' /\ same_env st st' /\
  buf_out st' = buf_out st ++ markers ChOut writes /\
  buf_err st' = buf_err st ++ markers ChErr writes /\
  buf_log st' = buf_log st ++ markers ChLog writes.
Proof.
  intros Ho He Hl Hc Hr. unfold step_ops. cbn [cap_run].
  pose proof (start_from_ready cfg st Ho He Hl Hc Hr) as (A0 & A1 & A2 & A3 & A4).
  destruct (cap_step cfg st CapStart) as [s1 o1]. cbn [fst] in *.
  rewrite cap_run_app.
  pose proof (writes_while_capturing cfg writes s1 A0) as (B0 & B1 & B2 & B3 & B4).
  destruct (cap_run cfg s1 (map _ writes)) as [s2 o2]. cbn [fst] in *.
  cbn [cap_run].
  assert (Hcr2 : crashed s2 = false).
  { destruct A1 as (_&_&_&a4&_), B1 as (_&_&_&b4&_). destruct Hr as [_ [Hcr _]]. congruence. }
  pose proof (stop_from_capturing cfg s2 Ho He Hl B0 Hcr2) as (C0 & C1 & C2 & C3 & C4).
  destruct (cap_step cfg s2 CapStop) as [s3 o3]. cbn [fst] in *.
  split; [exact C0|]. split.
  - unfold same_env in *. destruct A1 as (a1&a2&a3&a4&a5&a6&a7), B1 as (b1&b2&b3&b4&b5&b6&b7), C1 as (c1&c2&c3&c4&c5&c6&c7).
    repeat split; congruence.
  - rewrite C2, C3, C4, B2, B3, B4, A2, A3, A4. auto.
Qed.

(* ---- a scenario: setup gives fresh buffers; after its steps the buffers hold exactly the
   scenario's own output, in order; teardown restores the root logger *)
Fixpoint steps_ops (steps : list (list (chan * nat))) : list capop :=
  match steps with [] => [] | w :: r => step_ops w ++ steps_ops r end.

Lemma captured_steps cfg steps : forall st,
  cc_out cfg = true -> cc_err cfg = true -> cc_log cfg = true -> cc_clear cfg = true ->
  ready cfg st ->
  let st' := fst (cap_run cfg st (steps_ops steps)) in
  ready cfg st' /\ same_env st st' /\
  buf_out st' = buf_out st ++ markers ChOut (concat steps) /\
  buf_err st' = buf_err st ++ markers ChErr (concat steps) /\
  buf_log st' = buf_log st ++ markers ChLog (concat steps).
Proof.
  induction steps as [|w r IH]; intros st Ho He Hl Hc Hr.
  - cbn. rewrite !app_nil_r. unfold same_env. split; [exact Hr|]. repeat split; auto.
  - cbn [steps_ops concat]. rewrite cap_run_app.
    pose proof (captured_step cfg st w Ho He Hl Hc Hr) as (A0 & A1 & A2 & A3 & A4).
    destruct (cap_run cfg st (step_ops w)) as [s1 o1]. cbn [fst] in *.
    specialize (IH s1 Ho He Hl Hc A0). destruct (cap_run cfg s1 (steps_ops r)) as [s2 o2]. cbn [fst] in *.
    destruct IH as (B0 & B1 & B2 & B3 & B4). split; [exact B0|]. split.
    + unfold same_env in *. destruct A1 as (a1&a2&a3&a4&a5&a6&a7), B1 as (b1&b2&b3&b4&b5&b6&b7).
      repeat split; congruence.
    + unfold markers in *. rewrite B2, B3, B4, A2, A3, A4, !filter_app, !map_app, <- !app_assoc. auto.
Qed.

Lemma setup_gives_fresh_buffers cfg st :
  cc_out cfg = true -> cc_err cfg = true -> cc_log cfg = true -> cc_clear cfg = true ->
  streams_real st -> crashed st = false ->
  let s' := fst (cap_step cfg st CapSetup) in
  ready cfg s' /\ buf_out s' = [] /\ buf_err s' = [] /\ buf_log s' = [] /\
  real_out s' = real_out st /\ real_err s' = real_err st /\ handler_seen s' = handler_seen st /\
  saved_handlers s' = filter (fun h => negb (is_capture_handler h)) (root_handlers st) /\
  old_level s' = Some (root_level st).
Proof.
  intros Ho He Hl Hc Hs Hcr. cbn [cap_step]. rewrite Ho, He, Hl, Hc. unfold ready. cbn.
  rewrite ?Nat.eqb_refl. repeat split; auto; try apply Hs.
Qed.

Lemma teardown_restores_logger cfg st :
  cc_log cfg = true -> cc_clear cfg = true -> has_log st = true ->
  root_handlers st = [HCapture (gen st)] ->
  let s' := fst (cap_step cfg st CapTeardown) in
  root_handlers s' = saved_handlers st /\
  root_level s' = match old_level st with Some l => l | None => root_level st end.
Proof.
  intros Hl Hc Hh Hr. cbn [cap_step]. rewrite Hl, Hc, Hh, Hr. cbn. rewrite Nat.eqb_refl. cbn.
  split; [|reflexivity]. induction (saved_handlers st); cbn; auto. now f_equal.
Qed.
