(* TagExprProofs.v - C07 / C08 lemmas about TagExpr.v *)
From BV Require Import Base UStr TagExpr.
From BVGen Require Import UnicodeTables.

(* ---- meaning *)
Lemma xeval_and a b tags : xeval (XAnd a b) tags = xeval a tags && xeval b tags. Proof. reflexivity. Qed.
Lemma xeval_or a b tags : xeval (XOr a b) tags = xeval a tags || xeval b tags. Proof. reflexivity. Qed.
Lemma xeval_not a tags : xeval (XNot a) tags = negb (xeval a tags). Proof. reflexivity. Qed.

Lemma ustr_eqb_eq a b : ustr_eqb a b = true <-> a = b.
Proof.
  unfold ustr_eqb. revert b; induction a as [|x a IH]; intros [|y b]; cbn; split; intros H; try discriminate; auto.
  - apply andb_true_iff in H as [H1 H2]. apply N.eqb_eq in H1. apply IH in H2. congruence.
  - inversion H; subst. rewrite N.eqb_refl. cbn. now apply IH.
Qed.

Lemma xeval_lit n tags : xeval (XLit n) tags = true <-> In n tags.
Proof.
  cbn. unfold mem_tag. rewrite existsb_exists. split.
  - intros [t [Hin He]]. apply ustr_eqb_eq in He. now subst.
  - intros H. exists n. split; [exact H|now apply ustr_eqb_eq].
Qed.

Lemma xeval_mat p tags : xeval (XMat p) tags = true <-> exists t, In t tags /\ glob_match p t = true.
Proof. cbn. apply existsb_exists. Qed.

Lemma empty_text_selects_everything tags : exists e, parse_v2 [] = POk e /\ xeval e tags = true.
Proof. exists XTrue. split; reflexivity. Qed.

Lemma blanks_tokenize_to_nothing n : tokenize (repeat cSP n) = Some [].
Proof.
  unfold tokenize. assert (G : forall n, tokenize_aux (repeat cSP n) false [] [] = Some []).
  { induction n0 as [|k IH]; [reflexivity|]. cbn [repeat tokenize_aux].
    replace (N.eqb cSP cBS) with false by reflexivity.
    replace (N.eqb cSP cLP || N.eqb cSP cRP || is_space cSP) with true by (vm_compute; reflexivity).
    replace (N.eqb cSP cSP) with true by reflexivity. exact IH. }
  apply G.
Qed.

(* ---- v1 *)
Lemma v1_check_is_cnf ands tags :
  v1_check ands tags = forallb (fun ors => existsb (v1_test tags) ors) ands.
Proof. reflexivity. Qed.

Lemma v1_test_negated tags t : v1_test tags (cDASH :: t) = negb (mem_tag t tags).
Proof. reflexivity. Qed.

Lemma v1_test_positive tags c t : N.eqb c cDASH = false -> v1_test tags (c :: t) = mem_tag (c :: t) tags.
Proof. intros H. cbn. now rewrite H. Qed.

(* every spelling of a tag normalizes to the same test: t, @t  |  -t, ~t, -@t, ~@t *)
Definition plain_start (c : N) : bool := negb (N.eqb c cAT || N.eqb c cDASH || N.eqb c cTILDE).

(* an empty (or blank) alternative carries no negation prefix: it is an ordinary alternative, which no element with real tags
   satisfies -- so "a," means a and an empty --tags= value next to other arguments selects nothing *)
Lemma empty_alternative_is_positive t tags :
  strip t = [] -> v1_test tags (normalize_tag_v1 t) = mem_tag [] tags.
Proof. intros H. unfold normalize_tag_v1. rewrite H. reflexivity. Qed.

Lemma empty_alternative_never_holds t tags :
  strip t = [] -> ~ In [] tags -> v1_test tags (normalize_tag_v1 t) = false.
Proof.
  intros H Hn. rewrite (empty_alternative_is_positive t tags H).
  unfold mem_tag. destruct (existsb (ustr_eqb []) tags) eqn:E; [|reflexivity].
  apply existsb_exists in E. destruct E as [x [Hin Hx]]. apply ustr_eqb_eq in Hx. subst x. contradiction.
Qed.

Lemma normalize_spellings c t :
  plain_start c = true -> strip (c :: t) = c :: t ->
  strip (cAT :: c :: t) = cAT :: c :: t -> strip (cDASH :: c :: t) = cDASH :: c :: t ->
  strip (cTILDE :: c :: t) = cTILDE :: c :: t ->
  strip (cDASH :: cAT :: c :: t) = cDASH :: cAT :: c :: t -> strip (cTILDE :: cAT :: c :: t) = cTILDE :: cAT :: c :: t ->
  normalize_tag_v1 (c :: t) = c :: t /\
  normalize_tag_v1 (cAT :: c :: t) = c :: t /\
  normalize_tag_v1 (cDASH :: c :: t) = cDASH :: c :: t /\
  normalize_tag_v1 (cTILDE :: c :: t) = cDASH :: c :: t /\
  normalize_tag_v1 (cDASH :: cAT :: c :: t) = cDASH :: c :: t /\
  normalize_tag_v1 (cTILDE :: cAT :: c :: t) = cDASH :: c :: t.
Proof.
  intros Hp S0 S1 S2 S3 S4 S5. unfold normalize_tag_v1. rewrite S0, S1, S2, S3, S4, S5.
  unfold plain_start in Hp. apply negb_true_iff in Hp. apply orb_false_iff in Hp as [Hp H3].
  apply orb_false_iff in Hp as [H1 H2]. cbn. rewrite H1, H2, H3. cbn. repeat split.
Qed.

(* ---- auto detection: the decision table *)
Definition words_of (text : ustr) : list ustr := split_ws (pad_parens text).
Definition has_v1_prefix (words : list ustr) : bool :=
  existsb (fun w => match w with c :: _ => N.eqb c cTILDE || N.eqb c cDASH | [] => false end) words.
Definition has_comma (words : list ustr) : bool := existsb (fun w => memN cCOMMA w) words.
Definition has_v2_keyword (words : list ustr) : bool :=
  existsb (fun w => ustr_eqb w kw_and || ustr_eqb w kw_or || ustr_eqb w kw_not || ustr_eqb w [cLP] || ustr_eqb w [cRP]) words
  || existsb has_magic words.

Lemma select_auto_table text :
  let w := words_of text in
  select_auto text =
  if has_v1_prefix w && has_v2_keyword w then DMixed
  else if has_v2_keyword w then DV2
  else if has_comma w || has_v1_prefix w || Nat.ltb 1 (length w) then DV1
  else DV2.
Proof. reflexivity. Qed.

Lemma mixed_is_rejected text :
  has_v1_prefix (words_of text) = true -> has_v2_keyword (words_of text) = true -> select_auto text = DMixed.
Proof. intros A B. rewrite select_auto_table. cbn zeta. now rewrite A, B. Qed.

Lemma pure_v2_detected text :
  has_v2_keyword (words_of text) = true -> has_v1_prefix (words_of text) = false -> select_auto text = DV2.
Proof. intros A B. rewrite select_auto_table. cbn zeta. now rewrite A, B. Qed.

Lemma pure_v1_detected text :
  has_v2_keyword (words_of text) = false ->
  has_comma (words_of text) || has_v1_prefix (words_of text) || Nat.ltb 1 (length (words_of text)) = true ->
  select_auto text = DV1.
Proof. intros A B. rewrite select_auto_table. cbn zeta. rewrite A, andb_false_r. now rewrite B. Qed.

(* only the exact, lower-case operator words, a parenthesis or a wildcard make a word a new-style keyword: words that merely
   resemble them (OR, And, NOT, order, android) are ordinary tags for the detection *)
Definition ordinary_word (w : ustr) : Prop :=
  w <> kw_and /\ w <> kw_or /\ w <> kw_not /\ w <> [cLP] /\ w <> [cRP] /\ has_magic w = false.

Lemma ustr_eqb_neq a b : a <> b -> ustr_eqb a b = false.
Proof. intros H. destruct (ustr_eqb a b) eqn:E; [|reflexivity]. apply ustr_eqb_eq in E. contradiction. Qed.

Lemma ordinary_words_are_no_keywords words :
  (forall w, In w words -> ordinary_word w) -> has_v2_keyword words = false.
Proof.
  intros H. unfold has_v2_keyword. apply orb_false_iff. split.
  - induction words as [|w r IH]; [reflexivity|]. cbn [existsb].
    destruct (H w (or_introl eq_refl)) as (A & B & C & D & E & _).
    rewrite (ustr_eqb_neq _ _ A), (ustr_eqb_neq _ _ B), (ustr_eqb_neq _ _ C), (ustr_eqb_neq _ _ D), (ustr_eqb_neq _ _ E).
    cbn [orb]. apply IH. intros w' Hin. apply H. right. exact Hin.
  - induction words as [|w r IH]; [reflexivity|]. cbn [existsb].
    destruct (H w (or_introl eq_refl)) as (_ & _ & _ & _ & _ & F). rewrite F. cbn [orb].
    apply IH. intros w' Hin. apply H. right. exact Hin.
Qed.

Lemma ordinary_words_read_as_v1 text :
  (forall w, In w (words_of text) -> ordinary_word w) ->
  has_comma (words_of text) || has_v1_prefix (words_of text) || Nat.ltb 1 (length (words_of text)) = true ->
  select_auto text = DV1.
Proof. intros H Hv. apply pure_v1_detected; [apply ordinary_words_are_no_keywords; exact H|exact Hv]. Qed.
