(* Select.v - file:LINE selection: FeatureLineDatabase.make_line_data_for / select_*_by_line,
   FeatureScenarioLocationCollector2 (add_location, build_feature) and the grouping of
   consecutive locations in parse_features (behave/runner_util.py).  Model only. *)
From BV Require Import Base.

Record lscen := mkLScen { ls_id : nat; ls_line : nat; ls_keep : bool (* tagged @setup / @teardown *) }.
Inductive litem := LScen (s : lscen) | LOutline (line : nat) (rows : list lscen).
Record lrule := mkLRule { lr_line : nat; lr_items : list litem }.
Inductive lfitem := LFItem (i : litem) | LFRule (r : lrule).
Record lfeature := mkLFeature { lf_line : nat; lf_items : list lfitem }.

Definition item_scens (i : litem) : list lscen := match i with LScen s => [s] | LOutline _ rows => rows end.
Definition rule_scens (r : lrule) : list lscen := flat_map item_scens (lr_items r).
Definition fitem_scens (i : lfitem) : list lscen := match i with LFItem x => item_scens x | LFRule r => rule_scens r end.
Definition feature_scens (f : lfeature) : list lscen := flat_map fitem_scens (lf_items f).   (* walk_scenarios *)

(* make_line_data_for: (line, the scenarios the entity at that line stands for) *)
Definition entry := (nat * list nat)%type.
Definition ids (l : list lscen) : list nat := map ls_id l.

Definition item_data (i : litem) : list entry :=
  match i with
  | LScen s => [(ls_line s, [ls_id s])]
  | LOutline line rows => (line, ids rows) :: map (fun r => (ls_line r, [ls_id r])) rows
  end.
Definition rule_data (r : lrule) : list entry := (lr_line r, ids (rule_scens r)) :: flat_map item_data (lr_items r).
Definition fitem_data (i : lfitem) : list entry := match i with LFItem x => item_data x | LFRule r => rule_data r end.
Definition feature_data (f : lfeature) : list entry :=
  (0, ids (feature_scens f)) :: (lf_line f, ids (feature_scens f)) :: flat_map fitem_data (lf_items f).

(* sorted(line_data) then OrderedDict: insertion sort by line, a later entry with the same
   line replaces the earlier one *)
Fixpoint insert_entry (e : entry) (l : list entry) : list entry :=
  match l with
  | [] => [e]
  | x :: r => if fst e <? fst x then e :: l
              else if fst e =? fst x then e :: r
              else x :: insert_entry e r
  end.
Definition line_db (data : list entry) : list entry := fold_left (fun acc e => insert_entry e acc) data [].

(* select_run_item_by_line: exact hit, else bisect - 1 clamped at 0 *)
Fixpoint pred_entry (line : nat) (db : list entry) (best : option entry) : option entry :=
  match db with
  | [] => best
  | x :: r => if fst x <=? line then pred_entry line r (Some x) else best
  end.
Definition select_line (db : list entry) (line : nat) : list nat :=
  match pred_entry line db None with
  | Some e => snd e
  | None => match db with x :: _ => snd x | [] => [] end
  end.

(* one file: its locations (None / Some 0 = no line) -> ids of the scenarios marked skipped *)
Definition loc_has_line (l : option nat) : bool := match l with Some (S _) => true | _ => false end.

Definition selected_ids (f : lfeature) (locs : list (option nat)) : list nat :=
  let db := line_db (feature_data f) in
  flat_map (fun l => match l with Some n => if 0 <? n then select_line db n else [] | None => [] end) locs.

Definition skipped_ids (f : lfeature) (locs : list (option nat)) : list nat :=
  if forallb loc_has_line locs && negb (match locs with [] => true | _ => false end) then
    let sel := selected_ids f locs in
    ids (filter (fun s => negb (existsb (Nat.eqb (ls_id s)) sel) && negb (ls_keep s)) (feature_scens f))
  else [].

(* parse_features: consecutive locations of the same file form one group *)
Fixpoint group_locs (locs : list (nat * option nat)) (cur : option (nat * list (option nat)))
  : list (nat * list (option nat)) :=
  match locs with
  | [] => match cur with Some g => [g] | None => [] end
  | (file, line) :: r =>
      match cur with
      | Some (cf, ls) =>
          if Nat.eqb cf file then group_locs r (Some (cf, ls ++ [line]))
          else (cf, ls) :: group_locs r (Some (file, [line]))
      | None => group_locs r (Some (file, [line]))
      end
  end.

Definition select_files (features : nat -> lfeature) (locs : list (nat * option nat)) : list (nat * list nat) :=
  map (fun g => (fst g, skipped_ids (features (fst g)) (snd g))) (group_locs locs None).
