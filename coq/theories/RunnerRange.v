(* RunnerRange.v — every status a run produces is in the documented range:
   steps use the 11 step statuses, scenarios / outlines / rules / features the 6 element statuses,
   and compute_status never hits its assert (C03 reachable, C14 no missing key, C15, C16). *)
From BV Require Import Base Status Rollup RollupProofs Runner RunnerSteps.
From BVGen Require Import StatusTable.

Definition scen_res_ok (r : scen_res) : bool :=
  forallb step_status (sr_steps r) &&
  match sr_status r with Some t => elem_status t | None => false end.

Definition item_res_ok (i : item_res) : bool :=
  match i with
  | RScen r => scen_res_ok r
  | ROutline _ st rows => elem_status st && forallb scen_res_ok rows
  end.

Definition rule_res_ok (r : rule_res) : bool := elem_status (rr_status r) && forallb item_res_ok (rr_items r).

Definition fitem_res_ok (i : fitem_res) : bool :=
  match i with RFItem x => item_res_ok x | RFRule r => rule_res_ok r end.

Definition feat_res_ok (f : feat_res) : bool := elem_status (fr_status f) && forallb fitem_res_ok (fr_items f).

Lemma step_outcome_range wip k : step_status (step_outcome wip k) = true.
Proof. destruct k, wip; reflexivity. Qed.

Lemma run_step_range cfg st wip scid s st' status skip ev :
  run_step cfg st wip scid s = (st', status, skip, ev) -> step_status status = true.
Proof.
  intros E. apply run_step_status in E. cbn zeta in E.
  destruct (st_kind s); destruct E as (A & _ & _); subst; try reflexivity;
    destruct (hook_fires cfg HBeforeStep (st_id s) || hook_fires cfg HAfterStep (st_id s));
    try reflexivity; apply step_outcome_range.
Qed.

Lemma steps_loop_range cfg wip dry scid steps : forall st l st' l' sts ev,
  steps_loop cfg st wip dry scid l steps = (st', l', sts, ev) -> forallb step_status sts = true.
Proof.
  induction steps as [|s r IH]; intros st l st' l' sts ev; cbn [steps_loop].
  - intros E; inversion E; subst. reflexivity.
  - destruct (l_run_steps l).
    + destruct (run_step cfg st wip scid s) as [[[st1 status] skip] ev1] eqn:E1.
      apply run_step_range in E1.
      match goal with |- context [steps_loop cfg st1 wip dry scid ?l1 r] =>
        destruct (steps_loop cfg st1 wip dry scid l1 r) as [[[st2 l2] sts2] ev2] eqn:E2 end.
      apply IH in E2. intros E; inversion E; subst; clear E. cbn. now rewrite E1, E2.
    + destruct (l_failed l || dry).
      * match goal with |- context [let '(status, ev) := ?X in _] => destruct X as [status0 ev0] eqn:E0 end.
        destruct (steps_loop cfg st wip dry scid l r) as [[[st2 l2] sts2] ev2] eqn:E2.
        apply IH in E2. intros E; inversion E; subst; clear E. cbn. rewrite E2, andb_true_r.
        destruct (st_kind s), dry; inversion E0; subst; reflexivity.
      * destruct (steps_loop cfg st wip dry scid l r) as [[[st2 l2] sts2] ev2] eqn:E2.
        apply IH in E2. intros E; inversion E; subst; clear E. cbn. exact E2.
Qed.

Lemma untested_list_range {A} (l : list A) : forallb step_status (map (fun _ => untested) l) = true.
Proof. induction l; cbn; auto. Qed.

Lemma scen_status_ok hf sts (ov : option status) :
  forallb step_status sts = true ->
  (match ov with Some s => elem_status s | None => true end) = true ->
  match (match ov with Some s => Some s | None => scenario_compute hf sts end) with
  | Some t => elem_status t | None => false end = true.
Proof.
  intros H Ho. destruct ov as [s|]; [exact Ho|].
  destruct (scenario_compute_total hf sts H) as [t [E R]]. now rewrite E.
Qed.

Lemma scenario_steps_range cfg st1 su hf rs wip id all_steps st2 l2 statuses evs :
  scenario_steps cfg st1 su hf rs wip id all_steps = (st2, l2, statuses, evs) ->
  forallb step_status statuses = true.
Proof.
  unfold scenario_steps. destruct su.
  - intros E; inversion E; subst. apply untested_list_range.
  - apply steps_loop_range.
Qed.

Lemma scen_final_ok hf sts (cr b1 b2 : bool) :
  forallb step_status sts = true ->
  match (match (if cr then Some error else if b1 then Some hook_error else if b2 then Some skipped else None) with
         | Some s => Some s | None => scenario_compute hf sts end) with
  | Some t => elem_status t | None => false end = true.
Proof.
  intros H. destruct cr; [reflexivity|]. destruct b1; [reflexivity|]. destruct b2; [reflexivity|].
  destruct (scenario_compute_total hf sts H) as [t [E R]]. now rewrite E.
Qed.

Lemma run_scenario_range cfg st id all_steps oe eff own st' res fld ev :
  run_scenario cfg st id all_steps oe eff own = (st', res, fld, ev) -> scen_res_ok res = true.
Proof.
  unfold run_scenario.
  destruct (negb (c_dry cfg) && sel cfg eff).
  - destruct (run_tag_hooks cfg (push st) HBeforeTag own) as [[sa b1] e1].
    destruct (run_hook cfg sa HBeforeScenario id) as [[sb b2] e2].
    match goal with |- context [scenario_steps ?a ?b ?c ?d ?e ?f ?g ?h] =>
      destruct (scenario_steps a b c d e f g h) as [[[st2 l2] statuses] ev_steps] eqn:E3 end.
    apply scenario_steps_range in E3.
    destruct (run_hook cfg st2 HAfterScenario id) as [[sc b3] e3].
    destruct (run_tag_hooks cfg sc HAfterTag own) as [[sd b4] e4].
    destruct (pop sd) as [[st4 cr] ev_pop].
    intros E; inversion E; subst; clear E. unfold scen_res_ok. cbn [sr_steps sr_status]. rewrite E3. cbn [andb].
    now apply scen_final_ok.
  - match goal with |- context [scenario_steps ?a ?b ?c ?d ?e ?f ?g ?h] =>
      destruct (scenario_steps a b c d e f g h) as [[[st2 l2] statuses] ev_steps] eqn:E3 end.
    apply scenario_steps_range in E3.
    destruct (pop st2) as [[st4 cr] ev_pop].
    intros E; inversion E; subst; clear E. unfold scen_res_ok. cbn [sr_steps sr_status]. rewrite E3. cbn [andb].
    exact (scen_final_ok false statuses cr false _ E3).
Qed.

Lemma notrun_scenario_range id all_steps : scen_res_ok (notrun_scenario id all_steps) = true.
Proof.
  unfold notrun_scenario, scen_res_ok. cbn [sr_steps sr_status]. rewrite untested_list_range. cbn [andb].
  destruct (scenario_compute_total false _ (untested_list_range all_steps)) as [t [E R]]. now rewrite E.
Qed.

Lemma row_statuses_range rs : forallb scen_res_ok rs = true -> forallb elem_status (row_statuses rs) = true.
Proof.
  induction rs as [|r rs IH]; cbn; [reflexivity|]. intros H. apply andb_true_iff in H as [H1 H2].
  fold (row_statuses rs). rewrite (IH H2), andb_true_r. unfold scen_res_ok in H1. apply andb_true_iff in H1 as [_ H1].
  destruct (sr_status r); [exact H1|discriminate].
Qed.

Lemma run_rows_range cfg all_steps oe anc rows : forall st stopped st' rs fld ev,
  run_rows cfg st all_steps oe anc rows stopped = (st', rs, fld, ev) -> forallb scen_res_ok rs = true.
Proof.
  induction rows as [|rw r IH]; intros st stopped st' rs fld ev; cbn [run_rows].
  - intros E; inversion E; subst. reflexivity.
  - destruct stopped.
    + destruct (run_rows cfg st all_steps oe anc r true) as [[[st2 rs2] f2] ev2] eqn:E2.
      intros E; inversion E; subst. cbn. rewrite notrun_scenario_range. eapply IH; eauto.
    + destruct (run_scenario cfg st (rw_id rw) all_steps oe (rw_tags rw ++ anc) (rw_tags rw))
        as [[[st1 res] f1] ev1] eqn:E1.
      apply run_scenario_range in E1.
      match goal with |- context [run_rows cfg st1 all_steps oe anc r ?b] =>
        destruct (run_rows cfg st1 all_steps oe anc r b) as [[[st2 rs2] f2] ev2] eqn:E2 end.
      intros E; inversion E; subst. cbn. rewrite E1. eapply IH; eauto.
Qed.

Lemma run_sitem_range cfg st bg anc it st' res fld ev :
  run_sitem cfg st bg anc it = (st', res, fld, ev) -> item_res_ok res = true.
Proof.
  destruct it as [s|o]; cbn [run_sitem].
  - match goal with |- context [run_scenario ?a ?b ?c ?d ?e ?f ?g] =>
      destruct (run_scenario a b c d e f g) as [[[st1 r1] f1] ev1] eqn:E1 end.
    intros E; inversion E; subst. cbn. eapply run_scenario_range; eauto.
  - unfold run_outline.
    match goal with |- context [run_rows ?a ?b ?c ?d ?e ?f ?g] =>
      destruct (run_rows a b c d e f g) as [[[st1 rs] f1] ev1] eqn:E1 end.
    apply run_rows_range in E1.
    intros E; inversion E; subst. cbn. rewrite E1, andb_true_r.
    apply outline_range. now apply row_statuses_range.
Qed.

Lemma notrun_sitem_range bg it : item_res_ok (notrun_sitem bg it) = true.
Proof.
  destruct it as [s|o]; cbn; [apply notrun_scenario_range|].
  assert (H : forallb scen_res_ok (map (fun rw => notrun_scenario (rw_id rw) (bg ++ o_steps o)) (outline_rows o)) = true).
  { induction (outline_rows o); cbn; auto. now rewrite notrun_scenario_range. }
  rewrite H, andb_true_r. apply outline_range. now apply row_statuses_range.
Qed.

Lemma run_sitems_range cfg bg anc items : forall st stopped st' rs fld ev,
  run_sitems cfg st bg anc items stopped = (st', rs, fld, ev) -> forallb item_res_ok rs = true.
Proof.
  induction items as [|it r IH]; intros st stopped st' rs fld ev; cbn [run_sitems].
  - intros E; inversion E; subst. reflexivity.
  - destruct stopped.
    + destruct (run_sitems cfg st bg anc r true) as [[[st2 rs2] f2] ev2] eqn:E2.
      intros E; inversion E; subst. cbn [forallb]. rewrite notrun_sitem_range. eapply IH; eauto.
    + destruct (run_sitem cfg st bg anc it) as [[[st1 res] f1] ev1] eqn:E1.
      apply run_sitem_range in E1.
      match goal with |- context [run_sitems cfg st1 bg anc r ?b] =>
        destruct (run_sitems cfg st1 bg anc r b) as [[[st2 rs2] f2] ev2] eqn:E2 end.
      intros E; inversion E; subst. cbn [forallb]. rewrite E1. eapply IH; eauto.
Qed.

Lemma container_status_ok hf (l : list status) (ov : option status) :
  (match ov with Some s => elem_status s | None => true end) = true ->
  elem_status (match ov with Some s => s | None => container_compute hf l end) = true.
Proof. destruct ov; [auto|]. intros _. apply container_compute_range. Qed.

Lemma container_final_ok hf (l : list status) (cr b1 : bool) (ov : option status) :
  (match ov with Some s => elem_status s | None => true end) = true ->
  elem_status (match (if cr then Some error else if b1 then Some hook_error else ov) with
               | Some s => s | None => container_compute hf l end) = true.
Proof.
  intros H. destruct cr; [reflexivity|]. destruct b1; [reflexivity|].
  destruct ov; [exact H|apply container_compute_range].
Qed.

Lemma run_rule_range cfg st r anc inh fhb st' res fld ev :
  run_rule cfg st r anc inh fhb = (st', res, fld, ev) -> rule_res_ok res = true.
Proof.
  unfold run_rule.
  destruct (negb (c_dry cfg) && rule_runs cfg anc r).
  - destruct (run_tag_hooks cfg (push st) HBeforeTag (r_tags r)) as [[sa b1] e1].
    destruct (run_hook cfg sa HBeforeRule (r_id r)) as [[sb b2] e2].
    match goal with |- context [run_sitems ?a ?b ?c ?d ?e ?f] =>
      destruct (run_sitems a b c d e f) as [[[st2 rs] itf] evi] eqn:E3 end.
    apply run_sitems_range in E3.
    destruct (run_hook cfg st2 HAfterRule (r_id r)) as [[sc b3] e3].
    destruct (run_tag_hooks cfg sc HAfterTag (r_tags r)) as [[sd b4] e4].
    destruct (pop sd) as [[st4 cr] evp].
    intros E; inversion E; subst; clear E. unfold rule_res_ok. cbn [rr_status rr_items]. rewrite E3, andb_true_r.
    apply container_final_ok. destruct (r_items r); [|reflexivity]. destruct (rule_runs cfg anc r); reflexivity.
  - match goal with |- context [run_sitems ?a ?b ?c ?d ?e ?f] =>
      destruct (run_sitems a b c d e f) as [[[st2 rs] itf] evi] eqn:E3 end.
    apply run_sitems_range in E3.
    destruct (pop st2) as [[st4 cr] evp].
    intros E; inversion E; subst; clear E. unfold rule_res_ok. cbn [rr_status rr_items]. rewrite E3, andb_true_r.
    apply (container_final_ok false _ cr false). destruct (r_items r); [|reflexivity]. destruct (rule_runs cfg anc r); reflexivity.
Qed.

Lemma notrun_rule_range r inh : rule_res_ok (notrun_rule r inh) = true.
Proof.
  unfold notrun_rule, rule_res_ok. cbn [rr_status rr_items]. rewrite container_compute_range. cbn [andb].
  induction (r_items r); cbn; auto. now rewrite notrun_sitem_range.
Qed.

Lemma run_fitems_range cfg bg hb anc items : forall st stopped st' rs fld ev,
  run_fitems cfg st bg hb anc items stopped = (st', rs, fld, ev) -> forallb fitem_res_ok rs = true.
Proof.
  induction items as [|it r IH]; intros st stopped st' rs fld ev; cbn [run_fitems].
  - intros E; inversion E; subst. reflexivity.
  - destruct stopped.
    + destruct (run_fitems cfg st bg hb anc r true) as [[[st2 rs2] f2] ev2] eqn:E2.
      intros E; inversion E; subst. cbn [forallb].
      assert (fitem_res_ok (notrun_fitem bg it) = true) as ->
        by (destruct it; cbn; [apply notrun_sitem_range|apply notrun_rule_range]).
      eapply IH; eauto.
    + destruct (run_fitem cfg st bg hb anc it) as [[[st1 res] f1] ev1] eqn:E1.
      assert (fitem_res_ok res = true) as Hr.
      { destruct it as [i|rr]; cbn [run_fitem] in E1.
        - destruct (run_sitem cfg st bg anc i) as [[[sx rx] fx] ex] eqn:Ex.
          inversion E1; subst. cbn. eapply run_sitem_range; eauto.
        - destruct (run_rule cfg st rr anc bg hb) as [[[sx rx] fx] ex] eqn:Ex.
          inversion E1; subst. cbn. eapply run_rule_range; eauto. }
      match goal with |- context [run_fitems cfg st1 bg hb anc r ?b] =>
        destruct (run_fitems cfg st1 bg hb anc r b) as [[[st2 rs2] f2] ev2] eqn:E2 end.
      intros E; inversion E; subst. cbn [forallb]. rewrite Hr. eapply IH; eauto.
Qed.

Lemma run_feature_range cfg st f st' res fld ev :
  run_feature cfg st f = (st', res, fld, ev) -> feat_res_ok res = true.
Proof.
  unfold run_feature.
  destruct (negb (c_dry cfg) && feature_should_run cfg f).
  - destruct (run_tag_hooks cfg (push st) HBeforeTag (f_tags f)) as [[sa b1] e1].
    destruct (run_hook cfg sa HBeforeFeature (f_id f)) as [[sb b2] e2].
    match goal with |- context [run_fitems ?a ?b ?c ?d ?e ?f ?g] =>
      destruct (run_fitems a b c d e f g) as [[[st2 rs] itf] evi] eqn:E3 end.
    apply run_fitems_range in E3.
    destruct (run_hook cfg st2 HAfterFeature (f_id f)) as [[sc b3] e3].
    destruct (run_tag_hooks cfg sc HAfterTag (f_tags f)) as [[sd b4] e4].
    destruct (pop sd) as [[st4 cr] evp].
    intros E; inversion E; subst; clear E. unfold feat_res_ok. cbn [fr_status fr_items]. rewrite E3, andb_true_r.
    apply container_final_ok. destruct (f_items f); [|reflexivity]. match goal with |- context [feature_runs cfg ?b f] => destruct (feature_runs cfg b f) end; reflexivity.
  - match goal with |- context [run_fitems ?a ?b ?c ?d ?e ?f ?g] =>
      destruct (run_fitems a b c d e f g) as [[[st2 rs] itf] evi] eqn:E3 end.
    apply run_fitems_range in E3.
    destruct (pop st2) as [[st4 cr] evp].
    intros E; inversion E; subst; clear E. unfold feat_res_ok. cbn [fr_status fr_items]. rewrite E3, andb_true_r.
    apply (container_final_ok false _ cr false). destruct (f_items f); [|reflexivity]. match goal with |- context [feature_runs cfg ?b f] => destruct (feature_runs cfg b f) end; reflexivity.
Qed.

Lemma notrun_feature_range f : feat_res_ok (notrun_feature f) = true.
Proof.
  unfold notrun_feature, feat_res_ok. cbn [fr_status fr_items]. rewrite container_compute_range. cbn [andb].
  induction (f_items f) as [|it r IH]; cbn; auto.
  assert (fitem_res_ok (notrun_fitem (opt_steps (f_bg f)) it) = true) as ->
    by (destruct it; cbn; [apply notrun_sitem_range|apply notrun_rule_range]).
  exact IH.
Qed.

Lemma run_features_range cfg fs : forall st flag st' rs fld ev,
  run_features cfg st fs flag = (st', rs, fld, ev) -> forallb feat_res_ok rs = true.
Proof.
  induction fs as [|f r IH]; intros st flag st' rs fld ev; cbn [run_features].
  - intros E; inversion E; subst. reflexivity.
  - destruct flag.
    + destruct (run_feature cfg st f) as [[[st1 res] f1] ev1] eqn:E1. apply run_feature_range in E1.
      match goal with |- context [run_features cfg st1 r ?b] =>
        destruct (run_features cfg st1 r b) as [[[st2 rs2] f2] ev2] eqn:E2 end.
      intros E; inversion E; subst. cbn [forallb]. rewrite E1. eapply IH; eauto.
    + destruct (run_features cfg st r false) as [[[st2 rs2] f2] ev2] eqn:E2.
      intros E; inversion E; subst. cbn [forallb]. rewrite notrun_feature_range. eapply IH; eauto.
Qed.

Theorem run_statuses_in_range cfg fs rs verdict ab evs :
  run_model cfg fs = (rs, verdict, ab, evs) -> forallb feat_res_ok rs = true.
Proof.
  unfold run_model.
  destruct (run_hook cfg (mkState false [[]]) HBeforeAll 0) as [[st1 r1] e1] eqn:E1.
  destruct (run_features cfg st1 fs (negb (aborted st1))) as [[[st2 rs2] anyf] e2] eqn:E2.
  apply run_features_range in E2.
  destruct (run_hook cfg st2 HAfterAll 0) as [[st3 r3] e3] eqn:E3.
  intros E; inversion E; subst. exact E2.
Qed.
