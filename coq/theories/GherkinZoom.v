(* GherkinZoom.v - C04: what the machine does inside a Rule is what it does at feature level.

   While a Rule of a feature (without feature background) is being read, the machine state is the image under `unzoom`
   of a state in which the rule's content sits directly in a feature (the "zoomed" state): the rule's name, tags,
   description, background and scenarios are the zoomed feature's, later Rules are the zoomed feature's Rules.
   `feed` commutes with `unzoom` for every line that is not a Background line.  The round-trip theorems proved for
   features therefore carry over to the content of rules (GherkinRuleProofs.v). *)
From BV Require Import Base UStr GherkinTypes Gherkin GherkinProofs GherkinBlockProofs.

(* the outer feature: everything but its items, and the items below the rule being read *)
Record zctx := mkZ { z_kw : ustr; z_name : ustr; z_line : nat; z_tags : list tag; z_descr : list ustr; z_bg : option pbg; z_lang : ustr; z_below : list fitem }.

Fixpoint scens (l : list fitem) : list pscen :=
  match l with [] => [] | FScen s :: r => s :: scens r | FRule _ :: r => scens r end.

(* the rules on top (newest first) and what lies below them *)
Fixpoint span_rules (l : list fitem) : list fitem * list fitem :=
  match l with
  | FRule r :: t => let '(p, o) := span_rules t in (FRule r :: p, o)
  | _ => ([], l)
  end.

Definition rule_of (vf : pfeature) (old : list fitem) : prule :=
  mkPRule (f_kw vf) (f_name vf) (f_line vf) (f_tags vf) (f_descr vf) None (scens old).

Definition wrap (z : zctx) (vf : pfeature) : pfeature :=
  let '(p, o) := span_rules (f_items vf) in
  mkPFeat (z_kw z) (z_name z) (z_line z) (z_tags z) (z_descr z) (z_bg z) (p ++ FRule (rule_of vf o) :: z_below z) (z_lang z).

Definition stmap (s : pst) : pst := match s with StFeature => StRule | x => x end.

Definition dummy_feat : pfeature := mkPFeat [] [] 0 [] [] None [] [].
Definition vf_of (m : mstate) : pfeature := match m_feat m with Some f => f | None => dummy_feat end.

Definition unzoom (z : zctx) (m : mstate) : mstate :=
  mkM (stmap (m_st m)) (m_line m) (m_last m) (m_ml_start m) (m_ml_lead m) (m_ml_term m) (m_lang m) (m_kw m) (m_variant m)
      (Some (wrap z (vf_of m))) CRule (m_det_rule m) (m_stmt m) (m_det m) (m_tags m) (m_lines m) (m_table m) (m_in_examples m).

Definition is_scen (i : fitem) : bool := match i with FScen _ => true | FRule _ => false end.

(* zoomed states: the feature has no background; either nothing but scenarios so far (container: the feature), or
   rules on top of the scenarios (container: the newest rule) *)
Definition ztree (z : zctx) (m : mstate) : Prop :=
  exists vf, m_feat m = Some vf /\ f_bg vf = z_bg z /\
    ((m_cont m = CFeat /\ forallb is_scen (f_items vf) = true /\ m_stmt m <> PBg) \/
     (m_cont m = CRule /\ exists r t, f_items vf = FRule r :: t /\ forallb is_scen (snd (span_rules t)) = true)).
Definition zshape (z : zctx) (m : mstate) : Prop :=
  ztree z m /\ (m_cont m = CFeat -> m_st m <> StRule) /\ (m_cont m = CRule -> m_st m <> StFeature) /\ m_st m <> StInitial.

Definition rmap {A B} (f : A -> B) (r : res A) : res B := match r with ROk a => ROk (f a) | RErr l => RErr l end.
Definition romap {A B} (f : A -> B) (r : res (option A)) : res (option B) :=
  match r with ROk (Some a) => ROk (Some (f a)) | ROk None => ROk None | RErr l => RErr l end.

Lemma span_scens l : forallb is_scen l = true -> span_rules l = ([], l).
Proof. destruct l as [|[s|r] t]; cbn; intros H; try reflexivity; discriminate H. Qed.

(* ---- field updates commute by computation ---- *)
Lemma uz_line z m n : unzoom z (upd_line m n) = upd_line (unzoom z m) n.  Proof. reflexivity. Qed.
Lemma uz_last z m l : unzoom z (upd_last m l) = upd_last (unzoom z m) l.  Proof. reflexivity. Qed.
Lemma uz_tags z m t : unzoom z (upd_tags m t) = upd_tags (unzoom z m) t.  Proof. reflexivity. Qed.
Lemma uz_ml z m a b c d : unzoom z (upd_ml m a b c d) = upd_ml (unzoom z m) a b c d.  Proof. reflexivity. Qed.
Lemma uz_table z m t b : unzoom z (upd_table m t b) = upd_table (unzoom z m) t b.  Proof. reflexivity. Qed.
Lemma uz_st z m s : s <> StFeature -> unzoom z (upd_st m s) = upd_st (unzoom z m) s.
Proof. intros H. destruct s; try reflexivity. congruence. Qed.

(* ---- the statement pointer ---- *)
Lemma uz_get_stmt z m : ztree z m -> m_stmt m <> PRuleS -> get_stmt (unzoom z m) = get_stmt m.
Proof.
  intros (vf & F & BG & [[C [A NPB]] | [C (r & t & I & A)]]) NP; unfold get_stmt, unzoom, cont_bg, cur_rule, vf_of, wrap; cbn; rewrite F, C.
  - rewrite (span_scens _ A). cbn. destruct (m_stmt m); try reflexivity; try congruence.
    destruct (f_items vf) as [|[s|r] t]; cbn; try reflexivity. cbn in A. discriminate A.
  - rewrite I. cbn. destruct (span_rules t) as [p o]. cbn. destruct (m_stmt m); try reflexivity; congruence.
Qed.

Ltac zsetup H m :=
  let vf := fresh "vf" in let F := fresh "F" in let BG := fresh "BG" in let C := fresh "C" in let A := fresh "A" in
  let r := fresh "r" in let t := fresh "t" in let I := fresh "I" in let NPB := fresh "NPB" in
  destruct H as (vf & F & BG & [[C [A NPB]] | [C (r & t & I & A)]]);
  destruct m as [st ln last mls mll mlt lang kw var feat cont detr stmt det tags lines table inex];
  destruct vf as [fkw fname fline ftags fdescr fbg fitems flang]; cbn in F, BG, C, A |- *; try (cbn in I); try (cbn in NPB); subst.

Lemma uz_set_stmt z m v : ztree z m -> m_stmt m <> PRuleS -> set_stmt (unzoom z m) v = unzoom z (set_stmt m v).
Proof.
  intros H NP. zsetup H m; cbn in NP.
  - unfold set_stmt, set_item, set_cont_bg, set_cur_rule, cur_rule, unzoom, wrap, vf_of, set_feat_bg, set_rule_bg, rule_of. cbn.
    rewrite (span_scens _ A). cbn.
    destruct stmt, v; try reflexivity; try congruence; cbn; rewrite ?(span_scens _ A); try reflexivity;
      destruct fitems as [|[s0|r0] t0]; cbn; try reflexivity; try discriminate A; cbn in A; rewrite ?(span_scens _ A); reflexivity.
  - unfold set_stmt, set_item, set_cont_bg, set_cur_rule, cur_rule, unzoom, wrap, vf_of, set_feat_bg, set_rule_bg, rule_of. cbn.
    destruct (span_rules t) as [p o] eqn:SP. cbn.
    destruct stmt, v; try reflexivity; try congruence; cbn; rewrite ?SP; try reflexivity.
    destruct (r_items r); cbn; rewrite ?SP; reflexivity.
Qed.

Ltac zunfold := unfold set_stmt, set_item, set_cont_bg, set_cur_rule, cur_rule, cont_bg, add_item, get_stmt, last_bg_type, unzoom, wrap,
                       vf_of, set_feat_bg, set_rule_bg, rule_of, build_rule, build_background, add_feature_descr, upd_tree, upd_tags.

Lemma uz_add_item z m s : ztree z m -> add_item (unzoom z m) s = unzoom z (add_item m s).
Proof.
  intros H. zsetup H m.
  - zunfold. cbn. rewrite (span_scens _ A). cbn. reflexivity.
  - zunfold. cbn. destruct (span_rules t) as [p o] eqn:SP. cbn. rewrite ?SP. reflexivity.
Qed.

Lemma uz_last_bg_type z m : ztree z m -> last_bg_type (unzoom z m) = last_bg_type m.
Proof.
  intros H. zsetup H m.
  - zunfold. cbn. rewrite (span_scens _ A). reflexivity.
  - zunfold. cbn. destruct (span_rules t) as [p o] eqn:SP. reflexivity.
Qed.

(* ---- what the invariant needs to know about a state: its tree shape and (state, container, statement pointer) ---- *)
Definition sigok (st : pst) (c : cont) (p : sptr) : Prop :=
  st <> StInitial /\ (c = CFeat -> st <> StRule /\ p <> PBg) /\ (c = CRule -> st <> StFeature) /\
  ((st = StScenario \/ st = StBackground) -> p <> PRuleS).
Definition zinv (z : zctx) (m : mstate) : Prop := ztree z m /\ sigok (m_st m) (m_cont m) (m_stmt m).

Definition rall {A} (P : A -> Prop) (r : res A) : Prop := match r with ROk a => P a | RErr _ => True end.
Definition roall {A} (P : A -> Prop) (r : res (option A)) : Prop := match r with ROk (Some a) => P a | _ => True end.

Lemma ztree_ext z m m' : m_feat m' = m_feat m -> m_cont m' = m_cont m -> m_stmt m' = m_stmt m -> ztree z m -> ztree z m'.
Proof. intros F C P (vf & F0 & BG & H). exists vf. rewrite F, C, P. auto. Qed.

Lemma set_stmt_sig m v : m_st (set_stmt m v) = m_st m /\ m_cont (set_stmt m v) = m_cont m /\ m_stmt (set_stmt m v) = m_stmt m.
Proof.
  unfold set_stmt, set_cont_bg, set_item, set_cur_rule, cur_rule.
  destruct (m_stmt m) eqn:P, v; cbn; auto;
    repeat match goal with |- context [match ?x with _ => _ end] => destruct x eqn:?; cbn; auto end.
Qed.

Ltac ztB := eexists; cbn; split; [reflexivity|]; split; [reflexivity|]; right; split; [reflexivity|];
            eexists; eexists; split; [reflexivity|]; cbn; assumption.

Ltac ztA := eexists; cbn; split; [reflexivity|]; split; [reflexivity|]; left; split; [reflexivity|];
            split; [cbn; assumption|cbn; try assumption; try discriminate].

Lemma ztree_set_stmt z m v : ztree z m -> ztree z (set_stmt m v).
Proof.
  intros H. zsetup H m.
  - unfold set_stmt, set_item, set_cur_rule, cur_rule, set_cont_bg. cbn.
    destruct stmt, v; cbn; try congruence;
      destruct fitems as [|[s0|r0] t0]; cbn in *; try discriminate A; ztA.
  - unfold set_stmt, set_item, set_cont_bg, set_cur_rule, cur_rule. cbn.
    destruct stmt, v; cbn; try ztB; destruct (r_items r); cbn; ztB.
Qed.

Lemma add_item_sig z m s : ztree z m -> m_st (add_item m s) = m_st m /\ m_cont (add_item m s) = m_cont m /\ m_stmt (add_item m s) = PItem.
Proof. intros H. zsetup H m; unfold add_item, set_cur_rule, cur_rule; cbn; auto. Qed.

Lemma ztree_add_item z m s : ztree z m -> ztree z (add_item m s).
Proof.
  intros H. zsetup H m; unfold add_item, set_cur_rule, cur_rule; cbn.
  - ztA.
  - ztB.
Qed.

(* ---- composite operations ---- *)
Lemma sptr_eq_dec (a b : sptr) : {a = b} + {a <> b}.  Proof. decide equality. Qed.

Lemma uz_get_stmt_rule z m : ztree z m -> m_stmt m = PRuleS ->
  (exists r, get_stmt (unzoom z m) = Some (VRule r)) /\ (get_stmt m = None \/ exists r, get_stmt m = Some (VRule r)).
Proof.
  intros H P. zsetup H m; cbn in P; subst; zunfold; cbn.
  - rewrite (span_scens _ A). cbn. split; [eexists; reflexivity|]. left.
    destruct fitems as [|[s0|r0] t0]; cbn in *; try discriminate A; reflexivity.
  - destruct (span_rules t) as [p o]. cbn. split; [eexists; reflexivity|]. right. eexists; reflexivity.
Qed.

Definition keeps (m m' : mstate) : Prop := m_st m' = m_st m /\ m_cont m' = m_cont m /\ m_stmt m' = m_stmt m.

Lemma zinv_keeps z m m' : zinv z m -> keeps m m' -> ztree z m' -> zinv z m'.
Proof. intros [_ S] (A & B & C) T. split; [exact T|]. now rewrite A, B, C. Qed.

Lemma zinv_set_stmt z m v : zinv z m -> zinv z (set_stmt m v).
Proof.
  intros [T S]. apply (zinv_keeps z m); [split; assumption|exact (set_stmt_sig m v)|].
  now apply ztree_set_stmt.
Qed.

Lemma uz_append_step z m st : ztree z m -> append_step (unzoom z m) st = option_map (unzoom z) (append_step m st).
Proof.
  intros T. unfold append_step. destruct (sptr_eq_dec (m_stmt m) PRuleS) as [E|NE].
  - destruct (uz_get_stmt_rule z m T E) as [[r G] [G'|[r' G']]]; rewrite G, G'; reflexivity.
  - rewrite (uz_get_stmt z m T NE). destruct (get_stmt m) as [v|]; [|reflexivity]. destruct (view_steps v); [|reflexivity].
    cbn. now rewrite uz_set_stmt.
Qed.

Lemma zinv_append_step z m st m' : zinv z m -> append_step m st = Some m' -> zinv z m' /\ keeps m m'.
Proof.
  intros Z. unfold append_step. destruct (get_stmt m) as [v|]; [|discriminate]. destruct (view_steps v); [|discriminate].
  intros E. inversion E. subst. split; [now apply zinv_set_stmt|exact (set_stmt_sig m _)].
Qed.

Lemma uz_set_last_step z m f : ztree z m -> set_last_step (unzoom z m) f = unzoom z (set_last_step m f).
Proof.
  intros T. unfold set_last_step. destruct (sptr_eq_dec (m_stmt m) PRuleS) as [E|NE].
  - destruct (uz_get_stmt_rule z m T E) as [[r G] [G'|[r' G']]]; rewrite G, G'; reflexivity.
  - rewrite (uz_get_stmt z m T NE). destruct (get_stmt m) as [v|]; [|reflexivity]. destruct (view_steps v) as [[|s l]|]; try reflexivity.
    now rewrite uz_set_stmt.
Qed.

Lemma zinv_set_last_step z m f : zinv z m -> zinv z (set_last_step m f) /\ keeps m (set_last_step m f).
Proof.
  intros Z. unfold set_last_step. destruct (get_stmt m) as [v|]; [|split; [exact Z|repeat split]].
  destruct (view_steps v) as [[|s l]|]; try (split; [exact Z|repeat split]).
  split; [now apply zinv_set_stmt|exact (set_stmt_sig m _)].
Qed.

Lemma uz_stmt_has_steps z m : ztree z m -> stmt_has_steps (unzoom z m) = stmt_has_steps m.
Proof.
  intros T. unfold stmt_has_steps. destruct (sptr_eq_dec (m_stmt m) PRuleS) as [E|NE].
  - destruct (uz_get_stmt_rule z m T E) as [[r G] [G'|[r' G']]]; rewrite G, G'; reflexivity.
  - now rewrite (uz_get_stmt z m T NE).
Qed.

Lemma uz_close_table z m : ztree z m -> close_table (unzoom z m) = unzoom z (close_table m).
Proof.
  intros T. unfold close_table. change (m_table (unzoom z m)) with (m_table m). change (m_in_examples (unzoom z m)) with (m_in_examples m).
  destruct (m_table m) as [t|]; [|reflexivity]. destruct (m_in_examples m).
  - destruct (sptr_eq_dec (m_stmt m) PRuleS) as [E|NE].
    + destruct (uz_get_stmt_rule z m T E) as [[r G] [G'|[r' G']]]; rewrite G, G'; reflexivity.
    + rewrite (uz_get_stmt z m T NE). destruct (get_stmt m) as [[b|s|r]|]; try reflexivity.
      destruct (sc_examples s); [reflexivity|]. now rewrite uz_set_stmt.
  - now rewrite uz_set_last_step.
Qed.

Lemma zinv_close_table z m : zinv z m -> zinv z (close_table m) /\ keeps m (close_table m).
Proof.
  intros Z. unfold close_table. destruct (m_table m) as [t|]; [|split; [exact Z|repeat split]]. destruct (m_in_examples m).
  - destruct (get_stmt m) as [[b|s|r]|]; try (split; [exact Z|repeat split]).
    destruct (sc_examples s); [split; [exact Z|repeat split]|].
    pose proof (zinv_set_stmt z m (VScen (mkPScen (sc_outline s) (sc_kw s) (sc_name s) (sc_line s) (sc_tags s) (sc_descr s) (sc_steps s)
                   (mkPEx (pe_kw p) (pe_name p) (pe_line p) (pe_tags p) (Some (table_rows_in_order t)) :: l))) Z) as Z'.
    split; [exact Z'|exact (set_stmt_sig m _)].
  - destruct (zinv_set_last_step z m (fun st => mkPStep (ps_kw st) (ps_type st) (ps_name st) (ps_line st) (ps_text st) (Some (table_rows_in_order t))) Z) as [Z' K].
    split; [exact Z'|exact K].
Qed.

(* ---- builders ---- *)
Lemma uz_build_scenario z m o a n : ztree z m -> build_scenario (unzoom z m) o a n = unzoom z (build_scenario m o a n).
Proof. intros T. unfold build_scenario. change (m_line (unzoom z m)) with (m_line m). change (m_tags (unzoom z m)) with (m_tags m). now rewrite uz_add_item. Qed.

Lemma zinv_build_scenario z m o a n : zinv z m -> ztree z (build_scenario m o a n) /\
  m_cont (build_scenario m o a n) = m_cont m /\ m_stmt (build_scenario m o a n) = PItem.
Proof.
  intros [T S]. unfold build_scenario. set (s := mkPScen o a n (m_line m) (m_tags m) [] [] []).
  destruct (add_item_sig z m s T) as (A & B & C). split; [|split; [exact B|exact C]].
  apply (ztree_ext z (add_item m s)); [reflexivity|reflexivity|reflexivity|now apply ztree_add_item].
Qed.

Lemma uz_build_examples z m a n : ztree z m -> build_examples (unzoom z m) a n = rmap (unzoom z) (build_examples m a n).
Proof.
  intros T. unfold build_examples. change (m_line (unzoom z m)) with (m_line m). change (m_tags (unzoom z m)) with (m_tags m).
  change (m_table (unzoom z m)) with (m_table m).
  destruct (sptr_eq_dec (m_stmt m) PRuleS) as [E|NE].
  - destruct (uz_get_stmt_rule z m T E) as [[r G] [G'|[r' G']]]; rewrite G, G'; reflexivity.
  - rewrite (uz_get_stmt z m T NE). destruct (get_stmt m) as [[b|s|r]|]; try reflexivity.
    destruct (sc_outline s); [|reflexivity]. cbn [rmap]. now rewrite uz_set_stmt.
Qed.

Lemma zinv_build_examples z m a n m' : zinv z m -> build_examples m a n = ROk m' -> zinv z m' /\ keeps m m'.
Proof.
  intros Z. unfold build_examples. destruct (get_stmt m) as [[b|s|r]|]; try discriminate. destruct (sc_outline s); [|discriminate].
  intros E. inversion E. subst. split.
  - pose proof (zinv_set_stmt z m (VScen (mkPScen true (sc_kw s) (sc_name s) (sc_line s) (sc_tags s) (sc_descr s) (sc_steps s)
                                             (mkPEx a n (m_line m) (m_tags m) None :: sc_examples s))) Z) as Z'. exact Z'.
  - exact (set_stmt_sig m _).
Qed.

Lemma uz_build_rule z m a n : ztree z m -> build_rule (unzoom z m) a n = rmap (unzoom z) (build_rule m a n).
Proof.
  intros H. zsetup H m; zunfold; cbn.
  - rewrite (span_scens _ A). cbn. destruct fitems as [|[s0|r0] t0]; cbn in *; try discriminate A; rewrite ?(span_scens _ A); reflexivity.
  - destruct (span_rules t) as [p o] eqn:SP. cbn. rewrite ?SP. reflexivity.
Qed.

Lemma zinv_build_rule z m a n m' : ztree z m -> build_rule m a n = ROk m' ->
  ztree z m' /\ m_st m' = m_st m /\ m_cont m' = CRule /\ m_stmt m' = PRuleS.
Proof.
  intros H. zsetup H m; unfold build_rule; cbn; intros E; inversion E; subst; cbn; (split; [|auto]).
  - eexists; cbn; split; [reflexivity|]; split; [reflexivity|]; right; split; [reflexivity|].
    eexists; eexists; split; [reflexivity|]. rewrite (span_scens _ A). exact A.
  - eexists; cbn; split; [reflexivity|]; split; [reflexivity|]; right; split; [reflexivity|].
    eexists; eexists; split; [reflexivity|]. cbn. destruct (span_rules t) as [p o]. exact A.
Qed.

(* a Background line: only inside a rule of the zoomed feature (the zoomed feature itself has none) *)
Lemma uz_build_background z m a n : ztree z m -> m_cont m = CRule -> build_background (unzoom z m) a n = rmap (unzoom z) (build_background m a n).
Proof.
  intros H C0. zsetup H m; try discriminate C0. zunfold; cbn. destruct (span_rules t) as [p o] eqn:SP. cbn.
  destruct tags; [|reflexivity]. destruct (r_bg r) as [b|]; [destruct (bg_steps b); [|reflexivity]|]; cbn; rewrite SP; reflexivity.
Qed.

Lemma zinv_build_background z m a n m' : ztree z m -> m_cont m = CRule -> build_background m a n = ROk m' ->
  ztree z m' /\ m_st m' = m_st m /\ m_cont m' = CRule /\ m_stmt m' = PBg.
Proof.
  intros H C0. zsetup H m; try discriminate C0. unfold build_background, cont_bg, cur_rule, set_cont_bg, set_cur_rule, cur_rule. cbn.
  destruct tags; [|discriminate]. destruct (r_bg r) as [b|]; [destruct (bg_steps b); [|discriminate]|];
    intros E; inversion E; subst; cbn; (split; [ztB|auto]).
Qed.

(* ---- steps and taggable statements ---- *)
Definition pmap (z : zctx) (p : pstep * mstate) : pstep * mstate := (fst p, unzoom z (snd p)).

Lemma uz_parse_step z m s : ztree z m -> parse_step (unzoom z m) s = romap (pmap z) (parse_step m s).
Proof.
  intros T. unfold parse_step. change (m_kw (unzoom z m)) with (m_kw m). change (m_last (unzoom z m)) with (m_last m).
  change (m_line (unzoom z m)) with (m_line m). rewrite (uz_last_bg_type z m T).
  destruct (step_fact (m_kw m) s) as [[[rt k] text]|]; [|reflexivity].
  destruct (if starts_with_star k then m_last m else None); [reflexivity|].
  destruct rt; try reflexivity; destruct (m_last m); try reflexivity; destruct (last_bg_type m); reflexivity.
Qed.

Lemma parse_step_state m s st m1 : parse_step m s = ROk (Some (st, m1)) -> m1 = m \/ exists t, m1 = upd_last m t.
Proof.
  unfold parse_step. destruct (step_fact (m_kw m) s) as [[[rt k] text]|]; [|discriminate].
  destruct (if starts_with_star k then m_last m else None); [intros E; inversion E; auto|].
  destruct rt; try (intros E; inversion E; eauto; fail); destruct (m_last m); try (intros E; inversion E; eauto; fail);
    destruct (last_bg_type m); intros E; inversion E; eauto.
Qed.

Lemma zinv_parse_step z m s st m1 : zinv z m -> parse_step m s = ROk (Some (st, m1)) -> zinv z m1 /\ keeps m m1.
Proof. intros Z E. destruct (parse_step_state m s st m1 E) as [->|[t ->]]; split; try exact Z; repeat split. Qed.

Lemma zinv_upd_st z m s : ztree z m -> sigok s (m_cont m) (m_stmt m) -> zinv z (upd_st m s).
Proof. intros T S. split; [exact T|exact S]. Qed.

Ltac sigsolve := unfold sigok in *; intuition congruence.

Lemma sub_taggable_ok z m s : zinv z m ->
  sub_taggable (unzoom z m) s = romap (unzoom z) (sub_taggable m s) /\ roall (zinv z) (sub_taggable m s).
Proof.
  intros [T S]. unfold sub_taggable. change (m_kw (unzoom z m)) with (m_kw m). change (m_line (unzoom z m)) with (m_line m).
  change (m_tags (unzoom z m)) with (m_tags m). rewrite !match_at. destruct (starts_at s).
  - destruct (tag_words (split_ws s) (m_line m)); cbn; [|auto]. split; [reflexivity|]. apply zinv_upd_st; [exact T|]. cbn. sigsolve.
  - destruct (first_alias (k_rule (m_kw m)) s) as [[a n]|].
    { rewrite (uz_build_rule z m a n T). destruct (build_rule m a n) as [m'|] eqn:B; cbn; [|auto]. split; [reflexivity|].
      destruct (zinv_build_rule z m a n m' T B) as (T' & _ & C' & P'). apply zinv_upd_st; [exact T'|]. rewrite C', P'. sigsolve. }
    destruct (first_alias (k_scenario (m_kw m)) s) as [[a n]|].
    { rewrite (uz_build_scenario z m false a n T). cbn. split; [reflexivity|].
      destruct (zinv_build_scenario z m false a n (conj T S)) as (T' & C' & P'). apply zinv_upd_st; [exact T'|]. rewrite C', P'. sigsolve. }
    destruct (first_alias (k_outline (m_kw m)) s) as [[a n]|].
    { rewrite (uz_build_scenario z m true a n T). cbn. split; [reflexivity|].
      destruct (zinv_build_scenario z m true a n (conj T S)) as (T' & C' & P'). apply zinv_upd_st; [exact T'|]. rewrite C', P'. sigsolve. }
    destruct (first_alias (k_examples (m_kw m)) s) as [[a n]|]; [|cbn; auto].
    rewrite (uz_build_examples z m a n T). destruct (build_examples m a n) as [m'|] eqn:B; cbn; [|auto]. split; [reflexivity|].
    destruct (zinv_build_examples z m a n m' (conj T S) B) as ([T' S'] & K1 & K2 & K3). apply zinv_upd_st; [exact T'|]. rewrite K2, K3. sigsolve.
Qed.

(* ---- the actions ---- *)
Lemma a_table_row_ok z m s : zinv z m ->
  a_table_row (unzoom z m) s = rmap (unzoom z) (a_table_row m s) /\ rall (zinv z) (a_table_row m s).
Proof.
  intros Z. unfold a_table_row. change (m_table (unzoom z m)) with (m_table m). destruct (m_table m) as [t|]; cbn.
  - destruct (Nat.eqb (length (row_cells s)) (length (pt_head t))); cbn; auto.
  - auto.
Qed.

Lemma a_steps_ok z m line : zinv z m -> m_st m = StSteps ->
  a_steps (unzoom z m) line = rmap (unzoom z) (a_steps m line) /\ rall (zinv z) (a_steps m line).
Proof.
  intros [T S] ST. unfold a_steps. rewrite (uz_stmt_has_steps z m T).
  change (m_line (unzoom z m)) with (m_line m). change (m_lines (unzoom z m)) with (m_lines m).
  destruct (doc_fact line) as [[term col]|].
  { destruct (stmt_has_steps m); cbn; [|auto]. split; [reflexivity|]. apply zinv_upd_st; [exact T|]. cbn. rewrite ST in S. sigsolve. }
  rewrite (uz_parse_step z m _ T). destruct (parse_step m (strip line)) as [[[st m1]|]|] eqn:PS; cbn; [| |auto].
  { destruct (zinv_parse_step z m _ st m1 (conj T S) PS) as [[T1 S1] K1]. rewrite (uz_append_step z m1 st T1).
    destruct (append_step m1 st) as [m2|] eqn:AP; cbn; [|auto]. split; [reflexivity|].
    destruct (zinv_append_step z m1 st m2 (conj T1 S1) AP) as [Z2 _]. exact Z2. }
  destruct (sub_taggable_ok z m (strip line) (conj T S)) as [E R]. rewrite E.
  destruct (sub_taggable m (strip line)) as [[m'|]|]; cbn; [split; [reflexivity|exact R]| |auto].
  rewrite !match_pipe. destruct (starts_pipe (strip line)); [|cbn; auto].
  destruct (stmt_has_steps m); [|cbn; auto].
  assert (Z' : zinv z (upd_st m StTable)) by (apply zinv_upd_st; [exact T|]; rewrite ST in S; sigsolve).
  exact (a_table_row_ok z (upd_st m StTable) (strip line) Z').
Qed.

Lemma a_table_ok z m line : zinv z m -> m_st m = StTable ->
  a_table (unzoom z m) line = rmap (unzoom z) (a_table m line) /\ rall (zinv z) (a_table m line).
Proof.
  intros Z ST. unfold a_table. rewrite !match_pipe. destruct (starts_pipe (strip line)).
  - now apply a_table_row_ok.
  - destruct Z as [T S]. rewrite (uz_close_table z m T).
    destruct (zinv_close_table z m (conj T S)) as [[T' S'] (K1 & K2 & K3)].
    assert (Z' : zinv z (upd_st (close_table m) StSteps)).
    { apply zinv_upd_st; [exact T'|]. rewrite K2, K3. rewrite ST in S. sigsolve. }
    exact (a_steps_ok z (upd_st (close_table m) StSteps) (strip line) Z' eq_refl).
Qed.

Lemma a_multiline_ok z m line : zinv z m -> m_st m = StMultiline ->
  a_multiline (unzoom z m) line = rmap (unzoom z) (a_multiline m line) /\ rall (zinv z) (a_multiline m line).
Proof.
  intros [T S] ST. unfold a_multiline. change (m_ml_term (unzoom z m)) with (m_ml_term m).
  change (m_ml_start (unzoom z m)) with (m_ml_start m). change (m_ml_lead (unzoom z m)) with (m_ml_lead m).
  change (m_lines (unzoom z m)) with (m_lines m). change (m_line (unzoom z m)) with (m_line m).
  destruct (prefixb (m_ml_term m) (strip line)).
  - rewrite (uz_set_last_step z m _ T). cbn. split; [reflexivity|].
    destruct (zinv_set_last_step z m (fun st => mkPStep (ps_kw st) (ps_type st) (ps_name st) (ps_line st)
                 (Some (join [10%N] (rev (m_lines m)), m_ml_start m)) (ps_table st)) (conj T S)) as [[T' S'] (K1 & K2 & K3)].
    apply zinv_upd_st; [exact T'|]. cbn. rewrite K2, K3. rewrite ST in S. sigsolve.
  - destruct (strip (firstn (m_ml_lead m) line)); cbn; auto. split; [reflexivity|]. split; [exact T|exact S].
Qed.

Lemma a_taggable_ok z m s : zinv z m ->
  a_taggable (unzoom z m) s = rmap (unzoom z) (a_taggable m s) /\ rall (zinv z) (a_taggable m s).
Proof.
  intros Z. unfold a_taggable. destruct (sub_taggable_ok z m s Z) as [E R]. rewrite E.
  destruct (sub_taggable m s) as [[m'|]|]; cbn; auto.
Qed.

Lemma a_scenario_ok z m0 s : zinv z m0 -> (m_st m0 = StScenario \/ m_st m0 = StBackground) ->
  a_scenario (unzoom z m0) s = rmap (unzoom z) (a_scenario m0 s) /\ rall (zinv z) (a_scenario m0 s).
Proof.
  intros [T S] ST. unfold a_scenario. change (upd_last (unzoom z m0) None) with (unzoom z (upd_last m0 None)).
  set (m := upd_last m0 None). assert (Z : zinv z m) by (split; [exact T|exact S]).
  assert (T' : ztree z m) by exact T.
  rewrite (uz_parse_step z m _ T'). destruct (parse_step m s) as [[[st m1]|]|] eqn:PS; cbn; [| |auto].
  { destruct (zinv_parse_step z m _ st m1 Z PS) as [[T1 S1] (K1 & K2 & K3)]. rewrite (uz_append_step z m1 st T1).
    destruct (append_step m1 st) as [m2|] eqn:AP; cbn; [|auto]. split; [reflexivity|].
    destruct (zinv_append_step z m1 st m2 (conj T1 S1) AP) as [[T2 S2] (J1 & J2 & J3)].
    apply zinv_upd_st; [exact T2|]. rewrite J2, J3, K2, K3. cbn. destruct ST as [ST|ST]; rewrite ST in S; sigsolve. }
  destruct (sub_taggable_ok z m s Z) as [E R]. rewrite E.
  destruct (sub_taggable m s) as [[m'|]|]; cbn; [split; [reflexivity|exact R]| |auto].
  assert (NP : m_stmt m <> PRuleS) by (cbn; destruct S as (_ & _ & _ & S4); apply S4; exact ST).
  rewrite (uz_get_stmt z m T' NP). destruct (get_stmt m) as [v|]; cbn; [|auto].
  rewrite (uz_set_stmt z m _ T' NP). split; [reflexivity|]. now apply zinv_set_stmt.
Qed.

(* the line under a Rule line: in the zoomed world the Rule line was the Feature line *)
Definition nobg (kw : kwtable) (line : ustr) : Prop := first_alias (k_background kw) (strip line) = None.

Lemma uz_feature_descr z m d : ztree z m -> m_cont m = CFeat ->
  match cur_rule (unzoom z m) with
  | Some r => ROk (set_cur_rule (unzoom z m) (mkPRule (r_kw r) (r_name r) (r_line r) (r_tags r) (d :: r_descr r) (r_bg r) (r_items r)))
  | None => RErr (m_line m)
  end = rmap (unzoom z) (add_feature_descr m d).
Proof.
  intros H C0. zsetup H m; try discriminate C0. zunfold. cbn. rewrite (span_scens _ A). cbn. rewrite ?(span_scens _ A). reflexivity.
Qed.

Lemma ztree_feature_descr z m d m' : ztree z m -> add_feature_descr m d = ROk m' -> ztree z m' /\ keeps m m'.
Proof.
  intros H. zsetup H m; unfold add_feature_descr; cbn; intros E; inversion E; subst; (split; [|repeat split]).
  - ztA.
  - ztB.
Qed.

Lemma a_feature_rule_ok z m s : zinv z m -> m_st m = StFeature -> first_alias (k_background (m_kw m)) s = None ->
  a_rule (unzoom z m) s = rmap (unzoom z) (a_feature m s) /\ rall (zinv z) (a_feature m s).
Proof.
  intros [T S] ST NB. unfold a_rule, a_feature. destruct (sub_taggable_ok z m s (conj T S)) as [E R]. rewrite E.
  destruct (sub_taggable m s) as [[m'|]|]; cbn [rbind romap rmap rall roall] in *; [split; [reflexivity|exact R]| |auto].
  change (m_kw (unzoom z m)) with (m_kw m). rewrite NB.
  assert (C : m_cont m = CFeat).
  { destruct T as (vf & _ & _ & [[C _]|[C _]]); [exact C|]. destruct S as (_ & _ & S2 & _). exfalso. now apply (S2 C). }
  change (m_line (unzoom z m)) with (m_line m). rewrite (uz_feature_descr z m s T C). split; [reflexivity|].
  destruct (add_feature_descr m s) as [m'|] eqn:AD; cbn; [|auto].
  destruct (ztree_feature_descr z m s m' T AD) as [T' (K1 & K2 & K3)]. split; [exact T'|]. now rewrite K1, K2, K3.
Qed.

Lemma uz_rule_descr z m d : ztree z m -> m_cont m = CRule ->
  match cur_rule (unzoom z m) with
  | Some r => ROk (set_cur_rule (unzoom z m) (mkPRule (r_kw r) (r_name r) (r_line r) (r_tags r) (d :: r_descr r) (r_bg r) (r_items r)))
  | None => RErr (m_line m)
  end = rmap (unzoom z)
        match cur_rule m with
        | Some r => ROk (set_cur_rule m (mkPRule (r_kw r) (r_name r) (r_line r) (r_tags r) (d :: r_descr r) (r_bg r) (r_items r)))
        | None => RErr (m_line m)
        end.
Proof.
  intros H C0. zsetup H m; try discriminate C0. zunfold. cbn. destruct (span_rules t) as [p o] eqn:SP. cbn. rewrite ?SP. reflexivity.
Qed.

Lemma ztree_rule_descr z m d : ztree z m -> m_cont m = CRule ->
  match cur_rule m with
  | Some r => let m' := set_cur_rule m (mkPRule (r_kw r) (r_name r) (r_line r) (r_tags r) (d :: r_descr r) (r_bg r) (r_items r)) in
              ztree z m' /\ keeps m m'
  | None => True
  end.
Proof.
  intros H C0. zsetup H m; try discriminate C0. unfold cur_rule, set_cur_rule. cbn. split; [ztB|repeat split].
Qed.

Lemma a_rule_rule_ok z m s : zinv z m -> m_st m = StRule ->
  a_rule (unzoom z m) s = rmap (unzoom z) (a_rule m s) /\ rall (zinv z) (a_rule m s).
Proof.
  intros [T S] ST. unfold a_rule. destruct (sub_taggable_ok z m s (conj T S)) as [E R]. rewrite E.
  destruct (sub_taggable m s) as [[m'|]|]; cbn [rbind romap rmap rall roall] in *; [split; [reflexivity|exact R]| |auto].
  change (m_kw (unzoom z m)) with (m_kw m).
  assert (C : m_cont m = CRule).
  { destruct T as (vf & _ & _ & [[C _]|[C _]]); [|exact C]. destruct S as (_ & S1 & _). exfalso. destruct (S1 C) as [X _]. now apply X. }
  destruct (first_alias (k_background (m_kw m)) s) as [[a n]|].
  - rewrite (uz_build_background z m a n T C). destruct (build_background m a n) as [m'|] eqn:B; cbn; [|auto]. split; [reflexivity|].
    destruct (zinv_build_background z m a n m' T C B) as (T' & _ & C' & P'). apply zinv_upd_st; [exact T'|]. rewrite C', P'. sigsolve.
  - change (m_line (unzoom z m)) with (m_line m). rewrite (uz_rule_descr z m s T C). split; [reflexivity|].
    pose proof (ztree_rule_descr z m s T C) as X. destruct (cur_rule m) as [r|]; cbn; [|auto].
    destruct X as [T' (K1 & K2 & K3)]. split; [exact T'|]. now rewrite K1, K2, K3.
Qed.

(* ---- one line ---- *)
Lemma pst_eq_dec (a b : pst) : {a = b} + {a <> b}.  Proof. decide equality. Qed.

Lemma action_comment m line c r :
  strip line = c :: r -> N.eqb c cp_hash = true -> m_st m <> StMultiline -> m_st m <> StInitial -> action m line = ROk m.
Proof.
  intros SL H NM NI. apply N.eqb_eq in H. subst c. unfold action. rewrite SL. unfold cp_hash.
  destruct (m_st m); try reflexivity; congruence.
Qed.

Lemma action_ok z m line : zinv z m -> nobg (m_kw m) line -> strip line <> [] \/ m_st m = StMultiline ->
  action (unzoom z m) line = rmap (unzoom z) (action m line) /\ rall (zinv z) (action m line).
Proof.
  intros Z NB NE. destruct (pst_eq_dec (m_st m) StMultiline) as [ML|NML].
  - assert (A1 : action m line = a_multiline m line) by (unfold action; rewrite ML; reflexivity).
    assert (A2 : action (unzoom z m) line = a_multiline (unzoom z m) line) by (unfold action; cbn [m_st unzoom]; rewrite ML; reflexivity).
    rewrite A1, A2. now apply a_multiline_ok.
  - destruct NE as [NE|NE]; [|congruence].
    assert (NI : m_st m <> StInitial) by (destruct Z as [_ (S0 & _)]; exact S0).
    destruct (first_is cp_hash (strip line)) eqn:FC.
    + destruct (strip line) as [|c r] eqn:SL; [congruence|]. cbn [first_is] in FC.
      rewrite (action_comment m line c r SL FC NML NI).
      assert (NML' : m_st (unzoom z m) <> StMultiline) by (cbn [m_st unzoom]; destruct (m_st m); cbn; congruence).
      assert (NI' : m_st (unzoom z m) <> StInitial) by (cbn [m_st unzoom]; destruct (m_st m); cbn; congruence).
      rewrite (action_comment (unzoom z m) line c r SL FC NML' NI'). split; [reflexivity|exact Z].
    + rewrite (action_dispatch m line NE FC), (action_dispatch (unzoom z m) line NE FC). cbn [m_st unzoom].
      destruct (m_st m) eqn:ST; cbn [stmap]; try congruence.
      * now apply a_feature_rule_ok.
      * now apply a_taggable_ok.
      * apply a_scenario_ok; auto.
      * now apply a_rule_rule_ok.
      * apply a_scenario_ok; auto.
      * now apply a_steps_ok.
      * now apply a_table_ok.
Qed.

Theorem feed_unzoom z m line : zinv z m -> nobg (m_kw m) line ->
  feed (ROk (unzoom z m)) line = rmap (unzoom z) (feed (ROk m) line) /\ rall (zinv z) (feed (ROk m) line).
Proof.
  intros Z NB. unfold feed. cbn [rbind].
  change (upd_line (unzoom z m) (S (m_line (unzoom z m)))) with (unzoom z (upd_line m (S (m_line m)))).
  set (m1 := upd_line m (S (m_line m))). assert (Z1 : zinv z m1) by exact Z. assert (NB1 : nobg (m_kw m1) line) by exact NB.
  destruct (strip line) as [|c r] eqn:SL.
  - cbn [m_st unzoom]. destruct (pst_eq_dec (m_st m1) StMultiline) as [ML|NML].
    + rewrite ML. cbn [stmap]. apply action_ok; auto.
    + assert (E1 : match m_st m1 with StMultiline => action m1 line | _ => ROk m1 end = ROk m1) by (destruct (m_st m1); congruence).
      assert (E2 : match stmap (m_st m1) with StMultiline => action (unzoom z m1) line | _ => ROk (unzoom z m1) end = ROk (unzoom z m1))
        by (destruct (m_st m1); cbn; congruence).
      rewrite E1, E2. split; [reflexivity|exact Z1].
  - assert (NE : strip line <> []) by (rewrite SL; discriminate).
    destruct (action_ok z m1 line Z1 NB1 (or_introl NE)) as [E R].
    split; [exact E|exact R].
Qed.


(* ---- after the first line the keyword table never changes ---- *)
Definition kgood (k : kwtable) (r : res mstate) : Prop := match r with ROk a => m_kw a = k | RErr _ => True end.
Definition kgoodo (k : kwtable) (r : res (option mstate)) : Prop := match r with ROk (Some a) => m_kw a = k | _ => True end.

Lemma set_cur_rule_kw m r : m_kw (set_cur_rule m r) = m_kw m.
Proof. unfold set_cur_rule. crush_line. Qed.
Lemma set_cont_bg_kw m b : m_kw (set_cont_bg m b) = m_kw m.
Proof. unfold set_cont_bg. crush_line; apply set_cur_rule_kw. Qed.
Lemma set_item_kw m s : m_kw (set_item m s) = m_kw m.
Proof. unfold set_item. crush_line; apply set_cur_rule_kw. Qed.
Lemma set_stmt_kw m v : m_kw (set_stmt m v) = m_kw m.
Proof. unfold set_stmt. crush_line; auto using set_cont_bg_kw, set_cur_rule_kw, set_item_kw. Qed.
Lemma add_item_kw m s : m_kw (add_item m s) = m_kw m.
Proof. unfold add_item. crush_line; apply set_cur_rule_kw. Qed.
Lemma set_last_step_kw m f : m_kw (set_last_step m f) = m_kw m.
Proof. unfold set_last_step. crush_line; apply set_stmt_kw. Qed.
Lemma close_table_kw m : m_kw (close_table m) = m_kw m.
Proof. unfold close_table. crush_line; rewrite ?set_stmt_kw, ?set_last_step_kw; reflexivity. Qed.
Lemma build_rule_kw m a n : kgood (m_kw m) (build_rule m a n).
Proof. unfold kgood, build_rule. crush_line. Qed.
Lemma build_background_kw m a n : kgood (m_kw m) (build_background m a n).
Proof. unfold kgood, build_background. crush_line; apply set_cont_bg_kw. Qed.
Lemma build_scenario_kw m o a n : m_kw (build_scenario m o a n) = m_kw m.
Proof. unfold build_scenario. cbn. apply add_item_kw. Qed.
Lemma build_examples_kw m a n : kgood (m_kw m) (build_examples m a n).
Proof. unfold kgood, build_examples. crush_line. apply set_stmt_kw. Qed.
Lemma parse_step_kw m s :
  match parse_step m s with ROk (Some (st, m')) => m_kw m' = m_kw m | _ => True end.
Proof. unfold parse_step. crush_line. Qed.
Lemma append_step_kw m st m' : append_step m st = Some m' -> m_kw m' = m_kw m.
Proof. unfold append_step. destruct (get_stmt m) as [v|]; [|discriminate]. destruct (view_steps v); [|discriminate].
  intros H. inversion H. apply set_stmt_kw. Qed.

Lemma sub_taggable_kw m s : kgoodo (m_kw m) (sub_taggable m s).
Proof.
  unfold kgoodo, sub_taggable. rewrite match_at. destruct (starts_at s).
  - destruct (tag_words (split_ws s) (m_line m)); cbn; auto.
  - destruct (first_alias (k_rule (m_kw m)) s) as [[a nm]|].
    { pose proof (build_rule_kw m a nm) as G. unfold kgood in G. destruct (build_rule m a nm); cbn; auto. }
    destruct (first_alias (k_scenario (m_kw m)) s) as [[a nm]|]; [cbn; apply build_scenario_kw|].
    destruct (first_alias (k_outline (m_kw m)) s) as [[a nm]|]; [cbn; apply build_scenario_kw|].
    destruct (first_alias (k_examples (m_kw m)) s) as [[a nm]|]; [|exact I].
    pose proof (build_examples_kw m a nm) as G. unfold kgood in G. destruct (build_examples m a nm); cbn; auto.
Qed.

Ltac use_subk m s :=
  let G := fresh "G" in
  pose proof (sub_taggable_kw m s) as G; unfold kgoodo in G;
  destruct (sub_taggable m s) as [[?m'|]|?l]; cbn [rbind]; auto.

Lemma add_feature_descr_kw m d : kgood (m_kw m) (add_feature_descr m d).
Proof. unfold kgood, add_feature_descr. crush_line. Qed.
Lemma a_feature_kw m s : kgood (m_kw m) (a_feature m s).
Proof.
  unfold kgood, a_feature. use_subk m s.
  destruct (first_alias (k_background (m_kw m)) s) as [[a nm]|].
  - pose proof (build_background_kw m a nm) as B. unfold kgood in B. destruct (build_background m a nm); cbn; auto.
  - apply add_feature_descr_kw.
Qed.
Lemma a_taggable_kw m s : kgood (m_kw m) (a_taggable m s).
Proof. unfold kgood, a_taggable. use_subk m s. Qed.
Lemma a_rule_kw m s : kgood (m_kw m) (a_rule m s).
Proof.
  unfold kgood, a_rule. use_subk m s.
  destruct (first_alias (k_background (m_kw m)) s) as [[a nm]|].
  - pose proof (build_background_kw m a nm) as B. unfold kgood in B. destruct (build_background m a nm); cbn; auto.
  - destruct (cur_rule m); cbn; auto. apply set_cur_rule_kw.
Qed.
Lemma a_scenario_kw m s : kgood (m_kw m) (a_scenario m s).
Proof.
  unfold kgood, a_scenario. set (m1 := upd_last m None). change (m_kw m) with (m_kw m1).
  pose proof (parse_step_kw m1 s) as P. destruct (parse_step m1 s) as [[[st m2]|]|l]; cbn [rbind]; auto.
  - destruct (append_step m2 st) as [m3|] eqn:A; cbn; auto. rewrite (append_step_kw _ _ _ A). exact P.
  - use_subk m1 s. destruct (get_stmt m1); cbn; auto. apply (set_stmt_kw m1).
Qed.
Lemma a_table_row_kw m s : kgood (m_kw m) (a_table_row m s).
Proof. unfold kgood, a_table_row. crush_line. Qed.
Lemma a_steps_kw m line : kgood (m_kw m) (a_steps m line).
Proof.
  unfold kgood, a_steps. destruct (doc_fact line) as [[term col]|].
  - destruct (stmt_has_steps m); cbn; auto.
  - pose proof (parse_step_kw m (strip line)) as P. destruct (parse_step m (strip line)) as [[[st m2]|]|l]; cbn [rbind]; auto.
    + destruct (append_step m2 st) as [m3|] eqn:A; cbn; auto. rewrite (append_step_kw _ _ _ A). exact P.
    + use_subk m (strip line). rewrite match_pipe. destruct (starts_pipe (strip line)); [|exact I].
      destruct (stmt_has_steps m); [|exact I].
      pose proof (a_table_row_kw (upd_st m StTable) (strip line)) as T. unfold kgood in T. exact T.
Qed.
Lemma a_table_kw m line : kgood (m_kw m) (a_table m line).
Proof.
  unfold kgood, a_table. rewrite match_pipe. destruct (starts_pipe (strip line)).
  - apply a_table_row_kw.
  - pose proof (a_steps_kw (upd_st (close_table m) StSteps) (strip line)) as S. unfold kgood in S.
    cbn [upd_st m_kw] in S. rewrite close_table_kw in S. exact S.
Qed.
Lemma a_multiline_kw m line : kgood (m_kw m) (a_multiline m line).
Proof. unfold kgood, a_multiline. crush_line. apply set_last_step_kw. Qed.

Lemma action_kw m line : m_st m <> StInitial -> kgood (m_kw m) (action m line).
Proof.
  intros NI. destruct (pst_eq_dec (m_st m) StMultiline) as [ML|NML].
  - unfold action. rewrite ML. apply a_multiline_kw.
  - destruct (strip line) as [|c r] eqn:SL.
    + unfold action. rewrite SL. destruct (m_st m); try congruence;
        first [apply a_feature_kw | apply a_taggable_kw | apply a_scenario_kw | apply a_rule_kw | apply a_steps_kw | apply a_table_kw].
    + destruct (N.eqb c cp_hash) eqn:FC.
      * rewrite (action_comment m line c r SL FC NML NI). reflexivity.
      * assert (NE : strip line <> []) by (rewrite SL; discriminate).
        assert (FC' : first_is cp_hash (strip line) = false) by (rewrite SL; exact FC).
        rewrite (action_dispatch m line NE FC'). destruct (m_st m); try congruence;
          first [apply a_feature_kw | apply a_taggable_kw | apply a_scenario_kw | apply a_rule_kw | apply a_steps_kw | apply a_table_kw].
Qed.

Lemma feed_keeps_kw m line m' : m_st m <> StInitial -> feed (ROk m) line = ROk m' -> m_kw m' = m_kw m.
Proof.
  intros NI. unfold feed. cbn [rbind]. set (m1 := upd_line m (S (m_line m))).
  assert (NI1 : m_st m1 <> StInitial) by exact NI.
  pose proof (action_kw m1 line NI1) as K. unfold kgood in K.
  destruct (strip line); [destruct (m_st m1) eqn:ST|]; intros E; try (inversion E; subst; reflexivity); rewrite E in K; exact K.
Qed.

(* a run of lines *)
Theorem run_unzoom z lines : forall m m',
  zinv z m -> Forall (nobg (m_kw m)) lines -> fold_left feed lines (ROk m) = ROk m' ->
  fold_left feed lines (ROk (unzoom z m)) = ROk (unzoom z m') /\ zinv z m'.
Proof.
  induction lines as [|l ls IH]; intros m m' Z NB FD.
  - cbn in *. inversion FD. subst. auto.
  - inversion NB as [|? ? N1 N2]. subst. cbn [fold_left] in *.
    destruct (feed_unzoom z m l Z N1) as [E R]. rewrite E.
    destruct (feed (ROk m) l) as [m1|e] eqn:F1.
    + cbn [rmap rall] in *.
      assert (K : m_kw m1 = m_kw m) by (apply (feed_keeps_kw m l m1); [destruct Z as [_ (S0 & _)]; exact S0|exact F1]).
      apply (IH m1 m' R); [rewrite K; exact N2|exact FD].
    + exfalso. clear -FD. induction ls; cbn in FD; [discriminate|auto].
Qed.
