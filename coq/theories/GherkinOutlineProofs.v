(* GherkinOutlineProofs.v - C04 at the level of the state machine: Scenario Outlines with their
   Examples blocks (tags, name, table), on top of everything GherkinDescrProofs covers.
   Part 1: the lines (outline line, Examples line, rows) and the closing of an Examples table. *)
From BV Require Import Base UStr GherkinTypes Gherkin GherkinProofs GherkinRowProofs GherkinBlockProofs GherkinTagProofs
                       GherkinTableProofs GherkinDocProofs GherkinRichProofs GherkinDescrProofs.

(* ------------------------------------------------------------------ the outline line *)
Record outline_line (kw : kwtable) (line alias name : ustr) : Prop := {
  ol_nodoc : doc_fact line = None;
  ol_nonblank : strip line <> [];
  ol_nocomment : first_is cp_hash (strip line) = false;
  ol_notag : starts_at (strip line) = false;
  ol_nostep : step_fact kw (strip line) = None;
  ol_norule : first_alias (k_rule kw) (strip line) = None;
  ol_noscenario : first_alias (k_scenario kw) (strip line) = None;
  ol_outline : first_alias (k_outline kw) (strip line) = Some (alias, name) }.

Definition new_outline (m : mstate) (alias name : ustr) : pscen := mkPScen true alias name (S (m_line m)) (m_tags m) [] [] [].

Lemma sub_taggable_outline m s alias name :
  starts_at s = false -> first_alias (k_rule (m_kw m)) s = None -> first_alias (k_scenario (m_kw m)) s = None ->
  first_alias (k_outline (m_kw m)) s = Some (alias, name) ->
  sub_taggable m s = ROk (Some (upd_st (build_scenario m true alias name) StScenario)).
Proof. intros A R S O. unfold sub_taggable. rewrite match_at, A, R, S, O. reflexivity. Qed.

Lemma outline_line_strip kw line alias name : outline_line kw line alias name -> outline_line kw (strip line) alias name.
Proof. intros [ND NB NC NT NS NR NSc OL]. split; rewrite ?strip_idem; auto using doc_fact_strip. Qed.


Lemma feed_outline_line_anywhere m f line alias name :
  m_cont m = CFeat -> m_feat m = Some f -> in_feature_body m -> outline_line (m_kw m) line alias name ->
  exists m', feed (ROk m) line = ROk m' /\ m_st m' = StScenario /\
             at_feature_scenario m' (with_items f (FScen (new_outline m alias name) :: f_items f)) (new_outline m alias name) (f_items f) /\
             m_line m' = S (m_line m) /\ m_kw m' = m_kw m /\ m_tags m' = [] /\ m_lang m' = m_lang m /\ m_table m' = m_table m /\
             m_in_examples m' = m_in_examples m /\ m_lines m' = m_lines m.
Proof.
  intros C F ST [ND NB NC NT NS NR NSc OL].
  set (m1 := upd_line m (S (m_line m))).
  assert (RES : forall m0, m_cont m0 = CFeat -> m_feat m0 = Some f -> m_line m0 = S (m_line m) -> m_kw m0 = m_kw m ->
                           m_tags m0 = m_tags m -> m_lang m0 = m_lang m ->
     let mx := upd_st (build_scenario m0 true alias name) StScenario in
     m_st mx = StScenario /\
     at_feature_scenario mx (with_items f (FScen (new_outline m alias name) :: f_items f)) (new_outline m alias name) (f_items f) /\
     m_line mx = S (m_line m) /\ m_kw mx = m_kw m /\ m_tags mx = [] /\ m_lang mx = m_lang m /\ m_table mx = m_table m0 /\
     m_in_examples mx = m_in_examples m0 /\ m_lines mx = m_lines m0).
  { intros m0 C0 F0 L0 K0 T0 G0 mx. unfold mx, build_scenario, add_item. rewrite C0, F0.
    unfold at_feature_scenario, new_outline, with_items. cbn. rewrite L0, T0. repeat split; assumption. }
  rewrite (feed_nonblank m line NB). fold m1. rewrite (action_dispatch m1 line NB NC). cbn [m1 upd_line m_st].
  destruct ST as [ST|[ST|[ST|ST]]]; rewrite ST.
  - unfold a_feature. rewrite (sub_taggable_outline m1 (strip line) alias name NT NR NSc OL). cbn [rbind].
    eexists. split; [reflexivity|]. apply (RES m1); reflexivity || assumption.
  - unfold a_steps. rewrite ND. unfold parse_step. cbn [m1 upd_line m_kw]. rewrite NS. cbn [rbind].
    rewrite (sub_taggable_outline m1 (strip line) alias name NT NR NSc OL). cbn [rbind].
    eexists. split; [reflexivity|]. apply (RES m1); reflexivity || assumption.
  - unfold a_scenario. unfold parse_step. cbn [upd_last m1 upd_line m_kw]. rewrite NS. cbn [rbind].
    rewrite (sub_taggable_outline (upd_last m1 None) (strip line) alias name NT NR NSc OL). cbn [rbind].
    eexists. split; [reflexivity|]. apply (RES (upd_last m1 None)); reflexivity || assumption.
  - unfold a_taggable. rewrite (sub_taggable_outline m1 (strip line) alias name NT NR NSc OL). cbn [rbind].
    eexists. split; [reflexivity|]. apply (RES m1); reflexivity || assumption.
Qed.

(* ------------------------------------------------------------------ the Examples line *)
Record examples_line (kw : kwtable) (line alias name : ustr) : Prop := {
  el_nodoc : doc_fact line = None;
  el_nonblank : strip line <> [];
  el_nocomment : first_is cp_hash (strip line) = false;
  el_notag : starts_at (strip line) = false;
  el_nopipe : starts_pipe (strip line) = false;
  el_nostep : step_fact kw (strip line) = None;
  el_norule : first_alias (k_rule kw) (strip line) = None;
  el_noscenario : first_alias (k_scenario kw) (strip line) = None;
  el_nooutline : first_alias (k_outline kw) (strip line) = None;
  el_examples : first_alias (k_examples kw) (strip line) = Some (alias, name) }.

Lemma examples_line_strip kw line alias name : examples_line kw line alias name -> examples_line kw (strip line) alias name.
Proof. intros [ND NB NC NT NP NS NR NSc NO EX]. split; rewrite ?strip_idem; auto using doc_fact_strip. Qed.

Definition with_examples (s : pscen) (l : list pexamples) : pscen :=
  mkPScen (sc_outline s) (sc_kw s) (sc_name s) (sc_line s) (sc_tags s) (sc_descr s) (sc_steps s) l.

Lemma sub_taggable_examples m s alias name :
  starts_at s = false -> first_alias (k_rule (m_kw m)) s = None -> first_alias (k_scenario (m_kw m)) s = None ->
  first_alias (k_outline (m_kw m)) s = None -> first_alias (k_examples (m_kw m)) s = Some (alias, name) ->
  sub_taggable m s = rbind (build_examples m alias name) (fun m' => ROk (Some (upd_st m' StTable))).
Proof. intros A R S O E. unfold sub_taggable. rewrite match_at, A, R, S, O, E. reflexivity. Qed.

(* an Examples block is open: its table is being read (or still empty) *)
Definition ex_pending (m : mstate) (f0 : pfeature) (s0 : pscen) (rest : list fitem) (e : pexamples) (r : list pexamples)
           (t : option ptable) : Prop :=
  m_in_examples m = true /\ m_st m = StTable /\ m_table m = t /\ at_feature_scenario m f0 s0 rest /\ sc_examples s0 = e :: r /\
  m_lines m = [] /\ m_tags m = [].

(* the Examples line in a clean state of an outline: after its steps, after its scenario line or after tag lines *)
Lemma feed_examples_line_clean m f s rest line alias name :
  (m_st m = StSteps \/ m_st m = StScenario \/ m_st m = StTaggable) ->
  m_table m = None -> m_in_examples m = false -> m_lines m = [] ->
  at_feature_scenario m f s rest -> sc_outline s = true ->
  examples_line (m_kw m) line alias name ->
  let e := mkPEx alias name (S (m_line m)) (m_tags m) None in
  let s' := with_examples (mkPScen true (sc_kw s) (sc_name s) (sc_line s) (sc_tags s) (sc_descr s) (sc_steps s) (sc_examples s))
                          (e :: sc_examples s) in
  exists m', feed (ROk m) line = ROk m' /\ ex_pending m' (with_items f (FScen s' :: rest)) s' rest e (sc_examples s) None /\
             m_line m' = S (m_line m) /\ m_kw m' = m_kw m /\ m_lang m' = m_lang m.
Proof.
  intros ST T IE LN W OUT [ND NB NC NT NP NS NR NSc NO EX] e s'.
  set (m1 := upd_line m (S (m_line m))).
  assert (RES : forall m0, at_feature_scenario m0 f s rest -> m_line m0 = S (m_line m) -> m_kw m0 = m_kw m -> m_tags m0 = m_tags m ->
                           m_lang m0 = m_lang m -> m_table m0 = None -> m_lines m0 = [] ->
     exists m', rbind (build_examples m0 alias name) (fun m' => ROk (Some (upd_st m' StTable))) = ROk (Some m') /\
                ex_pending m' (with_items f (FScen s' :: rest)) s' rest e (sc_examples s) None /\
                m_line m' = S (m_line m) /\ m_kw m' = m_kw m /\ m_lang m' = m_lang m).
  { intros m0 W0 L0 K0 T0 G0 B0 N0. unfold build_examples. rewrite (get_stmt_at _ _ _ _ W0), OUT. cbn [rbind].
    eexists. split; [reflexivity|]. destruct W0 as [A [B [C D]]].
    unfold set_stmt. rewrite A. unfold set_item. rewrite B, C, D.
    unfold ex_pending, at_feature_scenario, s', e, with_examples, with_items. cbn. rewrite L0, T0, B0.
    repeat split; auto. }
  assert (W1 : at_feature_scenario m1 f s rest) by (destruct W as [A [B [C D]]]; unfold at_feature_scenario; cbn; auto).
  rewrite (feed_nonblank m line NB). fold m1. rewrite (action_dispatch m1 line NB NC). cbn [m1 upd_line m_st].
  destruct ST as [ST|[ST|ST]]; rewrite ST.
  - unfold a_steps. rewrite ND. unfold parse_step. cbn [m1 upd_line m_kw]. rewrite NS. cbn [rbind].
    rewrite (sub_taggable_examples m1 (strip line) alias name NT NR NSc NO EX).
    destruct (RES m1 W1 eq_refl eq_refl eq_refl eq_refl T LN) as (m' & E & P & L & K & G). rewrite E. cbn [rbind].
    exists m'. split; [reflexivity|]. split; [exact P|]. repeat split; assumption.
  - unfold a_scenario. unfold parse_step. cbn [upd_last m1 upd_line m_kw]. rewrite NS. cbn [rbind].
    rewrite (sub_taggable_examples (upd_last m1 None) (strip line) alias name NT NR NSc NO EX).
    assert (W2 : at_feature_scenario (upd_last m1 None) f s rest)
      by (destruct W1 as [A [B [C D]]]; unfold at_feature_scenario; cbn; auto).
    destruct (RES (upd_last m1 None) W2 eq_refl eq_refl eq_refl eq_refl T LN) as (m' & E & P & L & K & G). rewrite E. cbn [rbind].
    exists m'. split; [reflexivity|]. split; [exact P|]. repeat split; assumption.
  - unfold a_taggable. rewrite (sub_taggable_examples m1 (strip line) alias name NT NR NSc NO EX).
    destruct (RES m1 W1 eq_refl eq_refl eq_refl eq_refl T LN) as (m' & E & P & L & K & G). rewrite E. cbn [rbind].
    exists m'. split; [reflexivity|]. split; [exact P|]. repeat split; assumption.
Qed.

(* ------------------------------------------------------------------ rows of an Examples table *)
Definition push_row (t : option ptable) (cells : list ustr) (ln : nat) : ptable :=
  match t with
  | None => mkPTable cells [] ln
  | Some t0 => mkPTable (pt_head t0) ((cells, ln) :: pt_rows t0) (pt_line t0)
  end.

Definition row_fits (t : option ptable) (cells : list ustr) : Prop :=
  match t with None => True | Some t0 => length cells = length (pt_head t0) end.

Lemma feed_ex_row m f s rest e r t line :
  ex_pending m f s rest e r t -> strip line <> [] -> first_is cp_hash (strip line) = false ->
  starts_pipe (strip line) = true -> row_fits t (row_cells (strip line)) ->
  exists m', feed (ROk m) line = ROk m' /\
             ex_pending m' f s rest e r (Some (push_row t (row_cells (strip line)) (S (m_line m)))) /\
             m_line m' = S (m_line m) /\ m_kw m' = m_kw m /\ m_lang m' = m_lang m.
Proof.
  intros (IE & ST & T & W & HS & LN & TG) NB NC P FIT.
  rewrite (feed_nonblank m line NB). rewrite (action_dispatch _ line NB NC). cbn [upd_line m_st]. rewrite ST.
  unfold a_table. rewrite match_pipe, P. unfold a_table_row. cbn [upd_line m_table]. rewrite T.
  destruct W as [A [B [C D]]].
  destruct t as [t0|]; cbn [row_fits push_row] in *.
  - rewrite FIT, Nat.eqb_refl. eexists. split; [reflexivity|].
    unfold ex_pending, at_feature_scenario. cbn. rewrite IE. repeat split; auto.
  - eexists. split; [reflexivity|]. unfold ex_pending, at_feature_scenario. cbn. rewrite IE. repeat split; auto.
Qed.

(* the table while it is being read: heading, the rows read so far newest first *)
Definition ex_table_pending (rows : list ustr) (ln : nat) : option ptable :=
  match rows with
  | [] => None
  | h :: body => Some (mkPTable (row_cells (strip h)) (rev (rows_from body (S ln))) (S ln))
  end.

(* ... and as the parser delivers it once the block is closed *)
Definition ex_table (rows : list ustr) (ln : nat) : option ptable :=
  match rows with
  | [] => None
  | h :: body => Some (mkPTable (row_cells (strip h)) (rows_from body (S ln)) (S ln))
  end.

Definition ex_rows_ok (rows : list ustr) : Prop :=
  Forall (fun l => strip l <> [] /\ first_is cp_hash (strip l) = false /\ starts_pipe (strip l) = true /\
                   length (row_cells (strip l)) = length (row_cells (strip (hd [] rows)))) rows.

Lemma feed_ex_body_rows body : forall m f s rest e r t,
  ex_pending m f s rest e r (Some t) ->
  Forall (fun l => strip l <> [] /\ first_is cp_hash (strip l) = false /\ starts_pipe (strip l) = true /\
                   length (row_cells (strip l)) = length (pt_head t)) body ->
  exists m', fold_left feed body (ROk m) = ROk m' /\
             ex_pending m' f s rest e r (Some (mkPTable (pt_head t) (rev (rows_from body (m_line m)) ++ pt_rows t) (pt_line t))) /\
             m_line m' = m_line m + length body /\ m_kw m' = m_kw m /\ m_lang m' = m_lang m.
Proof.
  induction body as [|l body IH]; intros m f s rest e r t PD OK.
  - exists m. cbn [fold_left rows_from rev app length]. rewrite Nat.add_0_r. destruct t as [th tr tl]. cbn [pt_head pt_rows pt_line].
    split; [reflexivity|]. split; [exact PD|]. repeat split.
  - inversion OK as [|? ? (NB & NC & P & LEN) OK']. subst.
    destruct (feed_ex_row m f s rest e r (Some t) l PD NB NC P LEN) as (m1 & FD1 & PD1 & L1 & K1 & G1).
    cbn [push_row] in PD1.
    assert (OK1 : Forall (fun l0 => strip l0 <> [] /\ first_is cp_hash (strip l0) = false /\ starts_pipe (strip l0) = true /\
               length (row_cells (strip l0)) = length (pt_head (mkPTable (pt_head t) ((row_cells (strip l), S (m_line m)) :: pt_rows t) (pt_line t)))) body)
      by exact OK'.
    destruct (IH m1 f s rest e r _ PD1 OK1) as (m' & FD' & PD' & L' & K' & G').
    exists m'. cbn [fold_left]. rewrite FD1. split; [exact FD'|]. cbn [pt_head pt_rows pt_line] in PD'. split.
    + cbn [rows_from rev]. rewrite L1 in PD'. rewrite <- app_assoc. exact PD'.
    + cbn [length]. repeat split; try congruence. lia.
Qed.

Lemma feed_ex_rows rows m f s rest e r :
  ex_pending m f s rest e r None -> ex_rows_ok rows ->
  exists m', fold_left feed rows (ROk m) = ROk m' /\ ex_pending m' f s rest e r (ex_table_pending rows (m_line m)) /\
             m_line m' = m_line m + length rows /\ m_kw m' = m_kw m /\ m_lang m' = m_lang m.
Proof.
  intros PD OK. destruct rows as [|h body].
  - exists m. cbn [fold_left ex_table_pending length]. rewrite Nat.add_0_r. split; [reflexivity|]. split; [exact PD|]. repeat split.
  - inversion OK as [|? ? (NB & NC & P & _) OB]. subst. cbn [hd] in OB.
    destruct (feed_ex_row m f s rest e r None h PD NB NC P I) as (m1 & FD1 & PD1 & L1 & K1 & G1). cbn [push_row] in PD1.
    destruct (feed_ex_body_rows body m1 f s rest e r _ PD1 OB) as (m2 & FD2 & PD2 & L2 & K2 & G2).
    exists m2. cbn [fold_left]. rewrite FD1. split; [exact FD2|]. split.
    + cbn [pt_head pt_rows pt_line] in PD2. rewrite app_nil_r in PD2. rewrite L1 in PD2. exact PD2.
    + cbn [length]. repeat split; try congruence. lia.
Qed.

(* ------------------------------------------------------------------ closing an Examples table *)
Definition ex_closed_scen (s0 : pscen) (e : pexamples) (r : list pexamples) (t : option ptable) : pscen :=
  match t with
  | None => s0
  | Some t0 => with_examples s0 (mkPEx (pe_kw e) (pe_name e) (pe_line e) (pe_tags e) (Some (table_rows_in_order t0)) :: r)
  end.

Lemma with_items_same f s rest : f_items f = FScen s :: rest -> with_items f (FScen s :: rest) = f.
Proof. intros D. destruct f; cbn in *. now rewrite D. Qed.

Lemma ex_close_eq m f s rest e r t :
  ex_pending m f s rest e r t ->
  close_table m =
  upd_table (upd_tree m (Some (with_items f (FScen (ex_closed_scen s e r t) :: rest))) (m_cont m) (m_det_rule m) (m_stmt m) (m_det m))
            None false.
Proof.
  intros (IE & ST & T & W & HS & LN & TG). pose proof (get_stmt_at _ _ _ _ W) as G. destruct W as [A [B [C D]]].
  unfold close_table. rewrite T. destruct t as [t0|]; cbn [ex_closed_scen].
  - rewrite IE, G, HS. unfold set_stmt. rewrite A. unfold set_item. rewrite B, C, D.
    unfold with_examples, with_items. rewrite ?A, ?B. reflexivity.
  - rewrite (with_items_same f s rest D). unfold upd_table, upd_tree. rewrite C. destruct m; reflexivity.
Qed.

Lemma ex_pending_line m f s rest e r t n : ex_pending m f s rest e r t -> ex_pending (upd_line m n) f s rest e r t.
Proof.
  intros (IE & ST & T & W & HS & LN & TG). destruct W as [A [B [C D]]].
  unfold ex_pending, at_feature_scenario. cbn. repeat split; auto.
Qed.

Lemma ex_closes m f s rest e r t line :
  ex_pending m f s rest e r t ->
  strip line <> [] -> first_is cp_hash (strip line) = false -> starts_pipe (strip line) = false ->
  feed (ROk m) line = feed (ROk (upd_st (close_table m) StSteps)) (strip line).
Proof.
  intros PD NB NC P. pose proof PD as (IE & ST & T & W & HS & LN & TG).
  assert (NB2 : strip (strip line) <> []) by (now rewrite strip_idem).
  assert (NC2 : first_is cp_hash (strip (strip line)) = false) by (now rewrite strip_idem).
  rewrite (feed_nonblank m line NB). rewrite (action_dispatch _ line NB NC). cbn [upd_line m_st]. rewrite ST.
  unfold a_table. rewrite match_pipe, P.
  rewrite (feed_nonblank _ (strip line) NB2). rewrite (action_dispatch _ (strip line) NB2 NC2). cbn [upd_line upd_st m_st].
  f_equal.
  rewrite (ex_close_eq _ f s rest e r t (ex_pending_line _ _ _ _ _ _ _ (S (m_line m)) PD)), (ex_close_eq m f s rest e r t PD).
  reflexivity.
Qed.

Lemma ex_closed_state m f s rest e r t :
  ex_pending m f s rest e r t ->
  let s' := ex_closed_scen s e r t in
  let m' := upd_st (close_table m) StSteps in
  m_st m' = StSteps /\ at_feature_scenario m' (with_items f (FScen s' :: rest)) s' rest /\
  m_table m' = None /\ m_in_examples m' = false /\ m_lines m' = [] /\ m_tags m' = [] /\
  m_line m' = m_line m /\ m_kw m' = m_kw m /\ m_lang m' = m_lang m.
Proof.
  intros PD s' m'. unfold m'. rewrite (ex_close_eq m f s rest e r t PD).
  destruct PD as (IE & ST & T & W & HS & LN & TG). destruct W as [A [B [C D]]].
  unfold at_feature_scenario. cbn. repeat split; auto.
Qed.

(* ------------------------------------------------------------------ inside an outline *)
(* nothing pending; tags may have been collected for the next Examples block *)
Definition oready (m : mstate) (f : pfeature) (s : pscen) (rest : list fitem) : Prop :=
  m_in_examples m = false /\ m_lines m = [] /\ m_table m = None /\
  (m_st m = StSteps \/ m_st m = StScenario \/ m_st m = StTaggable) /\ at_feature_scenario m f s rest.

(* (f, s): the feature and its newest scenario once whatever is pending has been closed *)
Definition oview (m : mstate) (f : pfeature) (s : pscen) (rest : list fitem) : Prop :=
  oready m f s rest \/
  (m_tags m = [] /\ exists f0 s0 st r t, pending m f0 s0 rest st r t /\
     s = with_steps s0 (with_table st (table_rows_in_order t) :: r) /\ f = with_items f0 (FScen s :: rest)) \/
  (exists f0 s0 e r t, ex_pending m f0 s0 rest e r t /\ s = ex_closed_scen s0 e r t /\ f = with_items f0 (FScen s :: rest)).

Lemma settled_oview m f s rest : settled m f s rest -> m_tags m = [] -> oview m f s rest.
Proof.
  intros [IE [LN [[T [ST W]] | (f0 & s0 & st & r & t & ST & T & W & HS & ES & EF)]]] TG.
  - left. split; [exact IE|]. split; [exact LN|]. split; [exact T|]. split; [destruct ST as [X|X]; auto|exact W].
  - right. left. split; [exact TG|]. exists f0, s0, st, r, t. split; [|split; assumption].
    split; [exact IE|]. split; [exact ST|]. split; [exact T|]. split; [exact W|]. split; [exact HS|exact LN].
Qed.

(* a line that is no table row and no doc-string delimiter, arriving while something is pending, closes it
   first; in every case only the stripped line matters *)
Lemma oview_reduce m f s rest line :
  oview m f s rest -> doc_fact line = None ->
  strip line <> [] -> first_is cp_hash (strip line) = false -> starts_pipe (strip line) = false ->
  exists mc, feed (ROk m) line = feed (ROk mc) (strip line) /\ oready mc f s rest /\
             m_tags mc = m_tags m /\ m_line mc = m_line m /\ m_kw mc = m_kw m /\ m_lang mc = m_lang m.
Proof.
  intros [OR | [(TG & f0 & s0 & st & r & t & PD & ES & EF) | (f0 & s0 & e & r & t & PD & ES & EF)]] ND NB NC P.
  - exists m. split; [|split; [exact OR|repeat split; reflexivity]].
    destruct OR as (IE & LN & T & ST & W).
    assert (NB2 : strip (strip line) <> []) by (now rewrite strip_idem).
    assert (NC2 : first_is cp_hash (strip (strip line)) = false) by (now rewrite strip_idem).
    rewrite (feed_nonblank m line NB), (feed_nonblank m (strip line) NB2).
    rewrite (action_dispatch _ line NB NC), (action_dispatch _ (strip line) NB2 NC2). cbn [upd_line m_st].
    destruct ST as [ST|[ST|ST]]; rewrite ST; rewrite ?strip_idem; try reflexivity.
    unfold a_steps. rewrite strip_idem, ND, (doc_fact_strip _ ND). reflexivity.
  - destruct PD as (IE & ST & T & W & HS & LN).
    exists (upd_st (close_table m) StSteps). split; [apply (table_closes m f0 s0 rest st r t line ST W HS T IE NB NC P)|].
    destruct (closed_state m f0 s0 rest st r t W HS T IE) as (ST1 & W1 & T1 & IE1 & L1 & K1 & TG1 & G1 & _ & LN1).
    rewrite <- ES in W1. rewrite <- EF in W1.
    split; [|repeat split; congruence].
    split; [exact IE1|]. split; [congruence|]. split; [exact T1|]. split; [left; exact ST1|exact W1].
  - exists (upd_st (close_table m) StSteps). split; [apply (ex_closes m f0 s0 rest e r t line PD NB NC P)|].
    destruct (ex_closed_state m f0 s0 rest e r t PD) as (ST1 & W1 & T1 & IE1 & LN1 & TG1 & L1 & K1 & G1).
    destruct PD as (_ & _ & _ & _ & _ & _ & TG).
    rewrite <- ES in W1. rewrite <- EF in W1.
    split; [|repeat split; congruence].
    split; [exact IE1|]. split; [exact LN1|]. split; [exact T1|]. split; [left; exact ST1|exact W1].
Qed.

(* ------------------------------------------------------------------ tag lines inside an outline *)
Lemma feed_tag_line_oready m f s rest line names :
  oready m f s rest -> tag_line (m_kw m) line names ->
  exists m', feed (ROk m) line = ROk m' /\ oready m' f s rest /\ m_st m' = StTaggable /\
             m_tags m' = m_tags m ++ map (fun n => (n, S (m_line m))) names /\
             m_line m' = S (m_line m) /\ m_kw m' = m_kw m /\ m_lang m' = m_lang m.
Proof.
  intros (IE & LN & T & ST & W) [ND NB NC AT NS TG].
  set (m1 := upd_line m (S (m_line m))).
  assert (RES : forall m0, at_feature_scenario m0 f s rest -> m_line m0 = S (m_line m) -> m_kw m0 = m_kw m ->
                           m_tags m0 = m_tags m -> m_table m0 = None -> m_in_examples m0 = false -> m_lines m0 = [] -> m_lang m0 = m_lang m ->
     let mx := upd_st (upd_tags m0 (m_tags m0 ++ map (fun n => (n, m_line m0)) names)) StTaggable in
     oready mx f s rest /\ m_st mx = StTaggable /\ m_tags mx = m_tags m ++ map (fun n => (n, S (m_line m))) names /\
     m_line mx = S (m_line m) /\ m_kw mx = m_kw m /\ m_lang mx = m_lang m).
  { intros m0 W0 L0 K0 T0 B0 I0 N0 G0 mx. destruct W0 as [A [B [C D]]].
    unfold mx, oready, at_feature_scenario. cbn. rewrite L0, T0. repeat split; auto. }
  assert (W1 : at_feature_scenario m1 f s rest) by (destruct W as [A [B [C D]]]; unfold at_feature_scenario; cbn; auto).
  rewrite (feed_nonblank m line NB). fold m1. rewrite (action_dispatch m1 line NB NC). cbn [m1 upd_line m_st].
  destruct ST as [ST|[ST|ST]]; rewrite ST.
  - unfold a_steps. rewrite ND. unfold parse_step. cbn [m1 upd_line m_kw]. rewrite NS. cbn [rbind].
    rewrite (sub_taggable_tags m1 (strip line) _ AT (TG _)). cbn [rbind].
    eexists. split; [reflexivity|]. apply (RES m1); try reflexivity; assumption.
  - unfold a_scenario. unfold parse_step. cbn [upd_last m1 upd_line m_kw]. rewrite NS. cbn [rbind].
    rewrite (sub_taggable_tags (upd_last m1 None) (strip line) _ AT (TG _)). cbn [rbind].
    eexists. split; [reflexivity|]. apply (RES (upd_last m1 None)); try reflexivity; try assumption.
  - unfold a_taggable. rewrite (sub_taggable_tags m1 (strip line) _ AT (TG _)). cbn [rbind].
    eexists. split; [reflexivity|]. apply (RES m1); try reflexivity; assumption.
Qed.

Lemma oready_oview m f s rest : oready m f s rest -> oview m f s rest.
Proof. intros H. left. exact H. Qed.

Lemma feed_tag_line_oview m f s rest line names :
  oview m f s rest -> tag_line (m_kw m) line names ->
  exists m', feed (ROk m) line = ROk m' /\ oready m' f s rest /\
             m_tags m' = m_tags m ++ map (fun n => (n, S (m_line m))) names /\
             m_line m' = S (m_line m) /\ m_kw m' = m_kw m /\ m_lang m' = m_lang m.
Proof.
  intros OV TL. pose proof TL as [ND NB NC AT NS TG].
  destruct (oview_reduce m f s rest line OV ND NB NC (starts_at_not_pipe _ AT)) as (mc & FD & OR & TGc & Lc & Kc & Gc).
  assert (TLc : tag_line (m_kw mc) (strip line) names) by (rewrite Kc; now apply tag_line_strip).
  destruct (feed_tag_line_oready mc f s rest (strip line) names OR TLc) as (m' & FD' & OR' & _ & TG' & L' & K' & G').
  exists m'. rewrite FD. split; [exact FD'|]. split; [exact OR'|]. rewrite TGc, Lc in TG'. rewrite Lc in L'.
  repeat split; congruence.
Qed.

Lemma tag_lines_oview tls : forall m f s rest,
  oview m f s rest -> Forall (fun x => tag_line (m_kw m) (fst x) (snd x)) tls ->
  exists m', fold_left feed (map fst tls) (ROk m) = ROk m' /\ oview m' f s rest /\
             m_tags m' = m_tags m ++ tags_of tls (m_line m) /\
             m_line m' = m_line m + length tls /\ m_kw m' = m_kw m /\ m_lang m' = m_lang m.
Proof.
  induction tls as [|[line names] r IH]; intros m f s rest OV OK.
  - exists m. cbn [map fold_left length tags_of]. rewrite app_nil_r, Nat.add_0_r. split; [reflexivity|]. split; [exact OV|]. repeat split.
  - inversion OK as [|? ? H1 OK']. subst. cbn [fst snd] in H1.
    destruct (feed_tag_line_oview m f s rest line names OV H1) as (m1 & FD1 & OR1 & T1 & L1 & K1 & G1).
    assert (OK1 : Forall (fun x => tag_line (m_kw m1) (fst x) (snd x)) r) by (now rewrite K1).
    destruct (IH m1 f s rest (oready_oview _ _ _ _ OR1) OK1) as (m' & FD' & OV' & T' & L' & K' & G').
    exists m'. cbn [map fst fold_left]. rewrite FD1. split; [exact FD'|]. split; [exact OV'|]. repeat split.
    + rewrite T', T1, L1. cbn [tags_of]. now rewrite <- app_assoc.
    + rewrite L', L1. cbn [length]. lia.
    + congruence.
    + congruence.
Qed.

(* ------------------------------------------------------------------ one Examples block *)
Definition exblock : Type := (list (ustr * list ustr) * (ustr * ustr * ustr) * list ustr)%type.

Definition exblock_lines (b : exblock) : list ustr := let '(tls, (line, _, _), rows) := b in map fst tls ++ line :: rows.

Definition exblock_ok (kw : kwtable) (b : exblock) : Prop :=
  let '(tls, (line, alias, name), rows) := b in
  Forall (fun y => tag_line kw (fst y) (snd y)) tls /\ examples_line kw line alias name /\ ex_rows_ok rows.

Definition exblock_of (b : exblock) (ln : nat) : pexamples :=
  let '(tls, (_, alias, name), rows) := b in
  let l1 := ln + length tls in
  mkPEx alias name (S l1) (tags_of tls ln) (ex_table rows (S l1)).

Lemma outline_eta s : sc_outline s = true ->
  mkPScen true (sc_kw s) (sc_name s) (sc_line s) (sc_tags s) (sc_descr s) (sc_steps s) (sc_examples s) = s.
Proof. intros H. destruct s; cbn in *. now rewrite H. Qed.

Lemma feed_exblock m f s rest b :
  oview m f s rest -> m_tags m = [] -> sc_outline s = true -> exblock_ok (m_kw m) b ->
  let s' := with_examples s (exblock_of b (m_line m) :: sc_examples s) in
  exists m', fold_left feed (exblock_lines b) (ROk m) = ROk m' /\ oview m' (with_items f (FScen s' :: rest)) s' rest /\
             m_tags m' = [] /\ m_line m' = m_line m + length (exblock_lines b) /\ m_kw m' = m_kw m /\ m_lang m' = m_lang m.
Proof.
  destruct b as [[tls [[line alias] name]] rows]. intros OV TG OUT (TL & EL & RS) s'.
  destruct (tag_lines_oview tls m f s rest OV TL) as (m0 & FD0 & OV0 & T0 & L0 & K0 & G0).
  pose proof EL as [ND NB NC NT NP NS NR NSc NO EX].
  destruct (oview_reduce m0 f s rest line OV0 ND NB NC NP) as (mc & FDc & (IEc & LNc & Tc & STc & Wc) & TGc & Lc & Kc & Gc).
  assert (ELc : examples_line (m_kw mc) (strip line) alias name) by (rewrite Kc, K0; now apply examples_line_strip).
  destruct (feed_examples_line_clean mc f s rest (strip line) alias name STc Tc IEc LNc Wc OUT ELc) as (m1 & FD1 & PD1 & L1 & K1 & G1).
  rewrite (outline_eta s OUT) in PD1.
  destruct (feed_ex_rows rows m1 _ _ rest _ _ PD1 RS) as (m2 & FD2 & PD2 & L2 & K2 & G2).
  exists m2. cbn [exblock_lines]. rewrite fold_left_app, FD0. cbn [fold_left]. rewrite FDc, FD1. split; [exact FD2|].
  set (e := mkPEx alias name (S (m_line mc)) (m_tags mc) None) in *.
  set (s1 := with_examples s (e :: sc_examples s)) in *.
  split.
  - right. right. exists (with_items f (FScen s1 :: rest)), s1, e, (sc_examples s), (ex_table_pending rows (m_line m1)).
    split; [exact PD2|].
    assert (ES : s' = ex_closed_scen s1 e (sc_examples s) (ex_table_pending rows (m_line m1))).
    { unfold s', exblock_of, s1, e. rewrite L1, Lc, L0, TGc, T0, TG. cbn [app].
      destruct rows as [|h body]; cbn [ex_table_pending ex_table ex_closed_scen].
      - unfold with_examples. cbn. reflexivity.
      - unfold with_examples, table_rows_in_order. cbn. rewrite rev_involutive. reflexivity. }
    split; [exact ES|]. unfold with_items. cbn. reflexivity.
  - destruct PD2 as (_ & _ & _ & _ & _ & _ & TG2).
    split; [exact TG2|]. split; [|split; congruence].
    rewrite L2, L1, Lc, L0, app_length, map_length. cbn [length]. unfold ustr in *. lia.
Qed.

Fixpoint exblocks_of (bs : list exblock) (ln : nat) : list pexamples :=
  match bs with
  | [] => []
  | b :: r => exblock_of b ln :: exblocks_of r (ln + length (exblock_lines b))
  end.

Lemma exblocks_are_read bs : forall m f s rest,
  oview m f s rest -> m_tags m = [] -> sc_outline s = true -> Forall (exblock_ok (m_kw m)) bs ->
  exists m' f' s',
    fold_left feed (flat_map exblock_lines bs) (ROk m) = ROk m' /\ oview m' f' s' rest /\ m_tags m' = [] /\
    m_line m' = m_line m + length (flat_map exblock_lines bs) /\ m_kw m' = m_kw m /\ m_lang m' = m_lang m /\
    s' = with_examples s (rev (exblocks_of bs (m_line m)) ++ sc_examples s) /\ f' = with_items f (FScen s' :: rest).
Proof.
  induction bs as [|b bs IH]; intros m f s rest OV TG OUT OK.
  - exists m, f, s. cbn [flat_map fold_left exblocks_of rev app length]. rewrite Nat.add_0_r.
    split; [reflexivity|]. split; [exact OV|]. split; [exact TG|]. split; [reflexivity|]. split; [reflexivity|]. split; [reflexivity|].
    split; [destruct s; reflexivity|].
    assert (D : f_items f = FScen s :: rest).
    { destruct OV as [(_ & _ & _ & _ & (_ & _ & _ & D)) | [(_ & f0 & s0 & st & r & t & _ & _ & ->) | (f0 & s0 & e & r & t & _ & _ & ->)]];
        [exact D|reflexivity|reflexivity]. }
    symmetry. now apply with_items_same.
  - inversion OK as [|? ? H1 OK']. subst.
    destruct (feed_exblock m f s rest b OV TG OUT H1) as (m1 & FD1 & OV1 & TG1 & L1 & K1 & G1).
    assert (OK1 : Forall (exblock_ok (m_kw m1)) bs) by (now rewrite K1).
    assert (OUT1 : sc_outline (with_examples s (exblock_of b (m_line m) :: sc_examples s)) = true) by exact OUT.
    destruct (IH m1 _ _ rest OV1 TG1 OUT1 OK1) as (m' & f' & s' & FD' & OV' & TG' & L' & K' & G' & ES & EF).
    exists m', f', s'. cbn [flat_map]. rewrite fold_left_app, FD1. split; [exact FD'|]. split; [exact OV'|]. split; [exact TG'|].
    split; [rewrite L', L1, app_length; unfold ustr in *; lia|].
    split; [congruence|]. split; [congruence|]. split.
    + rewrite ES. cbn [exblocks_of rev]. rewrite L1. unfold with_examples. cbn. now rewrite <- app_assoc.
    + rewrite EF. unfold with_items. cbn. reflexivity.
Qed.

(* ------------------------------------------------------------------ between the items of a feature *)
Definition obody (m : mstate) (f : pfeature) : Prop := body m f \/ exists s rest, oview m f s rest.

Lemma oready_body m f s rest : oready m f s rest -> body m f.
Proof.
  intros (IE & LN & T & ST & W). split; [exact IE|]. split; [exact LN|]. left. destruct W as [A [B [C D]]].
  split; [exact T|]. split; [|split; assumption].
  destruct ST as [X|[X|X]]; [right; left; exact X|right; right; left; exact X|right; right; right; exact X].
Qed.

Lemma tag_lines_obody tls m f :
  obody m f -> Forall (fun x => tag_line (m_kw m) (fst x) (snd x)) tls ->
  exists m', fold_left feed (map fst tls) (ROk m) = ROk m' /\ obody m' f /\
             m_tags m' = m_tags m ++ tags_of tls (m_line m) /\ m_line m' = m_line m + length tls /\ m_kw m' = m_kw m.
Proof.
  intros [B | (s & rest & OV)] TL.
  - destruct (tag_lines_body tls m f B TL) as (m' & FD & B' & L' & K' & T').
    exists m'. split; [exact FD|]. split; [left; exact B'|]. repeat split; assumption.
  - destruct (tag_lines_oview tls m f s rest OV TL) as (m' & FD & OV' & T' & L' & K' & G').
    exists m'. split; [exact FD|]. split; [right; exists s, rest; exact OV'|]. repeat split; assumption.
Qed.

Lemma feed_scenario_line_obody m f line alias name :
  obody m f -> scenario_line (m_kw m) line alias name -> starts_pipe (strip line) = false ->
  exists m', feed (ROk m) line = ROk m' /\
             fresh m' (with_items f (FScen (new_scenario m alias name) :: f_items f)) (new_scenario m alias name) (f_items f) /\
             m_line m' = S (m_line m) /\ m_kw m' = m_kw m /\ m_tags m' = [].
Proof.
  intros [B | (s & rest & OV)] SL NP.
  - now apply feed_scenario_line_fresh.
  - pose proof SL as [ND NB NC NT NS NR SC].
    destruct (oview_reduce m f s rest line OV ND NB NC NP) as (mc & FD & OR & TGc & Lc & Kc & Gc).
    assert (SLc : scenario_line (m_kw mc) (strip line) alias name) by (rewrite Kc; now apply scenario_line_strip).
    assert (NPc : starts_pipe (strip (strip line)) = false) by (now rewrite strip_idem).
    destruct (feed_scenario_line_fresh mc f (strip line) alias name (oready_body _ _ _ _ OR) SLc NPc) as (m' & FD' & FR' & L' & K' & T').
    exists m'. rewrite FD. split; [exact FD'|]. unfold new_scenario in *. rewrite Lc, TGc in FR'. split; [exact FR'|].
    repeat split; congruence.
Qed.

Lemma feed_outline_line_obody m f line alias name :
  obody m f -> m_tags m = m_tags m -> outline_line (m_kw m) line alias name -> starts_pipe (strip line) = false ->
  exists m', feed (ROk m) line = ROk m' /\
             fresh m' (with_items f (FScen (new_outline m alias name) :: f_items f)) (new_outline m alias name) (f_items f) /\
             m_line m' = S (m_line m) /\ m_kw m' = m_kw m /\ m_tags m' = [].
Proof.
  intros OB _ OL NP.
  assert (CLEAN : forall mc, m_in_examples mc = false -> m_lines mc = [] -> m_table mc = None -> in_feature_body mc ->
                   m_cont mc = CFeat -> m_feat mc = Some f -> m_line mc = m_line m -> m_tags mc = m_tags m -> m_kw mc = m_kw m ->
                   forall l, outline_line (m_kw mc) l alias name ->
                   exists m', feed (ROk mc) l = ROk m' /\
                     fresh m' (with_items f (FScen (new_outline m alias name) :: f_items f)) (new_outline m alias name) (f_items f) /\
                     m_line m' = S (m_line m) /\ m_kw m' = m_kw m /\ m_tags m' = []).
  { intros mc IE LN T ST C F Lc TGc Kc l OLc.
    destruct (feed_outline_line_anywhere mc f l alias name C F ST OLc) as (m' & FD & ST' & W' & L' & K' & TG' & G' & TB' & IE' & LN').
    exists m'. split; [exact FD|]. unfold new_outline in *. rewrite Lc, TGc in W'. split.
    - split; [exact ST'|]. split; [congruence|]. split; [congruence|]. split; [congruence|exact W'].
    - repeat split; congruence. }
  destruct OB as [[IE [LN [[T [ST [C F]]] | (f0 & s0 & rest & st & r & t & PD & EF)]]] | (s & rest & OV)].
  - apply (CLEAN m IE LN T ST C F eq_refl eq_refl eq_refl line OL).
  - destruct PD as (_ & ST & T & W & HS & _). pose proof OL as [ND NB NC NT NS NR NSc OLn].
    rewrite (table_closes m f0 s0 rest st r t line ST W HS T IE NB NC NP).
    destruct (closed_state m f0 s0 rest st r t W HS T IE) as (ST1 & W1 & T1 & IE1 & L1 & K1 & TG1 & G1 & _ & LN1).
    set (m1 := upd_st (close_table m) StSteps) in *.
    destruct W1 as [A1 [B1 [C1 D1]]].
    assert (OL1 : outline_line (m_kw m1) (strip line) alias name) by (rewrite K1; now apply outline_line_strip).
    apply (CLEAN m1); try assumption; try congruence.
    + right; left; exact ST1.
    + rewrite C1, EF. reflexivity.
  - pose proof OL as [ND NB NC NT NS NR NSc OLn].
    destruct (oview_reduce m f s rest line OV ND NB NC NP) as (mc & FD & OR & TGc & Lc & Kc & Gc).
    rewrite FD. pose proof (oready_body _ _ _ _ OR) as [IEc [LNc [[Tc [STc [Cc Fc]]] | (f0 & s0 & rest0 & st & r & t & PD & _)]]].
    + assert (OLc : outline_line (m_kw mc) (strip line) alias name) by (rewrite Kc; now apply outline_line_strip).
      apply (CLEAN mc); assumption.
    + destruct OR as (_ & _ & Tc & _). destruct PD as (_ & _ & Tp & _). congruence.
Qed.

(* ------------------------------------------------------------------ the items of a feature: scenarios and outlines *)
Definition oscen : Type := (list (ustr * list ustr) * (ustr * ustr * ustr) * list ustr * list xstep * list exblock)%type.

Inductive item := IScen (y : yscen) | IOutline (o : oscen).

Definition item_lines (it : item) : list ustr :=
  match it with
  | IScen y => yscen_lines y
  | IOutline (tls, (line, _, _), ds, steps, blocks) =>
      map fst tls ++ line :: ds ++ flat_map xstep_lines steps ++ flat_map exblock_lines blocks
  end.

Definition item_ok (kw : kwtable) (it : item) : Prop :=
  match it with
  | IScen y => yscen_ok kw y
  | IOutline (tls, (line, alias, name), ds, steps, blocks) =>
      Forall (fun y => tag_line kw (fst y) (snd y)) tls /\ outline_line kw line alias name /\
      starts_pipe (strip line) = false /\ Forall (descr_line kw) ds /\ Forall (xstep_ok kw) steps /\
      Forall (exblock_ok kw) blocks
  end.

Definition expected_item (it : item) (ln : nat) : fitem :=
  match it with
  | IScen (tls, (_, alias, name), ds, steps) =>
      let l1 := ln + length tls in
      FScen (mkPScen false alias name (S l1) (tags_of tls ln) (map strip ds) (xsteps_of steps (S l1 + length ds)) [])
  | IOutline (tls, (_, alias, name), ds, steps, blocks) =>
      let l1 := ln + length tls in
      let l2 := S l1 + length ds + length (flat_map xstep_lines steps) in
      FScen (mkPScen true alias name (S l1) (tags_of tls ln) (map strip ds) (xsteps_of steps (S l1 + length ds))
                     (exblocks_of blocks l2))
  end.

Fixpoint expected_items (its : list item) (ln : nat) : list fitem :=
  match its with
  | [] => []
  | it :: r => expected_item it ln :: expected_items r (ln + length (item_lines it))
  end.

Lemma fin_outline_full alias name ln tags ds steps exs :
  fin_scen (with_examples (with_steps (with_descr (mkPScen true alias name ln tags [] [] []) (rev ds ++ [])) (rev steps ++ []))
                          (rev exs ++ []))
  = mkPScen true alias name ln tags ds steps exs.
Proof. unfold fin_scen, with_steps, with_descr, with_examples. cbn. now rewrite !app_nil_r, !rev_involutive. Qed.

Lemma items_are_read its : forall m f,
  obody m f -> m_tags m = [] -> Forall (item_ok (m_kw m)) its ->
  exists m' f',
    fold_left feed (flat_map item_lines its) (ROk m) = ROk m' /\ obody m' f' /\ m_tags m' = [] /\ m_kw m' = m_kw m /\
    rev (map fin_item (f_items f')) = rev (map fin_item (f_items f)) ++ expected_items its (m_line m) /\
    with_items f' [] = with_items f [].
Proof.
  induction its as [|it its IH]; intros m f OB T OK.
  - exists m, f. cbn [flat_map fold_left expected_items]. rewrite app_nil_r.
    split; [reflexivity|]. split; [exact OB|]. repeat split; auto.
  - inversion OK as [|? ? H1 OK']. subst.
    destruct it as [[[[tls [[line alias] name]] ds] steps] | [[[[tls [[line alias] name]] ds] steps] blocks]].
    + (* a scenario *)
      destruct H1 as (TL & SL & NP & DL & STP).
      destruct (tag_lines_obody tls m f OB TL) as (m0 & FD0 & OB0 & T0 & L0 & K0).
      assert (SL0 : scenario_line (m_kw m0) line alias name) by (now rewrite K0).
      destruct (feed_scenario_line_obody m0 f line alias name OB0 SL0 NP) as (m1 & FD1 & FR1 & L1 & K1 & T1).
      assert (DL1 : Forall (descr_line (m_kw m1)) ds) by (now rewrite K1, K0).
      destruct (descr_lines_are_read ds m1 _ _ (f_items f) FR1 DL1) as (mD & fD & sD & FDD & FRD & LD & KD & TD & ESD & EFD).
      assert (STP1 : Forall (xstep_ok (m_kw mD)) steps) by (now rewrite KD, K1, K0).
      destruct (xsteps_are_read steps mD _ _ (f_items f) (fresh_settled _ _ _ _ FRD) STP1)
        as (m2 & f2 & s2 & FD2 & SE2 & L2 & K2 & T2 & _ & ES & EF).
      assert (OK2 : Forall (item_ok (m_kw m2)) its) by (rewrite K2, KD, K1, K0; exact OK').
      assert (T2' : m_tags m2 = []) by congruence.
      destruct (IH m2 f2 (or_introl (settled_body _ _ _ _ SE2)) T2' OK2) as (m' & f' & FD' & B' & T' & K' & IT' & HD').
      exists m', f'. cbn [flat_map item_lines yscen_lines]. rewrite !fold_left_app. rewrite FD0. cbn [fold_left]. rewrite FD1.
      rewrite !fold_left_app. rewrite FDD, FD2.
      split; [exact FD'|]. split; [exact B'|]. split; [exact T'|]. split; [congruence|]. split.
      * rewrite IT'. rewrite EF. cbn [with_items f_items map rev fin_item]. rewrite ES, ESD.
        assert (FS : fin_scen (with_steps (with_descr (new_scenario m0 alias name) (rev (map strip ds) ++ sc_descr (new_scenario m0 alias name)))
                                          (rev (xsteps_of steps (m_line mD)) ++
                                           sc_steps (with_descr (new_scenario m0 alias name) (rev (map strip ds) ++ sc_descr (new_scenario m0 alias name))))) =
                     mkPScen false alias name (S (m_line m + length tls)) (tags_of tls (m_line m)) (map strip ds)
                             (xsteps_of steps (S (m_line m + length tls) + length ds)) []).
        { unfold new_scenario. rewrite T0, T. cbn [sc_steps sc_descr with_descr app]. rewrite LD, L1, L0. apply fin_scen_full. }
        rewrite FS. rewrite <- app_assoc. cbn [app expected_items expected_item]. rewrite L2, LD, L1, L0.
        do 3 f_equal. cbn [item_lines yscen_lines]. rewrite !app_length, map_length. cbn [length]. rewrite ?app_length. unfold ustr in *. lia.
      * rewrite HD', EF, EFD. unfold with_items. cbn. reflexivity.
    + (* an outline *)
      destruct H1 as (TL & OL & NP & DL & STP & BL).
      destruct (tag_lines_obody tls m f OB TL) as (m0 & FD0 & OB0 & T0 & L0 & K0).
      assert (OL0 : outline_line (m_kw m0) line alias name) by (now rewrite K0).
      destruct (feed_outline_line_obody m0 f line alias name OB0 eq_refl OL0 NP) as (m1 & FD1 & FR1 & L1 & K1 & T1).
      assert (DL1 : Forall (descr_line (m_kw m1)) ds) by (now rewrite K1, K0).
      destruct (descr_lines_are_read ds m1 _ _ (f_items f) FR1 DL1) as (mD & fD & sD & FDD & FRD & LD & KD & TD & ESD & EFD).
      assert (STP1 : Forall (xstep_ok (m_kw mD)) steps) by (now rewrite KD, K1, K0).
      destruct (xsteps_are_read steps mD _ _ (f_items f) (fresh_settled _ _ _ _ FRD) STP1)
        as (m2 & f2 & s2 & FD2 & SE2 & L2 & K2 & T2 & _ & ES & EF).
      assert (T2' : m_tags m2 = []) by congruence.
      assert (OUT2 : sc_outline s2 = true) by (rewrite ES, ESD; reflexivity).
      assert (BL2 : Forall (exblock_ok (m_kw m2)) blocks) by (rewrite K2, KD, K1, K0; exact BL).
      destruct (exblocks_are_read blocks m2 f2 s2 (f_items f) (settled_oview _ _ _ _ SE2 T2') T2' OUT2 BL2)
        as (m3 & f3 & s3 & FD3 & OV3 & T3 & L3 & K3 & _ & ES3 & EF3).
      assert (OK3 : Forall (item_ok (m_kw m3)) its) by (rewrite K3, K2, KD, K1, K0; exact OK').
      destruct (IH m3 f3 (or_intror (ex_intro _ s3 (ex_intro _ (f_items f) OV3))) T3 OK3) as (m' & f' & FD' & B' & T' & K' & IT' & HD').
      exists m', f'. cbn [flat_map item_lines]. rewrite !fold_left_app. rewrite FD0. cbn [fold_left]. rewrite FD1.
      rewrite !fold_left_app. rewrite FDD, FD2, FD3.
      split; [exact FD'|]. split; [exact B'|]. split; [exact T'|]. split; [congruence|]. split.
      * rewrite IT'. rewrite EF3. cbn [with_items f_items map rev fin_item]. rewrite ES3, ES, ESD.
        assert (FS : fin_scen (with_examples
                        (with_steps (with_descr (new_outline m0 alias name) (rev (map strip ds) ++ sc_descr (new_outline m0 alias name)))
                                    (rev (xsteps_of steps (m_line mD)) ++
                                     sc_steps (with_descr (new_outline m0 alias name) (rev (map strip ds) ++ sc_descr (new_outline m0 alias name)))))
                        (rev (exblocks_of blocks (m_line m2)) ++
                         sc_examples (with_steps (with_descr (new_outline m0 alias name) (rev (map strip ds) ++ sc_descr (new_outline m0 alias name)))
                                    (rev (xsteps_of steps (m_line mD)) ++
                                     sc_steps (with_descr (new_outline m0 alias name) (rev (map strip ds) ++ sc_descr (new_outline m0 alias name))))))) =
                     mkPScen true alias name (S (m_line m + length tls)) (tags_of tls (m_line m)) (map strip ds)
                             (xsteps_of steps (S (m_line m + length tls) + length ds))
                             (exblocks_of blocks (S (m_line m + length tls) + length ds + length (flat_map xstep_lines steps)))).
        { unfold new_outline. rewrite T0, T. cbn [sc_steps sc_descr sc_examples with_descr with_steps app]. rewrite L2, LD, L1, L0. apply fin_outline_full. }
        rewrite FS. rewrite <- app_assoc. cbn [app expected_items expected_item]. rewrite L3, L2, LD, L1, L0.
        do 3 f_equal. cbn [item_lines]. rewrite !app_length, map_length. cbn [length]. rewrite ?app_length. unfold ustr in *. lia.
      * rewrite HD', EF3, EF, EFD. unfold with_items. cbn. reflexivity.
Qed.

(* ------------------------------------------------------------------ the end of the text *)
Lemma finish_obody m f :
  obody m f -> exists m', finish_table (ROk m) = ROk m' /\ m_table m' = None /\ m_feat m' = Some f.
Proof.
  unfold finish_table. cbn [rbind].
  intros [[IE [LN [[T [ST [C F]]] | (f0 & s0 & rest & st & r & t & PD & EF)]]] | (s & rest & OV)].
  - rewrite T. exists m. auto.
  - destruct PD as (_ & ST & T & W & HS & _). rewrite T.
    destruct (closed_state m f0 s0 rest st r t W HS T IE) as (_ & W1 & T1 & _).
    eexists. split; [reflexivity|]. split; [exact T1|]. destruct W1 as [_ [_ [C1 _]]]. rewrite C1, EF. reflexivity.
  - destruct OV as [(IE & LN & T & ST & W) | [(TG & f0 & s0 & st & r & t & PD & ES & EF) | (f0 & s0 & e & r & t & PD & ES & EF)]].
    + rewrite T. exists m. destruct W as [_ [_ [C _]]]. auto.
    + destruct PD as (IE & ST & T & W & HS & _). rewrite T.
      destruct (closed_state m f0 s0 rest st r t W HS T IE) as (_ & W1 & T1 & _).
      eexists. split; [reflexivity|]. split; [exact T1|]. destruct W1 as [_ [_ [C1 _]]]. rewrite C1, EF, ES. reflexivity.
    + pose proof PD as (IE & ST & T & W & HS & _). destruct t as [t0|].
      * rewrite T. destruct (ex_closed_state m f0 s0 rest e r (Some t0) PD) as (_ & W1 & T1 & _).
        eexists. split; [reflexivity|]. split; [exact T1|]. destruct W1 as [_ [_ [C1 _]]]. rewrite C1, EF, ES. reflexivity.
      * rewrite T. exists m. split; [reflexivity|]. split; [exact T|].
        destruct W as [_ [_ [C D]]]. rewrite C, EF, ES. cbn [ex_closed_scen]. now rewrite (with_items_same f0 s0 rest D).
Qed.

(* C04 for features with a description whose items are scenarios and scenario outlines: tags,
   descriptions, steps with doc-strings and tables, Examples blocks with tags, names and tables *)
Theorem a_feature_with_outlines_is_read_back_exactly kw code fline falias fname fds its :
  feature_line kw fline falias fname -> Forall (descr_line kw) fds -> Forall (item_ok kw) its ->
  exists m',
    finish_table (fold_left feed (fline :: fds ++ flat_map item_lines its) (ROk (init_state code kw VFeature StInitial))) = ROk m' /\
    m_table m' = None /\
    option_map fin_feature (m_feat m') =
    Some (mkPFeat falias fname 1 [] (map strip fds) None (expected_items its (1 + length fds)) code).
Proof.
  intros [NB NC NT FA] FD OK. set (m0 := init_state code kw VFeature StInitial).
  assert (F0 : feed (ROk m0) fline = ROk (upd_st (build_feature (upd_line m0 1) falias fname) StFeature)).
  { rewrite (feed_nonblank m0 fline NB). rewrite (action_dispatch _ fline NB NC). cbn [upd_line m_st m0 init_state].
    unfold a_initial. rewrite match_at, NT. cbn [upd_line m_kw m0 init_state]. now rewrite FA. }
  set (m1 := upd_st (build_feature (upd_line m0 1) falias fname) StFeature) in *.
  set (f1 := mkPFeat falias fname 1 [] [] None [] code).
  destruct (feature_descr_lines_are_read fds m1 f1 eq_refl eq_refl eq_refl eq_refl eq_refl eq_refl FD)
    as (mD & FDD & STD & TD & IED & LND & CD & FDf & LD & KD & TGD).
  set (fD := mkPFeat (f_kw f1) (f_name f1) (f_line f1) (f_tags f1) (rev (map strip fds) ++ f_descr f1) (f_bg f1) (f_items f1) (f_lang f1)) in *.
  assert (BD : obody mD fD).
  { left. split; [exact IED|]. split; [exact LND|]. left. split; [exact TD|]. split; [left; exact STD|]. split; assumption. }
  assert (OKD : Forall (item_ok (m_kw mD)) its) by (rewrite KD; exact OK).
  assert (TGD' : m_tags mD = []) by (rewrite TGD; reflexivity).
  destruct (items_are_read its mD fD BD TGD' OKD) as (m' & f' & FD' & B' & T' & K' & IT & HD).
  cbn [fold_left]. rewrite F0. rewrite fold_left_app, FDD, FD'.
  destruct (finish_obody m' f' B') as (m'' & FIN & TB & FF).
  exists m''. split; [exact FIN|]. split; [exact TB|]. rewrite FF. cbn [option_map]. f_equal.
  unfold fin_feature. rewrite IT. rewrite LD.
  unfold with_items in HD. cbn in HD. inversion HD as [[H1 H2 H3 H4 H5 H6 H7]]. rewrite H1, H2, H3, H4, H5, H6, H7.
  cbn [fD f1 f_items f_descr map rev app m_line m1 upd_st build_feature upd_tags upd_tree upd_line m0 init_state].
  rewrite app_nil_r, rev_involutive. reflexivity.
Qed.

(* non-vacuity: an English outline line, an Examples line and two rows *)
Example english_outline_lines :
  outline_line english [32; 32; 83; 99; 101; 110; 97; 114; 105; 111; 32; 79; 117; 116; 108; 105; 110; 101; 58; 32; 79; 32; 60; 120; 62]%N
               [83; 99; 101; 110; 97; 114; 105; 111; 32; 79; 117; 116; 108; 105; 110; 101]%N [79; 32; 60; 120; 62]%N /\
  examples_line english [32; 32; 32; 32; 69; 120; 97; 109; 112; 108; 101; 115; 58; 32; 69]%N [69; 120; 97; 109; 112; 108; 101; 115]%N [69%N] /\
  ex_rows_ok [[32; 32; 124; 32; 120; 32; 124]; [32; 32; 124; 32; 49; 32; 124]]%N.
Proof.
  split; [|split].
  - split; try (vm_compute; congruence); vm_compute; reflexivity.
  - split; try (vm_compute; congruence); vm_compute; reflexivity.
  - repeat constructor; try (vm_compute; congruence); vm_compute; reflexivity.
Qed.
