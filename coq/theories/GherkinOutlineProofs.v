(* GherkinOutlineProofs.v - C04 at the level of the state machine: Scenario Outlines with their
   Examples blocks (tags, name, table), on top of everything GherkinDescrProofs covers.
   Part 1: the lines (outline line, Examples line, rows) and the closing of an Examples table. *)
From BV Require Import Base UStr GherkinTypes Gherkin GherkinProofs GherkinRowProofs GherkinBlockProofs GherkinTagProofs
                       GherkinTableProofs GherkinDocProofs GherkinRichProofs GherkinDescrProofs.

(* ------------------------------------------------------------------ the outline line *)
Record outline_line (kw : kwtable) (line alias name : ustr) : Prop := {
  ol_nodoc : doc_fact line = None;
  ol_nonblank : strip line <> [];
  ol_nocomment : first_is cp_hash (strip line) = false;
  ol_notag : starts_at (strip line) = false;
  ol_nostep : step_fact kw (strip line) = None;
  ol_norule : first_alias (k_rule kw) (strip line) = None;
  ol_noscenario : first_alias (k_scenario kw) (strip line) = None;
  ol_outline : first_alias (k_outline kw) (strip line) = Some (alias, name) }.

Definition new_outline (m : mstate) (alias name : ustr) : pscen := mkPScen true alias name (S (m_line m)) (m_tags m) [] [] [].

Lemma sub_taggable_outline m s alias name :
  starts_at s = false -> first_alias (k_rule (m_kw m)) s = None -> first_alias (k_scenario (m_kw m)) s = None ->
  first_alias (k_outline (m_kw m)) s = Some (alias, name) ->
  sub_taggable m s = ROk (Some (upd_st (build_scenario m true alias name) StScenario)).
Proof. intros A R S O. unfold sub_taggable. rewrite match_at, A, R, S, O. reflexivity. Qed.

Lemma outline_line_strip kw line alias name : outline_line kw line alias name -> outline_line kw (strip line) alias name.
Proof. intros [ND NB NC NT NS NR NSc OL]. split; rewrite ?strip_idem; auto using doc_fact_strip. Qed.

Lemma feed_outline_line_clean m f line alias name :
  m_cont m = CFeat -> m_feat m = Some f -> in_feature_body m -> outline_line (m_kw m) line alias name ->
  exists m', feed (ROk m) line = ROk m' /\
             fresh m' (with_items f (FScen (new_outline m alias name) :: f_items f)) (new_outline m alias name) (f_items f) \/ False.
Proof. Abort.

Lemma feed_outline_line_anywhere m f line alias name :
  m_cont m = CFeat -> m_feat m = Some f -> in_feature_body m -> outline_line (m_kw m) line alias name ->
  exists m', feed (ROk m) line = ROk m' /\ m_st m' = StScenario /\
             at_feature_scenario m' (with_items f (FScen (new_outline m alias name) :: f_items f)) (new_outline m alias name) (f_items f) /\
             m_line m' = S (m_line m) /\ m_kw m' = m_kw m /\ m_tags m' = [] /\ m_lang m' = m_lang m /\ m_table m' = m_table m /\
             m_in_examples m' = m_in_examples m /\ m_lines m' = m_lines m.
Proof.
  intros C F ST [ND NB NC NT NS NR NSc OL].
  set (m1 := upd_line m (S (m_line m))).
  assert (RES : forall m0, m_cont m0 = CFeat -> m_feat m0 = Some f -> m_line m0 = S (m_line m) -> m_kw m0 = m_kw m ->
                           m_tags m0 = m_tags m -> m_lang m0 = m_lang m ->
     let mx := upd_st (build_scenario m0 true alias name) StScenario in
     m_st mx = StScenario /\
     at_feature_scenario mx (with_items f (FScen (new_outline m alias name) :: f_items f)) (new_outline m alias name) (f_items f) /\
     m_line mx = S (m_line m) /\ m_kw mx = m_kw m /\ m_tags mx = [] /\ m_lang mx = m_lang m /\ m_table mx = m_table m0 /\
     m_in_examples mx = m_in_examples m0 /\ m_lines mx = m_lines m0).
  { intros m0 C0 F0 L0 K0 T0 G0 mx. unfold mx, build_scenario, add_item. rewrite C0, F0.
    unfold at_feature_scenario, new_outline, with_items. cbn. rewrite L0, T0. repeat split; assumption. }
  rewrite (feed_nonblank m line NB). fold m1. rewrite (action_dispatch m1 line NB NC). cbn [m1 upd_line m_st].
  destruct ST as [ST|[ST|[ST|ST]]]; rewrite ST.
  - unfold a_feature. rewrite (sub_taggable_outline m1 (strip line) alias name NT NR NSc OL). cbn [rbind].
    eexists. split; [reflexivity|]. apply (RES m1); reflexivity || assumption.
  - unfold a_steps. rewrite ND. unfold parse_step. cbn [m1 upd_line m_kw]. rewrite NS. cbn [rbind].
    rewrite (sub_taggable_outline m1 (strip line) alias name NT NR NSc OL). cbn [rbind].
    eexists. split; [reflexivity|]. apply (RES m1); reflexivity || assumption.
  - unfold a_scenario. unfold parse_step. cbn [upd_last m1 upd_line m_kw]. rewrite NS. cbn [rbind].
    rewrite (sub_taggable_outline (upd_last m1 None) (strip line) alias name NT NR NSc OL). cbn [rbind].
    eexists. split; [reflexivity|]. apply (RES (upd_last m1 None)); reflexivity || assumption.
  - unfold a_taggable. rewrite (sub_taggable_outline m1 (strip line) alias name NT NR NSc OL). cbn [rbind].
    eexists. split; [reflexivity|]. apply (RES m1); reflexivity || assumption.
Qed.

(* ------------------------------------------------------------------ the Examples line *)
Record examples_line (kw : kwtable) (line alias name : ustr) : Prop := {
  el_nodoc : doc_fact line = None;
  el_nonblank : strip line <> [];
  el_nocomment : first_is cp_hash (strip line) = false;
  el_notag : starts_at (strip line) = false;
  el_nopipe : starts_pipe (strip line) = false;
  el_nostep : step_fact kw (strip line) = None;
  el_norule : first_alias (k_rule kw) (strip line) = None;
  el_noscenario : first_alias (k_scenario kw) (strip line) = None;
  el_nooutline : first_alias (k_outline kw) (strip line) = None;
  el_examples : first_alias (k_examples kw) (strip line) = Some (alias, name) }.

Lemma examples_line_strip kw line alias name : examples_line kw line alias name -> examples_line kw (strip line) alias name.
Proof. intros [ND NB NC NT NP NS NR NSc NO EX]. split; rewrite ?strip_idem; auto using doc_fact_strip. Qed.

Definition with_examples (s : pscen) (l : list pexamples) : pscen :=
  mkPScen (sc_outline s) (sc_kw s) (sc_name s) (sc_line s) (sc_tags s) (sc_descr s) (sc_steps s) l.

Lemma sub_taggable_examples m s alias name :
  starts_at s = false -> first_alias (k_rule (m_kw m)) s = None -> first_alias (k_scenario (m_kw m)) s = None ->
  first_alias (k_outline (m_kw m)) s = None -> first_alias (k_examples (m_kw m)) s = Some (alias, name) ->
  sub_taggable m s = rbind (build_examples m alias name) (fun m' => ROk (Some (upd_st m' StTable))).
Proof. intros A R S O E. unfold sub_taggable. rewrite match_at, A, R, S, O, E. reflexivity. Qed.

(* an Examples block is open: its table is being read (or still empty) *)
Definition ex_pending (m : mstate) (f0 : pfeature) (s0 : pscen) (rest : list fitem) (e : pexamples) (r : list pexamples)
           (t : option ptable) : Prop :=
  m_in_examples m = true /\ m_st m = StTable /\ m_table m = t /\ at_feature_scenario m f0 s0 rest /\ sc_examples s0 = e :: r /\
  m_lines m = [] /\ m_tags m = [].

(* the Examples line in a clean state of an outline: after its steps, after its scenario line or after tag lines *)
Lemma feed_examples_line_clean m f s rest line alias name :
  (m_st m = StSteps \/ m_st m = StScenario \/ m_st m = StTaggable) ->
  m_table m = None -> m_in_examples m = false -> m_lines m = [] ->
  at_feature_scenario m f s rest -> sc_outline s = true ->
  examples_line (m_kw m) line alias name ->
  let e := mkPEx alias name (S (m_line m)) (m_tags m) None in
  let s' := with_examples (mkPScen true (sc_kw s) (sc_name s) (sc_line s) (sc_tags s) (sc_descr s) (sc_steps s) (sc_examples s))
                          (e :: sc_examples s) in
  exists m', feed (ROk m) line = ROk m' /\ ex_pending m' (with_items f (FScen s' :: rest)) s' rest e (sc_examples s) None /\
             m_line m' = S (m_line m) /\ m_kw m' = m_kw m /\ m_lang m' = m_lang m.
Proof.
  intros ST T IE LN W OUT [ND NB NC NT NP NS NR NSc NO EX] e s'.
  set (m1 := upd_line m (S (m_line m))).
  assert (RES : forall m0, at_feature_scenario m0 f s rest -> m_line m0 = S (m_line m) -> m_kw m0 = m_kw m -> m_tags m0 = m_tags m ->
                           m_lang m0 = m_lang m -> m_table m0 = None -> m_lines m0 = [] ->
     exists m', rbind (build_examples m0 alias name) (fun m' => ROk (Some (upd_st m' StTable))) = ROk (Some m') /\
                ex_pending m' (with_items f (FScen s' :: rest)) s' rest e (sc_examples s) None /\
                m_line m' = S (m_line m) /\ m_kw m' = m_kw m /\ m_lang m' = m_lang m).
  { intros m0 W0 L0 K0 T0 G0 B0 N0. unfold build_examples. rewrite (get_stmt_at _ _ _ _ W0), OUT. cbn [rbind].
    eexists. split; [reflexivity|]. destruct W0 as [A [B [C D]]].
    unfold set_stmt. rewrite A. unfold set_item. rewrite B, C, D.
    unfold ex_pending, at_feature_scenario, s', e, with_examples, with_items. cbn. rewrite L0, T0, B0.
    repeat split; auto. }
  assert (W1 : at_feature_scenario m1 f s rest) by (destruct W as [A [B [C D]]]; unfold at_feature_scenario; cbn; auto).
  rewrite (feed_nonblank m line NB). fold m1. rewrite (action_dispatch m1 line NB NC). cbn [m1 upd_line m_st].
  destruct ST as [ST|[ST|ST]]; rewrite ST.
  - unfold a_steps. rewrite ND. unfold parse_step. cbn [m1 upd_line m_kw]. rewrite NS. cbn [rbind].
    rewrite (sub_taggable_examples m1 (strip line) alias name NT NR NSc NO EX).
    destruct (RES m1 W1 eq_refl eq_refl eq_refl eq_refl T LN) as (m' & E & P & L & K & G). rewrite E. cbn [rbind].
    exists m'. split; [reflexivity|]. split; [exact P|]. repeat split; assumption.
  - unfold a_scenario. unfold parse_step. cbn [upd_last m1 upd_line m_kw]. rewrite NS. cbn [rbind].
    rewrite (sub_taggable_examples (upd_last m1 None) (strip line) alias name NT NR NSc NO EX).
    assert (W2 : at_feature_scenario (upd_last m1 None) f s rest)
      by (destruct W1 as [A [B [C D]]]; unfold at_feature_scenario; cbn; auto).
    destruct (RES (upd_last m1 None) W2 eq_refl eq_refl eq_refl eq_refl T LN) as (m' & E & P & L & K & G). rewrite E. cbn [rbind].
    exists m'. split; [reflexivity|]. split; [exact P|]. repeat split; assumption.
  - unfold a_taggable. rewrite (sub_taggable_examples m1 (strip line) alias name NT NR NSc NO EX).
    destruct (RES m1 W1 eq_refl eq_refl eq_refl eq_refl T LN) as (m' & E & P & L & K & G). rewrite E. cbn [rbind].
    exists m'. split; [reflexivity|]. split; [exact P|]. repeat split; assumption.
Qed.

(* ------------------------------------------------------------------ rows of an Examples table *)
Definition push_row (t : option ptable) (cells : list ustr) (ln : nat) : ptable :=
  match t with
  | None => mkPTable cells [] ln
  | Some t0 => mkPTable (pt_head t0) ((cells, ln) :: pt_rows t0) (pt_line t0)
  end.

Definition row_fits (t : option ptable) (cells : list ustr) : Prop :=
  match t with None => True | Some t0 => length cells = length (pt_head t0) end.

Lemma feed_ex_row m f s rest e r t line :
  ex_pending m f s rest e r t -> strip line <> [] -> first_is cp_hash (strip line) = false ->
  starts_pipe (strip line) = true -> row_fits t (row_cells (strip line)) ->
  exists m', feed (ROk m) line = ROk m' /\
             ex_pending m' f s rest e r (Some (push_row t (row_cells (strip line)) (S (m_line m)))) /\
             m_line m' = S (m_line m) /\ m_kw m' = m_kw m /\ m_lang m' = m_lang m.
Proof.
  intros (IE & ST & T & W & HS & LN & TG) NB NC P FIT.
  rewrite (feed_nonblank m line NB). rewrite (action_dispatch _ line NB NC). cbn [upd_line m_st]. rewrite ST.
  unfold a_table. rewrite match_pipe, P. unfold a_table_row. cbn [upd_line m_table]. rewrite T.
  destruct W as [A [B [C D]]].
  destruct t as [t0|]; cbn [row_fits push_row] in *.
  - rewrite FIT, Nat.eqb_refl. eexists. split; [reflexivity|].
    unfold ex_pending, at_feature_scenario. cbn. rewrite IE. repeat split; auto.
  - eexists. split; [reflexivity|]. unfold ex_pending, at_feature_scenario. cbn. rewrite IE. repeat split; auto.
Qed.

(* the table while it is being read: heading, the rows read so far newest first *)
Definition ex_table_pending (rows : list ustr) (ln : nat) : option ptable :=
  match rows with
  | [] => None
  | h :: body => Some (mkPTable (row_cells (strip h)) (rev (rows_from body (S ln))) (S ln))
  end.

(* ... and as the parser delivers it once the block is closed *)
Definition ex_table (rows : list ustr) (ln : nat) : option ptable :=
  match rows with
  | [] => None
  | h :: body => Some (mkPTable (row_cells (strip h)) (rows_from body (S ln)) (S ln))
  end.

Definition ex_rows_ok (rows : list ustr) : Prop :=
  Forall (fun l => strip l <> [] /\ first_is cp_hash (strip l) = false /\ starts_pipe (strip l) = true /\
                   length (row_cells (strip l)) = length (row_cells (strip (hd [] rows)))) rows.

Lemma feed_ex_body_rows body : forall m f s rest e r t,
  ex_pending m f s rest e r (Some t) ->
  Forall (fun l => strip l <> [] /\ first_is cp_hash (strip l) = false /\ starts_pipe (strip l) = true /\
                   length (row_cells (strip l)) = length (pt_head t)) body ->
  exists m', fold_left feed body (ROk m) = ROk m' /\
             ex_pending m' f s rest e r (Some (mkPTable (pt_head t) (rev (rows_from body (m_line m)) ++ pt_rows t) (pt_line t))) /\
             m_line m' = m_line m + length body /\ m_kw m' = m_kw m /\ m_lang m' = m_lang m.
Proof.
  induction body as [|l body IH]; intros m f s rest e r t PD OK.
  - exists m. cbn [fold_left rows_from rev app length]. rewrite Nat.add_0_r. destruct t as [th tr tl]. cbn [pt_head pt_rows pt_line].
    split; [reflexivity|]. split; [exact PD|]. repeat split.
  - inversion OK as [|? ? (NB & NC & P & LEN) OK']. subst.
    destruct (feed_ex_row m f s rest e r (Some t) l PD NB NC P LEN) as (m1 & FD1 & PD1 & L1 & K1 & G1).
    cbn [push_row] in PD1.
    assert (OK1 : Forall (fun l0 => strip l0 <> [] /\ first_is cp_hash (strip l0) = false /\ starts_pipe (strip l0) = true /\
               length (row_cells (strip l0)) = length (pt_head (mkPTable (pt_head t) ((row_cells (strip l), S (m_line m)) :: pt_rows t) (pt_line t)))) body)
      by exact OK'.
    destruct (IH m1 f s rest e r _ PD1 OK1) as (m' & FD' & PD' & L' & K' & G').
    exists m'. cbn [fold_left]. rewrite FD1. split; [exact FD'|]. cbn [pt_head pt_rows pt_line] in PD'. split.
    + cbn [rows_from rev]. rewrite L1 in PD'. rewrite <- app_assoc. exact PD'.
    + cbn [length]. repeat split; try congruence. lia.
Qed.

Lemma feed_ex_rows rows m f s rest e r :
  ex_pending m f s rest e r None -> ex_rows_ok rows ->
  exists m', fold_left feed rows (ROk m) = ROk m' /\ ex_pending m' f s rest e r (ex_table_pending rows (m_line m)) /\
             m_line m' = m_line m + length rows /\ m_kw m' = m_kw m /\ m_lang m' = m_lang m.
Proof.
  intros PD OK. destruct rows as [|h body].
  - exists m. cbn [fold_left ex_table_pending length]. rewrite Nat.add_0_r. split; [reflexivity|]. split; [exact PD|]. repeat split.
  - inversion OK as [|? ? (NB & NC & P & _) OB]. subst. cbn [hd] in OB.
    destruct (feed_ex_row m f s rest e r None h PD NB NC P I) as (m1 & FD1 & PD1 & L1 & K1 & G1). cbn [push_row] in PD1.
    destruct (feed_ex_body_rows body m1 f s rest e r _ PD1 OB) as (m2 & FD2 & PD2 & L2 & K2 & G2).
    exists m2. cbn [fold_left]. rewrite FD1. split; [exact FD2|]. split.
    + cbn [pt_head pt_rows pt_line] in PD2. rewrite app_nil_r in PD2. rewrite L1 in PD2. exact PD2.
    + cbn [length]. repeat split; try congruence. lia.
Qed.
