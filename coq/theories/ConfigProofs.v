(* ConfigProofs.v - proofs about Config.v: dictionary laws, file merging, argparse precedence, post-processing. *)
From BV Require Import Base UStr ConfigTypes UserData Config.
From BVGen Require Import ConfigTables.

Lemma ustr_eqb_refl s : ustr_eqb s s = true.
Proof. apply list_eqb_refl. apply N.eqb_refl. Qed.

Lemma ustr_eqb_eq a b : ustr_eqb a b = true -> a = b.
Proof. apply list_eqb_eq. intros x y H. now apply N.eqb_eq. Qed.

Lemma ustr_eqb_neq a b : ustr_eqb a b = false -> a <> b.
Proof. intros H E. subst. rewrite ustr_eqb_refl in H. discriminate. Qed.

Lemma ustr_eqb_sym a b : ustr_eqb a b = ustr_eqb b a.
Proof.
  destruct (ustr_eqb a b) eqn:E1, (ustr_eqb b a) eqn:E2; try reflexivity.
  - apply ustr_eqb_eq in E1. subst. rewrite ustr_eqb_refl in E2. discriminate.
  - apply ustr_eqb_eq in E2. subst. rewrite ustr_eqb_refl in E1. discriminate.
Qed.

(* ---- dictionary laws ---- *)
Lemma ns_get_set_same k v m : ns_get k (ns_set k v m) = Some v.
Proof.
  induction m as [|[k' v'] m IH]; cbn.
  - now rewrite ustr_eqb_refl.
  - destruct (ustr_eqb k k') eqn:E; cbn.
    + now rewrite ustr_eqb_refl.
    + now rewrite E.
Qed.

Lemma ns_get_set_other k k' v m : ustr_eqb k k' = false -> ns_get k (ns_set k' v m) = ns_get k m.
Proof.
  intros H. induction m as [|[k2 v2] m IH]; cbn.
  - now rewrite H.
  - destruct (ustr_eqb k' k2) eqn:E; cbn.
    + apply ustr_eqb_eq in E. subst k2. now rewrite H.
    + destruct (ustr_eqb k k2); [reflexivity|exact IH].
Qed.

Lemma ns_get_set k k' v m :
  ns_get k (ns_set k' v m) = if ustr_eqb k k' then Some v else ns_get k m.
Proof.
  destruct (ustr_eqb k k') eqn:E.
  - apply ustr_eqb_eq in E. subst. apply ns_get_set_same.
  - now apply ns_get_set_other.
Qed.

Lemma ns_val_set k k' v m : ns_val k (ns_set k' v m) = if ustr_eqb k k' then v else ns_val k m.
Proof. unfold ns_val. rewrite ns_get_set. now destruct (ustr_eqb k k'). Qed.

(* the value the last assignment to k in an update list gives *)
Definition last_assign {A} (k : ustr) (upd : list (ustr * A)) : option A :=
  fold_left (fun acc kv => if ustr_eqb k (fst kv) then Some (snd kv) else acc) upd None.

Lemma last_assign_from {A} (k : ustr) (upd : list (ustr * A)) (a : option A) :
  fold_left (fun acc kv => if ustr_eqb k (fst kv) then Some (snd kv) else acc) upd a =
  match last_assign k upd with Some v => Some v | None => a end.
Proof.
  unfold last_assign. revert a. induction upd as [|[k' v'] upd IH]; intros a; cbn [fold_left fst snd].
  - reflexivity.
  - rewrite IH. rewrite (IH (if ustr_eqb k k' then Some v' else None)).
    destruct (fold_left _ upd None); [reflexivity|]. now destruct (ustr_eqb k k').
Qed.

Lemma last_assign_cons {A} (k k' : ustr) (v' : A) upd :
  last_assign k ((k', v') :: upd) =
  match last_assign k upd with Some v => Some v | None => if ustr_eqb k k' then Some v' else None end.
Proof. unfold last_assign at 1. cbn [fold_left fst snd]. apply last_assign_from. Qed.

Theorem ns_update_get k m upd :
  ns_get k (ns_update m upd) = match last_assign k upd with Some v => Some v | None => ns_get k m end.
Proof.
  unfold ns_update. revert m. induction upd as [|[k' v'] upd IH]; intros m; cbn [fold_left fst snd].
  - reflexivity.
  - rewrite IH, last_assign_cons.
    destruct (last_assign k upd); [reflexivity|]. rewrite ns_get_set. now destruct (ustr_eqb k k').
Qed.

(* ---- load_configuration: the files present, in search order, each updating the defaults ---- *)
Definition present (home : ustr) (files : list (bool * ustr * filedata)) : list (ustr * filedata) :=
  flat_map (fun slot : bool * ustr * fkind =>
              let '(in_home, name, kind) := slot in
              match find_file (in_home, name) files with
              | None => []
              | Some f => match kind with KNone => [] | _ => [(if in_home then home else [46%N], f)] end
              end) file_order.

Definition load_one (acc : res ns) (df : ustr * filedata) : res ns :=
  bind acc (fun defs => bind (read_file (fst df) (snd df)) (fun d => ok (ns_update defs d))).

Lemma load_configuration_eq home files :
  load_configuration home files = fold_left load_one (present home files) (ok class_defaults).
Proof.
  unfold load_configuration, present. generalize (ok class_defaults) as acc. generalize file_order as slots.
  induction slots as [|[[h n] kd] slots IH]; intros acc; cbn [fold_left flat_map].
  - reflexivity.
  - rewrite fold_left_app. rewrite IH. f_equal.
    unfold load_step. destruct (find_file (h, n) files) as [f|].
    + destruct kd; cbn [fold_left]; unfold load_one; cbn [fst snd]; destruct acc; reflexivity.
    + cbn [fold_left]. destruct acc; reflexivity.
Qed.

Lemma fold_load_err l e : fold_left load_one l (inr e) = inr e.
Proof. induction l as [|x l IH]; cbn; auto. Qed.

Definition merged (base : ns) (datas : list ns) : ns := fold_left ns_update datas base.

Theorem load_configuration_spec home files defs :
  load_configuration home files = inl defs ->
  exists datas, Forall2 (fun df d => read_file (fst df) (snd df) = inl d) (present home files) datas /\
                defs = merged class_defaults datas.
Proof.
  rewrite load_configuration_eq. unfold ok, merged. generalize class_defaults as base.
  induction (present home files) as [|df l IH]; intros base H; cbn [fold_left] in H.
  - exists []. split; [constructor|]. now inversion H.
  - unfold load_one at 2 in H. cbn [bind] in H. destruct (read_file (fst df) (snd df)) as [d|e] eqn:R; cbn [bind ok] in H.
    + destruct (IH _ H) as [datas [F E]]. exists (d :: datas). split; [constructor; assumption|exact E].
    + rewrite fold_load_err in H. discriminate.
Qed.

(* the value the last file (in search order) assigning k gives *)
Definition last_file_value (k : ustr) (datas : list ns) : option cval :=
  fold_left (fun acc d => match last_assign k d with Some v => Some v | None => acc end) datas None.

Lemma last_file_value_from k datas a :
  fold_left (fun acc d => match last_assign k d with Some v => Some v | None => acc end) datas a =
  match last_file_value k datas with Some v => Some v | None => a end.
Proof.
  unfold last_file_value. revert a. induction datas as [|d datas IH]; intros a; cbn [fold_left].
  - reflexivity.
  - rewrite IH. rewrite (IH (match last_assign k d with Some v => Some v | None => None end)).
    destruct (fold_left _ datas None); [reflexivity|]. now destruct (last_assign k d).
Qed.

Theorem merged_get k base datas :
  ns_get k (merged base datas) = match last_file_value k datas with Some v => Some v | None => ns_get k base end.
Proof.
  unfold merged. revert base. induction datas as [|d datas IH]; intros base; cbn [fold_left].
  - reflexivity.
  - rewrite IH. unfold last_file_value at 2. cbn [fold_left]. rewrite last_file_value_from.
    destruct (last_file_value k datas); [reflexivity|]. rewrite ns_update_get. now destruct (last_assign k d).
Qed.

(* ---- argparse: the initial namespace ---- *)
Definition first_opt (d : ustr) (opts : list opt) : option opt := find (fun o => ustr_eqb d (o_dest o)) opts.

Lemma init_fold1_get defs d opts acc :
  ns_get d (fold_left (fun acc o => if ns_has (o_dest o) acc then acc
                                    else ns_set (o_dest o) (eff_default defs o) acc) opts acc) =
  match ns_get d acc with
  | Some v => Some v
  | None => match first_opt d opts with Some o => Some (eff_default defs o) | None => None end
  end.
Proof.
  revert acc. induction opts as [|o opts IH]; intros acc; cbn [fold_left first_opt find].
  - now destruct (ns_get d acc).
  - rewrite IH. fold (first_opt d opts). unfold ns_has.
    destruct (ns_get (o_dest o) acc) eqn:G.
    + destruct (ns_get d acc) eqn:G2; [reflexivity|].
      destruct (ustr_eqb d (o_dest o)) eqn:E; [|reflexivity].
      apply ustr_eqb_eq in E. subst d. congruence.
    + rewrite ns_get_set. destruct (ustr_eqb d (o_dest o)) eqn:E.
      * apply ustr_eqb_eq in E. subst d. now rewrite G.
      * reflexivity.
Qed.

Lemma init_fold2_get d (l : ns) acc :
  ns_get d (fold_left (fun acc kv => if ns_has (fst kv) acc then acc else ns_set (fst kv) (snd kv) acc) l acc) =
  match ns_get d acc with Some v => Some v | None => ns_get d l end.
Proof.
  revert acc. induction l as [|[k v] l IH]; intros acc; cbn [fold_left fst snd].
  - now destruct (ns_get d acc).
  - rewrite IH. unfold ns_has. cbn [ns_get].
    destruct (ns_get k acc) eqn:G.
    + destruct (ns_get d acc) eqn:G2; [reflexivity|].
      destruct (ustr_eqb d k) eqn:E; [|reflexivity]. apply ustr_eqb_eq in E. subst. congruence.
    + rewrite ns_get_set. destruct (ustr_eqb d k) eqn:E.
      * apply ustr_eqb_eq in E. subst. now rewrite G.
      * reflexivity.
Qed.

(* an option's own default unless the merged defaults name its dest; dests without an action come from the defaults *)
Theorem init_ns_get defs d :
  ns_get d (init_ns defs) =
  match first_opt d cli_options with
  | Some o => Some (match ns_get d defs with Some v => v | None => o_default o end)
  | None => ns_get d defs
  end.
Proof.
  unfold init_ns. rewrite init_fold2_get, init_fold1_get. cbn [ns_get].
  destruct (first_opt d cli_options) as [o|] eqn:F; [|reflexivity].
  unfold first_opt in F. apply find_some in F as [_ E]. apply ustr_eqb_eq in E. subst d. reflexivity.
Qed.

(* ---- argparse: option occurrences ---- *)
Definition occ_value (o : opt) (arg : option ustr) : option cval :=
  match o_action o with
  | AStore => match arg with Some a => conv (o_type o) a | None => Some (o_const o) end
  | AAppend => None
  | _ => Some (o_const o)
  end.

Definition sets (d : ustr) (oc : occ) : option cval :=
  match oc with
  | OFlag f arg => match find_opt f with
                   | Some o => if ustr_eqb d (o_dest o) then occ_value o arg else None
                   | None => None
                   end
  | OPos _ => None
  end.

Definition setlike (d : ustr) : bool :=
  forallb (fun o => negb (ustr_eqb d (o_dest o)) || negb (action_eqb (o_action o) AAppend)) cli_options.

Lemma find_opt_in f o : find_opt f = Some o -> In o cli_options.
Proof. unfold find_opt. intros H. now apply find_some in H. Qed.

Lemma setlike_not_append d o :
  setlike d = true -> In o cli_options -> ustr_eqb d (o_dest o) = true -> o_action o <> AAppend.
Proof.
  unfold setlike. intros H Hin E A. rewrite forallb_forall in H. specialize (H o Hin).
  rewrite E, A in H. discriminate.
Qed.

Lemma apply_flag_get d st f arg st' :
  apply_flag st f arg = inl st' -> setlike d = true ->
  ns_get d (fst st') = match sets d (OFlag f arg) with Some v => Some v | None => ns_get d (fst st) end.
Proof.
  destruct st as [n seen]. unfold apply_flag, sets. intros H SL.
  destruct (find_opt f) as [o|] eqn:F; [|discriminate].
  pose proof (setlike_not_append d o SL (find_opt_in _ _ F)) as NA.
  unfold occ_value.
  destruct (o_action o) eqn:A.
  - destruct arg as [a|].
    + destruct (conv (o_type o) a) as [v|] eqn:C; [|discriminate].
      assert (st' = (ns_set (o_dest o) v n, opt_key o :: seen)) as ->.
      { destruct (o_choices o) as [|c1 cs]; [now inversion H|]. destruct (mem_str a (c1 :: cs)); [now inversion H|discriminate]. }
      cbn [fst]. rewrite ns_get_set. now destruct (ustr_eqb d (o_dest o)).
    + destruct (o_optarg o); [|discriminate]. inversion H. cbn [fst]. rewrite ns_get_set.
      now destruct (ustr_eqb d (o_dest o)).
  - destruct arg; [discriminate|]. inversion H. cbn [fst]. rewrite ns_get_set. now destruct (ustr_eqb d (o_dest o)).
  - destruct arg; [discriminate|]. inversion H. cbn [fst]. rewrite ns_get_set. now destruct (ustr_eqb d (o_dest o)).
  - destruct arg; [discriminate|]. inversion H. cbn [fst]. rewrite ns_get_set. now destruct (ustr_eqb d (o_dest o)).
  - destruct (ustr_eqb d (o_dest o)) eqn:E; [exfalso; now apply NA|].
    destruct arg as [a|]; [|discriminate]. destruct (conv (o_type o) a); [|discriminate].
    destruct (append_val _ _); [|discriminate]. inversion H. cbn [fst]. now rewrite ns_get_set, E.
Qed.

Definition last_set (d : ustr) (occs : list occ) : option cval :=
  fold_left (fun acc oc => match sets d oc with Some v => Some v | None => acc end) occs None.

Lemma last_set_from d occs a :
  fold_left (fun acc oc => match sets d oc with Some v => Some v | None => acc end) occs a =
  match last_set d occs with Some v => Some v | None => a end.
Proof.
  unfold last_set. revert a. induction occs as [|oc occs IH]; intros a; cbn [fold_left].
  - reflexivity.
  - rewrite IH. rewrite (IH (match sets d oc with Some v => Some v | None => None end)).
    destruct (fold_left _ occs None); [reflexivity|]. now destruct (sets d oc).
Qed.

Lemma last_set_cons d oc occs :
  last_set d (oc :: occs) = match last_set d occs with Some v => Some v | None => sets d oc end.
Proof.
  unfold last_set at 1. cbn [fold_left]. rewrite last_set_from.
  destruct (last_set d occs); [reflexivity|]. now destruct (sets d oc).
Qed.

Lemma fold_apply_err occs e : fold_left apply_occ occs (inr e) = inr e.
Proof. induction occs as [|o occs IH]; cbn; auto. Qed.

Lemma fold_apply_get d occs st st' :
  fold_left apply_occ occs (inl st) = inl st' -> setlike d = true ->
  ns_get d (fst st') = match last_set d occs with Some v => Some v | None => ns_get d (fst st) end.
Proof.
  intros H SL. revert st H. induction occs as [|oc occs IH]; intros st H; cbn [fold_left] in H.
  - inversion H. reflexivity.
  - unfold apply_occ at 2 in H. cbn [bind] in H. rewrite last_set_cons. destruct oc as [f arg|p].
    + destruct (apply_flag st f arg) as [st1|e] eqn:A.
      * rewrite (IH _ H). destruct (last_set d occs); [reflexivity|]. now apply apply_flag_get.
      * rewrite fold_apply_err in H. discriminate.
    + unfold ok in H. rewrite (IH _ H). cbn [sets]. now destruct (last_set d occs).
Qed.

(* ---- argparse: string defaults of unseen typed actions ---- *)
Definition untyped (d : ustr) : bool :=
  forallb (fun o => negb (ustr_eqb d (o_dest o)) ||
                    match o_type o with TNone | TDefine => true | _ => false end) cli_options.

Lemma convert_default_get seen n o n' d :
  convert_default seen (inl n) o = inl n' ->
  ns_get d n' = ns_get d n \/
  (ustr_eqb d (o_dest o) = true /\ (match o_type o with TNone | TDefine => False | _ => True end) /\
   exists s, ns_val d n = VStr s /\ exists v, conv (o_type o) s = Some v /\ ns_get d n' = Some v).
Proof.
  unfold convert_default. cbn [bind]. intros H.
  destruct (mem_str (opt_key o) seen || is_positional o); [left; now inversion H|].
  destruct (ustr_eqb d (o_dest o)) eqn:E.
  - apply ustr_eqb_eq in E. subst d.
    destruct (o_type o) eqn:T; try (left; now inversion H);
      (destruct (ns_val (o_dest o) n) eqn:V; try (left; now inversion H);
       destruct (conv _ s) as [v|] eqn:C; [|discriminate]; right; repeat split; auto;
       exists s; split; [reflexivity|]; exists v; split; [exact C|]; inversion H; apply ns_get_set_same).
  - left. destruct (o_type o); try (now inversion H);
      (destruct (ns_val (o_dest o) n); try (now inversion H);
       destruct (conv _ s); [|discriminate]; inversion H; now rewrite ns_get_set, E).
Qed.

Lemma fold_convert_err seen opts e : fold_left (convert_default seen) opts (inr e) = inr e.
Proof. induction opts as [|o opts IH]; cbn; auto. Qed.

Lemma fold_convert_untyped seen d opts n n' :
  (forall o, In o opts -> ustr_eqb d (o_dest o) = true -> match o_type o with TNone | TDefine => True | _ => False end) ->
  fold_left (convert_default seen) opts (inl n) = inl n' -> ns_get d n' = ns_get d n.
Proof.
  revert n. induction opts as [|o opts IH]; intros n U H; cbn [fold_left] in H.
  - now inversion H.
  - destruct (convert_default seen (inl n) o) as [n1|e] eqn:C.
    + rewrite (IH n1); [|intros o' Hin; apply U; now right|exact H].
      destruct (convert_default_get _ _ _ _ d C) as [E|[E [T _]]]; [exact E|].
      exfalso. specialize (U o (or_introl eq_refl) E). destruct (o_type o); tauto.
    + rewrite fold_convert_err in H. discriminate.
Qed.

(* a value that is not a string is never converted *)
Lemma fold_convert_nonstring seen d opts n n' v :
  ns_get d n = Some v -> (forall s, v <> VStr s) ->
  fold_left (convert_default seen) opts (inl n) = inl n' -> ns_get d n' = Some v.
Proof.
  revert n. induction opts as [|o opts IH]; intros n G NS H; cbn [fold_left] in H.
  - inversion H. now subst.
  - destruct (convert_default seen (inl n) o) as [n1|e] eqn:C.
    + apply (IH n1); [|exact NS|exact H].
      destruct (convert_default_get _ _ _ _ d C) as [E|[_ [_ [s [V _]]]]]; [now rewrite E|].
      exfalso. unfold ns_val in V. rewrite G in V. now apply (NS s).
    + rewrite fold_convert_err in H. discriminate.
Qed.

(* ---- parse_args ---- *)
Lemma parse_args_inv defs occs n :
  parse_args defs occs = inl n ->
  exists n0 seen n1,
    fold_left apply_occ occs (inl (init_ns defs, [])) = inl (n0, seen) /\
    (forall d, ustr_eqb d k_paths = false -> ns_get d n1 = ns_get d n0) /\
    fold_left (convert_default seen) cli_options (inl n1) = inl n.
Proof.
  unfold parse_args, ok. intros H.
  destruct (fold_left apply_occ occs (inl (init_ns defs, []))) as [[n0 seen]|e] eqn:F; cbn [bind] in H; [|discriminate].
  eexists n0, seen, _. split; [reflexivity|]. split; [|exact H].
  intros d Hd. destruct (positionals occs).
  - destruct (ns_val k_paths n0); try reflexivity. now rewrite ns_get_set, Hd.
  - now rewrite ns_get_set, Hd.
Qed.

Theorem parse_args_untyped defs occs n d :
  parse_args defs occs = inl n -> setlike d = true -> untyped d = true -> ustr_eqb d k_paths = false ->
  ns_get d n = match last_set d occs with Some v => Some v | None => ns_get d (init_ns defs) end.
Proof.
  intros H SL UT NP. destruct (parse_args_inv _ _ _ H) as [n0 [seen [n1 [F [P C]]]]].
  rewrite (fold_convert_untyped seen d cli_options n1 n); [|intros o Hin E|exact C].
  - rewrite (P d NP). apply (fold_apply_get d occs _ _ F SL).
  - unfold untyped in UT. rewrite forallb_forall in UT. specialize (UT o Hin). rewrite E in UT.
    cbn [negb orb] in UT. destruct (o_type o); try discriminate; exact I.
Qed.

Theorem parse_args_cmdline_value defs occs n d v :
  parse_args defs occs = inl n -> setlike d = true -> ustr_eqb d k_paths = false ->
  last_set d occs = Some v -> (forall s, v <> VStr s) -> ns_get d n = Some v.
Proof.
  intros H SL NP L NS. destruct (parse_args_inv _ _ _ H) as [n0 [seen [n1 [F [P C]]]]].
  apply (fold_convert_nonstring seen d cli_options n1 n v); [|exact NS|exact C].
  rewrite (P d NP). pose proof (fold_apply_get d occs _ _ F SL) as FG. cbn [fst] in FG. rewrite FG. now rewrite L.
Qed.

(* typed single-valued options not named on the command line: a non-string default stays *)
Theorem parse_args_typed_default defs occs n d v :
  parse_args defs occs = inl n -> setlike d = true -> ustr_eqb d k_paths = false ->
  last_set d occs = None -> ns_get d (init_ns defs) = Some v -> (forall s, v <> VStr s) -> ns_get d n = Some v.
Proof.
  intros H SL NP L G NS. destruct (parse_args_inv _ _ _ H) as [n0 [seen [n1 [F [P C]]]]].
  apply (fold_convert_nonstring seen d cli_options n1 n v); [|exact NS|exact C].
  rewrite (P d NP). pose proof (fold_apply_get d occs _ _ F SL) as FG. cbn [fst] in FG. rewrite FG. now rewrite L.
Qed.

(* ---- append options: earlier values first, command-line values in command-line order ---- *)
Definition applike (d : ustr) : bool :=
  forallb (fun o => negb (ustr_eqb d (o_dest o)) ||
                    (action_eqb (o_action o) AAppend && match o_type o with TNone => true | _ => false end)) cli_options.

Definition appended (d : ustr) (occs : list occ) : list ustr :=
  flat_map (fun oc => match oc with
                      | OFlag f (Some a) => match find_opt f with
                                            | Some o => if ustr_eqb d (o_dest o) then [a] else []
                                            | None => []
                                            end
                      | _ => []
                      end) occs.

Definition listy (v : cval) : bool := match v with VNone | VStrs _ => true | _ => false end.

Lemma apply_flag_app d st f arg st' :
  apply_flag st f arg = inl st' -> applike d = true -> listy (ns_val d (fst st)) = true ->
  listy (ns_val d (fst st')) = true /\
  strs_of (ns_val d (fst st')) = strs_of (ns_val d (fst st)) ++ appended d [OFlag f arg].
Proof.
  destruct st as [n seen]. unfold apply_flag, appended. cbn [flat_map fst]. intros H AL LY.
  destruct (find_opt f) as [o|] eqn:F; [|discriminate].
  unfold applike in AL. rewrite forallb_forall in AL. specialize (AL o (find_opt_in _ _ F)).
  destruct (ustr_eqb d (o_dest o)) eqn:E.
  - cbn [negb orb] in AL. apply andb_true_iff in AL as [A T].
    destruct (o_action o); try discriminate. destruct (o_type o); try discriminate.
    destruct arg as [a|]; [|discriminate]. cbn [conv] in H.
    apply ustr_eqb_eq in E. subst d.
    destruct (ns_val (o_dest o) n) eqn:V; try discriminate; cbn [append_val] in H; inversion H; cbn [fst];
      rewrite ns_val_set, ustr_eqb_refl; cbn [listy strs_of]; rewrite ?app_nil_r; auto.
  - assert (ns_val d (fst st') = ns_val d n) as ->.
    { destruct (o_action o).
      - destruct arg as [a|].
        + destruct (conv (o_type o) a); [|discriminate].
          destruct (o_choices o) as [|c1 cs]; [inversion H; cbn [fst]; now rewrite ns_val_set, E|].
          destruct (mem_str a (c1 :: cs)); [|discriminate]. inversion H. cbn [fst]. now rewrite ns_val_set, E.
        + destruct (o_optarg o); [|discriminate]. inversion H. cbn [fst]. now rewrite ns_val_set, E.
      - destruct arg; [discriminate|]. inversion H. cbn [fst]. now rewrite ns_val_set, E.
      - destruct arg; [discriminate|]. inversion H. cbn [fst]. now rewrite ns_val_set, E.
      - destruct arg; [discriminate|]. inversion H. cbn [fst]. now rewrite ns_val_set, E.
      - destruct arg as [a|]; [|discriminate]. destruct (conv (o_type o) a); [|discriminate].
        destruct (append_val _ _); [|discriminate]. inversion H. cbn [fst]. now rewrite ns_val_set, E. }
    split; [exact LY|]. destruct arg; now rewrite app_nil_r.
Qed.

Lemma fold_apply_app d occs st st' :
  fold_left apply_occ occs (inl st) = inl st' -> applike d = true -> listy (ns_val d (fst st)) = true ->
  listy (ns_val d (fst st')) = true /\
  strs_of (ns_val d (fst st')) = strs_of (ns_val d (fst st)) ++ appended d occs.
Proof.
  intros H AL. revert st H. induction occs as [|oc occs IH]; intros st H LY; cbn [fold_left] in H.
  - inversion H. subst st'. split; [exact LY|]. cbn. now rewrite app_nil_r.
  - unfold apply_occ at 2 in H. cbn [bind] in H. destruct oc as [f arg|p].
    + destruct (apply_flag st f arg) as [st1|e] eqn:A; [|rewrite fold_apply_err in H; discriminate].
      destruct (apply_flag_app d _ _ _ _ A AL LY) as [LY1 S1].
      destruct (IH _ H LY1) as [LY2 S2]. split; [exact LY2|].
      rewrite S2, S1. rewrite <- app_assoc. f_equal. unfold appended. cbn [flat_map]. now rewrite app_nil_r.
    + unfold ok in H. destruct (IH _ H LY) as [LY2 S2]. split; [exact LY2|]. exact S2.
Qed.

Lemma applike_untyped d : applike d = true -> untyped d = true.
Proof.
  unfold applike, untyped. intros H. rewrite forallb_forall in *. intros o Hin. specialize (H o Hin).
  destruct (ustr_eqb d (o_dest o)); [|reflexivity]. cbn [negb orb] in *. apply andb_true_iff in H as [_ T].
  now destruct (o_type o).
Qed.

Theorem parse_args_append defs occs n d :
  parse_args defs occs = inl n -> applike d = true -> ustr_eqb d k_paths = false ->
  listy (ns_val d (init_ns defs)) = true ->
  strs_of (ns_val d n) = strs_of (ns_val d (init_ns defs)) ++ appended d occs.
Proof.
  intros H AL NP LY. destruct (parse_args_inv _ _ _ H) as [n0 [seen [n1 [F [P C]]]]].
  assert (ns_val d n = ns_val d n0) as ->.
  { unfold ns_val. rewrite (fold_convert_untyped seen d cli_options n1 n); [now rewrite (P d NP)| |exact C].
    intros o Hin E. pose proof (applike_untyped d AL) as UT. unfold untyped in UT. rewrite forallb_forall in UT.
    specialize (UT o Hin). rewrite E in UT. cbn [negb orb] in UT. destruct (o_type o); try discriminate; exact I. }
  apply (fold_apply_app d occs _ _ F AL LY).
Qed.

(* positional paths replace the configured ones; without positionals the configured ones stay *)
Lemma untyped_opts d : untyped d = true ->
  forall o, In o cli_options -> ustr_eqb d (o_dest o) = true -> match o_type o with TNone | TDefine => True | _ => False end.
Proof.
  unfold untyped. intros UT o Hin E. rewrite forallb_forall in UT. specialize (UT o Hin). rewrite E in UT.
  cbn [negb orb] in UT. destruct (o_type o); try discriminate; exact I.
Qed.

Theorem parse_args_paths_cmdline defs occs n p ps :
  parse_args defs occs = inl n -> untyped k_paths = true -> positionals occs = p :: ps ->
  ns_val k_paths n = VStrs (p :: ps).
Proof.
  unfold parse_args, ok. intros H UT PS.
  destruct (fold_left apply_occ occs (inl (init_ns defs, []))) as [[n0 seen]|e] eqn:F; cbn [bind] in H; [|discriminate].
  rewrite PS in H. unfold ns_val.
  rewrite (fold_convert_untyped seen k_paths cli_options _ n (untyped_opts _ UT) H). now rewrite ns_get_set_same.
Qed.

Definition paths_only_positional : bool :=
  forallb (fun o => negb (ustr_eqb k_paths (o_dest o)) || is_positional o) cli_options.

Lemma no_flag_sets_paths occs : paths_only_positional = true -> last_set k_paths occs = None.
Proof.
  intros PO. induction occs as [|oc occs IH]; [reflexivity|]. rewrite last_set_cons, IH.
  destruct oc as [f arg|p]; [|reflexivity]. cbn [sets].
  destruct (find_opt f) as [o|] eqn:F; [|reflexivity].
  destruct (ustr_eqb k_paths (o_dest o)) eqn:E; [|reflexivity]. exfalso.
  unfold paths_only_positional in PO. rewrite forallb_forall in PO. specialize (PO o (find_opt_in _ _ F)).
  rewrite E in PO. cbn [negb orb] in PO. unfold find_opt in F. apply find_some in F as [_ HF].
  unfold has_flag, is_positional in *. destruct (o_flags o); [discriminate HF|discriminate PO].
Qed.

Theorem parse_args_paths_file defs occs n l :
  parse_args defs occs = inl n -> untyped k_paths = true -> setlike k_paths = true -> paths_only_positional = true ->
  positionals occs = [] -> ns_get k_paths (init_ns defs) = Some (VStrs l) -> ns_val k_paths n = VStrs l.
Proof.
  unfold parse_args, ok. intros H UT SL PO PS G.
  destruct (fold_left apply_occ occs (inl (init_ns defs, []))) as [[n0 seen]|e] eqn:F; cbn [bind] in H; [|discriminate].
  rewrite PS in H. pose proof (fold_apply_get k_paths occs _ _ F SL) as FG. cbn [fst] in FG.
  rewrite (no_flag_sets_paths occs PO), G in FG.
  unfold ns_val in *. rewrite FG in H.
  rewrite (fold_convert_untyped seen k_paths cli_options _ n (untyped_opts _ UT) H). now rewrite FG.
Qed.

(* ---- Configuration.__init__ after parse_args: with no mode switched on, options keep their parsed value ---- *)
Definition post_keys : list ustr :=
  [k_paths; u "outputs"; u "tags"; u "protocol_in_use"; u "name_re"; u "stage"; u "steps_dir";
   u "environment_file"; u "userdata"; u "runner_aliases"; u "reporters"].

Definition modes_off (n : ns) : Prop :=
  ns_truthy (u "steps_catalog") n = false /\ ns_truthy (u "wip") n = false /\
  ns_truthy (u "quiet") n = false /\ ns_truthy (u "junit") n = false.

Ltac keq :=
  unfold k_paths, k_format, k_outfiles in *;
  repeat match goal with
         | |- context [ustr_eqb (u ?a) (u ?b)] =>
             let r := eval vm_compute in (ustr_eqb (u a) (u b)) in change (ustr_eqb (u a) (u b)) with r
         end.

Lemma truthy_set_other k k' v n : ustr_eqb k k' = false -> ns_truthy k (ns_set k' v n) = ns_truthy k n.
Proof. intros H. unfold ns_truthy. now rewrite ns_val_set, H. Qed.

Theorem post_keeps_plain_options env n n' d :
  post env n = inl n' -> modes_off n -> mem_str d post_keys = false -> ns_get d n' = ns_get d n.
Proof.
  intros H [M1 [M2 [M3 M4]]] K.
  unfold mem_str, post_keys in K. cbn [existsb] in K.
  repeat (apply orb_false_elim in K as [?K K]).
  unfold post in H.
  set (n1 := outputs_stage _) in H.
  assert (T : forall k, ustr_eqb k k_paths = false -> ustr_eqb k (u "outputs") = false -> ns_truthy k n1 = ns_truthy k n).
  { intros k A B. unfold n1, outputs_stage. rewrite truthy_set_other by exact B. now rewrite truthy_set_other by exact A. }
  rewrite (T (u "steps_catalog")), M1 in H by (keq; reflexivity).
  rewrite (T (u "wip")), M2 in H by (keq; reflexivity).
  rewrite (T (u "quiet")), M3 in H by (keq; reflexivity).
  destruct (tags_stage n1) as [n2|e] eqn:TS; cbn [bind] in H; [|discriminate].
  destruct (existsb bad_format _); [discriminate|]. inversion H as [H']. clear H H'.
  assert (G1 : ns_get d n1 = ns_get d n).
  { unfold n1, outputs_stage. now rewrite !ns_get_set, K1, K0. }
  assert (G2 : ns_get d n2 = ns_get d n1).
  { unfold tags_stage in TS.
    destruct (match ns_val (u "tag_expression_protocol") n1 with VProto p => Some p | VStr s => proto_from_name s | _ => None end);
      [|discriminate]. inversion TS. now rewrite !ns_get_set, K3, K2. }
  assert (J : ns_truthy (u "junit") (runners_stage (userdata_stage (stage_stage env (filters_stage n2)))) = false).
  { unfold runners_stage, userdata_stage, stage_stage, filters_stage.
    destruct (ns_truthy (u "name") n2); rewrite !truthy_set_other by (keq; reflexivity);
      (unfold tags_stage in TS;
       destruct (match ns_val (u "tag_expression_protocol") n1 with VProto p => Some p | VStr s => proto_from_name s | _ => None end);
       [|discriminate]; inversion TS; rewrite !truthy_set_other by (keq; reflexivity);
       rewrite (T (u "junit")) by (keq; reflexivity); exact M4). }
  unfold reporters_stage. rewrite J. rewrite ns_get_set, K10.
  unfold runners_stage. rewrite ns_get_set, K9.
  unfold userdata_stage. rewrite ns_get_set, K8.
  unfold stage_stage. rewrite !ns_get_set, K7, K6, K5.
  unfold filters_stage. destruct (ns_truthy (u "name") n2); rewrite ns_get_set, K4; now rewrite G2, G1.
Qed.

(* ---- user data: command-line defines over file user data ---- *)
Lemma sdict_get_set k k' v m : sdict_get k (sdict_set k' v m) = if ustr_eqb k k' then Some v else sdict_get k m.
Proof.
  induction m as [|[k2 v2] m IH]; cbn.
  - reflexivity.
  - destruct (ustr_eqb k' k2) eqn:E; cbn.
    + apply ustr_eqb_eq in E. subst k2. now destruct (ustr_eqb k k').
    + destruct (ustr_eqb k k2) eqn:E2.
      * apply ustr_eqb_eq in E2. subst k2. rewrite ustr_eqb_sym in E. now rewrite E.
      * exact IH.
Qed.

Theorem sdict_update_get k m upd :
  sdict_get k (sdict_update m upd) = match last_assign k upd with Some v => Some v | None => sdict_get k m end.
Proof.
  unfold sdict_update. revert m. induction upd as [|[k' v'] upd IH]; intros m; cbn [fold_left fst snd].
  - reflexivity.
  - rewrite IH, last_assign_cons. destruct (last_assign k upd); [reflexivity|]. rewrite sdict_get_set.
    now destruct (ustr_eqb k k').
Qed.

(* frame lemmas: what each stage of the post-processing leaves alone *)
Ltac split_mem H :=
  unfold mem_str in H; cbn [existsb] in H;
  repeat (let K := fresh "K" in apply orb_false_elim in H as [K H]).
Ltac frame :=
  repeat rewrite ns_val_set;
  repeat match goal with K : ustr_eqb ?k ?x = false |- context [ustr_eqb ?k ?x] => rewrite K end;
  try reflexivity.

Lemma outputs_frame k v n :
  mem_str k [k_paths; u "outputs"] = false -> ns_val k (outputs_stage (ns_set k_paths v n)) = ns_val k n.
Proof. intros H. split_mem H. unfold outputs_stage. frame. Qed.

Lemma catalog_frame k n :
  mem_str k [u "default_format"; k_format; u "dry_run"; u "summary"; u "show_skipped"; u "quiet"] = false ->
  ns_val k (steps_catalog_mode n) = ns_val k n.
Proof. intros H. split_mem H. unfold steps_catalog_mode, set_bool. frame. Qed.

Lemma wip_frame k n :
  mem_str k [u "default_format"; u "color"; u "stop"; u "log_capture"; u "stdout_capture"; u "tags"] = false ->
  ns_val k (wip_mode n) = ns_val k n.
Proof. intros H. split_mem H. unfold wip_mode, set_bool. frame. Qed.

Lemma quiet_frame k n :
  mem_str k [u "show_source"; u "show_snippets"] = false -> ns_val k (quiet_mode n) = ns_val k n.
Proof. intros H. split_mem H. unfold quiet_mode, set_bool. frame. Qed.

Lemma tags_frame k n n' :
  tags_stage n = inl n' -> mem_str k [u "tags"; u "protocol_in_use"] = false -> ns_val k n' = ns_val k n.
Proof.
  intros T H. split_mem H. unfold tags_stage in T.
  destruct (match ns_val (u "tag_expression_protocol") n with VProto p => Some p | VStr s => proto_from_name s | _ => None end);
    [|discriminate]. inversion T. frame.
Qed.

Lemma filters_frame k n : mem_str k [u "name_re"] = false -> ns_val k (filters_stage n) = ns_val k n.
Proof. intros H. split_mem H. unfold filters_stage. destruct (ns_truthy (u "name") n); frame. Qed.

Lemma stage_frame k env n :
  mem_str k [u "stage"; u "steps_dir"; u "environment_file"] = false -> ns_val k (stage_stage env n) = ns_val k n.
Proof. intros H. split_mem H. unfold stage_stage. frame. Qed.

Lemma runners_frame k n : mem_str k [u "runner_aliases"] = false -> ns_val k (runners_stage n) = ns_val k n.
Proof. intros H. split_mem H. unfold runners_stage. frame. Qed.

Lemma reporters_frame k n :
  mem_str k [u "log_capture"; u "stderr_capture"; u "stdout_capture"; u "reporters"] = false ->
  ns_val k (reporters_stage n) = ns_val k n.
Proof. intros H. split_mem H. unfold reporters_stage, set_bool. destruct (ns_truthy (u "junit") n); frame. Qed.

Definition before_userdata_written : list ustr :=
  [k_paths; u "outputs"; u "default_format"; k_format; u "dry_run"; u "summary"; u "show_skipped"; u "quiet";
   u "color"; u "stop"; u "log_capture"; u "stdout_capture"; u "tags"; u "show_source"; u "show_snippets";
   u "protocol_in_use"; u "name_re"; u "stage"; u "steps_dir"; u "environment_file"].

Lemma mem_str_sub k (small big : list ustr) :
  mem_str k big = false -> forallb (fun x => mem_str x big) small = true -> mem_str k small = false.
Proof.
  intros H S. unfold mem_str in *. destruct (existsb (ustr_eqb k) small) eqn:E; [|reflexivity].
  apply existsb_exists in E as [x [Hin Hx]]. apply ustr_eqb_eq in Hx. subst x.
  rewrite forallb_forall in S. specialize (S k Hin). unfold mem_str in S. congruence.
Qed.

Theorem post_userdata env n n' :
  post env n = inl n' ->
  ns_val (u "userdata") n' =
  VDefs (sdict_update (defs_of (ns_val (u "userdata") n)) (defs_of (ns_val (u "userdata_defines") n))).
Proof.
  unfold post. intros H.
  match type of H with bind (tags_stage ?x) _ = _ => set (n1 := x) in H end.
  destruct (tags_stage n1) as [n2|e] eqn:TS; cbn [bind] in H; [|discriminate].
  destruct (existsb bad_format _); [discriminate|]. inversion H as [H']. clear H H'.
  assert (G : forall k, mem_str k before_userdata_written = false ->
                        ns_val k (stage_stage env (filters_stage n2)) = ns_val k n).
  { intros k Hk.
    rewrite stage_frame by (apply (mem_str_sub k _ _ Hk); reflexivity).
    rewrite filters_frame by (apply (mem_str_sub k _ _ Hk); reflexivity).
    rewrite (tags_frame k n1 n2 TS) by (apply (mem_str_sub k _ _ Hk); reflexivity).
    unfold n1.
    repeat match goal with
           | |- context [if ?c then _ else _] => destruct c
           end;
      rewrite ?quiet_frame, ?wip_frame, ?catalog_frame, ?outputs_frame
        by (apply (mem_str_sub k _ _ Hk); reflexivity); reflexivity. }
  assert (U : ns_val (u "userdata") (userdata_stage (stage_stage env (filters_stage n2))) =
              VDefs (sdict_update (defs_of (ns_val (u "userdata") n)) (defs_of (ns_val (u "userdata_defines") n)))).
  { unfold userdata_stage. rewrite ns_val_set, ustr_eqb_refl. now rewrite !G by reflexivity. }
  rewrite reporters_frame by reflexivity. rewrite runners_frame by reflexivity. exact U.
Qed.

(* options no mode ever touches keep their parsed value whatever modes are on *)
Definition post_written : list ustr :=
  before_userdata_written ++ [u "userdata"; u "runner_aliases"; u "stderr_capture"; u "reporters"].

Theorem post_frame env n n' k :
  post env n = inl n' -> mem_str k post_written = false -> ns_val k n' = ns_val k n.
Proof.
  unfold post. intros H Hk.
  match type of H with bind (tags_stage ?x) _ = _ => set (n1 := x) in H end.
  destruct (tags_stage n1) as [n2|e] eqn:TS; cbn [bind] in H; [|discriminate].
  destruct (existsb bad_format _); [discriminate|]. inversion H as [H']. clear H H'.
  rewrite reporters_frame by (apply (mem_str_sub k _ _ Hk); reflexivity).
  rewrite runners_frame by (apply (mem_str_sub k _ _ Hk); reflexivity).
  unfold userdata_stage. rewrite ns_val_set.
  assert (ustr_eqb k (u "userdata") = false) as ->.
  { assert (M : mem_str k [u "userdata"] = false) by (apply (mem_str_sub k _ _ Hk); reflexivity).
    unfold mem_str in M. cbn [existsb] in M. now rewrite orb_false_r in M. }
  rewrite stage_frame by (apply (mem_str_sub k _ _ Hk); reflexivity).
  rewrite filters_frame by (apply (mem_str_sub k _ _ Hk); reflexivity).
  rewrite (tags_frame k n1 n2 TS) by (apply (mem_str_sub k _ _ Hk); reflexivity).
  unfold n1.
  repeat match goal with
         | |- context [if ?c then _ else _] => destruct c
         end;
    rewrite ?quiet_frame, ?wip_frame, ?catalog_frame, ?outputs_frame
      by (apply (mem_str_sub k _ _ Hk); reflexivity); reflexivity.
Qed.

(* what the documented modes force *)
Lemma ns_val_truthy_bool k n b : ns_val k n = VBool b -> ns_truthy k n = b.
Proof. unfold ns_truthy. now intros ->. Qed.

(* ---- paths of a configuration file are resolved relative to the file ---- *)
Lemma resolve_key_other dir k k' d : ustr_eqb k k' = false -> ns_get k (resolve_key dir k' d) = ns_get k d.
Proof.
  intros E. unfold resolve_key. destruct (ns_get k' d) as [[| | | |l| |]|]; try reflexivity.
  now rewrite ns_get_set, E.
Qed.

Lemma resolve_key_same dir k d l :
  ns_get k d = Some (VStrs l) -> ns_get k (resolve_key dir k d) = Some (VStrs (map (resolve dir) l)).
Proof. intros G. unfold resolve_key. rewrite G. apply ns_get_set_same. Qed.

Lemma coupling_paths dir d l :
  ns_get k_paths d = Some (VStrs l) ->
  ns_get k_paths (coupling dir d) = Some (VStrs (map (resolve dir) l)).
Proof.
  intros G. unfold coupling.
  match goal with |- context [resolve_key dir k_paths ?x] => set (d1 := x) end.
  assert (G1 : ns_get k_paths d1 = Some (VStrs l)).
  { unfold d1. destruct (ns_get k_format d) as [[| | | |fs| |]|]; try exact G.
    destruct (Nat.ltb _ _); [rewrite ns_get_set; exact G|].
    destruct (Nat.ltb _ _); [rewrite ns_get_set; exact G|exact G]. }
  rewrite resolve_key_other by reflexivity. now apply resolve_key_same.
Qed.

(* named output files are resolved relative to the file, in order; missing ones are derived from the formatter names *)
Lemma coupling_outfiles dir d :
  ns_get k_outfiles (coupling dir d) =
  match ns_get k_format d, ns_get k_outfiles d with
  | Some (VStrs fs), outs =>
      let o := match outs with Some (VStrs o) => o | _ => [] end in
      if Nat.ltb (length o) (length fs)
      then Some (VStrs (map (resolve dir) (o ++ map (fun f => f ++ u ".output") (skipn (length o) fs))))
      else if Nat.ltb (length fs) (length o) then Some (VStrs (map (resolve dir) (firstn (length fs) o)))
           else match outs with Some (VStrs o) => Some (VStrs (map (resolve dir) o)) | x => x end
  | _, Some (VStrs o) => Some (VStrs (map (resolve dir) o))
  | _, x => x
  end.
Proof.
  unfold coupling.
  match goal with |- context [resolve_key dir k_paths ?x] => set (d1 := x) end.
  assert (R : forall m, ns_get k_outfiles (resolve_key dir k_outfiles (resolve_key dir k_paths m)) =
                        match ns_get k_outfiles m with Some (VStrs o) => Some (VStrs (map (resolve dir) o)) | x => x end).
  { intros m. set (m' := resolve_key dir k_paths m).
    assert (G' : ns_get k_outfiles m' = ns_get k_outfiles m) by (unfold m'; now rewrite resolve_key_other by reflexivity).
    unfold resolve_key. rewrite G'.
    destruct (ns_get k_outfiles m) as [[| | | |o| |]|] eqn:G; rewrite ?G'; try reflexivity; try exact G.
    apply ns_get_set_same. }
  rewrite R. unfold d1.
  destruct (ns_get k_format d) as [[| | | |fs| |]|];
    try (destruct (ns_get k_outfiles d) as [[| | | |o| |]|]; reflexivity).
  cbv zeta.
  destruct (Nat.ltb _ _); [now rewrite ns_get_set_same|].
  destruct (Nat.ltb _ _); [now rewrite ns_get_set_same|].
  destruct (ns_get k_outfiles d) as [[| | | |o| |]|]; reflexivity.
Qed.

(* ---- resolve: a plain relative path under a normal absolute directory is the concatenation ---- *)
Definition plainb (c : ustr) : bool :=
  negb (ustr_eqb c []) && negb (memN cp_slash c) && negb (ustr_eqb c [46%N]) && negb (ustr_eqb c dotdot).

Definition path_of (absolute : bool) (comps : list ustr) : ustr :=
  (if absolute then [cp_slash] else []) ++ join [cp_slash] comps.

Lemma split_aux_nosep sep c r cur :
  memN sep c = false -> split_on_aux sep (c ++ r) cur = split_on_aux sep r (rev c ++ cur).
Proof.
  revert cur. induction c as [|x c IH]; intros cur H; cbn [app rev split_on_aux].
  - reflexivity.
  - unfold memN in H. cbn [existsb] in H. apply orb_false_elim in H as [H1 H2].
    rewrite N.eqb_sym in H1. rewrite H1. rewrite IH by exact H2. now rewrite <- app_assoc.
Qed.

Lemma split_join sep comps cur0 :
  comps <> [] -> forallb (fun c => negb (memN sep c)) comps = true ->
  split_on_aux sep (join [sep] comps) cur0 =
  match comps with c :: cs => (rev cur0 ++ c) :: cs | [] => [] end.
Proof.
  revert cur0. induction comps as [|c cs IH]; intros cur0 NE H; [congruence|].
  cbn [forallb] in H. apply andb_true_iff in H as [Hc Hcs]. apply negb_true_iff in Hc.
  destruct cs as [|c2 cs].
  - cbn [join]. rewrite <- (app_nil_r c) at 1. rewrite split_aux_nosep by exact Hc. cbn [split_on_aux].
    now rewrite rev_app_distr, rev_involutive.
  - change (join [sep] (c :: c2 :: cs)) with (c ++ [sep] ++ join [sep] (c2 :: cs)).
    rewrite split_aux_nosep by exact Hc. cbn [app split_on_aux]. rewrite N.eqb_refl.
    rewrite IH by (congruence || exact Hcs). cbn [rev app]. now rewrite rev_app_distr, rev_involutive.
Qed.

Lemma plainb_parts c : plainb c = true ->
  ustr_eqb c [] = false /\ memN cp_slash c = false /\ ustr_eqb c [46%N] = false /\ ustr_eqb c dotdot = false.
Proof.
  unfold plainb. intros H. repeat (apply andb_true_iff in H as [H ?]).
  repeat split; now apply negb_true_iff.
Qed.

Lemma norm_plain init comps acc :
  forallb plainb comps = true -> norm_comps init comps acc = rev acc ++ comps.
Proof.
  revert acc. induction comps as [|c cs IH]; intros acc H; cbn [norm_comps].
  - now rewrite app_nil_r.
  - cbn [forallb] in H. apply andb_true_iff in H as [Hc Hcs].
    destruct (plainb_parts c Hc) as [A [B [C D]]]. rewrite A, C, D. cbn [orb negb].
    rewrite IH by exact Hcs. cbn [rev]. now rewrite <- app_assoc.
Qed.

Lemma plain_nosep comps : forallb plainb comps = true -> forallb (fun c => negb (memN cp_slash c)) comps = true.
Proof.
  intros H. rewrite forallb_forall in *. intros c Hin. destruct (plainb_parts c (H c Hin)) as [_ [B _]]. now rewrite B.
Qed.

Lemma plain_head comps c cs : forallb plainb comps = true -> comps = c :: cs ->
  exists x r, c = x :: r /\ N.eqb x cp_slash = false.
Proof.
  intros H ->. cbn [forallb] in H. apply andb_true_iff in H as [Hc _].
  destruct (plainb_parts c Hc) as [A [B _]]. destruct c as [|x r]; [discriminate A|].
  exists x, r. split; [reflexivity|]. unfold memN in B. cbn [existsb] in B. apply orb_false_elim in B as [B _].
  now rewrite N.eqb_sym.
Qed.

Lemma leading_slashes_one x r : N.eqb x cp_slash = false -> leading_slashes (cp_slash :: x :: r) = 1.
Proof.
  unfold cp_slash, leading_slashes. intros E.
  destruct x as [|p]; [reflexivity|].
  destruct p as [p|p|]; try reflexivity; destruct p as [p|p|]; try reflexivity;
    destruct p as [p|p|]; try reflexivity; destruct p as [p|p|]; try reflexivity;
    destruct p as [p|p|]; try reflexivity; destruct p as [p|p|]; try reflexivity; discriminate E.
Qed.

Lemma join_head comps x r cs : comps = (x :: r) :: cs -> exists rest, join [cp_slash] comps = x :: rest.
Proof. intros ->. destruct cs; cbn [join app]; eauto. Qed.

Theorem normpath_plain_absolute comps :
  forallb plainb comps = true -> comps <> [] -> normpath (path_of true comps) = path_of true comps.
Proof.
  intros H NE. destruct comps as [|c cs] eqn:EC; [congruence|]. rewrite <- EC in *.
  destruct (plain_head comps c cs H EC) as [x [r [-> X]]].
  destruct (join_head comps x r cs EC) as [rest J].
  unfold path_of. cbn [app]. set (body := join [cp_slash] comps) in *.
  change (normpath (cp_slash :: body)) with (normpath_nonempty (cp_slash :: body)).
  assert (LS : leading_slashes (cp_slash :: body) = 1) by (rewrite J; apply leading_slashes_one; exact X).
  assert (SP : split_on_aux cp_slash body [] = comps).
  { unfold body. rewrite (split_join cp_slash comps []) by (assumption || apply (plain_nosep _ H)).
    rewrite EC. reflexivity. }
  unfold normpath_nonempty. rewrite !LS.
  unfold split_on. cbn [split_on_aux]. rewrite N.eqb_refl. cbn [rev]. rewrite !SP.
  cbn [norm_comps]. change (ustr_eqb [] []) with true. cbn [orb].
  rewrite norm_plain by exact H. cbn [rev app Nat.eqb negb repeat]. fold body. reflexivity.
Qed.

Lemma join_app_ne sep (a b : list ustr) : a <> [] -> b <> [] -> join sep (a ++ b) = join sep a ++ sep ++ join sep b.
Proof.
  intros NA NB. induction a as [|x a IH]; [congruence|].
  destruct a as [|y a].
  - cbn [app join]. destruct b; [congruence|reflexivity].
  - change (join sep ((x :: y :: a) ++ b)) with (x ++ sep ++ join sep ((y :: a) ++ b)).
    rewrite IH by congruence. change (join sep (x :: y :: a)) with (x ++ sep ++ join sep (y :: a)).
    now rewrite <- !app_assoc.
Qed.

Lemma last_cons_ne {A} (x : A) l d : l <> [] -> last (x :: l) d = last l d.
Proof. destruct l; [congruence|reflexivity]. Qed.

Lemma last_app_ne (a b : ustr) d : b <> [] -> last (a ++ b) d = last b d.
Proof.
  intros NB. induction a as [|x a IH]; [reflexivity|].
  cbn [app]. destruct (a ++ b) eqn:E; [|cbn [last] in *; exact IH].
  apply app_eq_nil in E as [_ E]. congruence.
Qed.

Lemma last_no_slash c : memN cp_slash c = false -> c <> [] -> N.eqb (last c 0%N) cp_slash = false.
Proof.
  intros M NE. induction c as [|x c IH]; [congruence|].
  unfold memN in M. cbn [existsb] in M. apply orb_false_elim in M as [M1 M2].
  destruct c as [|y c]; [cbn [last]; now rewrite N.eqb_sym|]. apply IH; [exact M2|congruence].
Qed.

Lemma last_join comps : forallb plainb comps = true -> comps <> [] ->
  N.eqb (last (join [cp_slash] comps) 0%N) cp_slash = false.
Proof.
  intros H NE. induction comps as [|c cs IH]; [congruence|].
  cbn [forallb] in H. apply andb_true_iff in H as [Hc Hcs]. destruct (plainb_parts c Hc) as [A [B _]].
  destruct cs as [|c2 cs].
  - cbn [join]. apply last_no_slash; [exact B|]. intros ->. discriminate A.
  - change (join [cp_slash] (c :: c2 :: cs)) with (c ++ ([cp_slash] ++ join [cp_slash] (c2 :: cs))).
    rewrite last_app_ne by discriminate. cbn [app].
    assert (NJ : join [cp_slash] (c2 :: cs) <> []).
    { cbn [forallb] in Hcs. apply andb_true_iff in Hcs as [Hc2 _]. destruct (plainb_parts c2 Hc2) as [A2 _].
      destruct c2; [discriminate A2|]. destruct cs; discriminate. }
    rewrite last_cons_ne by exact NJ. apply IH; [exact Hcs|congruence].
Qed.

(* the clause "relative paths named in a configuration file are resolved relative to that file" *)
Theorem resolve_plain_relative dcomps pcomps :
  forallb plainb dcomps = true -> forallb plainb pcomps = true -> pcomps <> [] ->
  resolve (path_of true dcomps) (path_of false pcomps) = path_of true (dcomps ++ pcomps).
Proof.
  intros HD HP NE. unfold resolve.
  assert (HA : forallb plainb (dcomps ++ pcomps) = true) by (rewrite forallb_app; now rewrite HD, HP).
  assert (NA : dcomps ++ pcomps <> []) by (intros E; apply app_eq_nil in E as [_ E]; congruence).
  rewrite <- (normpath_plain_absolute _ HA NA). f_equal.
  assert (SW : starts_with_slash (join [cp_slash] pcomps) = false).
  { destruct pcomps as [|c cs] eqn:EP; [congruence|]. rewrite <- EP in *.
    destruct (plain_head pcomps c cs HP EP) as [x [r [-> X]]].
    destruct (join_head pcomps x r cs EP) as [rest ->]. exact X. }
  unfold path_join, path_of. cbn [app]. rewrite SW.
  destruct dcomps as [|d ds].
  - cbn [join app last]. now rewrite N.eqb_refl.
  - remember (d :: ds) as dc eqn:ED.
    assert (ND : dc <> []) by (subst; discriminate).
    assert (NJ : join [cp_slash] dc <> []).
    { destruct (plain_head dc d ds HD ED) as [y [q [-> _]]]. destruct (join_head dc y q ds ED) as [rest' ->]. discriminate. }
    rewrite last_cons_ne by exact NJ. rewrite last_join by assumption.
    rewrite join_app_ne by assumption. cbn [app]. reflexivity.
Qed.

(* an absolute path named in a configuration file is only normalised *)
Theorem resolve_absolute dir r : resolve dir (cp_slash :: r) = normpath (cp_slash :: r).
Proof. unfold resolve, path_join, starts_with_slash. now rewrite N.eqb_refl. Qed.

(* ---- the whole pipeline ---- *)
Definition builtin_default (d : ustr) (o : opt) : cval :=
  match ns_get d class_defaults with Some v => v | None => o_default o end.

Definition precedence_value (d : ustr) (o : opt) (datas : list ns) (occs : list occ) : cval :=
  match last_set d occs with
  | Some v => v
  | None => match last_file_value d datas with
            | Some v => v
            | None => builtin_default d o
            end
  end.

Lemma configure_inv c n :
  configure c = inl n ->
  exists datas np,
    Forall2 (fun df d => read_file (fst df) (snd df) = inl d) (present (c_home c) (c_files c)) datas /\
    parse_args (merged class_defaults datas) (c_argv c) = inl np /\ post (c_env_stage c) np = inl n.
Proof.
  unfold configure. intros H.
  destruct (load_configuration (c_home c) (c_files c)) as [defs|e] eqn:L; cbn [bind] in H; [|discriminate].
  destruct (parse_args defs (c_argv c)) as [np|e] eqn:P; cbn [bind] in H; [|discriminate].
  destruct (load_configuration_spec _ _ _ L) as [datas [F ->]]. now exists datas, np.
Qed.

Lemma parsed_value d o defs occs np datas :
  defs = merged class_defaults datas -> parse_args defs occs = inl np ->
  setlike d = true -> untyped d = true -> ustr_eqb d k_paths = false -> first_opt d cli_options = Some o ->
  ns_get d np = Some (precedence_value d o datas occs).
Proof.
  intros -> P SL UT NP FO. rewrite (parse_args_untyped _ _ _ d P SL UT NP). unfold precedence_value.
  destruct (last_set d occs); [reflexivity|]. rewrite init_ns_get, FO. f_equal.
  rewrite merged_get. unfold builtin_default. destruct (last_file_value d datas); [reflexivity|].
  now destruct (ns_get d class_defaults).
Qed.

(* single-valued, untyped options (all Booleans, color, the text options): command line, else file, else default *)
Theorem precedence_single_valued c n :
  configure c = inl n ->
  exists datas np,
    Forall2 (fun df d => read_file (fst df) (snd df) = inl d) (present (c_home c) (c_files c)) datas /\
    parse_args (merged class_defaults datas) (c_argv c) = inl np /\
    forall d o,
      setlike d = true -> untyped d = true -> first_opt d cli_options = Some o ->
      (mem_str d post_written = false \/ (modes_off np /\ mem_str d post_keys = false)) ->
      ns_val d n = precedence_value d o datas (c_argv c).
Proof.
  intros H. destruct (configure_inv c n H) as [datas [np [F [P Q]]]]. exists datas, np. split; [exact F|]. split; [exact P|].
  intros d o SL UT FO K.
  assert (NP : ustr_eqb d k_paths = false).
  { destruct K as [K|[_ K]]; unfold mem_str in K; cbn [existsb app post_written before_userdata_written post_keys] in K;
      now apply orb_false_elim in K as [K _]. }
  pose proof (parsed_value d o _ _ np datas eq_refl P SL UT NP FO) as PV.
  destruct K as [K|[M K]].
  - rewrite (post_frame _ _ _ d Q K). unfold ns_val. now rewrite PV.
  - unfold ns_val. rewrite (post_keeps_plain_options _ _ _ d Q M K). now rewrite PV.
Qed.

(* typed single-valued options (jobs, logging_level): a command-line value wins over everything *)
Theorem precedence_typed_cmdline c n d v :
  configure c = inl n -> setlike d = true -> mem_str d post_written = false ->
  last_set d (c_argv c) = Some v -> (forall s, v <> VStr s) -> ns_val d n = v.
Proof.
  intros H SL K L NS. destruct (configure_inv c n H) as [datas [np [F [P Q]]]].
  assert (NP : ustr_eqb d k_paths = false).
  { unfold mem_str in K; cbn [existsb app post_written before_userdata_written] in K; now apply orb_false_elim in K as [K _]. }
  rewrite (post_frame _ _ _ d Q K). unfold ns_val.
  now rewrite (parse_args_cmdline_value _ _ _ d v P SL NP L NS).
Qed.

(* ... and without one, the (already converted) file value or the built-in default stays *)
Theorem precedence_typed_file c n d o v :
  configure c = inl n -> setlike d = true -> mem_str d post_written = false -> first_opt d cli_options = Some o ->
  last_set d (c_argv c) = None ->
  exists datas,
    Forall2 (fun df d => read_file (fst df) (snd df) = inl d) (present (c_home c) (c_files c)) datas /\
    (v = match last_file_value d datas with Some v => v | None => builtin_default d o end ->
     (forall s, v <> VStr s) -> ns_val d n = v).
Proof.
  intros H SL K FO L. destruct (configure_inv c n H) as [datas [np [F [P Q]]]]. exists datas. split; [exact F|].
  intros EV NS.
  assert (NP : ustr_eqb d k_paths = false).
  { unfold mem_str in K; cbn [existsb app post_written before_userdata_written] in K; now apply orb_false_elim in K as [K _]. }
  rewrite (post_frame _ _ _ d Q K). unfold ns_val.
  rewrite (parse_args_typed_default _ _ _ d v P SL NP L); [reflexivity| |exact NS].
  rewrite init_ns_get, FO. f_equal. rewrite merged_get, EV. unfold builtin_default.
  destruct (last_file_value d datas); [reflexivity|]. now destruct (ns_get d class_defaults).
Qed.

(* append options: the merged file value first, then the command-line values in order *)
Theorem precedence_append c n d :
  configure c = inl n -> applike d = true -> mem_str d post_written = false ->
  exists datas,
    Forall2 (fun df d => read_file (fst df) (snd df) = inl d) (present (c_home c) (c_files c)) datas /\
    (listy (ns_val d (init_ns (merged class_defaults datas))) = true ->
     strs_of (ns_val d n) = strs_of (ns_val d (init_ns (merged class_defaults datas))) ++ appended d (c_argv c)).
Proof.
  intros H AL K. destruct (configure_inv c n H) as [datas [np [F [P Q]]]]. exists datas. split; [exact F|]. intros LY.
  assert (NP : ustr_eqb d k_paths = false).
  { unfold mem_str in K; cbn [existsb app post_written before_userdata_written] in K; now apply orb_false_elim in K as [K _]. }
  rewrite (post_frame _ _ _ d Q K). now apply parse_args_append.
Qed.

(* user data: the last -D define of a name, else the merged file user data *)
Theorem precedence_userdata c n name :
  configure c = inl n ->
  exists datas np,
    Forall2 (fun df d => read_file (fst df) (snd df) = inl d) (present (c_home c) (c_files c)) datas /\
    parse_args (merged class_defaults datas) (c_argv c) = inl np /\
    sdict_get name (defs_of (ns_val (u "userdata") n)) =
    match last_assign name (defs_of (ns_val (u "userdata_defines") np)) with
    | Some v => Some v
    | None => sdict_get name (defs_of (ns_val (u "userdata") np))
    end.
Proof.
  intros H. destruct (configure_inv c n H) as [datas [np [F [P Q]]]]. exists datas, np. split; [exact F|]. split; [exact P|].
  rewrite (post_userdata _ _ _ Q). cbn [defs_of]. apply sdict_update_get.
Qed.

(* -D options: the defines are the parsed arguments in command-line order *)
Definition deflike (d : ustr) : bool :=
  forallb (fun o => negb (ustr_eqb d (o_dest o)) ||
                    (action_eqb (o_action o) AAppend && match o_type o with TDefine => true | _ => false end)) cli_options.
Definition deflisty (v : cval) : bool := match v with VNone | VDefs _ => true | _ => false end.

Lemma apply_flag_defs d st f arg st' :
  apply_flag st f arg = inl st' -> deflike d = true -> deflisty (ns_val d (fst st)) = true ->
  deflisty (ns_val d (fst st')) = true /\
  defs_of (ns_val d (fst st')) = defs_of (ns_val d (fst st)) ++ map parse_user_define (appended d [OFlag f arg]).
Proof.
  destruct st as [n seen]. unfold apply_flag, appended. cbn [flat_map fst]. intros H AL LY.
  destruct (find_opt f) as [o|] eqn:F; [|discriminate].
  unfold deflike in AL. rewrite forallb_forall in AL. specialize (AL o (find_opt_in _ _ F)).
  destruct (ustr_eqb d (o_dest o)) eqn:E.
  - cbn [negb orb] in AL. apply andb_true_iff in AL as [A T].
    destruct (o_action o); try discriminate. destruct (o_type o); try discriminate.
    destruct arg as [a|]; [|discriminate]. cbn [conv] in H.
    apply ustr_eqb_eq in E. subst d.
    destruct (ns_val (o_dest o) n) eqn:V; try discriminate; cbn [append_val] in H; inversion H; cbn [fst];
      rewrite ns_val_set, ustr_eqb_refl; cbn [deflisty defs_of map app]; rewrite ?app_nil_r; auto.
  - assert (ns_val d (fst st') = ns_val d n) as ->.
    { destruct (o_action o).
      - destruct arg as [a|].
        + destruct (conv (o_type o) a); [|discriminate].
          destruct (o_choices o) as [|c1 cs]; [inversion H; cbn [fst]; now rewrite ns_val_set, E|].
          destruct (mem_str a (c1 :: cs)); [|discriminate]. inversion H. cbn [fst]. now rewrite ns_val_set, E.
        + destruct (o_optarg o); [|discriminate]. inversion H. cbn [fst]. now rewrite ns_val_set, E.
      - destruct arg; [discriminate|]. inversion H. cbn [fst]. now rewrite ns_val_set, E.
      - destruct arg; [discriminate|]. inversion H. cbn [fst]. now rewrite ns_val_set, E.
      - destruct arg; [discriminate|]. inversion H. cbn [fst]. now rewrite ns_val_set, E.
      - destruct arg as [a|]; [|discriminate]. destruct (conv (o_type o) a); [|discriminate].
        destruct (append_val _ _); [|discriminate]. inversion H. cbn [fst]. now rewrite ns_val_set, E. }
    split; [exact LY|]. destruct arg; cbn [map]; now rewrite app_nil_r.
Qed.

Lemma fold_apply_defs d occs st st' :
  fold_left apply_occ occs (inl st) = inl st' -> deflike d = true -> deflisty (ns_val d (fst st)) = true ->
  deflisty (ns_val d (fst st')) = true /\
  defs_of (ns_val d (fst st')) = defs_of (ns_val d (fst st)) ++ map parse_user_define (appended d occs).
Proof.
  intros H AL. revert st H. induction occs as [|oc occs IH]; intros st H LY; cbn [fold_left] in H.
  - inversion H. subst st'. split; [exact LY|]. cbn. now rewrite app_nil_r.
  - unfold apply_occ at 2 in H. cbn [bind] in H. destruct oc as [f arg|p].
    + destruct (apply_flag st f arg) as [st1|e] eqn:A; [|rewrite fold_apply_err in H; discriminate].
      destruct (apply_flag_defs d _ _ _ _ A AL LY) as [LY1 S1].
      destruct (IH _ H LY1) as [LY2 S2]. split; [exact LY2|].
      rewrite S2, S1. rewrite <- app_assoc. f_equal. rewrite <- map_app. f_equal.
      unfold appended. cbn [flat_map]. now rewrite app_nil_r.
    + unfold ok in H. destruct (IH _ H LY) as [LY2 S2]. split; [exact LY2|]. exact S2.
Qed.

Lemma deflike_untyped d : deflike d = true -> untyped d = true.
Proof.
  unfold deflike, untyped. intros H. rewrite forallb_forall in *. intros o Hin. specialize (H o Hin).
  destruct (ustr_eqb d (o_dest o)); [|reflexivity]. cbn [negb orb] in *. apply andb_true_iff in H as [_ T].
  now destruct (o_type o).
Qed.

Theorem parse_args_defines defs occs n d :
  parse_args defs occs = inl n -> deflike d = true -> ustr_eqb d k_paths = false ->
  ns_val d (init_ns defs) = VNone ->
  defs_of (ns_val d n) = map parse_user_define (appended d occs).
Proof.
  intros H AL NP I0. destruct (parse_args_inv _ _ _ H) as [n0 [seen [n1 [F [P C]]]]].
  assert (ns_val d n = ns_val d n0) as ->.
  { unfold ns_val. rewrite (fold_convert_untyped seen d cli_options n1 n (untyped_opts d (deflike_untyped d AL)) C).
    now rewrite (P d NP). }
  destruct (fold_apply_defs d occs _ _ F AL) as [_ S]; [cbn [fst]; now rewrite I0|].
  cbn [fst] in S. rewrite S, I0. reflexivity.
Qed.

(* file user data is whatever the last file read delivers (dest `userdata` has no command-line action) *)
Theorem parse_args_keeps_file_userdata defs occs n :
  parse_args defs occs = inl n -> first_opt (u "userdata") cli_options = None ->
  setlike (u "userdata") = true -> untyped (u "userdata") = true ->
  last_set (u "userdata") occs = None ->
  ns_get (u "userdata") n = ns_get (u "userdata") defs.
Proof.
  intros H FO SL UT LS. rewrite (parse_args_untyped _ _ _ _ H SL UT eq_refl). rewrite LS.
  now rewrite init_ns_get, FO.
Qed.

Lemma no_option_no_set d occs : first_opt d cli_options = None -> last_set d occs = None.
Proof.
  intros FO. induction occs as [|oc occs IH]; [reflexivity|]. rewrite last_set_cons, IH.
  destruct oc as [f arg|p]; [|reflexivity]. cbn [sets]. destruct (find_opt f) as [o|] eqn:F; [|reflexivity].
  destruct (ustr_eqb d (o_dest o)) eqn:E; [|reflexivity]. exfalso.
  unfold first_opt in FO. pose proof (find_none _ _ FO o (find_opt_in _ _ F)) as X. cbv beta in X. congruence.
Qed.
