(* RunnerCleanup.v — C13, runner side: a raising cleanup makes the owning scenario end in status
   error and count as failed (the run then fails by C01's verdict theorem). *)
From BV Require Import Base Status Rollup Runner RunnerSteps RunnerQuiet RunnerHooks.
From BVGen Require Import StatusTable.

Definition is_raising_cleanup (e : event) : bool := match e with ECleanup _ true => true | _ => false end.

Lemma no_raising_cleanup_when_no_cleanup ev :
  forallb (fun e => match e with ECleanup _ _ => false | _ => true end) ev = true -> existsb is_raising_cleanup ev = false.
Proof. induction ev as [|e r IH]; cbn; [reflexivity|]. destruct e; cbn; try discriminate; auto. Qed.

Lemma run_hook_no_cleanup cfg st h k st' r ev :
  run_hook cfg st h k = (st', r, ev) -> existsb is_raising_cleanup ev = false.
Proof.
  unfold run_hook. destruct (c_dry cfg || negb (c_hooks cfg h)); [intros E; inversion E; reflexivity|].
  destruct (c_faults cfg h k), (c_aborts cfg h k); intros E; inversion E; reflexivity.
Qed.

Lemma existsb_app' {A} (f : A -> bool) a b : existsb f (a ++ b) = existsb f a || existsb f b.
Proof. apply existsb_app. Qed.

Lemma run_tag_hooks_no_cleanup cfg h tags : forall st st' r ev,
  run_tag_hooks cfg st h tags = (st', r, ev) -> existsb is_raising_cleanup ev = false.
Proof.
  induction tags as [|t tl0 IH]; intros st st' r ev; cbn [run_tag_hooks].
  - intros E; inversion E; reflexivity.
  - destruct (run_hook cfg st h t) as [[st1 b1] e1] eqn:E1. apply run_hook_no_cleanup in E1.
    destruct (run_tag_hooks cfg st1 h tl0) as [[st2 b2] e2] eqn:E2. apply IH in E2.
    intros E; inversion E; subst. now rewrite existsb_app', E1, E2.
Qed.

Lemma run_step_no_cleanup cfg st wip scid s st' status skip ev :
  run_step cfg st wip scid s = (st', status, skip, ev) -> existsb is_raising_cleanup ev = false.
Proof.
  unfold run_step.
  assert (D : forall k, run_defined_step cfg st wip scid k (st_id s) = (st', status, skip, ev) -> existsb is_raising_cleanup ev = false).
  { intros k. unfold run_defined_step.
    destruct (run_hook cfg st HBeforeStep (st_id s)) as [[st1 rb] eb] eqn:E1. apply run_hook_no_cleanup in E1.
    destruct rb.
    - destruct (run_hook cfg st1 HAfterStep (st_id s)) as [[st3 ra] ea] eqn:E3. apply run_hook_no_cleanup in E3.
      intros E; inversion E; subst. cbn [existsb is_raising_cleanup orb]. now rewrite !existsb_app', E1, E3.
    - match goal with |- context [run_hook cfg ?S HAfterStep (st_id s)] =>
        destruct (run_hook cfg S HAfterStep (st_id s)) as [[st3 ra] ea] eqn:E3 end.
      apply run_hook_no_cleanup in E3.
      intros E; inversion E; subst. cbn [existsb is_raising_cleanup orb]. rewrite !existsb_app', E1. cbn [existsb is_raising_cleanup orb].
      rewrite existsb_app', E3. reflexivity. }
  destruct (st_kind s); try apply D.
  intros E; inversion E; reflexivity.
Qed.

Lemma steps_loop_no_cleanup cfg wip dry scid steps : forall st l st' l' sts ev,
  steps_loop cfg st wip dry scid l steps = (st', l', sts, ev) -> existsb is_raising_cleanup ev = false.
Proof.
  induction steps as [|s r IH]; intros st l st' l' sts ev; cbn [steps_loop].
  - intros E; inversion E; reflexivity.
  - destruct (l_run_steps l).
    + destruct (run_step cfg st wip scid s) as [[[st1 status] skip] ev1] eqn:E1. apply run_step_no_cleanup in E1.
      match goal with |- context [steps_loop cfg st1 wip dry scid ?l1 r] =>
        destruct (steps_loop cfg st1 wip dry scid l1 r) as [[[st2 l2] sts2] ev2] eqn:E2 end.
      apply IH in E2. intros E; inversion E; subst. now rewrite existsb_app', E1, E2.
    + destruct (l_failed l || dry).
      * match goal with |- context [let '(status, ev) := ?X in _] => destruct X as [status0 ev0] eqn:E0 end.
        destruct (steps_loop cfg st wip dry scid l r) as [[[st2 l2] sts2] ev2] eqn:E2.
        apply IH in E2. intros E; inversion E; subst. rewrite existsb_app', E2, orb_false_r.
        destruct (st_kind s), dry; inversion E0; subst; reflexivity.
      * destruct (steps_loop cfg st wip dry scid l r) as [[[st2 l2] sts2] ev2] eqn:E2.
        apply IH in E2. intros E; inversion E; subst. exact E2.
Qed.

Lemma cleanup_events_raise fr : existsb is_raising_cleanup (cleanup_events fr) = cleanups_raise fr.
Proof.
  unfold cleanup_events, cleanups_raise.
  assert (G : forall l, existsb is_raising_cleanup (map (fun c => ECleanup (fst c) (snd c)) l) = existsb snd l).
  { induction l as [|c l IH]; cbn; [reflexivity|]. destruct c as [i b]; cbn. destruct b; cbn; auto. }
  rewrite G. induction fr as [|c fr IH]; cbn; [reflexivity|]. rewrite existsb_app', IH. cbn. rewrite orb_false_r. apply orb_comm.
Qed.

(* a cleanup of the scenario's own scope raised <-> the scenario ends "error" through the cleanup
   branch; in that case it counts as failed whatever its steps did *)
Theorem raising_cleanup_fails_its_scenario cfg st id all_steps oe eff own st' res fld ev :
  run_scenario cfg st id all_steps oe eff own = (st', res, fld, ev) ->
  existsb is_raising_cleanup ev = true ->
  sr_status res = Some error /\ fld = true.
Proof.
  unfold run_scenario. cbv zeta.
  set (hc := negb (c_dry cfg) && sel cfg eff).
  assert (F1 : forall st1 hf e, (if hc then
        let '(sa, b1, e1) := run_tag_hooks cfg (push st) HBeforeTag own in
        let '(sb, b2, e2) := run_hook cfg sa HBeforeScenario id in (sb, b1 || b2, e1 ++ e2)
      else (push st, false, [])) = (st1, hf, e) -> existsb is_raising_cleanup e = false).
  { intros st1 hf e. destruct hc.
    - destruct (run_tag_hooks cfg (push st) HBeforeTag own) as [[sa b1] e1] eqn:E1. apply run_tag_hooks_no_cleanup in E1.
      destruct (run_hook cfg sa HBeforeScenario id) as [[sb b2] e2] eqn:E2. apply run_hook_no_cleanup in E2.
      intros E; inversion E; subst. now rewrite existsb_app', E1, E2.
    - intros E; inversion E; reflexivity. }
  match goal with |- context [if hc then ?A else ?B] => destruct (if hc then A else B) as [[st1 hf] evb] end.
  specialize (F1 _ _ _ eq_refl).
  match goal with |- context [scenario_steps ?a ?b ?c0 ?d ?e ?f ?g ?h] =>
    destruct (scenario_steps a b c0 d e f g h) as [[[st2 l2] statuses] ev_steps] eqn:E2 end.
  assert (F2 : existsb is_raising_cleanup ev_steps = false).
  { unfold scenario_steps in E2. match type of E2 with (if ?b then _ else _) = _ => destruct b end.
    - inversion E2; reflexivity.
    - eapply steps_loop_no_cleanup; eauto. }
  assert (F3 : forall st3 hf2 e, (if hc then
        let '(sa, b1, e1) := run_hook cfg st2 HAfterScenario id in
        let '(sb, b2, e2) := run_tag_hooks cfg sa HAfterTag own in (sb, hf || b1 || b2, e1 ++ e2)
      else (st2, hf, [])) = (st3, hf2, e) -> existsb is_raising_cleanup e = false).
  { intros st3 hf2 e. destruct hc.
    - destruct (run_hook cfg st2 HAfterScenario id) as [[sa b1] e1] eqn:E1. apply run_hook_no_cleanup in E1.
      destruct (run_tag_hooks cfg sa HAfterTag own) as [[sb b2] e2] eqn:E3. apply run_tag_hooks_no_cleanup in E3.
      intros E; inversion E; subst. now rewrite existsb_app', E1, E3.
    - intros E; inversion E; reflexivity. }
  match goal with |- context [if hc then ?A else ?B] => destruct (if hc then A else B) as [[st3 hf2] eva] end.
  specialize (F3 _ _ _ eq_refl).
  unfold pop. destruct (stack st3) as [|fr rest].
  - intros E; inversion E; subst; clear E.
    assert (A : existsb is_raising_cleanup (if sel cfg eff || c_show_skipped cfg
        then EFmt (FScenario id) :: map (fun s => EFmt (FStepAnn (st_id s))) all_steps else []) = false).
    { destruct (sel cfg eff || c_show_skipped cfg); [|reflexivity]. cbn. clear. induction all_steps; cbn; auto. }
    rewrite !existsb_app', F1, A, F2, F3. cbn. discriminate.
  - intros E; inversion E; subst; clear E.
    assert (A : existsb is_raising_cleanup (if sel cfg eff || c_show_skipped cfg
        then EFmt (FScenario id) :: map (fun s => EFmt (FStepAnn (st_id s))) all_steps else []) = false).
    { destruct (sel cfg eff || c_show_skipped cfg); [|reflexivity]. cbn. clear. induction all_steps; cbn; auto. }
    rewrite !existsb_app', F1, A, F2, F3, cleanup_events_raise. cbn [orb]. intros CR. rewrite CR.
    cbn [sr_status]. split; [reflexivity|]. now rewrite orb_true_r.
Qed.
