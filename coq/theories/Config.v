(* Config.v - behave/configuration.py: reading the "behave" section of ini and toml configuration files
   (read_configparser, read_toml_config, format_outfiles_coupling), merging them into the defaults
   (load_configuration), argparse's set_defaults/parse_args over the generated action table, and the
   post-processing of Configuration.__init__.  Model only.

   Not modelled (trusted): the ini / TOML file syntax (configparser, tomllib: the model starts from the key/value
   pairs they deliver), argparse's tokenisation of argv (the model starts from option occurrences), the
   tag-expression and regular-expression compilers, os.path.dirname/expanduser. *)
From BV Require Import Base UStr ConfigTypes UserData.
From BVGen Require Import ConfigTables.

(* ---- dict with insertion order ---- *)
Definition ns := list (ustr * cval).
Fixpoint ns_get (k : ustr) (m : ns) : option cval :=
  match m with [] => None | (k', v) :: r => if ustr_eqb k k' then Some v else ns_get k r end.
Fixpoint ns_set (k : ustr) (v : cval) (m : ns) : ns :=
  match m with
  | [] => [(k, v)]
  | (k', v') :: r => if ustr_eqb k k' then (k, v) :: r else (k', v') :: ns_set k v r
  end.
Definition ns_has (k : ustr) (m : ns) : bool := match ns_get k m with Some _ => true | None => false end.
Definition ns_update (m upd : ns) : ns := fold_left (fun acc kv => ns_set (fst kv) (snd kv) acc) upd m.
Definition ns_val (k : ustr) (m : ns) : cval := match ns_get k m with Some v => v | None => VNone end.
Definition ns_truthy (k : ustr) (m : ns) : bool := truthy (ns_val k m).

Fixpoint sdict_set (k v : ustr) (m : list (ustr * ustr)) : list (ustr * ustr) :=
  match m with
  | [] => [(k, v)]
  | (k', v') :: r => if ustr_eqb k k' then (k, v) :: r else (k', v') :: sdict_set k v r
  end.
Definition sdict_update (m upd : list (ustr * ustr)) : list (ustr * ustr) :=
  fold_left (fun acc kv => sdict_set (fst kv) (snd kv) acc) upd m.
Fixpoint sdict_get (k : ustr) (m : list (ustr * ustr)) : option ustr :=
  match m with [] => None | (k', v) :: r => if ustr_eqb k k' then Some v else sdict_get k r end.

Inductive err := EExit | EValue | EArgType | EParamType | EIndex | EOther.
Definition res (A : Type) : Type := sum A err.
Definition ok {A} (a : A) : res A := inl a.
Definition bind {A B} (r : res A) (f : A -> res B) : res B := match r with inl a => f a | inr e => inr e end.

(* ---- converters (the `type=` callables) ---- *)
Fixpoint assoc_z (k : ustr) (l : list (ustr * Z)) : option Z :=
  match l with [] => None | (a, z) :: r => if ustr_eqb a k then Some z else assoc_z k r end.
Fixpoint index_of (k : ustr) (l : list ustr) (i : nat) : option nat :=
  match l with [] => None | a :: r => if ustr_eqb a k then Some i else index_of k r (S i) end.

Definition proto_from_name (s : ustr) : option nat :=
  let n := upper_ascii s in
  match index_of n proto_names 0 with
  | Some i => Some i
  | None => if ustr_eqb n (u "STRICT") then Some proto_strict else None
  end.

Definition conv (t : vtype) (s : ustr) : option cval :=
  match t with
  | TNone => Some (VStr s)
  | TPosInt => match py_int s with Some z => if Z.ltb z 0 then None else Some (VInt z) | None => None end
  | TLogLevel => match assoc_z (upper_ascii s) level_names with Some z => Some (VInt z) | None => None end
  | TProto => match proto_from_name s with Some n => Some (VProto n) | None => None end
  | TDefine => Some (VDefs [parse_user_define s])
  end.

(* the exception a failing converter raises when it is called by read_configparser *)
Definition conv_err (t : vtype) : err := match t with TLogLevel => EArgType | _ => EValue end.

(* ---- paths ---- *)
Definition cp_slash : N := 47%N.
Definition starts_with_slash (b : ustr) : bool := match b with c :: _ => N.eqb c cp_slash | [] => false end.
Definition path_join (a b : ustr) : ustr :=
  if starts_with_slash b then b
  else match a with
       | [] => b
       | _ => if N.eqb (last a 0%N) cp_slash then a ++ b else a ++ [cp_slash] ++ b
       end.

Definition dotdot : ustr := [46%N; 46%N].
Fixpoint norm_comps (initial : bool) (comps : list ustr) (acc : list ustr) : list ustr :=   (* acc reversed *)
  match comps with
  | [] => rev acc
  | c :: r =>
      if ustr_eqb c [] || ustr_eqb c [46%N] then norm_comps initial r acc
      else if negb (ustr_eqb c dotdot) then norm_comps initial r (c :: acc)
      else match acc with
           | [] => if initial then norm_comps initial r acc else norm_comps initial r (c :: acc)
           | top :: rest => if ustr_eqb top dotdot then norm_comps initial r (c :: acc)
                            else norm_comps initial r rest
           end
  end.

Definition leading_slashes (p : ustr) : nat :=
  match p with
  | 47%N :: 47%N :: 47%N :: _ => 1
  | 47%N :: 47%N :: _ => 2
  | 47%N :: _ => 1
  | _ => 0
  end.

Definition normpath_nonempty (p : ustr) : ustr :=
  let slashes := leading_slashes p in
  let body := join [cp_slash] (norm_comps (negb (Nat.eqb slashes 0)) (split_on cp_slash p) []) in
  let r := repeat cp_slash slashes ++ body in
  match r with [] => [46%N] | _ => r end.

Definition normpath (p : ustr) : ustr := match p with [] => [46%N] | _ => normpath_nonempty p end.

Definition resolve (dir : ustr) (p : ustr) : ustr := normpath (path_join dir p).

(* ---- reading one configuration file ---- *)
Inductive tval := TvBool (b : bool) | TvInt (z : Z) | TvStr (s : ustr) | TvArr (l : list ustr).

Inductive filedata :=
| FIni (behave : list (ustr * ustr)) (userdata runners : option (list (ustr * ustr)))
| FToml (has_tool : bool) (behave : list (ustr * tval)) (userdata runners : option (list (ustr * tval))).

Fixpoint kv_get {A} (k : ustr) (m : list (ustr * A)) : option A :=
  match m with [] => None | (k', v) :: r => if ustr_eqb k k' then Some v else kv_get k r end.

Definition param_name (dest : ustr) : ustr := if ustr_eqb dest (u "tags") then u "config_tags" else dest.

Definition ini_bool (s : ustr) : option bool :=
  let l := lower_ascii s in
  if mem_str l ini_true then Some true else if mem_str l ini_false then Some false else None.

(* str.splitlines() restricted to "\n" (the only line break configparser leaves in a value) *)
Definition split_lines (s : ustr) : list ustr :=
  match s with [] => [] | _ =>
    let parts := split_on 10%N s in
    match rev parts with [] :: r => rev r | _ => parts end
  end.

Definition read_ini_option (sect : list (ustr * ustr)) (acc : res ns) (o : ustr * action * vtype) : res ns :=
  bind acc (fun d =>
    let '(dest, act, ty) := o in
    match kv_get dest sect with
    | None => ok d
    | Some raw =>
        match act with
        | AStore => match conv ty raw with Some v => ok (ns_set (param_name dest) v d) | None => inr (conv_err ty) end
        | AStoreTrue => match ini_bool raw with Some b => ok (ns_set (param_name dest) (VBool b) d) | None => inr EValue end
        | AAppend => ok (ns_set (param_name dest) (VStrs (map strip (split_lines raw))) d)
        | _ => ok d
        end
    end).

(* str(value) / bool(value) of a TOML value *)
Definition tval_str (v : tval) : option ustr :=
  match v with
  | TvBool b => Some (if b then u "True" else u "False")
  | TvInt z => Some (z_to_str z)
  | TvStr s => Some s
  | TvArr _ => None
  end.
Definition tval_truthy (v : tval) : bool :=
  match v with
  | TvBool b => b | TvInt z => negb (Z.eqb z 0) | TvStr s => negb (ustr_eqb s [])
  | TvArr l => match l with [] => false | _ => true end
  end.

Definition read_toml_option (sect : list (ustr * tval)) (acc : res ns) (o : ustr * action * vtype) : res ns :=
  bind acc (fun d =>
    let '(dest, act, ty) := o in
    match kv_get dest sect with
    | None => ok d
    | Some raw =>
        match act with
        | AStore => match tval_str raw with Some s => ok (ns_set (param_name dest) (VStr s) d) | None => inr EOther end
        | AStoreTrue => ok (ns_set (param_name dest) (VBool (tval_truthy raw)) d)
        | AAppend => match raw with TvArr l => ok (ns_set (param_name dest) (VStrs l) d) | _ => inr EParamType end
        | _ => ok d
        end
    end).

Definition k_format := u "format".
Definition k_outfiles := u "outfiles".
Definition k_paths := u "paths".

Definition resolve_key (dir : ustr) (k : ustr) (d : ns) : ns :=
  match ns_get k d with
  | Some (VStrs l) => ns_set k (VStrs (map (resolve dir) l)) d
  | _ => d
  end.

Definition coupling (dir : ustr) (d : ns) : ns :=
  let d1 :=
    match ns_get k_format d with
    | Some (VStrs fs) =>
        let outs := match ns_get k_outfiles d with Some (VStrs o) => o | _ => [] end in
        if Nat.ltb (length outs) (length fs)
        then ns_set k_outfiles (VStrs (outs ++ map (fun f => f ++ u ".output") (skipn (length outs) fs))) d
        else if Nat.ltb (length fs) (length outs) then ns_set k_outfiles (VStrs (firstn (length fs) outs)) d
        else d
    | _ => d
    end in
  resolve_key dir k_outfiles (resolve_key dir k_paths d1).

Definition sect_or_empty {A} (o : option (list (ustr * A))) : list (ustr * A) := match o with Some l => l | None => [] end.

(* items of a section as a str->str dict (later duplicates cannot occur: the libraries reject them) *)
Definition tsect_strs (l : list (ustr * tval)) : list (ustr * ustr) :=
  map (fun kv => (fst kv, match tval_str (snd kv) with Some s => s | None => [] end)) l.

Definition read_file (dir : ustr) (f : filedata) : res ns :=
  match f with
  | FIni behave ud runners =>
      bind (fold_left (read_ini_option behave) file_options (ok [])) (fun d =>
        let d := coupling dir d in
        let d := ns_set (u "more_runners") (VDefs (sect_or_empty runners)) d in
        ok (ns_set (u "userdata") (VDefs (sect_or_empty ud)) d))
  | FToml has_tool behave ud runners =>
      if negb has_tool then ok []
      else
      bind (fold_left (read_toml_option behave) file_options (ok [])) (fun d =>
        let d := coupling dir d in
        let d := ns_set (u "more_runners") (VDefs (tsect_strs (sect_or_empty runners))) d in
        ok (ns_set (u "userdata") (VDefs (tsect_strs (sect_or_empty ud))) d))
  end.

(* ---- load_configuration: files in the generated search order, each updating the defaults ---- *)
Definition file_key_eqb (a b : bool * ustr) : bool := Bool.eqb (fst a) (fst b) && ustr_eqb (snd a) (snd b).
Fixpoint find_file (k : bool * ustr) (files : list (bool * ustr * filedata)) : option filedata :=
  match files with
  | [] => None
  | (h, n, f) :: r => if file_key_eqb k (h, n) then Some f else find_file k r
  end.

Definition load_step (home : ustr) (files : list (bool * ustr * filedata)) (acc : res ns) (slot : bool * ustr * fkind) : res ns :=
  bind acc (fun defs =>
    let '(in_home, name, kind) := slot in
    match find_file (in_home, name) files with
    | None => ok defs
    | Some f =>
        match kind with
        | KNone => ok defs
        | _ => bind (read_file (if in_home then home else [46%N]) f) (fun d => ok (ns_update defs d))
        end
    end).

Definition load_configuration (home : ustr) (files : list (bool * ustr * filedata)) : res ns :=
  fold_left (load_step home files) file_order (ok class_defaults).

(* ---- argparse: set_defaults + parse_args over option occurrences ---- *)
Inductive occ := OFlag (flag : ustr) (arg : option ustr) | OPos (p : ustr).

Definition has_flag (f : ustr) (o : opt) : bool := mem_str f (o_flags o).
Definition find_opt (f : ustr) : option opt := find (has_flag f) cli_options.

Definition eff_default (defs : ns) (o : opt) : cval :=
  match ns_get (o_dest o) defs with Some v => v | None => o_default o end.

Definition init_ns (defs : ns) : ns :=
  let n1 := fold_left (fun acc o => if ns_has (o_dest o) acc then acc
                                    else ns_set (o_dest o) (eff_default defs o) acc) cli_options [] in
  fold_left (fun acc kv => if ns_has (fst kv) acc then acc else ns_set (fst kv) (snd kv) acc) defs n1.

Definition append_val (cur x : cval) : option cval :=
  match cur, x with
  | VNone, VStr s => Some (VStrs [s])
  | VStrs l, VStr s => Some (VStrs (l ++ [s]))
  | VNone, VDefs p => Some (VDefs p)
  | VDefs l, VDefs p => Some (VDefs (l ++ p))
  | _, _ => None
  end.

Definition is_positional (o : opt) : bool := match o_flags o with [] => true | _ => false end.

Definition opt_key (o : opt) : ustr := o_dest o ++ [0%N] ++ concat (o_flags o).

(* state: namespace and the keys of the actions already seen *)
Definition pstate : Type := ns * list ustr.

Definition apply_flag (st : pstate) (f : ustr) (arg : option ustr) : res pstate :=
  let '(n, seen) := st in
  match find_opt f with
  | None => inr EExit
  | Some o =>
      let seen' := opt_key o :: seen in
      match o_action o with
      | AStore =>
          match arg with
          | Some a =>
              match conv (o_type o) a with
              | None => inr EExit
              | Some v =>
                  match o_choices o with
                  | [] => ok (ns_set (o_dest o) v n, seen')
                  | ch => if mem_str a ch then ok (ns_set (o_dest o) v n, seen') else inr EExit
                  end
              end
          | None => if o_optarg o then ok (ns_set (o_dest o) (o_const o) n, seen') else inr EExit
          end
      | AStoreTrue | AStoreFalse | AStoreConst =>
          match arg with
          | Some _ => inr EExit
          | None => ok (ns_set (o_dest o) (o_const o) n, seen')
          end
      | AAppend =>
          match arg with
          | None => inr EExit
          | Some a =>
              match conv (o_type o) a with
              | None => inr EExit
              | Some v => match append_val (ns_val (o_dest o) n) v with
                          | Some l => ok (ns_set (o_dest o) l n, seen')
                          | None => inr EOther
                          end
              end
          end
      end
  end.

Definition positionals (occs : list occ) : list ustr :=
  flat_map (fun o => match o with OPos p => [p] | _ => [] end) occs.

Definition apply_occ (acc : res pstate) (o : occ) : res pstate :=
  bind acc (fun st => match o with OFlag f a => apply_flag st f a | OPos _ => ok st end).

(* string defaults of actions that were not seen go through the action's type *)
Definition convert_default (seen : list ustr) (acc : res ns) (o : opt) : res ns :=
  bind acc (fun n =>
    if mem_str (opt_key o) seen || is_positional o then ok n
    else match o_type o, ns_val (o_dest o) n with
         | TNone, _ => ok n
         | TDefine, _ => ok n
         | t, VStr s => match conv t s with Some v => ok (ns_set (o_dest o) v n) | None => inr EExit end
         | _, _ => ok n
         end).

Definition parse_args (defs : ns) (occs : list occ) : res ns :=
  bind (fold_left apply_occ occs (ok (init_ns defs, []))) (fun st =>
    let '(n, seen) := st in
    let n := match positionals occs with
             | [] => match ns_val k_paths n with VNone => ns_set k_paths (VStrs []) n | _ => n end
             | ps => ns_set k_paths (VStrs ps) n
             end in
    fold_left (convert_default seen) cli_options (ok n)).

(* ---- Configuration.__init__ after parse_args ---- *)
Definition strs_of (v : cval) : list ustr := match v with VStrs l => l | VStr s => [s] | _ => [] end.
Definition stdout_mark : ustr := u "<stdout>".

Definition set_bool (k : String.string) (b : bool) (n : ns) : ns := ns_set (u k) (VBool b) n.
Arguments set_bool k%str b n.

Definition steps_catalog_mode (n : ns) : ns :=
  let n := ns_set (u "default_format") (VStr (u "steps.catalog")) n in
  let n := ns_set k_format (VStrs (strs_of (ns_val k_format n) ++ [u "steps.catalog"])) n in
  set_bool "quiet" true (set_bool "show_skipped" false (set_bool "summary" false (set_bool "dry_run" true n))).

Definition wip_mode (n : ns) : ns :=
  let n := ns_set (u "default_format") (VStr (u "plain")) n in
  let n := ns_set (u "color") (VStr color_off) n in
  let n := set_bool "stdout_capture" false (set_bool "log_capture" false (set_bool "stop" true n)) in
  ns_set (u "tags") (VStrs ((if ns_truthy (u "tags") n then strs_of (ns_val (u "tags") n) else []) ++ [u "@wip"])) n.

Definition quiet_mode (n : ns) : ns := set_bool "show_snippets" false (set_bool "show_source" false n).

Definition first_truthy (vs : list cval) (dflt : cval) : cval :=
  match find truthy vs with Some v => v | None => dflt end.

Definition tags_stage (n : ns) : res ns :=
  let config_tags := first_truthy [ns_val (u "config_tags") n; ns_val (u "default_tags") n] (VStr []) in
  let tags := first_truthy [ns_val (u "tags") n] config_tags in
  match (match ns_val (u "tag_expression_protocol") n with
         | VProto p => Some p
         | VStr s => proto_from_name s
         | _ => None
         end) with
  | None => inr EValue
  | Some p => ok (ns_set (u "protocol_in_use") (VProto p) (ns_set (u "tags") tags n))
  end.

Definition filters_stage (n : ns) : ns :=
  if ns_truthy (u "name") n
  then ns_set (u "name_re") (VStr (join [124%N] (strs_of (ns_val (u "name") n)))) n
  else ns_set (u "name_re") VNone n.

Definition stage_stage (env_stage : option ustr) (n : ns) : ns :=
  let stage := match ns_val (u "stage") n with
               | VNone => match env_stage with Some s => VStr s | None => VNone end
               | v => v
               end in
  let prefix := match stage with VStr s => (match s with [] => [] | _ => s ++ [95%N] end) | _ => [] end in
  let n := ns_set (u "stage") stage n in
  let n := ns_set (u "steps_dir") (VStr (prefix ++ u "steps")) n in
  ns_set (u "environment_file") (VStr (prefix ++ u "environment.py")) n.

Definition defs_of (v : cval) : list (ustr * ustr) := match v with VDefs l => l | _ => [] end.

Definition userdata_stage (n : ns) : ns :=
  ns_set (u "userdata") (VDefs (sdict_update (defs_of (ns_val (u "userdata") n))
                                             (defs_of (ns_val (u "userdata_defines") n)))) n.

Definition runners_stage (n : ns) : ns :=
  ns_set (u "runner_aliases")
         (VDefs (sdict_update [(u "default", default_runner)] (defs_of (ns_val (u "more_runners") n)))) n.

Definition reporters_stage (n : ns) : ns :=
  let n := if ns_truthy (u "junit") n
           then set_bool "log_capture" true (set_bool "stderr_capture" true (set_bool "stdout_capture" true n))
           else n in
  ns_set (u "reporters")
         (VStrs ((if ns_truthy (u "junit") n then [u "junit"] else []) ++
                 (if ns_truthy (u "summary") n then [u "summary"] else []))) n.

Definition outputs_stage (n : ns) : ns :=
  let outs := strs_of (ns_val k_outfiles n) in
  ns_set (u "outputs")
         (VStrs (match outs with
                 | [] => [stdout_mark]
                 | _ => map (fun o => if ustr_eqb o [] || ustr_eqb o [45%N] then stdout_mark else o) outs
                 end)) n.

Definition bad_format (f : ustr) : bool := negb (ustr_eqb f (u "help") || mem_str f valid_formats).

Definition post (env_stage : option ustr) (n : ns) : res ns :=
  let n := ns_set k_paths (VStrs (map normpath (strs_of (ns_val k_paths n)))) n in
  let n := outputs_stage n in
  let n := if ns_truthy (u "steps_catalog") n then steps_catalog_mode n else n in
  let n := if ns_truthy (u "wip") n then wip_mode n else n in
  let n := if ns_truthy (u "quiet") n then quiet_mode n else n in
  bind (tags_stage n) (fun n =>
    let n := filters_stage n in
    let n := stage_stage env_stage n in
    let n := userdata_stage n in
    let n := runners_stage n in
    let n := reporters_stage n in
    if existsb bad_format (strs_of (ns_val k_format n)) then inr EExit else ok n).

Record cfg_case := mkCase {
  c_home : ustr; c_files : list (bool * ustr * filedata); c_env_stage : option ustr; c_argv : list occ }.

Definition configure (c : cfg_case) : res ns :=
  bind (load_configuration (c_home c) (c_files c)) (fun defs =>
    bind (parse_args defs (c_argv c)) (post (c_env_stage c))).

(* comparison used by the correspondence check: every attribute the implementation reports has the model's value *)
Definition err_eqb (a b : err) : bool :=
  match a, b with
  | EExit, EExit | EValue, EValue | EArgType, EArgType | EParamType, EParamType | EIndex, EIndex | EOther, EOther => true
  | _, _ => false
  end.
Definition result_agrees (model : res ns) (expected : res ns) : bool :=
  match model, expected with
  | inl m, inl e => forallb (fun kv => cval_eqb (ns_val (fst kv) m) (snd kv)) e
  | inr a, inr b => err_eqb a b
  | _, _ => false
  end.

(* diagnostic: the attributes on which model and implementation differ, with the model's values *)
Definition disagreeing (model expected : res ns) : res (list (ustr * cval)) :=
  match model, expected with
  | inl m, inl e => inl (filter (fun kv => negb (cval_eqb (snd kv) (ns_val (fst kv) (e)))) (map (fun kv => (fst kv, ns_val (fst kv) m)) e))
  | inr a, _ => inr a
  | inl m, inr _ => inl []
  end.
