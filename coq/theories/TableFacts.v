(* TableFacts.v — facts the property statements name, decided on the tables that are generated from the
   source on every run.  A generated table follows the code; without such a statement a change of the
   code would only change the table (seeded change C20k was absorbed that way).  Each fact is the
   documented value, written down here by hand once. *)
From Coq Require Import String Ascii.
From BV Require Import Base Status.
From BVGen Require Import StatusTable ActiveTagTables JUnitTables OutlineTables ConfigTables.

Definition u (s : string) : list N := List.map (fun a => N_of_ascii a) (list_ascii_of_string s).

(* the documented words, spelled once *)
Definition doc_prefixes : list (list N) := List.map u ["use"; "not"; "active"; "not_active"; "only"]%string.
Definition doc_separator : list N := u "=".
Definition doc_true_words : list (list N) := List.map u ["on"; "true"; "yes"]%string.
Definition doc_false_words : list (list N) := List.map u ["false"; "no"; "off"]%string.
Definition doc_annotation_schema : list N := u "{name} -- @{row.id} {examples.name}".
Definition doc_tag_chars : list N := u "._-=:,;()".
Definition doc_ini_true : list (list N) := List.map u ["1"; "yes"; "true"; "on"]%string.
Definition doc_ini_false : list (list N) := List.map u ["0"; "no"; "false"; "off"]%string.
Definition doc_auto_detect : list N := u "AUTO_DETECT".
Definition doc_v2 : list N := u "V2".

(* C19: use / not / active / not_active / only, '=' separates category and value, unknown categories are ignored *)
Lemma active_tag_schema_is_the_documented_one :
  at_prefixes = doc_prefixes /\
  at_negated = [false; true; false; true; false] /\ at_separator = doc_separator /\ at_ignore_unknown = true.
Proof. vm_compute. repeat split; reflexivity. Qed.

Lemma boolean_words_are_the_documented_ones :
  bool_true_strings = doc_true_words /\ bool_false_strings = doc_false_words.
Proof. vm_compute. split; reflexivity. Qed.

(* C16: which final step statuses make a test case an error, a failure, skipped *)
Lemma junit_status_classes_are_the_documented_ones :
  junit_error_step_statuses = [error; hook_error; pending; undefined] /\
  junit_failed_step_statuses = [failed] /\ junit_skipped_statuses = [skipped; untested].
Proof. vm_compute. repeat split; reflexivity. Qed.

(* C06: the default name schema of generated scenarios and the characters kept in rendered tags *)
Lemma outline_defaults_are_the_documented_ones :
  default_annotation_schema = doc_annotation_schema /\ tag_allowed_chars = doc_tag_chars.
Proof. vm_compute. split; reflexivity. Qed.

(* C20: the words configparser reads as Booleans, the protocol used when nothing is said *)
Lemma configuration_words_are_the_documented_ones :
  ini_true = doc_ini_true /\ ini_false = doc_ini_false /\
  nth_error proto_names proto_default = Some doc_auto_detect /\ nth_error proto_names proto_strict = Some doc_v2.
Proof. vm_compute. repeat split; reflexivity. Qed.
