(* RerunMore.v — C17: the rerun list is in run order (a subsequence of the scenario ids of the
   run, in the order in which the scenarios were walked). *)
From BV Require Import Base Status Rollup Runner RunnerSteps Summary Select SelectProofs Rerun.
From BVGen Require Import StatusTable.

Lemma subseq_refl l : subseq l l.
Proof. induction l as [|x r IH]; cbn; auto. Qed.

Lemma subseq_filter_map {A} (f : A -> nat) (p : A -> bool) l :
  subseq (map f (filter p l)) (map f l).
Proof.
  induction l as [|x r IH]; cbn; [exact I|].
  destruct (p x); cbn [map].
  - cbn. left. auto.
  - apply subseq_skip. exact IH.
Qed.

Theorem rerun_list_is_in_run_order rs : subseq (rerun_ids rs) (map sr_id (scen_results rs)).
Proof. unfold rerun_ids. apply subseq_filter_map. Qed.

(* with distinct scenario ids nothing is listed twice *)
Theorem rerun_list_has_no_duplicates rs :
  NoDup (map sr_id (scen_results rs)) -> NoDup (rerun_ids rs).
Proof.
  unfold rerun_ids. generalize (scen_results rs). intros l.
  induction l as [|x r IH]; cbn; intros H; [constructor|].
  inversion H as [|a b Hn Hr]; subst.
  destruct (match sr_status x with Some s => has_failed s | None => false end); [|auto].
  cbn. constructor; [|auto]. intros Hin. apply Hn.
  apply in_map_iff in Hin as (y & Hy & Hin). apply filter_In in Hin as [Hin _].
  apply in_map_iff. exists y. auto.
Qed.
