(* RunnerVerdict.v — C01: the verdict of run_model is true iff the trace contains a bad event.
   Per run function three facts:
     F1  returned flag = true      -> a local or global bad event is in its own segment
     F2  a local bad event in segment -> returned flag = true
     F3  aborted' = aborted || an aborting event is in the segment            *)
From Coq Require Import Btauto.
From BV Require Import Base Status Rollup Runner.
From BVGen Require Import StatusTable.

(* ------------------------------------------------------------------ event classes *)
Definition step_call_fails (k : skind) (wip : bool) : bool :=
  match k with
  | KFail | KError | KKbd => true
  | KPending => negb wip
  | _ => false
  end.

(* local bad events: they always set the failed flag of the enclosing run *)
Definition lbad (e : event) : bool :=
  match e with
  | EStep k _ _ wip => step_call_fails k wip
  | ECleanup _ r => r
  | _ => false
  end.

(* globally counted bad events: runner.hook_failures / runner.undefined_steps *)
Definition gbad (e : event) : bool :=
  match e with
  | EHook _ _ r => r
  | EUndef _ => true
  | _ => false
  end.

(* events that abort the run *)
Definition abort_ev (e : event) : bool :=
  match e with
  | EStep k _ _ _ => step_aborts k
  | EHook h _ r => r && is_all_hook h
  | EAbort _ _ => true
  | _ => false
  end.

(* "something went wrong" (property C01) *)
Definition bad (e : event) : bool := lbad e || gbad e || abort_ev e.

Definition anyb (p : event -> bool) (l : list event) : bool := existsb p l.

Lemma anyb_app p a b : anyb p (a ++ b) = anyb p a || anyb p b.
Proof. apply existsb_app. Qed.

Lemma anyb_cons p e l : anyb p (e :: l) = p e || anyb p l.
Proof. reflexivity. Qed.

Lemma anyb_nil p : anyb p [] = false.
Proof. reflexivity. Qed.

Lemma bad_split l : anyb bad l = anyb lbad l || anyb gbad l || anyb abort_ev l.
Proof.
  unfold anyb in *. induction l as [|e l IH]; [reflexivity|]. cbn [existsb]. rewrite IH. unfold bad.
  destruct (lbad e), (gbad e), (abort_ev e), (existsb lbad l), (existsb gbad l), (existsb abort_ev l); reflexivity.
Qed.

Ltac bsimp :=
  repeat (rewrite ?anyb_app, ?anyb_cons, ?anyb_nil, ?orb_false_r, ?orb_false_l, ?orb_true_r,
          ?orb_true_l, ?andb_false_r, ?andb_true_r, ?andb_false_l, ?andb_true_l in * ).

(* ------------------------------------------------------------------ hooks *)
(* the hook is called and calls context.abort() *)
Definition hook_aborts (cfg : config) (h : hookname) (k : nat) : bool :=
  negb (c_dry cfg) && c_hooks cfg h && c_aborts cfg h k.

Lemma run_hook_spec cfg st h k st' r ev :
  run_hook cfg st h k = (st', r, ev) ->
  anyb gbad ev = r /\ anyb lbad ev = false /\
  anyb abort_ev ev = r && is_all_hook h || hook_aborts cfg h k /\
  aborted st' = aborted st || (r && is_all_hook h || hook_aborts cfg h k).
Proof.
  unfold run_hook, hook_aborts. destruct (c_dry cfg) eqn:Hd; cbn [orb negb andb].
  - intros E; inversion E; subst. cbn. rewrite orb_false_r. auto.
  - destruct (c_hooks cfg h) eqn:Hh; cbn [negb andb].
    + destruct (c_faults cfg h k), (c_aborts cfg h k); intros E; inversion E; subst; cbn;
        rewrite ?orb_false_r, ?orb_true_r; unfold add_cleanups; destruct (stack st); cbn;
        rewrite ?orb_false_r, ?orb_true_r; auto.
    + intros E; inversion E; subst. cbn. rewrite orb_false_r. auto.
Qed.

Fixpoint tags_abort (cfg : config) (h : hookname) (tags : list nat) : bool :=
  match tags with [] => false | t :: r => hook_aborts cfg h t || tags_abort cfg h r end.

Lemma run_tag_hooks_spec cfg h (Hh : is_all_hook h = false) tags : forall st st' r ev,
  run_tag_hooks cfg st h tags = (st', r, ev) ->
  anyb gbad ev = r /\ anyb lbad ev = false /\ anyb abort_ev ev = tags_abort cfg h tags /\
  aborted st' = aborted st || tags_abort cfg h tags.
Proof.
  induction tags as [|t tags IH]; intros st st' r ev; cbn [run_tag_hooks tags_abort].
  - intros E; inversion E; subst. cbn. rewrite orb_false_r. auto.
  - destruct (run_hook cfg st h t) as [[st1 b1] e1] eqn:E1.
    destruct (run_tag_hooks cfg st1 h tags) as [[st2 b2] e2] eqn:E2.
    intros E; inversion E; subst.
    apply run_hook_spec in E1 as (A1 & A2 & A3 & A4). apply IH in E2 as (B1 & B2 & B3 & B4).
    rewrite Hh in *. bsimp. rewrite A1, A2, A3, B1, B2, B3, B4, A4. bsimp. rewrite orb_assoc. auto.
Qed.

(* ------------------------------------------------------------------ Step.run *)
Lemma step_outcome_failed wip k :
  k <> KUndefined -> has_failed (step_outcome wip k) = step_call_fails k wip.
Proof. destruct k, wip; intros H; try congruence; vm_compute; reflexivity. Qed.

Lemma aborted_add_cleanups st cs : aborted (add_cleanups st cs) = aborted st.
Proof. unfold add_cleanups. destruct (stack st); reflexivity. Qed.

Lemma run_defined_step_spec cfg st wip scid k id st' status skip ev :
  k <> KUndefined ->
  run_defined_step cfg st wip scid k id = (st', status, skip, ev) ->
  (has_failed status = true -> anyb lbad ev || anyb gbad ev = true) /\
  (anyb lbad ev = true -> has_failed status = true) /\
  aborted st' = aborted st || anyb abort_ev ev.
Proof.
  intros Hk. unfold run_defined_step.
  destruct (run_hook cfg st HBeforeStep id) as [[st1 rb] eb] eqn:E1.
  apply run_hook_spec in E1 as (A1 & A2 & A3 & A4). cbn [is_all_hook] in *. bsimp.
  destruct rb.
  - destruct (run_hook cfg st1 HAfterStep id) as [[st3 ra] ea] eqn:E3.
    apply run_hook_spec in E3 as (B1 & B2 & B3 & B4). cbn [is_all_hook] in *. bsimp.
    intros E; inversion E; subst; clear E. bsimp. cbn [lbad gbad abort_ev]. bsimp.
    rewrite A1, A2, A3, B2, B3, B4, A4. bsimp. repeat split; auto; try btauto.
  - match goal with |- context [run_hook ?c ?stx HAfterStep id] =>
      destruct (run_hook c stx HAfterStep id) as [[st3 ra] ea] eqn:E3 end.
    apply run_hook_spec in E3 as (B1 & B2 & B3 & B4). cbn [is_all_hook] in *. bsimp.
    destruct ra; intros E; inversion E; subst; clear E; bsimp; cbn [lbad gbad abort_ev]; bsimp;
    rewrite A1, A2, A3, B1, B2, B3, B4; cbn [aborted set_aborted]; rewrite aborted_add_cleanups, A4; bsimp;
    rewrite <- (step_outcome_failed wip k Hk).
    + repeat split; auto; try btauto.
    + repeat split; auto; try btauto.
Qed.

Lemma run_step_spec cfg st wip scid s st' status skip ev :
  run_step cfg st wip scid s = (st', status, skip, ev) ->
  (has_failed status = true -> anyb lbad ev || anyb gbad ev = true) /\
  (anyb lbad ev = true -> has_failed status = true) /\
  aborted st' = aborted st || anyb abort_ev ev.
Proof.
  unfold run_step. destruct (st_kind s) eqn:K;
    try (apply run_defined_step_spec; discriminate).
  intros E; inversion E; subst; cbn. rewrite ?orb_false_r. repeat split; auto.
Qed.

(* ------------------------------------------------------------------ the step loop *)
Lemma steps_loop_spec cfg wip dry scid steps : forall st l st' l' sts ev,
  steps_loop cfg st wip dry scid l steps = (st', l', sts, ev) ->
  (l_failed l' = true -> l_failed l = true \/ anyb lbad ev || anyb gbad ev = true) /\
  (anyb lbad ev = true -> l_failed l' = true) /\
  (l_failed l = true -> l_failed l' = true) /\
  aborted st' = aborted st || anyb abort_ev ev.
Proof.
  induction steps as [|s r IH]; intros st l st' l' sts ev; cbn [steps_loop].
  - intros E; inversion E; subst. cbn. rewrite orb_false_r. repeat split; auto; discriminate.
  - destruct (l_run_steps l).
    + destruct (run_step cfg st wip scid s) as [[[st1 status] skip] ev1] eqn:E1.
      apply run_step_spec in E1 as (A1 & A2 & A3).
      match goal with |- context [steps_loop cfg st1 wip dry scid ?l1 r] =>
        destruct (steps_loop cfg st1 wip dry scid l1 r) as [[[st2 l2] sts2] ev2] eqn:E2 end.
      apply IH in E2 as (B1 & B2 & B3 & B4).
      intros E; inversion E; subst; clear E. bsimp.
      destruct (has_failed status) eqn:Hf; cbn [l_failed] in *.
      * specialize (A1 eq_refl). repeat split; auto.
        -- intros _. right. apply orb_true_iff in A1 as [A1|A1]; rewrite A1; bsimp; reflexivity.
        -- rewrite B4, A3. now rewrite orb_assoc.
      * repeat split.
        -- intros H. destruct (B1 H) as [H1|H1]; [now left|right].
           apply orb_true_iff in H1 as [H1|H1]; rewrite H1; bsimp; reflexivity.
        -- intros H. apply orb_true_iff in H as [H|H]; [specialize (A2 H); discriminate|auto].
        -- auto.
        -- rewrite B4, A3. now rewrite orb_assoc.
    + destruct (l_failed l || dry).
      * match goal with |- context [let '(status, ev) := ?X in _] => destruct X as [status0 ev0] eqn:E0 end.
        destruct (steps_loop cfg st wip dry scid l r) as [[[st2 l2] sts2] ev2] eqn:E2.
        apply IH in E2 as (B1 & B2 & B3 & B4).
        intros E; inversion E; subst; clear E. bsimp.
        assert (H0 : anyb lbad ev0 = false /\ anyb abort_ev ev0 = false).
        { destruct (st_kind s), dry; inversion E0; subst; cbn; auto. }
        destruct H0 as [H0 H0']. rewrite H0, H0'. bsimp. repeat split; auto.
        intros H. destruct (B1 H) as [H1|H1]; [now left|right].
        apply orb_true_iff in H1 as [H1|H1]; rewrite H1; bsimp; reflexivity.
      * destruct (steps_loop cfg st wip dry scid l r) as [[[st2 l2] sts2] ev2] eqn:E2.
        apply IH in E2 as (B1 & B2 & B3 & B4).
        intros E; inversion E; subst; clear E. repeat split; auto.
Qed.

(* ------------------------------------------------------------------ pop / cleanups *)
Lemma existsb_rev' {A} (p : A -> bool) l : existsb p (rev l) = existsb p l.
Proof.
  induction l as [|x l IH]; [reflexivity|]. cbn. rewrite existsb_app, IH. cbn.
  rewrite orb_false_r. apply orb_comm.
Qed.

Lemma existsb_map' {A B} (f : A -> B) (p : B -> bool) l : existsb p (map f l) = existsb (fun x => p (f x)) l.
Proof. induction l as [|x l IH]; [reflexivity|]. cbn. now rewrite IH. Qed.

Lemma cleanup_events_spec fr :
  anyb lbad (cleanup_events fr) = cleanups_raise fr /\
  anyb gbad (cleanup_events fr) = false /\ anyb abort_ev (cleanup_events fr) = false.
Proof.
  unfold cleanup_events, cleanups_raise, anyb. rewrite !existsb_map', !existsb_rev'. cbn.
  repeat split; induction fr as [|x l IH]; cbn; auto.
Qed.

Lemma pop_spec st st' cr ev :
  pop st = (st', cr, ev) ->
  anyb lbad ev = cr /\ anyb gbad ev = false /\ anyb abort_ev ev = false /\ aborted st' = aborted st.
Proof.
  unfold pop. destruct (stack st) as [|fr rest].
  - intros E; inversion E; subst. cbn. auto.
  - intros E; inversion E; subst. destruct (cleanup_events_spec fr) as (A & B & C). cbn. auto.
Qed.

Definition is_fmt (e : event) : bool := match e with EFmt _ => true | _ => false end.

Lemma fmt_no_bad l :
  forallb is_fmt l = true ->
  anyb lbad l = false /\ anyb gbad l = false /\ anyb abort_ev l = false.
Proof.
  induction l as [|e l IH]; cbn; [auto|]. intros H. apply andb_true_iff in H as [He Hl].
  destruct (IH Hl) as (A & B & C). unfold anyb in *. rewrite A, B, C.
  destruct e; try discriminate. cbn. auto.
Qed.

Lemma scen_ann_fmt (b : bool) id (steps : list step) :
  forallb is_fmt (if b then EFmt (FScenario id) :: map (fun s => EFmt (FStepAnn (st_id s))) steps else []) = true.
Proof. destruct b; cbn; [|reflexivity]. induction steps; cbn; auto. Qed.

(* ------------------------------------------------------------------ Scenario.run *)
Lemma run_scenario_spec cfg st id all_steps oe eff own st' res fld ev :
  run_scenario cfg st id all_steps oe eff own = (st', res, fld, ev) ->
  (fld = true -> anyb lbad ev || anyb gbad ev = true) /\
  (anyb lbad ev = true -> fld = true) /\
  aborted st' = aborted st || anyb abort_ev ev.
Proof.
  unfold run_scenario.
  set (hc := negb (c_dry cfg) && sel cfg eff).
  destruct hc eqn:Hhc.
  - destruct (run_tag_hooks cfg (push st) HBeforeTag own) as [[sa b1] e1] eqn:E1.
    apply run_tag_hooks_spec in E1 as (A1 & A2 & A3 & A4); [|reflexivity].
    destruct (run_hook cfg sa HBeforeScenario id) as [[sb b2] e2] eqn:E2.
    apply run_hook_spec in E2 as (B1 & B2 & B3 & B4). cbn [is_all_hook] in *. bsimp.
    match goal with |- context [scenario_steps ?a ?b ?c ?d ?e ?f ?g ?h] =>
      destruct (scenario_steps a b c d e f g h) as [[[st2 l2] statuses] ev_steps] eqn:E3 end.
    unfold scenario_steps in E3.
    destruct (run_hook cfg st2 HAfterScenario id) as [[sc b3] e3] eqn:E4.
    apply run_hook_spec in E4 as (C1 & C2 & C3 & C4). cbn [is_all_hook] in *. bsimp.
    destruct (run_tag_hooks cfg sc HAfterTag own) as [[sd b4] e4] eqn:E5.
    apply run_tag_hooks_spec in E5 as (D1 & D2 & D3 & D4); [|reflexivity].
    destruct (pop sd) as [[st4 cr] ev_pop] eqn:E6.
    apply pop_spec in E6 as (P1 & P2 & P3 & P4).
    intros E; inversion E; subst; clear E. bsimp.
    assert (S3 : (l_failed l2 = true -> (anyb gbad e1 || anyb gbad e2) = true \/ anyb lbad ev_steps || anyb gbad ev_steps = true) /\
                 (anyb lbad ev_steps = true -> l_failed l2 = true) /\
                 aborted st2 = aborted sb || anyb abort_ev ev_steps).
    { destruct (anyb gbad e1 || anyb gbad e2 || aborted sb) eqn:Hsk.
      - inversion E3; subst. cbn. rewrite orb_false_r. repeat split; auto. discriminate.
      - apply steps_loop_spec in E3 as (S1 & S2 & S3 & S4). cbn [l_failed] in *. repeat split; auto. }
    destruct S3 as (S1 & S2 & S4).
    destruct (fmt_no_bad _ (scen_ann_fmt (sel cfg eff || c_show_skipped cfg) id all_steps)) as (N1 & N2 & N3).
    rewrite N1, N2, N3, A2, A3, B2, B3, C2, C3, D2, D3, P2, P3, P4, D4, C4, S4, B4, A4. bsimp.
    cbn [aborted push].
    repeat split.
    + intros H. apply orb_true_iff in H as [H|H]; [apply orb_true_iff in H as [H|H]|].
      * destruct (S1 H) as [H1|H1].
        -- apply orb_true_iff in H1 as [H1|H1]; rewrite H1; bsimp; reflexivity.
        -- apply orb_true_iff in H1 as [H1|H1]; rewrite H1; bsimp; reflexivity.
      * repeat (apply orb_true_iff in H as [H|H]); rewrite H; bsimp; reflexivity.
      * rewrite H. bsimp. reflexivity.
    + intros H. repeat (apply orb_true_iff in H as [H|H]); try discriminate.
      * rewrite (S2 H). reflexivity.
      * rewrite H. bsimp. reflexivity.
    + btauto.
  - match goal with |- context [scenario_steps ?a ?b ?c ?d ?e ?f ?g ?h] =>
      destruct (scenario_steps a b c d e f g h) as [[[st2 l2] statuses] ev_steps] eqn:E3 end.
    unfold scenario_steps in E3.
    destruct (pop st2) as [[st4 cr] ev_pop] eqn:E6.
    apply pop_spec in E6 as (P1 & P2 & P3 & P4).
    intros E; inversion E; subst; clear E. bsimp.
    assert (S3 : (l_failed l2 = true -> anyb lbad ev_steps || anyb gbad ev_steps = true) /\
                 (anyb lbad ev_steps = true -> l_failed l2 = true) /\
                 aborted st2 = aborted st || anyb abort_ev ev_steps).
    { destruct (aborted st) eqn:Hsk.
      - inversion E3; subst. cbn. repeat split; auto; discriminate.
      - apply steps_loop_spec in E3 as (S1 & S2 & S3 & S4). cbn [l_failed aborted push] in *.
        repeat split; auto. intros H. destruct (S1 H); [discriminate|assumption]. now rewrite S4, Hsk. }
    destruct S3 as (S1 & S2 & S4).
    destruct (fmt_no_bad _ (scen_ann_fmt (sel cfg eff || c_show_skipped cfg) id all_steps)) as (N1 & N2 & N3).
    rewrite N1, N2, N3, P2, P3, P4, S4. bsimp.
    repeat split.
    + intros H. apply orb_true_iff in H as [H|H].
      * specialize (S1 H). apply orb_true_iff in S1 as [H1|H1]; rewrite H1; bsimp; reflexivity.
      * rewrite H. bsimp. reflexivity.
    + intros H. apply orb_true_iff in H as [H|H]; [rewrite (S2 H)|rewrite H]; bsimp; reflexivity.
Qed.

(* ------------------------------------------------------------------ segments compose *)
Definition seg_ok (st st' : rstate) (fld : bool) (ev : list event) : Prop :=
  (fld = true -> anyb lbad ev || anyb gbad ev = true) /\
  (anyb lbad ev = true -> fld = true) /\
  aborted st' = aborted st || anyb abort_ev ev.

Lemma seg_ok_nil st : seg_ok st st false [].
Proof. unfold seg_ok. cbn. rewrite orb_false_r. repeat split; auto. Qed.

Lemma seg_ok_app st st1 st2 f1 f2 e1 e2 :
  seg_ok st st1 f1 e1 -> seg_ok st1 st2 f2 e2 -> seg_ok st st2 (f1 || f2) (e1 ++ e2).
Proof.
  intros (A1 & A2 & A3) (B1 & B2 & B3). unfold seg_ok. bsimp. repeat split.
  - intros H. apply orb_true_iff in H as [H|H].
    + specialize (A1 H). apply orb_true_iff in A1 as [X|X]; rewrite X; bsimp; reflexivity.
    + specialize (B1 H). apply orb_true_iff in B1 as [X|X]; rewrite X; bsimp; reflexivity.
  - intros H. apply orb_true_iff in H as [H|H]; [rewrite (A2 H)|rewrite (B2 H)]; bsimp; reflexivity.
  - rewrite B3, A3. now rewrite orb_assoc.
Qed.

Lemma seg_ok_flag st st' f f' ev : f = f' -> seg_ok st st' f ev -> seg_ok st st' f' ev.
Proof. now intros ->. Qed.

Lemma seg_ok_fmt st ev : forallb is_fmt ev = true -> seg_ok st st false ev.
Proof.
  intros H. destruct (fmt_no_bad _ H) as (A & B & C). unfold seg_ok. rewrite A, B, C.
  rewrite !orb_false_r. repeat split; auto.
Qed.

Lemma seg_ok_hook cfg st h k st' r ev :
  is_all_hook h = false -> run_hook cfg st h k = (st', r, ev) -> seg_ok st st' r ev.
Proof.
  intros Hh E. apply run_hook_spec in E as (A & B & C & D). rewrite Hh in *. bsimp.
  unfold seg_ok. rewrite A, B, C, D. bsimp. repeat split; auto. discriminate.
Qed.

Lemma seg_ok_tag_hooks cfg st h tags st' r ev :
  is_all_hook h = false -> run_tag_hooks cfg st h tags = (st', r, ev) -> seg_ok st st' r ev.
Proof.
  intros Hh E. apply run_tag_hooks_spec in E as (A & B & C & D); [|assumption].
  unfold seg_ok. rewrite A, B, C, D. bsimp. repeat split; auto. discriminate.
Qed.

Lemma seg_ok_pop st st' cr ev : pop st = (st', cr, ev) -> seg_ok st st' cr ev.
Proof.
  intros E. apply pop_spec in E as (A & B & C & D). unfold seg_ok. rewrite A, B, C, D. bsimp.
  repeat split; auto.
Qed.

Lemma seg_ok_push st st' f ev : seg_ok (push st) st' f ev -> seg_ok st st' f ev.
Proof. unfold seg_ok. cbn [aborted push]. auto. Qed.

Lemma seg_ok_scenario cfg st id all_steps oe eff own st' res fld ev :
  run_scenario cfg st id all_steps oe eff own = (st', res, fld, ev) -> seg_ok st st' fld ev.
Proof. apply run_scenario_spec. Qed.

(* ------------------------------------------------------------------ rows / outline / items *)
Lemma run_rows_ok cfg all_steps oe anc rows : forall st stopped st' rs fld ev,
  run_rows cfg st all_steps oe anc rows stopped = (st', rs, fld, ev) -> seg_ok st st' fld ev.
Proof.
  induction rows as [|rw r IH]; intros st stopped st' rs fld ev; cbn [run_rows].
  - intros E; inversion E; subst. apply seg_ok_nil.
  - destruct stopped.
    + destruct (run_rows cfg st all_steps oe anc r true) as [[[st2 rs2] f2] ev2] eqn:E2.
      intros E; inversion E; subst. eapply IH; eauto.
    + destruct (run_scenario cfg st (rw_id rw) all_steps oe (rw_tags rw ++ anc) (rw_tags rw))
        as [[[st1 res] f1] ev1] eqn:E1.
      match goal with |- context [run_rows cfg st1 all_steps oe anc r ?b] =>
        destruct (run_rows cfg st1 all_steps oe anc r b) as [[[st2 rs2] f2] ev2] eqn:E2 end.
      intros E; inversion E; subst.
      eapply seg_ok_app; [eapply seg_ok_scenario; eauto | eapply IH; eauto].
Qed.

Lemma run_outline_ok cfg st o bg anc st' res fld ev :
  run_outline cfg st o bg anc = (st', res, fld, ev) -> seg_ok st st' fld ev.
Proof.
  unfold run_outline.
  match goal with |- context [run_rows ?a ?b ?c ?d ?e ?f ?g] =>
    destruct (run_rows a b c d e f g) as [[[st1 rs] f1] ev1] eqn:E1 end.
  intros E; inversion E; subst. eapply run_rows_ok; eauto.
Qed.

Lemma run_sitem_ok cfg st bg anc it st' res fld ev :
  run_sitem cfg st bg anc it = (st', res, fld, ev) -> seg_ok st st' fld ev.
Proof.
  destruct it as [s|o]; cbn [run_sitem].
  - match goal with |- context [run_scenario ?a ?b ?c ?d ?e ?f ?g] =>
      destruct (run_scenario a b c d e f g) as [[[st1 r1] f1] ev1] eqn:E1 end.
    intros E; inversion E; subst. eapply seg_ok_scenario; eauto.
  - apply run_outline_ok.
Qed.

Lemma run_sitems_ok cfg bg anc items : forall st stopped st' rs fld ev,
  run_sitems cfg st bg anc items stopped = (st', rs, fld, ev) -> seg_ok st st' fld ev.
Proof.
  induction items as [|it r IH]; intros st stopped st' rs fld ev; cbn [run_sitems].
  - intros E; inversion E; subst. apply seg_ok_nil.
  - destruct stopped.
    + destruct (run_sitems cfg st bg anc r true) as [[[st2 rs2] f2] ev2] eqn:E2.
      intros E; inversion E; subst. eapply IH; eauto.
    + destruct (run_sitem cfg st bg anc it) as [[[st1 res] f1] ev1] eqn:E1.
      match goal with |- context [run_sitems cfg st1 bg anc r ?b] =>
        destruct (run_sitems cfg st1 bg anc r b) as [[[st2 rs2] f2] ev2] eqn:E2 end.
      intros E; inversion E; subst.
      eapply seg_ok_app; [eapply run_sitem_ok; eauto | eapply IH; eauto].
Qed.

(* ------------------------------------------------------------------ Rule.run / Feature.run *)
Lemma rule_ann_fmt (b hb : bool) id (l : list nat) :
  forallb is_fmt (if b then EFmt (FRuleEv id) :: (if hb then [EFmt (FBackground l)] else []) else []) = true.
Proof. destruct b, hb; reflexivity. Qed.

Lemma feature_ann_fmt (b hb : bool) id (l : list nat) :
  forallb is_fmt (if b then EFmt (FFeature id) :: (if hb then [EFmt (FBackground l)] else []) else []) = true.
Proof. destruct b, hb; reflexivity. Qed.

Lemma run_rule_ok cfg st r anc inh fhb st' res fld ev :
  run_rule cfg st r anc inh fhb = (st', res, fld, ev) -> seg_ok st st' fld ev.
Proof.
  unfold run_rule.
  set (hc := negb (c_dry cfg) && rule_runs cfg anc r).
  destruct hc eqn:Hhc.
  - destruct (run_tag_hooks cfg (push st) HBeforeTag (r_tags r)) as [[sa b1] e1] eqn:E1.
    apply seg_ok_tag_hooks in E1; [|reflexivity].
    destruct (run_hook cfg sa HBeforeRule (r_id r)) as [[sb b2] e2] eqn:E2.
    apply seg_ok_hook in E2; [|reflexivity].
    match goal with |- context [run_sitems ?a ?b ?c ?d ?e ?f] =>
      destruct (run_sitems a b c d e f) as [[[st2 rs] itf] evi] eqn:E3 end.
    apply run_sitems_ok in E3.
    destruct (run_hook cfg st2 HAfterRule (r_id r)) as [[sc b3] e3] eqn:E4.
    apply seg_ok_hook in E4; [|reflexivity].
    destruct (run_tag_hooks cfg sc HAfterTag (r_tags r)) as [[sd b4] e4] eqn:E5.
    apply seg_ok_tag_hooks in E5; [|reflexivity].
    destruct (pop sd) as [[st4 cr] evp] eqn:E6. apply seg_ok_pop in E6.
    intros E; inversion E; subst; clear E.
    apply seg_ok_push.
    eapply seg_ok_flag; [|
      eapply seg_ok_app; [eapply seg_ok_app; [exact E1|exact E2]|
      eapply seg_ok_app; [eapply seg_ok_fmt; apply rule_ann_fmt|
      eapply seg_ok_app; [exact E3|
      eapply seg_ok_app; [eapply seg_ok_app; [exact E4|exact E5]|exact E6]]]]].
    destruct b1, b2, itf, b3, b4, cr; reflexivity.
  - match goal with |- context [run_sitems ?a ?b ?c ?d ?e ?f] =>
      destruct (run_sitems a b c d e f) as [[[st2 rs] itf] evi] eqn:E3 end.
    apply run_sitems_ok in E3.
    destruct (pop st2) as [[st4 cr] evp] eqn:E6. apply seg_ok_pop in E6.
    intros E; inversion E; subst; clear E.
    apply seg_ok_push.
    eapply seg_ok_flag; [|
      eapply seg_ok_app; [eapply seg_ok_fmt; apply rule_ann_fmt|
      eapply seg_ok_app; [exact E3|exact E6]]].
    destruct itf, cr; reflexivity.
Qed.

Lemma run_fitem_ok cfg st bg hb anc it st' res fld ev :
  run_fitem cfg st bg hb anc it = (st', res, fld, ev) -> seg_ok st st' fld ev.
Proof.
  destruct it as [i|r]; cbn [run_fitem].
  - destruct (run_sitem cfg st bg anc i) as [[[st1 r1] f1] ev1] eqn:E1.
    intros E; inversion E; subst. eapply run_sitem_ok; eauto.
  - destruct (run_rule cfg st r anc bg hb) as [[[st1 r1] f1] ev1] eqn:E1.
    intros E; inversion E; subst. eapply run_rule_ok; eauto.
Qed.

Lemma run_fitems_ok cfg bg hb anc items : forall st stopped st' rs fld ev,
  run_fitems cfg st bg hb anc items stopped = (st', rs, fld, ev) -> seg_ok st st' fld ev.
Proof.
  induction items as [|it r IH]; intros st stopped st' rs fld ev; cbn [run_fitems].
  - intros E; inversion E; subst. apply seg_ok_nil.
  - destruct stopped.
    + destruct (run_fitems cfg st bg hb anc r true) as [[[st2 rs2] f2] ev2] eqn:E2.
      intros E; inversion E; subst. eapply IH; eauto.
    + destruct (run_fitem cfg st bg hb anc it) as [[[st1 res] f1] ev1] eqn:E1.
      match goal with |- context [run_fitems cfg st1 bg hb anc r ?b] =>
        destruct (run_fitems cfg st1 bg hb anc r b) as [[[st2 rs2] f2] ev2] eqn:E2 end.
      intros E; inversion E; subst.
      eapply seg_ok_app; [eapply run_fitem_ok; eauto | eapply IH; eauto].
Qed.

Lemma eof_fmt (b : bool) : forallb is_fmt (if b then [EFmt FEof] else []) = true.
Proof. destruct b; reflexivity. Qed.

Lemma run_feature_ok cfg st f st' res fld ev :
  run_feature cfg st f = (st', res, fld, ev) -> seg_ok st st' fld ev.
Proof.
  unfold run_feature.
  set (hc := negb (c_dry cfg) && feature_should_run cfg f).
  destruct hc eqn:Hhc.
  - destruct (run_tag_hooks cfg (push st) HBeforeTag (f_tags f)) as [[sa b1] e1] eqn:E1.
    apply seg_ok_tag_hooks in E1; [|reflexivity].
    destruct (run_hook cfg sa HBeforeFeature (f_id f)) as [[sb b2] e2] eqn:E2.
    apply seg_ok_hook in E2; [|reflexivity].
    match goal with |- context [run_fitems ?a ?b ?c ?d ?e ?f ?g] =>
      destruct (run_fitems a b c d e f g) as [[[st2 rs] itf] evi] eqn:E3 end.
    apply run_fitems_ok in E3.
    destruct (run_hook cfg st2 HAfterFeature (f_id f)) as [[sc b3] e3] eqn:E4.
    apply seg_ok_hook in E4; [|reflexivity].
    destruct (run_tag_hooks cfg sc HAfterTag (f_tags f)) as [[sd b4] e4] eqn:E5.
    apply seg_ok_tag_hooks in E5; [|reflexivity].
    destruct (pop sd) as [[st4 cr] evp] eqn:E6. apply seg_ok_pop in E6.
    intros E; inversion E; subst; clear E.
    apply seg_ok_push.
    eapply seg_ok_flag; [|
      eapply seg_ok_app; [eapply seg_ok_app; [exact E1|exact E2]|
      eapply seg_ok_app; [eapply seg_ok_fmt; apply feature_ann_fmt|
      eapply seg_ok_app; [exact E3|
      eapply seg_ok_app; [eapply seg_ok_app; [exact E4|exact E5]|
      eapply seg_ok_app; [exact E6|eapply seg_ok_fmt; apply eof_fmt]]]]]].
    destruct b1, b2, itf, b3, b4, cr; reflexivity.
  - match goal with |- context [run_fitems ?a ?b ?c ?d ?e ?f ?g] =>
      destruct (run_fitems a b c d e f g) as [[[st2 rs] itf] evi] eqn:E3 end.
    apply run_fitems_ok in E3.
    destruct (pop st2) as [[st4 cr] evp] eqn:E6. apply seg_ok_pop in E6.
    intros E; inversion E; subst; clear E.
    apply seg_ok_push.
    eapply seg_ok_flag; [|
      eapply seg_ok_app; [eapply seg_ok_fmt; apply feature_ann_fmt|
      eapply seg_ok_app; [exact E3|
      eapply seg_ok_app; [exact E6|eapply seg_ok_fmt; apply eof_fmt]]]].
    destruct itf, cr; reflexivity.
Qed.

Lemma run_features_ok cfg fs : forall st flag st' rs fld ev,
  run_features cfg st fs flag = (st', rs, fld, ev) -> seg_ok st st' fld ev.
Proof.
  induction fs as [|f r IH]; intros st flag st' rs fld ev; cbn [run_features].
  - intros E; inversion E; subst. apply seg_ok_nil.
  - destruct flag.
    + destruct (run_feature cfg st f) as [[[st1 res] f1] ev1] eqn:E1.
      match goal with |- context [run_features cfg st1 r ?b] =>
        destruct (run_features cfg st1 r b) as [[[st2 rs2] f2] ev2] eqn:E2 end.
      intros E; inversion E; subst.
      change (EFmt (FUri (f_id f)) :: ev1 ++ ev2) with ([EFmt (FUri (f_id f))] ++ (ev1 ++ ev2)).
      eapply seg_ok_flag; [|eapply seg_ok_app; [eapply seg_ok_fmt; reflexivity|
        eapply seg_ok_app; [eapply run_feature_ok; eauto | eapply IH; eauto]]].
      reflexivity.
    + destruct (run_features cfg st r false) as [[[st2 rs2] f2] ev2] eqn:E2.
      intros E; inversion E; subst. eapply IH; eauto.
Qed.

(* ------------------------------------------------------------------ the verdict *)
Theorem verdict_iff_bad cfg fs rs verdict ab evs :
  run_model cfg fs = (rs, verdict, ab, evs) -> verdict = anyb bad evs.
Proof.
  unfold run_model.
  destruct (run_hook cfg (mkState false [[]]) HBeforeAll 0) as [[st1 r1] e1] eqn:E1.
  apply run_hook_spec in E1 as (A1 & A2 & A3 & A4). cbn [is_all_hook aborted] in *. bsimp.
  destruct (run_features cfg st1 fs (negb (aborted st1))) as [[[st2 rs2] anyf] e2] eqn:E2.
  apply run_features_ok in E2 as (B1 & B2 & B3).
  destruct (run_hook cfg st2 HAfterAll 0) as [[st3 r3] e3] eqn:E3.
  apply run_hook_spec in E3 as (C1 & C2 & C3 & C4). cbn [is_all_hook] in *. bsimp.
  intros E; inversion E; subst; clear E.
  set (root := match stack st3 with fr :: _ => fr | [] => [] end).
  destruct (cleanup_events_spec root) as (D1 & D2 & D3).
  rewrite bad_split. unfold anyb in *. rewrite !existsb_app in *. cbn [existsb]. rewrite !orb_false_r.
  fold (anyb hook_raised) (anyb is_undef_event).
  assert (G : forall l, existsb hook_raised l || existsb is_undef_event l = existsb gbad l).
  { induction l as [|e l IH]; [reflexivity|]. cbn [existsb]. rewrite <- IH.
    destruct e as [h k [|]| | | | |]; cbn; try reflexivity;
      destruct (existsb hook_raised l), (existsb is_undef_event l); reflexivity. }
  assert (G' : forall l, existsb hook_raised l || existsb is_undef_event l = false -> existsb gbad l = false)
    by (intros l; now rewrite G).
  rewrite A2, C2, D1, D3, A3, C3, C4, B3, A4.
  rewrite <- !G in *. apply orb_false_iff in D2 as [D2a D2b]. rewrite D2a, D2b.
  destruct anyf, (existsb lbad e2), (existsb hook_raised e1), (existsb hook_raised e2),
    (existsb hook_raised e3), (existsb is_undef_event e1), (existsb is_undef_event e2),
    (existsb is_undef_event e3), (existsb abort_ev e2), (cleanups_raise root),
    (hook_aborts cfg HBeforeAll 0), (hook_aborts cfg HAfterAll 0);
    cbn in *; try reflexivity;
    try (specialize (B1 eq_refl); discriminate); try (specialize (B2 eq_refl); discriminate).
Qed.

Lemma hook_fault_fails cfg fs rs verdict ab evs h k :
  run_model cfg fs = (rs, verdict, ab, evs) -> In (EHook h k true) evs -> verdict = true.
Proof.
  intros H Hin. rewrite (verdict_iff_bad _ _ _ _ _ _ H). apply existsb_exists.
  exists (EHook h k true). split; [assumption|reflexivity].
Qed.
