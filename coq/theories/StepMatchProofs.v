(* StepMatchProofs.v - proofs about StepMatch.v *)
From BV Require Import Base UStr StepMatch.

(* ---- soundness of the flat matcher ---- *)
Definition atom_accepts (a : atom) (p : ustr) : Prop :=
  match a with
  | ALit s => p = s
  | AField _ c _ min0 _ => piece_ok c min0 p = true
  end.

Lemma prefixb_split p s : prefixb p s = true -> s = p ++ skipn (length p) s.
Proof.
  revert s. induction p as [|a p IH]; intros s H; [reflexivity|].
  destruct s as [|b s]; [discriminate|]. cbn in H. apply andb_true_iff in H as [E H]. apply N.eqb_eq in E. subst b.
  cbn [length skipn app]. f_equal. now apply IH.
Qed.

Lemma first_some_some {A B} (f : A -> option B) l y :
  first_some f l = Some y -> exists x, In x l /\ f x = Some y.
Proof.
  induction l as [|x l IH]; [discriminate|]. cbn [first_some]. destruct (f x) eqn:E.
  - intros H. inversion H. subst. exists x. split; [now left|exact E].
  - intros H. destruct (IH H) as [x' [Hin Hx]]. exists x'. split; [now right|exact Hx].
Qed.

Theorem match_atoms_sound anch atoms text pieces :
  match_atoms anch atoms text = Some pieces ->
  Forall2 atom_accepts atoms pieces /\
  exists rest, text = concat pieces ++ rest /\ (anch = true -> rest = []).
Proof.
  revert text pieces. induction atoms as [|a atoms IH]; intros text pieces H.
  - cbn [match_atoms] in H. destruct anch.
    + destruct text; [|discriminate]. inversion H. split; [constructor|]. exists []. split; [reflexivity|auto].
    + inversion H. split; [constructor|]. exists text. split; [reflexivity|discriminate].
  - destruct a as [s|name c greedy min0 cv]; cbn [match_atoms] in H.
    + destruct (prefixb s text) eqn:P; [|discriminate].
      destruct (match_atoms anch atoms (skipn (length s) text)) as [ps|] eqn:M; [|discriminate]. inversion H. subst pieces.
      destruct (IH _ _ M) as [F [rest [E A]]]. split; [constructor; [reflexivity|exact F]|].
      exists rest. split; [|exact A]. cbn [concat]. rewrite <- app_assoc, <- E. now apply prefixb_split.
    + apply first_some_some in H as [k [_ Hk]].
      destruct (piece_ok c min0 (firstn k text)) eqn:OK; [|discriminate].
      destruct (match_atoms anch atoms (skipn k text)) as [ps|] eqn:M; [|discriminate]. inversion Hk. subst pieces.
      destruct (IH _ _ M) as [F [rest [E A]]]. split; [constructor; [exact OK|exact F]|].
      exists rest. split; [|exact A]. cbn [concat]. rewrite <- app_assoc, <- E. symmetry. apply firstn_skipn.
Qed.

(* ---- arguments: spans are running offsets and delimit the original text ---- *)
Definition slice (s : ustr) (a b : nat) : ustr := firstn (b - a) (skipn a s).

Lemma slice_middle (pre p tail : ustr) : slice (pre ++ p ++ tail) (length pre) (length pre + length p) = p.
Proof.
  unfold slice. rewrite skipn_app, Nat.sub_diag, skipn_all. cbn [app skipn].
  replace (length pre + length p - length pre) with (length p) by lia.
  rewrite firstn_app, Nat.sub_diag, firstn_all. cbn [firstn]. now rewrite app_nil_r.
Qed.

Theorem build_args_spans atoms : forall pieces pre tail args,
  build_args atoms pieces (length pre) = Some args ->
  Forall (fun a => a_end a = a_start a + length (a_original a) /\ length pre <= a_start a /\
                   slice (pre ++ concat pieces ++ tail) (a_start a) (a_end a) = a_original a) args /\
  (forall a b l1 l2 l3, args = l1 ++ a :: l2 ++ b :: l3 -> a_end a <= a_start b).
Proof.
  induction atoms as [|at_ atoms IH]; intros pieces pre tail args H.
  - cbn [build_args] in H. inversion H. split; [constructor|]. intros a b l1 l2 l3 E. destruct l1; discriminate.
  - destruct pieces as [|p pr].
    + destruct at_; cbn [build_args] in H; inversion H; (split; [constructor|]); intros a b l1 l2 l3 E; destruct l1; discriminate.
    + assert (L : length pre + length p = length (pre ++ p)) by (now rewrite app_length).
      assert (W : pre ++ concat (p :: pr) ++ tail = (pre ++ p) ++ concat pr ++ tail) by (cbn [concat]; now rewrite <- !app_assoc).
      destruct at_ as [s|name c greedy min0 cv]; cbn [build_args] in H.
      * rewrite L in H. destruct (IH pr (pre ++ p) tail args H) as [F O]. split; [|exact O].
        rewrite W. eapply Forall_impl; [|exact F]. cbv beta. intros a [A [B C]]. split; [exact A|]. split; [rewrite <- L in B; lia|exact C].
      * destruct (convert cv p) as [v|]; [|discriminate]. rewrite L in H.
        destruct (build_args atoms pr (length (pre ++ p))) as [rest|] eqn:R; [|discriminate]. inversion H. subst args.
        destruct (IH pr (pre ++ p) tail rest R) as [F O]. split.
        -- constructor.
           ++ cbn [a_end a_start a_original]. split; [rewrite <- L; reflexivity|]. split; [lia|].
              rewrite <- L. cbn [concat]. rewrite <- app_assoc. apply slice_middle.
           ++ rewrite W. eapply Forall_impl; [|exact F]. cbv beta. intros a [A [B C]]. split; [exact A|]. split; [rewrite <- L in B; lia|exact C].
        -- intros a b l1 l2 l3 E. destruct l1 as [|x l1]; cbn [app] in E.
           ++ inversion E. subst. cbn [a_end]. rewrite Forall_forall in F.
              assert (In b (l2 ++ b :: l3)) as Hin by (apply in_or_app; right; now left).
              destruct (F b Hin) as [_ [B _]]. exact B.
           ++ inversion E. eapply O. eassumption.
Qed.

Theorem match_pattern_sound anch atoms text args :
  match_pattern anch atoms text = Matched args ->
  exists pieces rest,
    Forall2 atom_accepts atoms pieces /\ text = concat pieces ++ rest /\ (anch = true -> rest = []) /\
    Forall (fun a => a_end a = a_start a + length (a_original a) /\ slice text (a_start a) (a_end a) = a_original a) args /\
    (forall a b l1 l2 l3, args = l1 ++ a :: l2 ++ b :: l3 -> a_end a <= a_start b).
Proof.
  unfold match_pattern. destruct (match_atoms anch atoms text) as [pieces|] eqn:M; [|discriminate].
  destruct (build_args atoms pieces 0) as [a0|] eqn:B; [|discriminate]. intros H. inversion H. subst a0.
  destruct (match_atoms_sound _ _ _ _ M) as [F [rest [E A]]]. exists pieces, rest.
  split; [exact F|]. split; [exact E|]. split; [exact A|].
  destruct (build_args_spans atoms pieces [] rest args B) as [S O]. split; [|exact O].
  cbn [app length] in S. rewrite <- E in S. eapply Forall_impl; [|exact S]. cbv beta. intros a [X [_ Y]]. now split.
Qed.

(* the language of a flat pattern: the texts that split into accepted pieces *)
Definition in_language (atoms : list atom) (text : ustr) : Prop :=
  exists pieces, Forall2 atom_accepts atoms pieces /\ text = concat pieces.

Corollary anchored_match_is_a_full_match atoms text args :
  match_pattern true atoms text = Matched args -> in_language atoms text.
Proof.
  intros H. destruct (match_pattern_sound _ _ _ _ H) as [pieces [rest [F [E [A _]]]]].
  exists pieces. split; [exact F|]. rewrite (A eq_refl) in E. now rewrite app_nil_r in E.
Qed.

(* ---- Match.run: positional arguments in text order, named ones by keyword ---- *)
Lemma arguments_split args :
  length (positional args) + length (keywords args) = length args /\
  positional args = map a_value (filter (fun a => match a_name a with None => true | Some _ => false end) args) /\
  map fst (keywords args) = flat_map (fun a => match a_name a with Some n => [n] | None => [] end) args.
Proof.
  unfold positional, keywords. split; [|split].
  - induction args as [|a args IH]; [reflexivity|]. cbn [flat_map length]. rewrite !app_length.
    destruct (a_name a); cbn [length]; lia.
  - induction args as [|a args IH]; [reflexivity|]. cbn [flat_map filter]. destruct (a_name a); cbn [app map]; now rewrite IH.
  - induction args as [|a args IH]; [reflexivity|]. cbn [flat_map]. rewrite map_app, IH. now destruct (a_name a).
Qed.

(* ---- find_match: the first definition that matches, type-specific ones before generic ones ---- *)
Theorem find_first_spec l text :
  match find_first l text with
  | Undefined => forall d, In d l -> match_def d text = NoMatch
  | Bound f res => exists l1 d l2, l = l1 ++ d :: l2 /\ (forall e, In e l1 -> match_def e text = NoMatch) /\
                                   match_def d text = res /\ res <> NoMatch /\ f = d_func d
  end.
Proof.
  induction l as [|d l IH]; cbn [find_first].
  - intros d [].
  - destruct (match_def d text) eqn:M.
    + destruct (find_first l text) as [|f res].
      * intros e [->|Hin]; [exact M|now apply IH].
      * destruct IH as [l1 [d' [l2 [E [N [R [NN F]]]]]]]. exists (d :: l1), d', l2. split; [now rewrite E|].
        split; [intros e [->|Hin]; [exact M|now apply N]|]. repeat split; assumption.
    + exists [], d, l. repeat split; auto; [intros e []|discriminate].
    + exists [], d, l. repeat split; auto; [intros e []|discriminate].
Qed.

Theorem bound_only_to_registered_definitions r t text f res :
  find_match r t text = Bound f res ->
  exists d, (In d (defs_of r t) \/ In d (defs_of r TStep)) /\ d_func d = f /\ match_def d text = res /\ res <> NoMatch.
Proof.
  unfold find_match. intros H. pose proof (find_first_spec (candidates r t) text) as S. rewrite H in S.
  destruct S as [l1 [d [l2 [E [_ [R [NN F]]]]]]]. exists d. split; [|repeat split; auto].
  assert (Hin : In d (candidates r t)) by (rewrite E; apply in_or_app; right; now left).
  unfold candidates in Hin. destruct t; try (apply in_app_or in Hin; tauto); now left.
Qed.

Lemma in_dec_prefix {A} (a b l1 : list A) (e : A) (l2 : list A) :
  a ++ b = l1 ++ e :: l2 -> In e a \/ exists l1', l1 = a ++ l1' /\ b = l1' ++ e :: l2.
Proof.
  revert l1. induction a as [|x a IH]; intros l1 H; cbn [app] in H.
  - right. exists l1. split; [reflexivity|exact H].
  - destruct l1 as [|y l1]; cbn [app] in H.
    + inversion H. left. now left.
    + inversion H. subst y. destruct (IH l1 H2) as [X|[l1' [X Y]]]; [left; now right|].
      right. exists l1'. split; [now rewrite X|exact Y].
Qed.

(* a type-specific definition that matches wins over every generic one; among one list the earlier wins *)
Theorem type_specific_before_generic r t text d :
  t <> TStep -> In d (defs_of r t) -> match_def d text <> NoMatch ->
  exists f res, find_match r t text = Bound f res /\
                exists e, In e (defs_of r t) /\ d_func e = f /\ match_def e text = res.
Proof.
  intros NT Hin M. unfold find_match. pose proof (find_first_spec (candidates r t) text) as S.
  assert (C : candidates r t = defs_of r t ++ defs_of r TStep) by (destruct t; try reflexivity; congruence).
  destruct (find_first (candidates r t) text) as [|f res].
  - exfalso. apply M, S. rewrite C. apply in_or_app. now left.
  - exists f, res. split; [reflexivity|]. destruct S as [l1 [e [l2 [E [N [R [NN F]]]]]]].
    exists e. split; [|split; [now rewrite F|exact R]].
    (* e is in the type-specific part: otherwise d (type-specific, matching) would be in l1 *)
    rewrite C in E. destruct (in_dec_prefix (defs_of r t) (defs_of r TStep) l1 e l2 E) as [X|[l1' [X Y]]]; [exact X|].
    exfalso. apply M, N. rewrite X. apply in_or_app. now left.
Qed.

(* ---- registration histories ---- *)
Lemma defs_with_defs_same r t l : defs_of (with_defs r t l) t = l.
Proof. now destruct t. Qed.
Lemma defs_with_defs_other r t t' l : t <> t' -> defs_of (with_defs r t l) t' = defs_of r t'.
Proof. destruct t, t'; intros H; try reflexivity; congruence. Qed.
Lemma current_with_defs r t l : r_current (with_defs r t l) = r_current r /\ r_default (with_defs r t l) = r_default r.
Proof. now destruct t. Qed.

(* a rejected registration (ambiguous, or the same definition again) leaves the registry as it was *)
Theorem rejected_registration_changes_nothing r t p f loc r' res :
  add_step r t p f loc = (r', res) -> res <> Added -> r' = r.
Proof.
  unfold add_step. destruct (scan _ _ _ _) eqn:S; intros H NA; inversion H; subst; congruence.
Qed.

(* an accepted one appends exactly one definition, stamped with the matcher in force, to the list of its type *)
Theorem accepted_registration_appends r t p f loc r' :
  add_step r t p f loc = (r', Added) ->
  defs_of r' t = defs_of r t ++ [mkDef (r_current r) t (p_text p (r_current r)) (p_alts p (r_current r)) (p_end p) f loc] /\
  (forall t', t' <> t -> defs_of r' t' = defs_of r t') /\
  r_current r' = r_current r /\ r_default r' = r_default r.
Proof.
  unfold add_step. destruct (scan _ _ _ _) eqn:S; intros H; inversion H; subst.
  split; [apply defs_with_defs_same|]. split; [intros t' NE; apply defs_with_defs_other; congruence|].
  apply current_with_defs.
Qed.

(* what scan decides *)
Theorem scan_spec existing attr text loc :
  match scan existing attr text loc with
  | Added => forall e, In e existing -> same_definition e attr loc = false /\ def_matches e text = false
  | Ignored => exists l1 e l2, existing = l1 ++ e :: l2 /\ same_definition e attr loc = true /\
                               (forall x, In x l1 -> same_definition x attr loc = false /\ def_matches x text = false)
  | Ambiguous l => exists l1 e l2, existing = l1 ++ e :: l2 /\ same_definition e attr loc = false /\
                                   def_matches e text = true /\ d_loc e = l /\
                                   (forall x, In x l1 -> same_definition x attr loc = false /\ def_matches x text = false)
  end.
Proof.
  induction existing as [|e existing IH]; cbn [scan]; [intros e []|].
  destruct (same_definition e attr loc) eqn:SD.
  - exists [], e, existing. split; [reflexivity|]. split; [exact SD|]. intros y [].
  - destruct (def_matches e text) eqn:DM.
    + exists [], e, existing. split; [reflexivity|]. split; [exact SD|]. split; [exact DM|]. split; [reflexivity|]. intros y [].
    + destruct (scan existing attr text loc) as [| |l].
      * intros y [->|Hin]; [now split|now apply IH].
      * destruct IH as [l1 [e' [l2 [E [S N]]]]]. exists (e :: l1), e', l2. split; [now rewrite E|]. split; [exact S|].
        intros y [->|Hin]; [now split|now apply N].
      * destruct IH as [l1 [e' [l2 [E [S [M [L N]]]]]]]. exists (e :: l1), e', l2. split; [now rewrite E|].
        split; [exact S|]. split; [exact M|]. split; [exact L|].
        intros y [->|Hin]; [now split|now apply N].
Qed.

(* operations other than an accepted registration never change the definition lists; look-ups change nothing at all *)
Theorem rstep_lists r o r' outs :
  rstep r o = (r', outs) ->
  forall t, exists suffix, defs_of r' t = defs_of r t ++ suffix /\ length suffix <= 1.
Proof.
  intros H t. destruct o as [t0 p f loc|k|[k|]| |t0 text]; cbn [rstep] in H.
  - destruct (add_step r t0 p f loc) as [r1 a] eqn:A. inversion H. subst r1.
    destruct a.
    + destruct (accepted_registration_appends _ _ _ _ _ _ A) as [X [Y _]].
      destruct (stype_eqb t t0) eqn:E.
      * assert (t = t0) by (destruct t, t0; try discriminate; reflexivity). subst t0. eexists. split; [exact X|cbn; lia].
      * exists []. rewrite app_nil_r. split; [|cbn; lia]. apply Y. intros ->. destruct t0; discriminate.
    + assert (r' = r) by (eapply rejected_registration_changes_nothing; [exact A|discriminate]). subst.
      exists []. rewrite app_nil_r. split; [reflexivity|cbn; lia].
    + assert (r' = r) by (eapply rejected_registration_changes_nothing; [exact A|discriminate]). subst.
      exists []. rewrite app_nil_r. split; [reflexivity|cbn; lia].
  - inversion H. exists []. rewrite app_nil_r. split; [now destruct t|cbn; lia].
  - inversion H. exists []. rewrite app_nil_r. split; [now destruct t|cbn; lia].
  - inversion H. exists []. rewrite app_nil_r. split; [now destruct t|cbn; lia].
  - inversion H. exists []. rewrite app_nil_r. split; [now destruct t|cbn; lia].
  - inversion H. exists []. rewrite app_nil_r. split; [reflexivity|cbn; lia].
Qed.

Theorem lookup_changes_nothing r t text r' outs : rstep r (Lookup t text) = (r', outs) -> r' = r.
Proof. cbn. intros H. now inversion H. Qed.

(* invariant of every history: each list holds only definitions of its own type *)
Definition well_typed (r : registry) : Prop := forall t d, In d (defs_of r t) -> d_type d = t.

Theorem rstep_well_typed r o r' outs : well_typed r -> rstep r o = (r', outs) -> well_typed r'.
Proof.
  intros W H. destruct o as [t0 p f loc|k|[k|]| |t0 text]; cbn [rstep] in H.
  - destruct (add_step r t0 p f loc) as [r1 a] eqn:A. inversion H. subst r1. destruct a.
    + destruct (accepted_registration_appends _ _ _ _ _ _ A) as [X [Y _]]. intros t d Hin.
      destruct (stype_eqb t t0) eqn:E.
      * assert (t = t0) by (destruct t, t0; try discriminate; reflexivity). subst t0. rewrite X in Hin.
        apply in_app_or in Hin as [Hin|[<-|[]]]; [now apply W|reflexivity].
      * rewrite Y in Hin by (intros ->; destruct t0; discriminate). now apply W.
    + assert (r' = r) by (eapply rejected_registration_changes_nothing; [exact A|discriminate]). now subst.
    + assert (r' = r) by (eapply rejected_registration_changes_nothing; [exact A|discriminate]). now subst.
  - inversion H. intros t d Hin. apply W. now destruct t.
  - inversion H. intros t d Hin. apply W. now destruct t.
  - inversion H. intros t d Hin. apply W. now destruct t.
  - inversion H. intros t d Hin. apply W. now destruct t.
  - inversion H. now subst.
Qed.

Theorem histories_keep_lists_well_typed ops :
  well_typed (fst (run_ops ops)).
Proof.
  unfold run_ops.
  assert (G : forall r outs, well_typed r ->
              well_typed (fst (fold_left (fun st o => let '(r, outs) := st in let '(r', o') := rstep r o in (r', outs ++ o')) ops (r, outs)))).
  { induction ops as [|o ops IH]; intros r outs W; [exact W|]. cbn [fold_left].
    destruct (rstep r o) as [r1 o1] eqn:S. apply IH. eapply rstep_well_typed; eassumption. }
  apply G. intros t d Hin. destruct t; destruct Hin.
Qed.

(* the matcher switches: a definition is stamped with the matcher chosen by the latest switch before it *)
Theorem matcher_switches r :
  (forall k, r_current (fst (rstep r (UseMatcher k))) = k /\ r_default (fst (rstep r (UseMatcher k))) = r_default r) /\
  (r_current (fst (rstep r (UseDefault None))) = r_default r) /\
  (forall k, r_current (fst (rstep r (UseDefault (Some k)))) = k /\ r_default (fst (rstep r (UseDefault (Some k)))) = k) /\
  (r_default (fst (rstep r CurrentAsDefault)) = r_current r /\ r_current (fst (rstep r CurrentAsDefault)) = r_current r).
Proof. cbn. repeat split. Qed.
