(* ConfigTagsProofs.v — C20, the tag expression of a run: command line (--tags) over the
   configuration file's tags (kept as config_tags) over default_tags over "no tags". *)
From BV Require Import Base UStr ConfigTypes Config ConfigProofs.

Definition chosen_tags (n : ns) : cval :=
  if truthy (ns_val (u "tags") n) then ns_val (u "tags") n
  else if truthy (ns_val (u "config_tags") n) then ns_val (u "config_tags") n
  else if truthy (ns_val (u "default_tags") n) then ns_val (u "default_tags") n
  else VStr [].

Theorem tags_stage_precedence n n' :
  tags_stage n = ok n' ->
  ns_val (u "tags") n' = chosen_tags n /\
  forall k, ustr_eqb k (u "tags") = false -> ustr_eqb k (u "protocol_in_use") = false ->
            ns_val k n' = ns_val k n.
Proof.
  unfold tags_stage, chosen_tags, first_truthy. cbn [find].
  destruct (match ns_val (u "tag_expression_protocol") n with
            | VProto p => Some p | VStr s => proto_from_name s | _ => None end) as [p|]; [|discriminate].
  intros E. inversion E; subst; clear E. split.
  - rewrite !ns_val_set.
    replace (ustr_eqb (u "tags") (u "protocol_in_use")) with false by (vm_compute; reflexivity).
    replace (ustr_eqb (u "tags") (u "tags")) with true by (vm_compute; reflexivity).
    destruct (truthy (ns_val (u "tags") n)); [reflexivity|].
    destruct (truthy (ns_val (u "config_tags") n)); [reflexivity|].
    destruct (truthy (ns_val (u "default_tags") n)); reflexivity.
  - intros k H1 H2. rewrite !ns_val_set, H1, H2. reflexivity.
Qed.

(* the stage fails only for an unknown tag-expression protocol name *)
Theorem tags_stage_total n :
  (exists n', tags_stage n = ok n') \/
  (tags_stage n = inr EValue /\
   match ns_val (u "tag_expression_protocol") n with
   | VProto _ => False | VStr s => proto_from_name s = None | _ => True end).
Proof.
  unfold tags_stage.
  destruct (ns_val (u "tag_expression_protocol") n) eqn:E; try (right; split; [reflexivity|exact I]).
  - destruct (proto_from_name s) eqn:P; [left; eexists; reflexivity|right; auto].
  - left. eexists. reflexivity.
Qed.
