(* GherkinTagProofs.v - C04 at the level of the state machine, with tags: a feature whose
   scenarios are preceded by any number of tag lines is read into exactly those scenarios, each
   carrying exactly the tags written above it, in order, each tag with the number of its line. *)
From BV Require Import Base UStr GherkinTypes Gherkin GherkinProofs GherkinBlockProofs.

Record tag_line (kw : kwtable) (line : ustr) (names : list ustr) : Prop := {
  tl_nodoc : doc_fact line = None;
  tl_nonblank : strip line <> [];
  tl_nocomment : first_is cp_hash (strip line) = false;
  tl_at : starts_at (strip line) = true;
  tl_nostep : step_fact kw (strip line) = None;
  tl_tags : forall ln, tag_words (split_ws (strip line)) ln = Some (map (fun n => (n, ln)) names) }.

Lemma sub_taggable_tags m s ts :
  starts_at s = true -> tag_words (split_ws s) (m_line m) = Some ts ->
  sub_taggable m s = ROk (Some (upd_st (upd_tags m (m_tags m ++ ts)) StTaggable)).
Proof. intros A T. unfold sub_taggable. rewrite match_at, A, T. reflexivity. Qed.

Definition in_feature_body (m : mstate) : Prop :=
  m_st m = StFeature \/ m_st m = StSteps \/ m_st m = StScenario \/ m_st m = StTaggable.

Lemma feed_tag_line m f line names :
  m_cont m = CFeat -> m_feat m = Some f -> in_feature_body m -> tag_line (m_kw m) line names ->
  exists m', feed (ROk m) line = ROk m' /\ m_st m' = StTaggable /\ m_cont m' = CFeat /\ m_feat m' = Some f /\
             m_line m' = S (m_line m) /\ m_kw m' = m_kw m /\
             m_tags m' = m_tags m ++ map (fun n => (n, S (m_line m))) names /\ m_table m' = m_table m /\
             m_in_examples m' = m_in_examples m /\ m_lines m' = m_lines m.
Proof.
  intros C F ST [ND NB NC AT NS TG].
  set (m1 := upd_line m (S (m_line m))).
  assert (RES : forall m0, m_cont m0 = CFeat -> m_feat m0 = Some f -> m_line m0 = S (m_line m) -> m_kw m0 = m_kw m ->
                           m_tags m0 = m_tags m -> m_table m0 = m_table m -> m_in_examples m0 = m_in_examples m -> m_lines m0 = m_lines m ->
     let mx := upd_st (upd_tags m0 (m_tags m0 ++ map (fun n => (n, m_line m0)) names)) StTaggable in
     m_st mx = StTaggable /\ m_cont mx = CFeat /\ m_feat mx = Some f /\ m_line mx = S (m_line m) /\ m_kw mx = m_kw m /\
     m_tags mx = m_tags m ++ map (fun n => (n, S (m_line m))) names /\ m_table mx = m_table m /\
     m_in_examples mx = m_in_examples m /\ m_lines mx = m_lines m).
  { intros m0 C0 F0 L0 K0 T0 B0 I0 N0 mx. unfold mx. cbn. rewrite L0, T0. repeat split; assumption. }
  rewrite (feed_nonblank m line NB). fold m1. rewrite (action_dispatch m1 line NB NC). cbn [m1 upd_line m_st].
  destruct ST as [ST|[ST|[ST|ST]]]; rewrite ST.
  - unfold a_feature. rewrite (sub_taggable_tags m1 (strip line) _ AT (TG _)). cbn [rbind].
    eexists. split; [reflexivity|]. apply (RES m1); reflexivity || assumption.
  - unfold a_steps. rewrite ND. unfold parse_step. cbn [m1 upd_line m_kw]. rewrite NS. cbn [rbind].
    rewrite (sub_taggable_tags m1 (strip line) _ AT (TG _)). cbn [rbind].
    eexists. split; [reflexivity|]. apply (RES m1); reflexivity || assumption.
  - unfold a_scenario. unfold parse_step. cbn [upd_last m1 upd_line m_kw]. rewrite NS. cbn [rbind].
    rewrite (sub_taggable_tags (upd_last m1 None) (strip line) _ AT (TG _)). cbn [rbind].
    eexists. split; [reflexivity|]. apply (RES (upd_last m1 None)); reflexivity || assumption.
  - unfold a_taggable. rewrite (sub_taggable_tags m1 (strip line) _ AT (TG _)). cbn [rbind].
    eexists. split; [reflexivity|]. apply (RES m1); reflexivity || assumption.
Qed.

(* the tags written on consecutive tag lines, the first line being number ln + 1 *)
Fixpoint tags_of (tls : list (ustr * list ustr)) (ln : nat) : list tag :=
  match tls with
  | [] => []
  | (_, names) :: r => map (fun n => (n, S ln)) names ++ tags_of r (S ln)
  end.

Lemma tag_lines_are_read tls : forall m f,
  m_cont m = CFeat -> m_feat m = Some f -> in_feature_body m ->
  Forall (fun x => tag_line (m_kw m) (fst x) (snd x)) tls ->
  exists m', fold_left feed (map fst tls) (ROk m) = ROk m' /\ m_cont m' = CFeat /\ m_feat m' = Some f /\
             in_feature_body m' /\ m_line m' = m_line m + length tls /\ m_kw m' = m_kw m /\
             m_tags m' = m_tags m ++ tags_of tls (m_line m) /\ m_table m' = m_table m /\
             m_in_examples m' = m_in_examples m /\ m_lines m' = m_lines m.
Proof.
  induction tls as [|[line names] r IH]; intros m f C F ST OK.
  - exists m. cbn. rewrite app_nil_r, Nat.add_0_r. repeat split; auto.
  - inversion OK as [|? ? H1 OK']. subst. cbn [fst snd] in H1.
    destruct (feed_tag_line m f line names C F ST H1) as (m1 & FD1 & ST1 & C1 & F1 & L1 & K1 & T1 & B1 & I1 & N1).
    assert (OK1 : Forall (fun x => tag_line (m_kw m1) (fst x) (snd x)) r) by (now rewrite K1).
    assert (ST1' : in_feature_body m1) by (right; right; right; exact ST1).
    destruct (IH m1 f C1 F1 ST1' OK1) as (m' & FD' & C' & F' & ST' & L' & K' & T' & B' & I' & N').
    exists m'. cbn [map fst fold_left]. rewrite FD1. split; [exact FD'|]. repeat split; try assumption.
    + rewrite L', L1. cbn [length]. lia.
    + congruence.
    + rewrite T', T1, L1. cbn [tags_of]. now rewrite <- app_assoc.
    + congruence.
    + congruence.
    + congruence.
Qed.

Lemma feed_scenario_line_anywhere m f line alias name :
  m_cont m = CFeat -> m_feat m = Some f -> in_feature_body m ->
  scenario_line (m_kw m) line alias name ->
  exists m', feed (ROk m) line = ROk m' /\ m_st m' = StScenario /\
             at_feature_scenario m' (with_items f (FScen (new_scenario m alias name) :: f_items f)) (new_scenario m alias name) (f_items f) /\
             m_line m' = S (m_line m) /\ m_kw m' = m_kw m /\ m_tags m' = [] /\ m_lang m' = m_lang m /\ m_table m' = m_table m /\
             m_in_examples m' = m_in_examples m /\ m_lines m' = m_lines m.
Proof.
  intros C F ST SL. destruct ST as [ST|[ST|[ST|ST]]].
  - apply feed_scenario_line; auto.
  - apply feed_scenario_line; auto.
  - apply feed_scenario_line; auto.
  - destruct SL as [ND NB NC NT NS NR SC].
    set (m1 := upd_line m (S (m_line m))).
    rewrite (feed_nonblank m line NB). fold m1. rewrite (action_dispatch m1 line NB NC). cbn [m1 upd_line m_st]. rewrite ST.
    unfold a_taggable. rewrite (sub_taggable_scenario m1 (strip line) alias name NT NR SC). cbn [rbind].
    eexists. split; [reflexivity|].
    unfold build_scenario, add_item. cbn [m1 upd_line m_cont m_feat]. rewrite C, F.
    unfold at_feature_scenario, new_scenario, with_items. cbn. repeat split.
Qed.

(* a tagged scenario: its tag lines (with the tag names on each), then the scenario block *)
Definition tscen : Type := (list (ustr * list ustr) * ascen)%type.
Definition tscen_lines (ts : tscen) : list ustr := map fst (fst ts) ++ ascen_lines (snd ts).
Definition tscen_ok (kw : kwtable) (ts : tscen) : Prop :=
  Forall (fun x => tag_line kw (fst x) (snd x)) (fst ts) /\ ascen_ok kw (snd ts).

Fixpoint expected_tagged (scens : list tscen) (line_no : nat) : list fitem :=
  match scens with
  | [] => []
  | (tls, (_, alias, name, steps)) :: r =>
      let l1 := line_no + length tls in
      FScen (mkPScen false alias name (S l1) (tags_of tls line_no) [] (steps_of steps (S l1)) []) ::
      expected_tagged r (S l1 + length steps)
  end.

Lemma fin_scen_with_steps_tags alias name ln tags steps :
  fin_scen (with_steps (mkPScen false alias name ln tags [] [] []) (rev steps ++ [])) = mkPScen false alias name ln tags [] steps [].
Proof. unfold fin_scen, with_steps. cbn. now rewrite app_nil_r, rev_involutive. Qed.

Lemma tagged_scenarios_are_read scens : forall m f,
  m_cont m = CFeat -> m_feat m = Some f -> in_feature_body m -> m_st m <> StTaggable -> m_tags m = [] ->
  Forall (tscen_ok (m_kw m)) scens ->
  exists m' f',
    fold_left feed (flat_map tscen_lines scens) (ROk m) = ROk m' /\ m_cont m' = CFeat /\ m_feat m' = Some f' /\
    m_table m' = m_table m /\ m_st m' <> StTaggable /\
    rev (map fin_item (f_items f')) = rev (map fin_item (f_items f)) ++ expected_tagged scens (m_line m) /\
    with_items f' [] = with_items f [].
Proof.
  induction scens as [|[tls [[[line alias] name] steps]] scens IH]; intros m f C F ST NT T OK.
  - exists m, f. cbn [flat_map fold_left expected_tagged]. rewrite app_nil_r. repeat split; auto.
  - inversion OK as [|? ? H1 OK']. subst. destruct H1 as [TL [SL STP]]. cbn [fst snd] in TL.
    destruct (tag_lines_are_read tls m f C F ST TL) as (m0 & FD0 & C0 & F0 & ST0 & L0 & K0 & T0 & B0 & _).
    assert (SL0 : scenario_line (m_kw m0) line alias name) by (now rewrite K0).
    destruct (feed_scenario_line_anywhere m0 f line alias name C0 F0 ST0 SL0) as [m1 [FD1 [ST1 [W1 [L1 [K1 [T1 [G1 [TB1 _]]]]]]]]].
    assert (STP1 : Forall (fun x => let '(l, t, k, text) := x in step_line (m_kw m1) l t k text) steps) by (now rewrite K1, K0).
    destruct (steps_of_a_scenario steps m1 _ _ (f_items f) (or_introl ST1) W1 STP1) as [m2 [f2 [s2 [FD2 [ST2 [W2 [FR2 [L2 [ES EF]]]]]]]]].
    destruct W2 as [A2 [B2 [C2 D2]]].
    destruct FR2 as [_ [_ [_ [_ [K2 [_ [_ [_ [_ [_ [T2 [_ [TB2 _]]]]]]]]]]]]].
    assert (OK2 : Forall (tscen_ok (m_kw m2)) scens) by (rewrite K2, K1, K0; exact OK').
    assert (ST2' : in_feature_body m2) by (destruct ST2 as [X|X]; [right; right; left; exact X|right; left; exact X]).
    assert (NT2 : m_st m2 <> StTaggable) by (destruct ST2 as [X|X]; rewrite X; discriminate).
    assert (T2' : m_tags m2 = []) by congruence.
    destruct (IH m2 f2 B2 C2 ST2' NT2 T2' OK2) as [m' [f' [FD' [C' [F' [TB' [NT' [IT' HD']]]]]]]].
    exists m', f'. cbn [flat_map]. unfold tscen_lines at 1. cbn [fst snd ascen_lines].
    rewrite !fold_left_app. rewrite FD0. cbn [fold_left]. rewrite FD1, FD2.
    split; [exact FD'|]. split; [exact C'|]. split; [exact F'|]. split; [congruence|]. split; [exact NT'|]. split.
    + rewrite IT'. rewrite EF. cbn [with_items f_items map rev fin_item]. rewrite ES.
      assert (FS : fin_scen (with_steps (new_scenario m0 alias name) (rev (steps_of steps (m_line m1)) ++ sc_steps (new_scenario m0 alias name))) =
                   mkPScen false alias name (S (m_line m + length tls)) (tags_of tls (m_line m)) [] (steps_of steps (S (m_line m + length tls))) []).
      { unfold new_scenario. rewrite T0, T. cbn [sc_steps app]. rewrite L1, L0. apply fin_scen_with_steps_tags. }
      rewrite FS. rewrite <- app_assoc. cbn [app expected_tagged]. rewrite L2, L1, L0. reflexivity.
    + rewrite HD', EF. unfold with_items. cbn. reflexivity.
Qed.

(* C04 for features made of tagged scenarios: every scenario carries exactly the tags written on
   the tag lines above it, in order, each with its line number; everything else as before *)
Theorem a_feature_of_tagged_scenarios_is_read_back_exactly kw code fline falias fname scens :
  feature_line kw fline falias fname -> Forall (tscen_ok kw) scens ->
  exists m',
    fold_left feed (fline :: flat_map tscen_lines scens) (ROk (init_state code kw VFeature StInitial)) = ROk m' /\
    m_table m' = None /\ m_st m' <> StTaggable /\
    option_map fin_feature (m_feat m') = Some (mkPFeat falias fname 1 [] [] None (expected_tagged scens 1) code).
Proof.
  intros [NB NC NT FA] OK. set (m0 := init_state code kw VFeature StInitial).
  assert (F0 : feed (ROk m0) fline = ROk (upd_st (build_feature (upd_line m0 1) falias fname) StFeature)).
  { rewrite (feed_nonblank m0 fline NB). rewrite (action_dispatch _ fline NB NC). cbn [upd_line m_st m0 init_state].
    unfold a_initial. rewrite match_at, NT. cbn [upd_line m_kw m0 init_state]. now rewrite FA. }
  set (m1 := upd_st (build_feature (upd_line m0 1) falias fname) StFeature) in *.
  destruct (tagged_scenarios_are_read scens m1 (mkPFeat falias fname 1 [] [] None [] code)) as [m' [f' [FD [C' [F' [TB [NT' [IT HD]]]]]]]];
    try reflexivity; [left; reflexivity|discriminate|exact OK|].
  exists m'. cbn [fold_left]. rewrite F0. split; [exact FD|]. split; [rewrite TB; reflexivity|]. split; [exact NT'|].
  rewrite F'. cbn [option_map]. f_equal. unfold fin_feature. rewrite IT. cbn [f_items map rev app m_line m1 upd_st build_feature upd_tags upd_tree upd_line m0 init_state].
  unfold with_items in HD. cbn in HD. inversion HD as [[H1 H2 H3 H4 H5 H6 H7]]. rewrite H1, H2, H3, H4, H5, H6, H7. reflexivity.
Qed.

(* non-vacuity: an English tag line with two tags and a trailing comment *)
Example an_english_tag_line :
  tag_line english [32; 32; 64; 119; 105; 112; 32; 64; 115; 108; 111; 119; 32; 35; 32; 120]%N [[119; 105; 112]; [115; 108; 111; 119]]%N.
Proof.
  split; try (vm_compute; congruence); try (vm_compute; reflexivity).
Qed.
