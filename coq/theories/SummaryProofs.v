(* SummaryProofs.v — C14: conservation and exact counts of the summary walk; the formats
   print the census. *)
From BV Require Import Base Status Rollup RollupProofs Runner RunnerRange Summary.
From BVGen Require Import StatusTable SummaryTables.

Definition count_st (s : status) (l : list status) : nat := count_occ_b (status_eqb s) l.

Lemma status_eqb_sym a b : status_eqb a b = status_eqb b a.
Proof. destruct a, b; reflexivity. Qed.

(* ---- incr *)
Lemma incr_spec t s :
  in_table t s = true ->
  exists t', incr t s = Some t' /\
    (forall x, in_table t' x = in_table t x) /\
    table_sum t' = S (table_sum t) /\
    map fst t' = map fst t.
Proof.
  induction t as [|[k n] r IH]; [discriminate|]. intros H. cbn [incr].
  destruct (status_eqb k s) eqn:E.
  - eexists; split; [reflexivity|]. unfold in_table, table_sum. cbn. repeat split; auto.
  - unfold in_table in H. cbn [existsb fst] in H. rewrite E in H. cbn [orb] in H.
    destruct (IH H) as [r' [A [B [C D]]]]. rewrite A. eexists; split; [reflexivity|].
    repeat split.
    + intros x. unfold in_table in *. cbn [existsb fst]. now rewrite B.
    + unfold table_sum in *. cbn [fold_right snd]. rewrite C. lia.
    + cbn [map fst]. now rewrite D.
Qed.

Lemma tlookup_incr t : forall s t' x, NoDup (map fst t) -> incr t s = Some t' ->
  tlookup t' x = tlookup t x + (if status_eqb s x then 1 else 0).
Proof.
  induction t as [|[k n] r IH]; intros s t' x Hnd; cbn; [discriminate|].
  inversion Hnd as [|? ? Hnotin Hnd']; subst.
  destruct (status_eqb k s) eqn:E.
  - intros H; inversion H; subst. cbn. apply status_eqb_eq in E; subst k.
    destruct (status_eqb s x); lia.
  - destruct (incr r s) as [r'|] eqn:Er; [|discriminate]. intros H; inversion H; subst. cbn.
    destruct (status_eqb k x) eqn:Ex.
    + apply status_eqb_eq in Ex; subst x. rewrite status_eqb_sym, E. lia.
    + eapply IH; eauto.
Qed.

Lemma tlookup_zero keys x : tlookup (zero_table keys) x = 0.
Proof. induction keys as [|k r IH]; cbn; [reflexivity|]. destruct (status_eqb k x); auto. Qed.

Lemma table_sum_zero keys : table_sum (zero_table keys) = 0.
Proof. induction keys; cbn; auto. Qed.

Lemma existsb_map_f {A B} (f : A -> B) (p : B -> bool) l : existsb p (map f l) = existsb (fun x => p (f x)) l.
Proof. induction l as [|x l IH]; [reflexivity|]. cbn. now rewrite IH. Qed.

Lemma in_zero_table keys s : in_table (zero_table keys) s = existsb (fun k => status_eqb k s) keys.
Proof. unfold in_table, zero_table. rewrite existsb_map_f. reflexivity. Qed.

Lemma map_fst_zero keys : map fst (zero_table keys) = keys.
Proof. unfold zero_table. rewrite map_map. cbn. apply map_id. Qed.

(* every status of the list is a key: the walk succeeds, every count is the census, the counts
   add up to the number of elements *)
Lemma incr_all_spec l : forall t,
  NoDup (map fst t) ->
  forallb (in_table t) l = true ->
  exists t', incr_all t l = Some t' /\
    (forall x, tlookup t' x = tlookup t x + count_st x l) /\
    table_sum t' = table_sum t + length l /\
    map fst t' = map fst t.
Proof.
  induction l as [|s r IH]; intros t Hnd H; cbn [incr_all forallb] in *.
  - exists t. repeat split; auto; cbn; lia.
  - apply andb_true_iff in H as [H1 H2].
    destruct (incr_spec t s H1) as [t1 [A [B [C D]]]]. rewrite A.
    assert (Hnd1 : NoDup (map fst t1)) by now rewrite D.
    assert (H2' : forallb (in_table t1) r = true).
    { rewrite forallb_forall in *. intros x Hx. rewrite B. auto. }
    destruct (IH t1 Hnd1 H2') as [t' [A' [B' [C' D']]]]. exists t'. repeat split; auto.
    + intros x. rewrite B'. rewrite (tlookup_incr t s t1 x Hnd A). unfold count_st. cbn [count_occ_b].
      rewrite (status_eqb_sym x s). destruct (status_eqb s x); lia.
    + rewrite C', C. cbn. lia.
    + now rewrite D', D.
Qed.

Lemma count_table_spec keys l :
  NoDup keys -> forallb (fun s => existsb (fun k => status_eqb k s) keys) l = true ->
  exists t, incr_all (zero_table keys) l = Some t /\
    (forall x, tlookup t x = count_st x l) /\ table_sum t = length l /\ map fst t = keys.
Proof.
  intros Hnd H.
  destruct (incr_all_spec l (zero_table keys)) as [t [A [B [C D]]]].
  - now rewrite map_fst_zero.
  - rewrite forallb_forall in *. intros x Hx. rewrite in_zero_table. auto.
  - exists t. repeat split; auto.
    + intros x. rewrite B, tlookup_zero. reflexivity.
    + rewrite C, table_sum_zero. reflexivity.
    + now rewrite D, map_fst_zero.
Qed.

(* ---- the key sets of the code cover the documented status ranges (generated tables) *)
Lemma keys_nodup :
  NoDup feature_keys /\ NoDup rule_keys /\ NoDup element_keys /\ NoDup step_keys /\ NoDup collector_keys.
Proof.
  repeat split;
    repeat (constructor; [cbn; intuition discriminate|]); constructor.
Qed.

Lemma element_keys_cover s :
  elem_status s = true ->
  existsb (fun k => status_eqb k s) element_keys = true /\
  existsb (fun k => status_eqb k s) feature_keys = true /\
  existsb (fun k => status_eqb k s) rule_keys = true /\
  existsb (fun k => status_eqb k s) collector_keys = true.
Proof. destruct s; cbn; try discriminate; intros _; vm_compute; auto. Qed.

Lemma step_keys_cover s :
  step_status s = true ->
  existsb (fun k => status_eqb k s) step_keys = true /\
  existsb (fun k => status_eqb k s) collector_keys = true.
Proof. destruct s; cbn; try discriminate; intros _; vm_compute; auto. Qed.

(* ---- statuses of a result forest in range *)
Lemma all_some_ok (l : list (option status)) :
  forallb (fun o => match o with Some s => elem_status s | None => false end) l = true ->
  exists l', all_some l = Some l' /\ forallb elem_status l' = true /\ map Some l' = l.
Proof.
  induction l as [|o r IH]; cbn; [exists []; auto|]. intros H. apply andb_true_iff in H as [H1 H2].
  destruct o as [s|]; [|discriminate]. destruct (IH H2) as [l' [A [B C]]]. rewrite A.
  exists (s :: l'). cbn. rewrite H1, B, C. auto.
Qed.

Lemma forallb_flat_map {A B} (p : B -> bool) (f : A -> list B) l :
  forallb p (flat_map f l) = forallb (fun a => forallb p (f a)) l.
Proof. induction l; cbn; [reflexivity|]. now rewrite forallb_app, IHl. Qed.

Lemma scen_results_ok fs :
  forallb feat_res_ok fs = true -> forallb scen_res_ok (scen_results fs) = true.
Proof.
  intros H. unfold scen_results. rewrite forallb_flat_map. rewrite forallb_forall in *. intros f Hf.
  specialize (H f Hf). unfold feat_res_ok in H. apply andb_true_iff in H as [_ H].
  rewrite forallb_flat_map. rewrite forallb_forall in *. intros i Hi. specialize (H i Hi).
  destruct i as [x|r]; cbn in *.
  - destruct x; cbn in *; [now rewrite H|]. apply andb_true_iff in H as [_ H]. exact H.
  - unfold rule_res_ok in H. apply andb_true_iff in H as [_ H].
    rewrite forallb_flat_map. rewrite forallb_forall in *. intros x Hx. specialize (H x Hx).
    destruct x; cbn in *; [now rewrite H|]. apply andb_true_iff in H as [_ H]. exact H.
Qed.

Lemma ranges_of_ok fs :
  forallb feat_res_ok fs = true ->
  forallb elem_status (feature_statuses fs) = true /\
  forallb elem_status (rule_statuses fs) = true /\
  forallb (fun o => match o with Some s => elem_status s | None => false end) (scenario_statuses fs) = true /\
  forallb step_status (step_statuses fs) = true.
Proof.
  intros H. pose proof (scen_results_ok fs H) as Hs. repeat split.
  - unfold feature_statuses. rewrite forallb_forall in *. intros s Hs'. apply in_map_iff in Hs' as [f [<- Hf]].
    specialize (H f Hf). unfold feat_res_ok in H. now apply andb_true_iff in H as [H _].
  - unfold rule_statuses, rule_results. rewrite forallb_forall in *. intros s Hs'.
    apply in_map_iff in Hs' as [r [<- Hr]]. apply in_flat_map in Hr as [f [Hf Hr]].
    apply in_flat_map in Hr as [i [Hi Hr]]. destruct i as [x|r']; [destruct Hr|].
    destruct Hr as [<-|[]]. specialize (H f Hf). unfold feat_res_ok in H. apply andb_true_iff in H as [_ H].
    rewrite forallb_forall in H. specialize (H _ Hi). cbn in H. unfold rule_res_ok in H.
    now apply andb_true_iff in H as [H _].
  - unfold scenario_statuses. rewrite forallb_forall in *. intros o Ho. apply in_map_iff in Ho as [r [<- Hr]].
    specialize (Hs r Hr). unfold scen_res_ok in Hs. now apply andb_true_iff in Hs as [_ Hs].
  - unfold step_statuses. rewrite forallb_flat_map. rewrite forallb_forall in *. intros r Hr.
    specialize (Hs r Hr). unfold scen_res_ok in Hs. now apply andb_true_iff in Hs as [Hs _].
Qed.

(* ---- conservation *)
Definition census_ok (sm : summary) (fs : list feat_res) : Prop :=
  exists scs, map Some scs = scenario_statuses fs /\
  (forall x, tlookup (sm_features sm) x = count_st x (feature_statuses fs)) /\
  (forall x, tlookup (sm_rules sm) x = count_st x (rule_statuses fs)) /\
  (forall x, tlookup (sm_scenarios sm) x = count_st x scs) /\
  (forall x, tlookup (sm_steps sm) x = count_st x (step_statuses fs)) /\
  table_sum (sm_features sm) = length fs /\
  table_sum (sm_rules sm) = length (rule_results fs) /\
  table_sum (sm_scenarios sm) = length (scen_results fs) /\
  table_sum (sm_steps sm) = length (step_statuses fs) /\
  sm_failing sm = problem_ids is_failure fs /\ sm_errored sm = problem_ids is_error fs.

Lemma summarize_spec fk rk sk stk fs :
  NoDup fk -> NoDup rk -> NoDup sk -> NoDup stk ->
  (forall s, elem_status s = true ->
     existsb (fun k => status_eqb k s) fk = true /\ existsb (fun k => status_eqb k s) rk = true /\
     existsb (fun k => status_eqb k s) sk = true) ->
  (forall s, step_status s = true -> existsb (fun k => status_eqb k s) stk = true) ->
  forallb feat_res_ok fs = true ->
  exists sm, summarize fk rk sk stk fs = Some sm /\ census_ok sm fs.
Proof.
  intros N1 N2 N3 N4 He Hst Hok. destruct (ranges_of_ok fs Hok) as (R1 & R2 & R3 & R4).
  unfold summarize. destruct (all_some_ok _ R3) as [scs [A [B C]]]. rewrite A.
  destruct (count_table_spec fk (feature_statuses fs) N1) as [tf [F1 [F2 [F3 _]]]].
  { rewrite forallb_forall in *. intros s Hs. now apply He, R1. }
  destruct (count_table_spec rk (rule_statuses fs) N2) as [tr [G1 [G2 [G3 _]]]].
  { rewrite forallb_forall in *. intros s Hs. now apply He, R2. }
  destruct (count_table_spec sk scs N3) as [ts [S1 [S2 [S3 _]]]].
  { rewrite forallb_forall in *. intros s Hs. now apply He, B. }
  destruct (count_table_spec stk (step_statuses fs) N4) as [tst [T1 [T2 [T3 _]]]].
  { rewrite forallb_forall in *. intros s Hs. now apply Hst, R4. }
  rewrite F1, G1, S1, T1. eexists; split; [reflexivity|].
  exists scs. cbn [sm_features sm_rules sm_scenarios sm_steps sm_failing sm_errored]. repeat split; auto.
  - rewrite F3. unfold feature_statuses. now rewrite map_length.
  - rewrite G3. unfold rule_statuses. now rewrite map_length.
  - rewrite S3. rewrite <- (map_length Some scs), C. unfold scenario_statuses. now rewrite map_length.
Qed.

Theorem reporter_conservation fs :
  forallb feat_res_ok fs = true -> exists sm, reporter_summary fs = Some sm /\ census_ok sm fs.
Proof.
  destruct keys_nodup as (N1 & N2 & N3 & N4 & N5).
  apply summarize_spec; auto.
  - intros s Hs. destruct (element_keys_cover s Hs) as (A & B & C & D). auto.
  - intros s Hs. now destruct (step_keys_cover s Hs).
Qed.

Theorem collector_conservation fs :
  forallb feat_res_ok fs = true -> exists sm, collector_summary fs = Some sm /\ census_ok sm fs.
Proof.
  destruct keys_nodup as (N1 & N2 & N3 & N4 & N5).
  apply summarize_spec; auto.
  - intros s Hs. destruct (element_keys_cover s Hs) as (A & B & C & D). auto.
  - intros s Hs. now destruct (step_keys_cover s Hs).
Qed.

(* the summary of a real run: no KeyError, exact census *)
Theorem run_summary_conservation cfg feats rs verdict ab evs :
  run_model cfg feats = (rs, verdict, ab, evs) ->
  (exists sm, reporter_summary rs = Some sm /\ census_ok sm rs) /\
  (exists sm, collector_summary rs = Some sm /\ census_ok sm rs).
Proof.
  intros H. apply run_statuses_in_range in H. split; [now apply reporter_conservation|now apply collector_conservation].
Qed.

(* ---- formats: what is printed is the table's count; a non-zero count of a key that has a
   place in STATUS_ORDER is always printed *)
Lemma parts_sound optional t s c : In (s, c) (parts optional t) -> c = tlookup t s /\ in_table t s = true.
Proof.
  unfold parts. intros H. apply in_flat_map in H as [x [Hx H]].
  destruct (in_table t x) eqn:E; [|destruct H].
  destruct (mem_status x optional && Nat.eqb (tlookup t x) 0); [destruct H|].
  destruct H as [H|[]]. inversion H; subst. auto.
Qed.

Lemma parts_complete optional t s :
  In s status_order -> in_table t s = true -> tlookup t s <> 0 -> In (s, tlookup t s) (parts optional t).
Proof.
  intros Hin Ht Hn. unfold parts. apply in_flat_map. exists s. split; [assumption|]. rewrite Ht.
  destruct (Nat.eqb (tlookup t s) 0) eqn:E; [apply Nat.eqb_eq in E; congruence|].
  rewrite andb_false_r. now left.
Qed.

Lemma all_keys_have_a_place :
  forallb (fun k => mem_status k status_order) (feature_keys ++ rule_keys ++ element_keys ++ step_keys) = true.
Proof. vm_compute. reflexivity. Qed.

Lemma format_numbers_sound f t s c :
  In (s, c) (snd (format_numbers f t)) -> c = tlookup t s.
Proof.
  destruct f; cbn [format_numbers snd]; intros H; try (now apply parts_sound in H).
  apply filter_In in H as [H _]. now apply parts_sound in H.
Qed.

Lemma format_numbers_complete f t s :
  In s status_order -> in_table t s = true -> tlookup t s <> 0 ->
  In (s, tlookup t s) (snd (format_numbers f t)) \/ (f = FV1B /\ s = passed /\ fst (format_numbers f t) = Some (tlookup t s)).
Proof.
  intros A B C. destruct f; cbn [format_numbers snd fst]; try (left; now apply parts_complete).
  destruct (status_eqb s passed) eqn:E.
  - apply status_eqb_eq in E; subst. right. auto.
  - left. apply filter_In. split; [now apply parts_complete|]. cbn. now rewrite E.
Qed.

Lemma format_total f t n : fst (format_numbers f t) = Some n -> n = table_sum t \/ (f = FV1B /\ n = tlookup t passed).
Proof. destruct f; cbn [format_numbers fst]; intros H; inversion H; auto. Qed.
