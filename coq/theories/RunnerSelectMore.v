(* RunnerSelectMore.v — C09, feature level: a feature none of whose scenarios is selected ends
   skipped and calls nothing; a rule / feature that ends skipped contains only skipped
   elements (so one containing a scenario that passed or failed does not end skipped). *)
From BV Require Import Base Status Rollup RollupProofs Runner RunnerSteps RunnerQuiet RunnerSelect RunnerLocal.
From BVGen Require Import StatusTable.

Definition fitem_nonempty (bg : list step) (it : fitem) : bool :=
  match it with
  | FItem i => sitem_nonempty bg i
  | FRule r => forallb (sitem_nonempty (bg ++ opt_steps (r_bg r))) (r_items r)
  end.

Lemma unselected_sitem_skipped cfg st bg anc it :
  aborted st = false -> sitem_any_sel cfg anc it = false -> sitem_nonempty bg it = true ->
  exists res ev, run_sitem cfg st bg anc it = (st, res, false, ev) /\
    item_status res = skipped /\ allq ev = true.
Proof.
  intros Ha Hs Hn.
  destruct (unselected_sitems_skipped cfg bg anc [it] st Ha) as (rs & ev & E & A & B & Q).
  { cbn. now rewrite Hs, Hn. }
  cbn [run_sitems] in E.
  destruct (run_sitem cfg st bg anc it) as [[[st1 res] fld] ev1].
  inversion E; subst. rewrite app_nil_r in Q. rewrite orb_false_r in *.
  cbn in A. rewrite andb_true_r in A. apply status_eqb_eq in A.
  match goal with H : _ = false |- _ => rewrite H end.
  exists res, ev1. auto.
Qed.

Lemma unselected_fitems_skipped cfg bg hb anc items : forall st,
  aborted st = false ->
  forallb (fun it => negb (fitem_runs cfg anc it) && fitem_nonempty bg it) items = true ->
  exists rs ev, run_fitems cfg st bg hb anc items false = (st, rs, false, ev) /\
    forallb (fun r => status_eqb (fitem_status r) skipped) rs = true /\ length rs = length items /\
    allq ev = true.
Proof.
  induction items as [|it r IH]; intros st Ha Hall; cbn [run_fitems].
  - eexists; eexists; split; [reflexivity|]. repeat split; reflexivity.
  - cbn [forallb] in Hall. apply andb_true_iff in Hall as [H1 H2].
    apply andb_true_iff in H1 as [Hs Hn]. apply negb_true_iff in Hs.
    destruct (IH st Ha H2) as (rs & ev & E & A & B & Q).
    destruct it as [i|rl]; cbn [run_fitem fitem_runs fitem_nonempty] in *.
    + destruct (unselected_sitem_skipped cfg st bg anc i Ha Hs Hn) as (res & ev1 & E1 & S1 & Q1).
      rewrite E1. rewrite Ha. cbn [andb]. rewrite E.
      eexists; eexists; split; [reflexivity|]. cbn [forallb length fitem_status]. rewrite S1, A, B.
      repeat split. now rewrite allq_app, Q1, Q.
    + destruct (unselected_rule_is_skipped cfg st rl anc bg hb Ha Hs Hn) as (res & ev1 & E1 & S1 & _ & Q1).
      rewrite E1. rewrite Ha. cbn [andb]. rewrite E.
      eexists; eexists; split; [reflexivity|]. cbn [forallb length fitem_status]. rewrite S1, A, B.
      repeat split. now rewrite allq_app, Q1, Q.
Qed.

Theorem unselected_feature_is_skipped cfg st f :
  aborted st = false ->
  feature_should_run cfg f = false ->
  forallb (fitem_nonempty (opt_steps (f_bg f))) (f_items f) = true ->
  exists res ev, run_feature cfg st f = (st, res, false, ev) /\
    fr_status res = skipped /\ fr_hook_failed res = false /\ allq ev = true.
Proof.
  intros Ha Hs Hn. unfold run_feature, feature_runs. rewrite Hs. rewrite andb_false_r. cbn [orb andb].
  unfold feature_should_run in Hs. apply orb_false_iff in Hs as [_ Hitems].
  assert (Hall : forallb (fun it => negb (fitem_runs (items_cfg cfg false) (f_tags f) it) &&
                                     fitem_nonempty (opt_steps (f_bg f)) it) (f_items f) = true).
  { rewrite forallb_forall in *. intros x Hx. rewrite (Hn x Hx), andb_true_r. apply negb_true_iff.
    apply fitem_runs_le. change (fitem_should_run (items_cfg cfg false) (f_tags f) x) with (fitem_should_run cfg (f_tags f) x).
    destruct (fitem_should_run cfg (f_tags f) x) eqn:Ex; [|reflexivity].
    assert (existsb (fitem_should_run cfg (f_tags f)) (f_items f) = true)
      by (apply existsb_exists; exists x; auto). congruence. }
  destruct (unselected_fitems_skipped (items_cfg cfg false) (opt_steps (f_bg f))
              (match f_bg f with Some _ => true | None => false end) (f_tags f) (f_items f)
              (push st) Ha Hall) as (rs & ev & E & A & B & Q).
  rewrite Ha. rewrite E. rewrite pop_push.
  eexists; eexists; split; [reflexivity|]. cbn [fr_status fr_hook_failed].
  split; [|split; [reflexivity|]].
  - destruct (f_items f) as [|i0 r0] eqn:Ei; [reflexivity|].
    apply container_skipped_iff. rewrite forallb_forall in *. intros x Hx.
    apply in_map_iff in Hx as [y [<- Hy]]. exact (A y Hy).
  - cbn [app]. rewrite !allq_app, Q. cbn [andb].
    destruct (c_show_skipped cfg); [|reflexivity].
    destruct (match f_bg f with Some _ => true | None => false end); reflexivity.
Qed.

(* ---- the converse: skipped only if everything in it is skipped *)
Lemma run_sitems_nil_items cfg st bg anc stopped :
  run_sitems cfg st bg anc [] stopped = (st, [], false, []).
Proof. reflexivity. Qed.

Theorem skipped_rule_contains_only_skipped_elements cfg st r anc inh fhb st' res fld ev :
  run_rule cfg st r anc inh fhb = (st', res, fld, ev) ->
  rr_status res = skipped ->
  forallb (fun x => status_eqb (item_status x) skipped) (rr_items res) = true.
Proof.
  unfold run_rule. cbv zeta.
  set (hc := negb (c_dry cfg) && rule_runs cfg anc r).
  match goal with |- context [if hc then ?A else ?B] => destruct (if hc then A else B) as [[st1 hf] evb] end.
  match goal with |- context [run_sitems ?a ?b ?c0 ?d ?e ?f] =>
    destruct (run_sitems a b c0 d e f) as [[[st2 rs] itf] evi] eqn:E3 end.
  match goal with |- context [if hc then ?A else ?B] => destruct (if hc then A else B) as [[st3 hf2] eva] end.
  destruct (pop st3) as [[st4 cr] evp].
  intros E; inversion E; subst; clear E. cbn [rr_status rr_items].
  destruct cr; [discriminate|].
  destruct (hc && hf2) eqn:Hh; [discriminate|].
  destruct (r_items r) as [|i0 r0] eqn:Ei.
  - cbn in E3. inversion E3; subst. reflexivity.
  - unfold container_compute. destruct hf2; [discriminate|]. intros H.
    apply container_skipped_iff in H. rewrite forallb_forall in *. intros x Hx.
    apply H. apply in_map. exact Hx.
Qed.

Theorem skipped_feature_contains_only_skipped_elements cfg st f st' res fld ev :
  run_feature cfg st f = (st', res, fld, ev) ->
  fr_status res = skipped ->
  forallb (fun x => status_eqb (fitem_status x) skipped) (fr_items res) = true.
Proof.
  unfold run_feature. cbv zeta.
  set (hc := negb (c_dry cfg) && feature_should_run cfg f).
  match goal with |- context [if hc then ?A else ?B] => destruct (if hc then A else B) as [[st1 hf] evb] end.
  match goal with |- context [run_fitems ?a ?b ?c0 ?d ?e ?f0 ?g] =>
    destruct (run_fitems a b c0 d e f0 g) as [[[st2 rs] itf] evi] eqn:E3 end.
  match goal with |- context [if hc then ?A else ?B] => destruct (if hc then A else B) as [[st3 hf2] eva] end.
  destruct (pop st3) as [[st4 cr] evp].
  intros E; inversion E; subst; clear E. cbn [fr_status fr_items].
  destruct cr; [discriminate|].
  destruct (hc && hf2) eqn:Hh; [discriminate|].
  destruct (f_items f) as [|i0 r0] eqn:Ei.
  - cbn in E3. inversion E3; subst. reflexivity.
  - unfold container_compute. destruct hf2; [discriminate|]. intros H.
    apply container_skipped_iff in H. rewrite forallb_forall in *. intros x Hx.
    apply H. apply in_map. exact Hx.
Qed.

(* ---- explicit exclusion (element.skip() from the feature's before_feature hook) *)
Lemma excluded_none cfg eff : (forall t, c_excl cfg t = false) -> excluded cfg eff = false.
Proof. intros H. unfold excluded. induction eff as [|t r IH]; cbn; [reflexivity|]. now rewrite H, IH. Qed.

Lemma sel_without_exclusions cfg eff : (forall t, c_excl cfg t = false) -> sel cfg eff = c_expr cfg eff.
Proof. intros H. unfold sel. rewrite (excluded_none _ _ H). apply andb_true_r. Qed.

(* before the hook ran (dry run, feature not selected) or without a before_feature hook nothing is excluded *)
Lemma items_cfg_off cfg hc t :
  hc && c_hooks cfg HBeforeFeature = false -> c_excl (items_cfg cfg hc) t = false.
Proof. cbn. intros ->. reflexivity. Qed.

Lemma items_cfg_on cfg t :
  c_hooks cfg HBeforeFeature = true -> c_excl (items_cfg cfg true) t = c_excl cfg t.
Proof. cbn. intros ->. reflexivity. Qed.

Theorem excluded_rule_is_skipped cfg st r anc inh fhb :
  aborted st = false ->
  excluded cfg (r_tags r ++ anc) = true ->
  forallb (sitem_nonempty (inh ++ opt_steps (r_bg r))) (r_items r) = true ->
  exists res ev, run_rule cfg st r anc inh fhb = (st, res, false, ev) /\
    rr_status res = skipped /\ rr_hook_failed res = false /\ allq ev = true.
Proof.
  intros Ha Hx Hn. apply unselected_rule_is_skipped; try assumption.
  unfold rule_runs. rewrite Hx. apply andb_false_r.
Qed.

(* a feature that its own before_feature hook excluded: the hooks of the feature itself have
   been called, everything inside is skipped and calls nothing *)
Theorem excluded_feature_items_are_skipped cfg bg hb f : forall st,
  aborted st = false ->
  excluded cfg (f_tags f) = true ->
  forallb (fitem_nonempty bg) (f_items f) = true ->
  exists rs ev, run_fitems cfg st bg hb (f_tags f) (f_items f) false = (st, rs, false, ev) /\
    forallb (fun r => status_eqb (fitem_status r) skipped) rs = true /\ allq ev = true.
Proof.
  intros st Ha Hx Hn.
  destruct (unselected_fitems_skipped cfg bg hb (f_tags f) (f_items f) st Ha) as (rs & ev & E & A & _ & Q).
  { rewrite forallb_forall in *. intros x Hin. rewrite (Hn x Hin), andb_true_r. apply negb_true_iff.
    destruct x as [i|r]; cbn [fitem_runs].
    - now apply sitem_any_sel_excluded.
    - unfold rule_runs. rewrite (excluded_inherited _ (r_tags r) _ Hx). apply andb_false_r. }
  exists rs, ev. auto.
Qed.
