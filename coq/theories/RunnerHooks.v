(* RunnerHooks.v — C12: the shape of the hook trace at every level (nested order, after-hooks
   always paired), which element a hook fault marks, and that a failing before-hook keeps the
   body from running. *)
From BV Require Import Base Status Rollup Runner RunnerSteps RunnerQuiet.
From BVGen Require Import StatusTable.

Fixpoint hooks_of (ev : list event) : list (hookname * nat) :=
  match ev with
  | [] => []
  | EHook h k _ :: r => (h, k) :: hooks_of r
  | _ :: r => hooks_of r
  end.

Lemma hooks_of_app a b : hooks_of (a ++ b) = hooks_of a ++ hooks_of b.
Proof. induction a as [|e a IH]; [reflexivity|]. destruct e; cbn; now rewrite ?IH. Qed.

Lemma hooks_of_quiet ev : allq ev = true -> hooks_of ev = [].
Proof.
  induction ev as [|e ev IH]; [reflexivity|]. cbn. intros H. apply andb_true_iff in H as [He Hl].
  destruct e; cbn in *; try discriminate; auto.
Qed.

Lemma run_tag_hooks_calls cfg h tags : forall st st' r ev,
  run_tag_hooks cfg st h tags = (st', r, ev) -> call_ids ev = [].
Proof.
  induction tags as [|t tags IH]; intros st st' r ev; cbn [run_tag_hooks].
  - intros E; inversion E; subst. reflexivity.
  - destruct (run_hook cfg st h t) as [[s1 x1] y1] eqn:G1.
    destruct (run_tag_hooks cfg s1 h tags) as [[s2 x2] y2] eqn:G2.
    apply run_hook_calls in G1 as [G1 _]. apply IH in G2.
    intros E; inversion E; subst. now rewrite call_ids_app, G1, G2.
Qed.

(* every hook is defined and this is not a dry run *)
Definition all_hooks (cfg : config) : Prop := c_dry cfg = false /\ forall h, c_hooks cfg h = true.

Lemma run_hook_hooks cfg (H : all_hooks cfg) st h k st' r ev :
  run_hook cfg st h k = (st', r, ev) -> hooks_of ev = [(h, k)] /\ r = c_faults cfg h k.
Proof.
  destruct H as [Hd Hh]. unfold run_hook. rewrite Hd, Hh. cbn [orb negb].
  destruct (c_faults cfg h k), (c_aborts cfg h k); intros E; inversion E; subst; auto.
Qed.

Lemma run_tag_hooks_hooks cfg (H : all_hooks cfg) h tags : forall st st' r ev,
  run_tag_hooks cfg st h tags = (st', r, ev) ->
  hooks_of ev = map (pair h) tags /\ r = existsb (c_faults cfg h) tags.
Proof.
  induction tags as [|t tags IH]; intros st st' r ev; cbn [run_tag_hooks].
  - intros E; inversion E; subst. auto.
  - destruct (run_hook cfg st h t) as [[st1 b1] e1] eqn:E1.
    destruct (run_tag_hooks cfg st1 h tags) as [[st2 b2] e2] eqn:E2.
    apply (run_hook_hooks cfg H) in E1 as [A1 A2]. apply IH in E2 as [B1 B2].
    intros E; inversion E; subst. rewrite hooks_of_app, A1, B1. auto.
Qed.

Definition step_hook (hk : hookname * nat) : bool :=
  match fst hk with HBeforeStep | HAfterStep => true | _ => false end.

(* a defined step: before_step and after_step, both, whatever raises in between *)
Lemma run_defined_step_hooks cfg (H : all_hooks cfg) st wip scid k id st' status skip ev :
  run_defined_step cfg st wip scid k id = (st', status, skip, ev) ->
  hooks_of ev = [(HBeforeStep, id); (HAfterStep, id)].
Proof.
  unfold run_defined_step.
  destruct (run_hook cfg st HBeforeStep id) as [[st1 rb] eb] eqn:E1.
  apply (run_hook_hooks cfg H) in E1 as [A1 A2].
  destruct rb;
    match goal with |- context [run_hook ?c ?stx HAfterStep id] =>
      destruct (run_hook c stx HAfterStep id) as [[st3 ra] ea] eqn:E3 end;
    apply (run_hook_hooks cfg H) in E3 as [B1 B2];
    intros E; inversion E; subst; clear E;
    change (EFmt (FMatch true) :: ?x) with ([EFmt (FMatch true)] ++ x);
    repeat (rewrite ?hooks_of_app; cbn [hooks_of app]); rewrite A1, B1; reflexivity.
Qed.

Lemma run_step_hooks cfg (H : all_hooks cfg) st wip scid s st' status skip ev :
  run_step cfg st wip scid s = (st', status, skip, ev) ->
  forallb step_hook (hooks_of ev) = true.
Proof.
  unfold run_step. destruct (st_kind s);
    try (intros E; apply (run_defined_step_hooks cfg H) in E; rewrite E; reflexivity).
  intros E; inversion E; subst. reflexivity.
Qed.

Lemma steps_loop_hooks cfg (H : all_hooks cfg) wip dry scid steps : forall st l st' l' sts ev,
  steps_loop cfg st wip dry scid l steps = (st', l', sts, ev) ->
  forallb step_hook (hooks_of ev) = true.
Proof.
  induction steps as [|s r IH]; intros st l st' l' sts ev; cbn [steps_loop].
  - intros E; inversion E; subst. reflexivity.
  - destruct (l_run_steps l).
    + destruct (run_step cfg st wip scid s) as [[[st1 status] skip] ev1] eqn:E1.
      apply (run_step_hooks cfg H) in E1.
      match goal with |- context [steps_loop cfg st1 wip dry scid ?l1 r] =>
        destruct (steps_loop cfg st1 wip dry scid l1 r) as [[[st2 l2] sts2] ev2] eqn:E2 end.
      apply IH in E2. intros E; inversion E; subst; clear E.
      now rewrite hooks_of_app, forallb_app, E1, E2.
    + destruct (l_failed l || dry).
      * match goal with |- context [let '(status, ev) := ?X in _] => destruct X as [status0 ev0] eqn:E0 end.
        destruct (steps_loop cfg st wip dry scid l r) as [[[st2 l2] sts2] ev2] eqn:E2.
        apply IH in E2. intros E; inversion E; subst; clear E. rewrite hooks_of_app, forallb_app, E2.
        destruct (st_kind s), dry; inversion E0; subst; reflexivity.
      * destruct (steps_loop cfg st wip dry scid l r) as [[[st2 l2] sts2] ev2] eqn:E2.
        apply IH in E2. intros E; inversion E; subst; clear E. assumption.
Qed.

(* ---- scenario: before_tag* before_scenario <step hooks> after_scenario after_tag*,
   the closing part unconditionally; hook_failed = one of ITS OWN hook sites raised;
   a raising opening hook leaves the body empty and every step untested *)
Definition scen_opens_fault (cfg : config) (id : nat) (own : list nat) : bool :=
  existsb (c_faults cfg HBeforeTag) own || c_faults cfg HBeforeScenario id.
Definition scen_closes_fault (cfg : config) (id : nat) (own : list nat) : bool :=
  c_faults cfg HAfterScenario id || existsb (c_faults cfg HAfterTag) own.

Theorem scenario_hooks_shape cfg (H : all_hooks cfg) st id all_steps oe eff own st' res fld ev :
  sel cfg eff = true ->
  run_scenario cfg st id all_steps oe eff own = (st', res, fld, ev) ->
  exists body,
    hooks_of ev = map (pair HBeforeTag) own ++ [(HBeforeScenario, id)] ++ body
                  ++ [(HAfterScenario, id)] ++ map (pair HAfterTag) own /\
    forallb step_hook body = true /\
    sr_hook_failed res = scen_opens_fault cfg id own || scen_closes_fault cfg id own /\
    (scen_opens_fault cfg id own = true ->
       body = [] /\ call_ids ev = [] /\ sr_steps res = map (fun _ => untested) all_steps) /\
    (sr_hook_failed res = true -> fld = true).
Proof.
  intros He. pose proof H as [Hd Hh]. unfold run_scenario. rewrite He, Hd. cbn [negb andb orb].
  destruct (run_tag_hooks cfg (push st) HBeforeTag own) as [[sa b1] e1] eqn:E1.
  pose proof (run_tag_hooks_calls _ _ _ _ _ _ _ E1) as C1.
  apply (run_tag_hooks_hooks cfg H) in E1 as [A1 A2].
  destruct (run_hook cfg sa HBeforeScenario id) as [[sb b2] e2] eqn:E2.
  pose proof E2 as E2c. apply run_hook_calls in E2c as [C2 _].
  apply (run_hook_hooks cfg H) in E2 as [B1 B2].
  match goal with |- context [scenario_steps ?a ?b ?c ?d ?e ?f ?g ?h] =>
    destruct (scenario_steps a b c d e f g h) as [[[st2 l2] statuses] ev_steps] eqn:E3 end.
  destruct (run_hook cfg st2 HAfterScenario id) as [[sc b3] e3] eqn:E4.
  pose proof E4 as E4c. apply run_hook_calls in E4c as [C4 _].
  apply (run_hook_hooks cfg H) in E4 as [D1 D2].
  destruct (run_tag_hooks cfg sc HAfterTag own) as [[sd b4] e4] eqn:E5.
  pose proof (run_tag_hooks_calls _ _ _ _ _ _ _ E5) as C5.
  apply (run_tag_hooks_hooks cfg H) in E5 as [F1 F2].
  destruct (pop sd) as [[st4 cr] ev_pop] eqn:E6. apply pop_quiet in E6.
  intros E; inversion E; subst; clear E.
  exists (hooks_of ev_steps). cbn [sr_hook_failed sr_steps].
  assert (Hann : hooks_of (map (fun s => EFmt (FStepAnn (st_id s))) all_steps) = [])
    by (clear; induction all_steps; cbn; auto).
  assert (Hannc : call_ids (map (fun s => EFmt (FStepAnn (st_id s))) all_steps) = [])
    by (clear; induction all_steps; cbn; auto).
  repeat split.
  - repeat (rewrite ?hooks_of_app; cbn [hooks_of]).
    rewrite A1, B1, D1, F1, Hann, (hooks_of_quiet _ E6). cbn [app].
    now rewrite app_nil_r, <- !app_assoc.
  - unfold scenario_steps in E3.
    destruct (existsb (c_faults cfg HBeforeTag) own || c_faults cfg HBeforeScenario id || aborted sb).
    + inversion E3; subst. reflexivity.
    + eapply steps_loop_hooks; eauto.
  - unfold scen_opens_fault, scen_closes_fault. now rewrite !orb_assoc.
  - unfold scen_opens_fault in H0. unfold scenario_steps in E3. rewrite H0 in E3. cbn [orb] in E3.
    inversion E3; subst. reflexivity.
  - unfold scen_opens_fault in H0. unfold scenario_steps in E3. rewrite H0 in E3. cbn [orb] in E3.
    inversion E3; subst.
    repeat (rewrite ?call_ids_app; cbn [call_ids]).
    rewrite C1, C2, Hannc, C4, C5, (allq_calls _ E6). reflexivity.
  - unfold scen_opens_fault in H0. unfold scenario_steps in E3. rewrite H0 in E3. cbn [orb] in E3.
    inversion E3; subst. reflexivity.
  - intros Hf. rewrite Hf. now rewrite orb_true_r.
Qed.

(* ---- containers that were stopped before they started run nothing *)
Lemma run_rows_stopped cfg all_steps oe anc rows : forall st,
  run_rows cfg st all_steps oe anc rows true =
  (st, map (fun rw => notrun_scenario (rw_id rw) all_steps) rows, false, []).
Proof. induction rows as [|rw r IH]; intros st; cbn [run_rows map]; [reflexivity|]. now rewrite IH. Qed.

Lemma run_sitems_stopped cfg bg anc items : forall st,
  run_sitems cfg st bg anc items true = (st, map (notrun_sitem bg) items, false, []).
Proof. induction items as [|it r IH]; intros st; cbn [run_sitems map]; [reflexivity|]. now rewrite IH. Qed.

Lemma run_fitems_stopped cfg bg hb anc items : forall st,
  run_fitems cfg st bg hb anc items true = (st, map (notrun_fitem bg) items, false, []).
Proof. induction items as [|it r IH]; intros st; cbn [run_fitems map]; [reflexivity|]. now rewrite IH. Qed.

Lemma run_features_stopped cfg fs : forall st,
  run_features cfg st fs false = (st, map notrun_feature fs, false, []).
Proof. induction fs as [|f r IH]; intros st; cbn [run_features map]; [reflexivity|]. now rewrite IH. Qed.

Definition opens_fault (cfg : config) (hb : hookname) (id : nat) (tags : list nat) : bool :=
  existsb (c_faults cfg HBeforeTag) tags || c_faults cfg hb id.
Definition closes_fault (cfg : config) (ha : hookname) (id : nat) (tags : list nat) : bool :=
  c_faults cfg ha id || existsb (c_faults cfg HAfterTag) tags.

Theorem rule_hooks_shape cfg (H : all_hooks cfg) st r anc inh fhb st' res fld ev :
  rule_runs cfg anc r = true ->
  run_rule cfg st r anc inh fhb = (st', res, fld, ev) ->
  exists body,
    hooks_of ev = map (pair HBeforeTag) (r_tags r) ++ [(HBeforeRule, r_id r)] ++ body
                  ++ [(HAfterRule, r_id r)] ++ map (pair HAfterTag) (r_tags r) /\
    rr_hook_failed res = opens_fault cfg HBeforeRule (r_id r) (r_tags r)
                         || closes_fault cfg HAfterRule (r_id r) (r_tags r) /\
    (opens_fault cfg HBeforeRule (r_id r) (r_tags r) = true ->
       body = [] /\ call_ids ev = [] /\
       rr_items res = map (notrun_sitem (inh ++ opt_steps (r_bg r))) (r_items r)) /\
    (rr_hook_failed res = true -> fld = true /\ (rr_status res = hook_error \/ rr_status res = error)).
Proof.
  intros Hs. pose proof H as [Hd Hh]. unfold run_rule. rewrite Hs, Hd. cbn [negb andb orb].
  destruct (run_tag_hooks cfg (push st) HBeforeTag (r_tags r)) as [[sa b1] e1] eqn:E1.
  pose proof (run_tag_hooks_calls _ _ _ _ _ _ _ E1) as C1.
  apply (run_tag_hooks_hooks cfg H) in E1 as [A1 A2].
  destruct (run_hook cfg sa HBeforeRule (r_id r)) as [[sb b2] e2] eqn:E2.
  pose proof E2 as E2c. apply run_hook_calls in E2c as [C2 _].
  apply (run_hook_hooks cfg H) in E2 as [B1 B2].
  match goal with |- context [run_sitems ?a ?b ?c ?d ?e ?f] =>
    destruct (run_sitems a b c d e f) as [[[st2 rs] itf] evi] eqn:E3 end.
  destruct (run_hook cfg st2 HAfterRule (r_id r)) as [[sc b3] e3] eqn:E4.
  pose proof E4 as E4c. apply run_hook_calls in E4c as [C4 _].
  apply (run_hook_hooks cfg H) in E4 as [D1 D2].
  destruct (run_tag_hooks cfg sc HAfterTag (r_tags r)) as [[sd b4] e4] eqn:E5.
  pose proof (run_tag_hooks_calls _ _ _ _ _ _ _ E5) as C5.
  apply (run_tag_hooks_hooks cfg H) in E5 as [F1 F2].
  destruct (pop sd) as [[st4 cr] ev_pop] eqn:E6. apply pop_quiet in E6.
  intros E; inversion E; subst; clear E.
  exists (hooks_of evi). cbn [rr_hook_failed rr_items rr_status].
  assert (Hann : forall (hb : bool) l, hooks_of (if hb then [EFmt (FBackground l)] else []) = []
                                       /\ call_ids (if hb then [EFmt (FBackground l)] else []) = [])
    by (intros [] l; split; reflexivity).
  repeat split.
  - repeat (rewrite ?hooks_of_app; cbn [hooks_of]). rewrite (proj1 (Hann _ _)).
    rewrite A1, B1, D1, F1, (hooks_of_quiet _ E6). cbn [app].
    now rewrite app_nil_r, <- !app_assoc.
  - unfold opens_fault, closes_fault. now rewrite !orb_assoc.
  - unfold opens_fault in H0. rewrite H0 in E3. cbn [orb] in E3. rewrite run_sitems_stopped in E3.
    inversion E3; subst. reflexivity.
  - unfold opens_fault in H0. rewrite H0 in E3. cbn [orb] in E3. rewrite run_sitems_stopped in E3.
    inversion E3; subst. repeat (rewrite ?call_ids_app; cbn [call_ids]). rewrite (proj2 (Hann _ _)).
    rewrite C1, C2, C4, C5, (allq_calls _ E6). reflexivity.
  - unfold opens_fault in H0. rewrite H0 in E3. cbn [orb] in E3. rewrite run_sitems_stopped in E3.
    inversion E3; subst. reflexivity.
  - rewrite H0. cbn. now rewrite !orb_true_r.
  - rewrite H0. destruct cr; auto.
Qed.

Theorem feature_hooks_shape cfg (H : all_hooks cfg) st f st' res fld ev :
  feature_should_run cfg f = true ->
  run_feature cfg st f = (st', res, fld, ev) ->
  exists body,
    hooks_of ev = map (pair HBeforeTag) (f_tags f) ++ [(HBeforeFeature, f_id f)] ++ body
                  ++ [(HAfterFeature, f_id f)] ++ map (pair HAfterTag) (f_tags f) /\
    fr_hook_failed res = opens_fault cfg HBeforeFeature (f_id f) (f_tags f)
                         || closes_fault cfg HAfterFeature (f_id f) (f_tags f) /\
    (opens_fault cfg HBeforeFeature (f_id f) (f_tags f) = true ->
       body = [] /\ call_ids ev = [] /\
       fr_items res = map (notrun_fitem (opt_steps (f_bg f))) (f_items f)) /\
    (fr_hook_failed res = true -> fld = true /\ (fr_status res = hook_error \/ fr_status res = error)).
Proof.
  intros Hs. pose proof H as [Hd Hh]. unfold run_feature. rewrite Hs, Hd. cbn [negb andb orb].
  destruct (run_tag_hooks cfg (push st) HBeforeTag (f_tags f)) as [[sa b1] e1] eqn:E1.
  pose proof (run_tag_hooks_calls _ _ _ _ _ _ _ E1) as C1.
  apply (run_tag_hooks_hooks cfg H) in E1 as [A1 A2].
  destruct (run_hook cfg sa HBeforeFeature (f_id f)) as [[sb b2] e2] eqn:E2.
  pose proof E2 as E2c. apply run_hook_calls in E2c as [C2 _].
  apply (run_hook_hooks cfg H) in E2 as [B1 B2].
  match goal with |- context [run_fitems ?a ?b ?c ?d ?e ?f ?g] =>
    destruct (run_fitems a b c d e f g) as [[[st2 rs] itf] evi] eqn:E3 end.
  destruct (run_hook cfg st2 HAfterFeature (f_id f)) as [[sc b3] e3] eqn:E4.
  pose proof E4 as E4c. apply run_hook_calls in E4c as [C4 _].
  apply (run_hook_hooks cfg H) in E4 as [D1 D2].
  destruct (run_tag_hooks cfg sc HAfterTag (f_tags f)) as [[sd b4] e4] eqn:E5.
  pose proof (run_tag_hooks_calls _ _ _ _ _ _ _ E5) as C5.
  apply (run_tag_hooks_hooks cfg H) in E5 as [F1 F2].
  destruct (pop sd) as [[st4 cr] ev_pop] eqn:E6. apply pop_quiet in E6.
  intros E; inversion E; subst; clear E.
  exists (hooks_of evi). cbn [fr_hook_failed fr_items fr_status].
  assert (Hann : forall (sh hb : bool) x l,
             hooks_of (if sh then EFmt x :: (if hb then [EFmt (FBackground l)] else []) else []) = []
             /\ call_ids (if sh then EFmt x :: (if hb then [EFmt (FBackground l)] else []) else []) = [])
    by (intros [] [] x l; split; reflexivity).
  assert (Heof : forall sh : bool, hooks_of (if sh then [EFmt FEof] else []) = []
                                  /\ call_ids (if sh then [EFmt FEof] else []) = [])
    by (intros []; split; reflexivity).
  repeat split.
  - repeat (rewrite ?hooks_of_app; cbn [hooks_of]). rewrite (proj1 (Hann _ _ _ _)), (proj1 (Heof _)).
    rewrite A1, B1, D1, F1, (hooks_of_quiet _ E6). cbn [app hooks_of].
    now rewrite !app_nil_r, <- !app_assoc.
  - unfold opens_fault, closes_fault. now rewrite !orb_assoc.
  - unfold opens_fault in H0. rewrite H0 in E3. cbn [orb] in E3. rewrite run_fitems_stopped in E3.
    inversion E3; subst. reflexivity.
  - unfold opens_fault in H0. rewrite H0 in E3. cbn [orb] in E3. rewrite run_fitems_stopped in E3.
    inversion E3; subst. repeat (rewrite ?call_ids_app; cbn [call_ids]). rewrite (proj2 (Hann _ _ _ _)), (proj2 (Heof _)).
    rewrite C1, C2, C4, C5, (allq_calls _ E6). reflexivity.
  - unfold opens_fault in H0. rewrite H0 in E3. cbn [orb] in E3. rewrite run_fitems_stopped in E3.
    inversion E3; subst. reflexivity.
  - rewrite H0. cbn. now rewrite !orb_true_r.
  - rewrite H0. destruct cr; auto.
Qed.

(* ---- the whole run: before_all first, after_all last; a failing before_all aborts *)
Theorem model_hooks_shape cfg (H : all_hooks cfg) fs rs verdict ab evs :
  run_model cfg fs = (rs, verdict, ab, evs) ->
  exists body,
    hooks_of evs = [(HBeforeAll, 0)] ++ body ++ [(HAfterAll, 0)] /\
    (c_faults cfg HBeforeAll 0 = true ->
       body = [] /\ call_ids evs = [] /\ rs = map notrun_feature fs /\ verdict = true /\ ab = true).
Proof.
  pose proof H as [Hd Hh]. unfold run_model.
  destruct (run_hook cfg (mkState false [[]]) HBeforeAll 0) as [[st1 r1] e1] eqn:E1.
  pose proof E1 as E1c. apply run_hook_calls in E1c as [C1 _].
  pose proof E1 as E1h. apply (run_hook_hooks cfg H) in E1h as [A1 A2].
  destruct (run_features cfg st1 fs (negb (aborted st1))) as [[[st2 rs2] anyf] e2] eqn:E2.
  destruct (run_hook cfg st2 HAfterAll 0) as [[st3 r3] e3] eqn:E3.
  pose proof E3 as E3c. apply run_hook_calls in E3c as [C3 _].
  pose proof E3 as E3h. apply (run_hook_hooks cfg H) in E3h as [B1 B2].
  intros E; inversion E; subst; clear E.
  exists (hooks_of e2). split.
  - repeat (rewrite ?hooks_of_app). rewrite A1, B1, (hooks_of_quiet _ (cleanup_events_quiet _)). reflexivity.
  - intros Hf. unfold run_hook in E1. rewrite Hd, Hh, Hf in E1. cbn in E1. inversion E1; subst.
    cbn [aborted set_aborted negb is_all_hook orb] in E2. rewrite run_features_stopped in E2. inversion E2; subst.
    repeat split; try reflexivity.
    + repeat (rewrite ?call_ids_app). rewrite C1, C3, (allq_calls _ (cleanup_events_quiet _)). reflexivity.
    + cbn [existsb hook_raised app orb]. now rewrite !orb_true_r.
    + unfold run_hook in E3. rewrite Hd, Hh in E3. cbn in E3.
      destruct (c_faults cfg HAfterAll 0), (c_aborts cfg HAfterAll 0); inversion E3; subst; reflexivity.
Qed.
