(* Rerun.v - the rerun formatter (behave/formatter/rerun.py) as a function of the results of a
   run, and its composition with the file:LINE selection of Select.v.  Model and lemmas. *)
From BV Require Import Base Status Rollup Runner Summary Select SelectProofs.
From BVGen Require Import StatusTable.

(* scenarios (outline rows included) whose final status has_failed, in run order *)
Definition rerun_ids (rs : list feat_res) : list nat :=
  map sr_id (filter (fun r => match sr_status r with Some s => has_failed s | None => false end) (scen_results rs)).

Definition rerun_file_written (rs : list feat_res) : bool :=
  match rerun_ids rs with [] => false | _ => true end.

Lemma rerun_lists_exactly_unsuccessful rs id :
  In id (rerun_ids rs) <->
  exists r, In r (scen_results rs) /\ sr_id r = id /\
            exists s, sr_status r = Some s /\ has_failed s = true.
Proof.
  unfold rerun_ids. rewrite in_map_iff. split.
  - intros [r [Hid Hin]]. apply filter_In in Hin as [Hin Hs]. exists r. repeat split; auto.
    destruct (sr_status r) as [s|]; [|discriminate]. exists s. auto.
  - intros [r [Hin [Hid [s [Hs Hf]]]]]. exists r. split; [exact Hid|]. apply filter_In. split; [exact Hin|].
    now rewrite Hs.
Qed.

Lemma rerun_file_removed_when_none rs :
  (forall r, In r (scen_results rs) -> forall s, sr_status r = Some s -> has_failed s = false) ->
  rerun_file_written rs = false.
Proof.
  intros H. unfold rerun_file_written, rerun_ids.
  assert (filter (fun r => match sr_status r with Some s => has_failed s | None => false end) (scen_results rs) = []) as ->; [|reflexivity].
  induction (scen_results rs) as [|r l IH]; [reflexivity|]. cbn.
  destruct (sr_status r) as [s|] eqn:E.
  - rewrite (H r (or_introl eq_refl) s E). apply IH. intros r' Hr'. apply H. now right.
  - apply IH. intros r' Hr'. apply H. now right.
Qed.

(* ---- feeding the listed locations back: every scenario / row is an entity of the line
   database at its own line, so its line selects exactly itself *)
Lemma scen_entry_in_data f s :
  In s (feature_scens f) -> In (ls_line s, [ls_id s]) (feature_data f).
Proof.
  unfold feature_scens, feature_data. intros H. right. right.
  apply in_flat_map in H as [i [Hi Hs]]. apply in_flat_map. exists i. split; [exact Hi|].
  assert (G : forall x, In s (item_scens x) -> In (ls_line s, [ls_id s]) (item_data x)).
  { intros x Hx. destruct x as [s0|line rows]; cbn in *.
    - destruct Hx as [->|[]]. now left.
    - right. apply in_map_iff. exists s. auto. }
  destruct i as [x|r]; cbn in *; [now apply G|].
  right. unfold rule_scens in Hs. apply in_flat_map in Hs as [x [Hx Hs]]. apply in_flat_map. exists x. auto.
Qed.

Lemma line_selects_own_scenario f s :
  NoDup (map fst (feature_data f)) -> In s (feature_scens f) ->
  select_line (line_db (feature_data f)) (ls_line s) = [ls_id s].
Proof.
  intros Hnd Hin. apply select_line_exact; [apply line_db_sorted|].
  apply line_db_complete; [exact Hnd|now apply scen_entry_in_data].
Qed.

Theorem feedback_selects_exactly_the_listed f (listed : list lscen) :
  NoDup (map fst (feature_data f)) ->
  (forall s, In s listed -> In s (feature_scens f) /\ 0 < ls_line s) ->
  selected_ids f (map (fun s => Some (ls_line s)) listed) = ids listed.
Proof.
  intros Hnd H. unfold selected_ids. induction listed as [|s r IH]; [reflexivity|].
  cbn [map flat_map]. destruct (H s (or_introl eq_refl)) as [Hin Hpos].
  assert (E : (0 <? ls_line s) = true) by now apply Nat.ltb_lt. rewrite E.
  rewrite (line_selects_own_scenario f s Hnd Hin). cbn [app ids map]. f_equal.
  apply IH. intros s' Hs'. apply H. now right.
Qed.
