(* GherkinProofs.v - proofs about Gherkin.v: error discipline (C05) *)
From BV Require Import Base UStr GherkinTypes Gherkin.
From BVGen Require Import UnicodeTables GherkinTables.

(* every function of the machine keeps the line counter, and every error it raises carries it *)
Definition good {A} (line_of : A -> nat) (n : nat) (r : res A) : Prop :=
  match r with ROk a => line_of a = n | RErr l => l = n end.
Definition goodm := good m_line.
Definition goodo (n : nat) (r : res (option mstate)) : Prop :=
  match r with ROk (Some m) => m_line m = n | ROk None => True | RErr l => l = n end.

Ltac destruct_inner :=
  match goal with
  | |- context [match ?x with _ => _ end] =>
      lazymatch x with
      | context [match _ with _ => _ end] => fail
      | _ => destruct x eqn:?
      end
  end.
Ltac crush_line := repeat destruct_inner; cbn; auto.

Lemma set_cur_rule_line m r : m_line (set_cur_rule m r) = m_line m.
Proof. unfold set_cur_rule. crush_line. Qed.
Lemma set_cont_bg_line m b : m_line (set_cont_bg m b) = m_line m.
Proof. unfold set_cont_bg. crush_line; apply set_cur_rule_line. Qed.
Lemma set_item_line m s : m_line (set_item m s) = m_line m.
Proof. unfold set_item. crush_line; apply set_cur_rule_line. Qed.
Lemma set_stmt_line m v : m_line (set_stmt m v) = m_line m.
Proof. unfold set_stmt. crush_line; auto using set_cont_bg_line, set_cur_rule_line, set_item_line. Qed.
Lemma add_item_line m s : m_line (add_item m s) = m_line m.
Proof. unfold add_item. crush_line; apply set_cur_rule_line. Qed.
Lemma set_last_step_line m f : m_line (set_last_step m f) = m_line m.
Proof. unfold set_last_step. crush_line; apply set_stmt_line. Qed.
Lemma close_table_line m : m_line (close_table m) = m_line m.
Proof. unfold close_table. crush_line; rewrite ?set_stmt_line, ?set_last_step_line; reflexivity. Qed.

Lemma build_rule_good m a n : goodm (m_line m) (build_rule m a n).
Proof. unfold goodm, good, build_rule. crush_line. Qed.
Lemma build_background_good m a n : goodm (m_line m) (build_background m a n).
Proof. unfold goodm, good, build_background. crush_line; apply set_cont_bg_line. Qed.
Lemma build_scenario_line m o a n : m_line (build_scenario m o a n) = m_line m.
Proof. unfold build_scenario. cbn. apply add_item_line. Qed.
Lemma build_examples_good m a n : goodm (m_line m) (build_examples m a n).
Proof. unfold goodm, good, build_examples. crush_line. apply set_stmt_line. Qed.

Lemma parse_step_good m s :
  match parse_step m s with
  | ROk (Some (st, m')) => m_line m' = m_line m
  | ROk None => True
  | RErr l => l = m_line m
  end.
Proof. unfold parse_step. crush_line. Qed.

Lemma append_step_line m st m' : append_step m st = Some m' -> m_line m' = m_line m.
Proof. unfold append_step. destruct (get_stmt m) as [v|]; [|discriminate]. destruct (view_steps v); [|discriminate].
  intros H. inversion H. apply set_stmt_line. Qed.

Definition starts_at (s : ustr) : bool := match s with 64%N :: _ => true | _ => false end.

Lemma match_at {A} (s : ustr) (x y : A) :
  match s with 64%N :: _ => x | _ => y end = if starts_at s then x else y.
Proof.
  destruct s as [|c r]; [reflexivity|]. destruct c as [|p]; [reflexivity|].
  destruct p as [p|p|]; try reflexivity; destruct p as [p|p|]; try reflexivity; destruct p as [p|p|]; try reflexivity;
    destruct p as [p|p|]; try reflexivity; destruct p as [p|p|]; try reflexivity; destruct p as [p|p|]; try reflexivity;
    destruct p as [p|p|]; reflexivity.
Qed.

Lemma sub_taggable_good m s : goodo (m_line m) (sub_taggable m s).
Proof.
  unfold goodo, sub_taggable. rewrite match_at. destruct (starts_at s).
  - destruct (tag_words (split_ws s) (m_line m)); cbn; auto.
  - destruct (first_alias (k_rule (m_kw m)) s) as [[a nm]|].
    { pose proof (build_rule_good m a nm) as G. unfold goodm, good in G. destruct (build_rule m a nm); cbn; auto. }
    destruct (first_alias (k_scenario (m_kw m)) s) as [[a nm]|]; [cbn; apply build_scenario_line|].
    destruct (first_alias (k_outline (m_kw m)) s) as [[a nm]|]; [cbn; apply build_scenario_line|].
    destruct (first_alias (k_examples (m_kw m)) s) as [[a nm]|]; [|exact I].
    pose proof (build_examples_good m a nm) as G. unfold goodm, good in G. destruct (build_examples m a nm); cbn; auto.
Qed.

Lemma a_initial_good m s : goodm (m_line m) (a_initial m s).
Proof.
  unfold goodm, good, a_initial. rewrite match_at. destruct (starts_at s).
  - destruct (tag_words (split_ws s) (m_line m)); cbn; auto.
  - destruct (first_alias (k_feature (m_kw m)) s) as [[a nm]|]; cbn; auto.
Qed.

Lemma add_feature_descr_good m d : goodm (m_line m) (add_feature_descr m d).
Proof. unfold goodm, good, add_feature_descr. crush_line. Qed.

Ltac use_sub m s :=
  let G := fresh "G" in
  pose proof (sub_taggable_good m s) as G; unfold goodo in G;
  destruct (sub_taggable m s) as [[?m'|]|?l]; cbn [rbind]; auto.

Lemma a_feature_good m s : goodm (m_line m) (a_feature m s).
Proof.
  unfold goodm, good, a_feature. use_sub m s.
  destruct (first_alias (k_background (m_kw m)) s) as [[a nm]|].
  - pose proof (build_background_good m a nm) as B. unfold goodm, good in B. destruct (build_background m a nm); cbn; auto.
  - apply add_feature_descr_good.
Qed.

Lemma a_taggable_good m s : goodm (m_line m) (a_taggable m s).
Proof. unfold goodm, good, a_taggable. use_sub m s. Qed.

Lemma a_rule_good m s : goodm (m_line m) (a_rule m s).
Proof.
  unfold goodm, good, a_rule. use_sub m s.
  destruct (first_alias (k_background (m_kw m)) s) as [[a nm]|].
  - pose proof (build_background_good m a nm) as B. unfold goodm, good in B. destruct (build_background m a nm); cbn; auto.
  - destruct (cur_rule m); cbn; auto. apply set_cur_rule_line.
Qed.

Lemma a_scenario_good m s : goodm (m_line m) (a_scenario m s).
Proof.
  unfold goodm, good, a_scenario. set (m1 := upd_last m None). change (m_line m) with (m_line m1).
  pose proof (parse_step_good m1 s) as P. destruct (parse_step m1 s) as [[[st m2]|]|l]; cbn [rbind]; auto.
  - destruct (append_step m2 st) as [m3|] eqn:A; cbn; auto. rewrite (append_step_line _ _ _ A). exact P.
  - use_sub m1 s. destruct (get_stmt m1); cbn; auto. apply (set_stmt_line m1).
Qed.

Lemma a_table_row_good m s : goodm (m_line m) (a_table_row m s).
Proof. unfold goodm, good, a_table_row. crush_line. Qed.

Definition starts_pipe (s : ustr) : bool := match s with 124%N :: _ => true | _ => false end.
Lemma match_pipe {A} (s : ustr) (x y : A) :
  match s with 124%N :: _ => x | _ => y end = if starts_pipe s then x else y.
Proof.
  destruct s as [|c r]; [reflexivity|]. destruct c as [|p]; [reflexivity|].
  destruct p as [p|p|]; try reflexivity; destruct p as [p|p|]; try reflexivity; destruct p as [p|p|]; try reflexivity;
    destruct p as [p|p|]; try reflexivity; destruct p as [p|p|]; try reflexivity; destruct p as [p|p|]; try reflexivity;
    destruct p as [p|p|]; reflexivity.
Qed.

Lemma a_steps_good m line : goodm (m_line m) (a_steps m line).
Proof.
  unfold goodm, good, a_steps. destruct (doc_fact line) as [[term col]|].
  - destruct (stmt_has_steps m); cbn; auto.
  - pose proof (parse_step_good m (strip line)) as P. destruct (parse_step m (strip line)) as [[[st m2]|]|l]; cbn [rbind]; auto.
    + destruct (append_step m2 st) as [m3|] eqn:A; cbn; auto. rewrite (append_step_line _ _ _ A). exact P.
    + use_sub m (strip line). rewrite match_pipe. destruct (starts_pipe (strip line)); [|reflexivity].
      destruct (stmt_has_steps m); [|reflexivity].
      pose proof (a_table_row_good (upd_st m StTable) (strip line)) as T. unfold goodm, good in T. exact T.
Qed.

Lemma a_table_good m line : goodm (m_line m) (a_table m line).
Proof.
  unfold goodm, good, a_table. rewrite match_pipe. destruct (starts_pipe (strip line)).
  - apply a_table_row_good.
  - pose proof (a_steps_good (upd_st (close_table m) StSteps) (strip line)) as S. unfold goodm, good in S.
    cbn [upd_st m_line] in S. rewrite close_table_line in S. exact S.
Qed.

Lemma a_multiline_good m line : goodm (m_line m) (a_multiline m line).
Proof. unfold goodm, good, a_multiline. crush_line. apply set_last_step_line. Qed.

Definition starts_hash (s : ustr) : bool := match s with 35%N :: _ => true | _ => false end.

Lemma action_good m line : goodm (m_line m) (action m line).
Proof.
  unfold action.
  destruct (m_st m) eqn:ST; try apply a_multiline_good;
    (destruct (strip line) as [|c r] eqn:SL;
     [ first [apply a_initial_good | apply a_feature_good | apply a_taggable_good | apply a_scenario_good | apply a_rule_good
             | apply a_steps_good | apply a_table_good]
     | destruct (N.eqb_spec c 35);
       [ subst c; unfold goodm, good; crush_line
       | assert (E : forall A (x y : A), match c with 35%N => x | _ => y end = y)
           by (intros A x y; destruct c as [|p]; [reflexivity|];
               destruct p as [p|p|]; try reflexivity; destruct p as [p|p|]; try reflexivity; destruct p as [p|p|]; try reflexivity;
               destruct p as [p|p|]; try reflexivity; destruct p as [p|p|]; try reflexivity; destruct p as [p|p|]; try reflexivity; congruence);
         rewrite E;
         first [apply a_initial_good | apply a_feature_good | apply a_taggable_good | apply a_scenario_good | apply a_rule_good
               | apply a_steps_good | apply a_table_good] ] ]).
Qed.

(* ---- the loop over lines ---- *)
Lemma feed_good m line : goodm (S (m_line m)) (feed (ROk m) line).
Proof.
  unfold feed. cbn [rbind]. set (m1 := upd_line m (S (m_line m))).
  assert (L : m_line m1 = S (m_line m)) by reflexivity. rewrite <- L.
  destruct (strip line) eqn:SL.
  - destruct (m_st m1); try reflexivity. apply action_good.
  - apply action_good.
Qed.

Lemma feed_err l line : feed (RErr l) line = RErr l.
Proof. reflexivity. Qed.

Lemma fold_feed_err lines l : fold_left feed lines (RErr l) = RErr l.
Proof. induction lines; cbn; auto. Qed.

(* after k lines: a state whose counter is k more, or an error at one of those k lines - the first rejected one *)
Theorem fold_feed_spec lines m :
  match fold_left feed lines (ROk m) with
  | ROk m' => m_line m' = m_line m + length lines
  | RErr l => exists pre line post mp,
                lines = pre ++ line :: post /\ l = m_line m + length pre + 1 /\
                fold_left feed pre (ROk m) = ROk mp /\ feed (ROk mp) line = RErr l
  end.
Proof.
  revert m. induction lines as [|line lines IH]; intros m; cbn [fold_left length].
  - lia.
  - pose proof (feed_good m line) as G. destruct (feed (ROk m) line) as [m1|l] eqn:F; unfold goodm, good in G.
    + specialize (IH m1). destruct (fold_left feed lines (ROk m1)) as [m2|l].
      * lia.
      * destruct IH as [pre [ln [post [mp [E [L [P Q]]]]]]]. exists (line :: pre), ln, post, mp.
        split; [now rewrite E|]. split; [cbn [length]; lia|]. split; [cbn [fold_left]; now rewrite F|exact Q].
    + rewrite fold_feed_err. exists [], line, lines, m. split; [reflexivity|]. split; [cbn [length]; lia|]. split; [reflexivity|exact F].
Qed.

Theorem parse_loop_error_line m0 text l :
  m_line m0 = 0 -> parse_loop m0 text = RErr l -> 1 <= l <= length (splitlines text).
Proof.
  unfold parse_loop, finish_table. intros Z H. pose proof (fold_feed_spec (splitlines text) m0) as S.
  destruct (fold_left feed (splitlines text) (ROk m0)) as [m|l'].
  - cbn [rbind] in H. destruct (m_table m); discriminate.
  - cbn [rbind] in H. inversion H. subst l'. destruct S as [pre [ln [post [mp [E [L _]]]]]].
    rewrite E, app_length. cbn [length]. lia.
Qed.

Lemma parse_tag_lines_error lines n l :
  parse_tag_lines lines n = RErr l -> n <= l < n + length lines.
Proof.
  revert n. induction lines as [|x lines IH]; intros n H; cbn [parse_tag_lines] in H; [discriminate|].
  cbn [length]. destruct (strip x) as [|c r] eqn:SX.
  - apply IH in H. lia.
  - rewrite (match_at (c :: r)) in H. destruct (starts_at (c :: r)).
    + match type of H with context [tag_words ?w n] => destruct (tag_words w n) as [ts|] end.
      * destruct (parse_tag_lines lines (S n)) as [rest|l'] eqn:R; cbn in H; [discriminate H|]. inversion H. subst. apply IH in R. lia.
      * inversion H. lia.
    + inversion H. lia.
Qed.

(* C05: whatever the text, parsing yields a model or a ParserError whose line is a line of the text *)
Theorem parse_total_with_usable_error_line e lang text r :
  parse e lang text = Some r ->
  (exists p, r = ROk p) \/ (exists l, r = RErr l /\ 1 <= l <= length (splitlines text)).
Proof.
  unfold parse. destruct e.
  1-4: destruct (lang_table lang) as [[code kw]|]; [|discriminate]; intros H; inversion H as [H']; clear H H';
       match goal with |- context [parse_loop ?m0 ?t] =>
         destruct (parse_loop m0 t) as [m|l] eqn:P; cbn [rbind]; [left; eauto|right; exists l; split; [reflexivity|];
         apply (parse_loop_error_line m0 t l); [reflexivity|exact P]] end.
  intros H. inversion H as [H']. clear H H'.
  destruct (parse_tag_lines (splitlines text) 1) as [t|l] eqn:P; cbn [rbind]; [left; eauto|right].
  exists l. split; [reflexivity|]. apply parse_tag_lines_error in P. lia.
Qed.

(* ... and an error is reported at the first line the machine rejects, all lines before it having been accepted *)
Theorem error_is_at_the_first_rejected_line m0 text l :
  m_line m0 = 0 -> parse_loop m0 text = RErr l ->
  exists pre line post mp,
    splitlines text = pre ++ line :: post /\ l = length pre + 1 /\
    fold_left feed pre (ROk m0) = ROk mp /\ feed (ROk mp) line = RErr l.
Proof.
  unfold parse_loop, finish_table. intros Z H. pose proof (fold_feed_spec (splitlines text) m0) as S.
  destruct (fold_left feed (splitlines text) (ROk m0)) as [m|l'].
  - cbn [rbind] in H. destruct (m_table m); discriminate.
  - cbn [rbind] in H. inversion H. subst l'. destruct S as [pre [ln [post [mp [E [L [P Q]]]]]]].
    exists pre, ln, post, mp. repeat split; auto. lia.
Qed.

(* ---- what the machine rejects (the catalogued faults) ---- *)
Lemma steps_reject_other_lines m line :
  doc_fact line = None -> step_fact (m_kw m) (strip line) = None -> sub_taggable m (strip line) = ROk None ->
  starts_pipe (strip line) = false -> a_steps m line = RErr (m_line m).
Proof.
  intros D S T P. unfold a_steps. rewrite D. unfold parse_step. rewrite S. cbn [rbind]. rewrite T. cbn [rbind].
  rewrite match_pipe, P. reflexivity.
Qed.

Lemma examples_outside_an_outline_are_rejected m s a n :
  get_stmt m = Some (VScen s) -> sc_outline s = false -> build_examples m a n = RErr (m_line m).
Proof. intros G O. unfold build_examples. now rewrite G, O. Qed.

Lemma examples_without_statement_are_rejected m a n :
  (forall s, get_stmt m <> Some (VScen s)) -> build_examples m a n = RErr (m_line m).
Proof. intros G. unfold build_examples. destruct (get_stmt m) as [[b|s|r]|]; try reflexivity. exfalso. now apply (G s). Qed.

Lemma and_but_without_a_previous_step_is_rejected m s k text rt :
  step_fact (m_kw m) s = Some (rt, k, text) -> (rt = RAnd \/ rt = RBut) -> starts_with_star k = false ->
  m_last m = None -> last_bg_type m = None -> parse_step m s = RErr (m_line m).
Proof.
  intros S R ST L B. unfold parse_step. rewrite S, ST, L, B. destruct R as [-> | ->]; reflexivity.
Qed.

Lemma a_ragged_table_row_is_rejected m s t :
  m_table m = Some t -> Nat.eqb (length (row_cells s)) (length (pt_head t)) = false -> a_table_row m s = RErr (m_line m).
Proof. intros T L. unfold a_table_row. now rewrite T, L. Qed.

Lemma a_malformed_tag_line_is_rejected m s :
  starts_at s = true -> tag_words (split_ws s) (m_line m) = None -> sub_taggable m s = RErr (m_line m).
Proof. intros A T. unfold sub_taggable. rewrite match_at, A, T. reflexivity. Qed.

Lemma a_word_that_is_no_tag_spoils_the_line w rest line :
  (match w with 64%N :: _ => False | 35%N :: _ => False | _ => True end) -> tag_words (w :: rest) line = None.
Proof.
  intros H. cbn [tag_words]. destruct w as [|c r]; [reflexivity|].
  destruct c as [|p]; [reflexivity|].
  destruct p as [p|p|]; try reflexivity; destruct p as [p|p|]; try reflexivity; destruct p as [p|p|]; try reflexivity;
    destruct p as [p|p|]; try reflexivity; destruct p as [p|p|]; try reflexivity; destruct p as [p|p|]; try reflexivity;
    try (destruct p as [p|p|]; try reflexivity); destruct H.
Qed.

(* a second Feature line and plain text after the steps, in English *)
Definition english : kwtable := match find_lang default_language languages with Some k => k | None => mkKw [] [] [] [] [] [] [] [] [] [] [] end.

Example feature_and_text_lines_after_steps_are_rejected_in_english :
  forall m, m_kw m = english ->
  a_steps m [32; 32; 70; 101; 97; 116; 117; 114; 101; 58; 32; 97; 103; 97; 105; 110]%N = RErr (m_line m) /\
  a_steps m [32; 32; 115; 111; 109; 101; 32; 116; 101; 120; 116]%N = RErr (m_line m).
Proof.
  intros m K. split; apply steps_reject_other_lines; try reflexivity; try (rewrite K; vm_compute; reflexivity);
    unfold sub_taggable; rewrite match_at; rewrite K; vm_compute; reflexivity.
Qed.
