(* GherkinProofs.v - proofs about Gherkin.v: error discipline (C05) *)
From BV Require Import Base UStr GherkinTypes Gherkin.
From BVGen Require Import UnicodeTables GherkinTables.

(* every function of the machine keeps the line counter, and every error it raises carries it *)
Definition good {A} (line_of : A -> nat) (n : nat) (r : res A) : Prop :=
  match r with ROk a => line_of a = n | RErr l => l = n end.
Definition goodm := good m_line.
Definition goodo (n : nat) (r : res (option mstate)) : Prop :=
  match r with ROk (Some m) => m_line m = n | ROk None => True | RErr l => l = n end.

Ltac destruct_inner :=
  match goal with
  | |- context [match ?x with _ => _ end] =>
      lazymatch x with
      | context [match _ with _ => _ end] => fail
      | _ => destruct x eqn:?
      end
  end.
Ltac crush_line := repeat destruct_inner; cbn; auto.

Lemma set_cur_rule_line m r : m_line (set_cur_rule m r) = m_line m.
Proof. unfold set_cur_rule. crush_line. Qed.
Lemma set_cont_bg_line m b : m_line (set_cont_bg m b) = m_line m.
Proof. unfold set_cont_bg. crush_line; apply set_cur_rule_line. Qed.
Lemma set_item_line m s : m_line (set_item m s) = m_line m.
Proof. unfold set_item. crush_line; apply set_cur_rule_line. Qed.
Lemma set_stmt_line m v : m_line (set_stmt m v) = m_line m.
Proof. unfold set_stmt. crush_line; auto using set_cont_bg_line, set_cur_rule_line, set_item_line. Qed.
Lemma add_item_line m s : m_line (add_item m s) = m_line m.
Proof. unfold add_item. crush_line; apply set_cur_rule_line. Qed.
Lemma set_last_step_line m f : m_line (set_last_step m f) = m_line m.
Proof. unfold set_last_step. crush_line; apply set_stmt_line. Qed.
Lemma close_table_line m : m_line (close_table m) = m_line m.
Proof. unfold close_table. crush_line; rewrite ?set_stmt_line, ?set_last_step_line; reflexivity. Qed.

Lemma build_rule_good m a n : goodm (m_line m) (build_rule m a n).
Proof. unfold goodm, good, build_rule. crush_line. Qed.
Lemma build_background_good m a n : goodm (m_line m) (build_background m a n).
Proof. unfold goodm, good, build_background. crush_line; apply set_cont_bg_line. Qed.
Lemma build_scenario_line m o a n : m_line (build_scenario m o a n) = m_line m.
Proof. unfold build_scenario. cbn. apply add_item_line. Qed.
Lemma build_examples_good m a n : goodm (m_line m) (build_examples m a n).
Proof. unfold goodm, good, build_examples. crush_line. apply set_stmt_line. Qed.

Lemma parse_step_good m s :
  match parse_step m s with
  | ROk (Some (st, m')) => m_line m' = m_line m
  | ROk None => True
  | RErr l => l = m_line m
  end.
Proof. unfold parse_step. crush_line. Qed.

Lemma append_step_line m st m' : append_step m st = Some m' -> m_line m' = m_line m.
Proof. unfold append_step. destruct (get_stmt m) as [v|]; [|discriminate]. destruct (view_steps v); [|discriminate].
  intros H. inversion H. apply set_stmt_line. Qed.

Definition starts_at (s : ustr) : bool := match s with 64%N :: _ => true | _ => false end.

Lemma match_at {A} (s : ustr) (x y : A) :
  match s with 64%N :: _ => x | _ => y end = if starts_at s then x else y.
Proof.
  destruct s as [|c r]; [reflexivity|]. destruct c as [|p]; [reflexivity|].
  destruct p as [p|p|]; try reflexivity; destruct p as [p|p|]; try reflexivity; destruct p as [p|p|]; try reflexivity;
    destruct p as [p|p|]; try reflexivity; destruct p as [p|p|]; try reflexivity; destruct p as [p|p|]; try reflexivity;
    destruct p as [p|p|]; reflexivity.
Qed.

Lemma sub_taggable_good m s : goodo (m_line m) (sub_taggable m s).
Proof.
  unfold goodo, sub_taggable. rewrite match_at. destruct (starts_at s).
  - destruct (tag_words (split_ws s) (m_line m)); cbn; auto.
  - destruct (first_alias (k_rule (m_kw m)) s) as [[a nm]|].
    { pose proof (build_rule_good m a nm) as G. unfold goodm, good in G. destruct (build_rule m a nm); cbn; auto. }
    destruct (first_alias (k_scenario (m_kw m)) s) as [[a nm]|]; [cbn; apply build_scenario_line|].
    destruct (first_alias (k_outline (m_kw m)) s) as [[a nm]|]; [cbn; apply build_scenario_line|].
    destruct (first_alias (k_examples (m_kw m)) s) as [[a nm]|]; [|exact I].
    pose proof (build_examples_good m a nm) as G. unfold goodm, good in G. destruct (build_examples m a nm); cbn; auto.
Qed.

Lemma a_initial_good m s : goodm (m_line m) (a_initial m s).
Proof.
  unfold goodm, good, a_initial. rewrite match_at. destruct (starts_at s).
  - destruct (tag_words (split_ws s) (m_line m)); cbn; auto.
  - destruct (first_alias (k_feature (m_kw m)) s) as [[a nm]|]; cbn; auto.
Qed.

Lemma add_feature_descr_good m d : goodm (m_line m) (add_feature_descr m d).
Proof. unfold goodm, good, add_feature_descr. crush_line. Qed.

Ltac use_sub m s :=
  let G := fresh "G" in
  pose proof (sub_taggable_good m s) as G; unfold goodo in G;
  destruct (sub_taggable m s) as [[?m'|]|?l]; cbn [rbind]; auto.

Lemma a_feature_good m s : goodm (m_line m) (a_feature m s).
Proof.
  unfold goodm, good, a_feature. use_sub m s.
  destruct (first_alias (k_background (m_kw m)) s) as [[a nm]|].
  - pose proof (build_background_good m a nm) as B. unfold goodm, good in B. destruct (build_background m a nm); cbn; auto.
  - apply add_feature_descr_good.
Qed.

Lemma a_taggable_good m s : goodm (m_line m) (a_taggable m s).
Proof. unfold goodm, good, a_taggable. use_sub m s. Qed.

Lemma a_rule_good m s : goodm (m_line m) (a_rule m s).
Proof.
  unfold goodm, good, a_rule. use_sub m s.
  destruct (first_alias (k_background (m_kw m)) s) as [[a nm]|].
  - pose proof (build_background_good m a nm) as B. unfold goodm, good in B. destruct (build_background m a nm); cbn; auto.
  - destruct (cur_rule m); cbn; auto. apply set_cur_rule_line.
Qed.

Lemma a_scenario_good m s : goodm (m_line m) (a_scenario m s).
Proof.
  unfold goodm, good, a_scenario. set (m1 := upd_last m None). change (m_line m) with (m_line m1).
  pose proof (parse_step_good m1 s) as P. destruct (parse_step m1 s) as [[[st m2]|]|l]; cbn [rbind]; auto.
  - destruct (append_step m2 st) as [m3|] eqn:A; cbn; auto. rewrite (append_step_line _ _ _ A). exact P.
  - use_sub m1 s. destruct (get_stmt m1); cbn; auto. apply (set_stmt_line m1).
Qed.

Lemma a_table_row_good m s : goodm (m_line m) (a_table_row m s).
Proof. unfold goodm, good, a_table_row. crush_line. Qed.

Definition starts_pipe (s : ustr) : bool := match s with 124%N :: _ => true | _ => false end.
Lemma match_pipe {A} (s : ustr) (x y : A) :
  match s with 124%N :: _ => x | _ => y end = if starts_pipe s then x else y.
Proof.
  destruct s as [|c r]; [reflexivity|]. destruct c as [|p]; [reflexivity|].
  destruct p as [p|p|]; try reflexivity; destruct p as [p|p|]; try reflexivity; destruct p as [p|p|]; try reflexivity;
    destruct p as [p|p|]; try reflexivity; destruct p as [p|p|]; try reflexivity; destruct p as [p|p|]; try reflexivity;
    destruct p as [p|p|]; reflexivity.
Qed.

Lemma a_steps_good m line : goodm (m_line m) (a_steps m line).
Proof.
  unfold goodm, good, a_steps. destruct (doc_fact line) as [[term col]|].
  - destruct (stmt_has_steps m); cbn; auto.
  - pose proof (parse_step_good m (strip line)) as P. destruct (parse_step m (strip line)) as [[[st m2]|]|l]; cbn [rbind]; auto.
    + destruct (append_step m2 st) as [m3|] eqn:A; cbn; auto. rewrite (append_step_line _ _ _ A). exact P.
    + use_sub m (strip line). rewrite match_pipe. destruct (starts_pipe (strip line)); [|reflexivity].
      destruct (stmt_has_steps m); [|reflexivity].
      pose proof (a_table_row_good (upd_st m StTable) (strip line)) as T. unfold goodm, good in T. exact T.
Qed.

Lemma a_table_good m line : goodm (m_line m) (a_table m line).
Proof.
  unfold goodm, good, a_table. rewrite match_pipe. destruct (starts_pipe (strip line)).
  - apply a_table_row_good.
  - pose proof (a_steps_good (upd_st (close_table m) StSteps) (strip line)) as S. unfold goodm, good in S.
    cbn [upd_st m_line] in S. rewrite close_table_line in S. exact S.
Qed.

Lemma a_multiline_good m line : goodm (m_line m) (a_multiline m line).
Proof. unfold goodm, good, a_multiline. crush_line. apply set_last_step_line. Qed.

Definition starts_hash (s : ustr) : bool := match s with 35%N :: _ => true | _ => false end.

Lemma action_good m line : goodm (m_line m) (action m line).
Proof.
  unfold action.
  destruct (m_st m) eqn:ST; try apply a_multiline_good;
    (destruct (strip line) as [|c r] eqn:SL;
     [ first [apply a_initial_good | apply a_feature_good | apply a_taggable_good | apply a_scenario_good | apply a_rule_good
             | apply a_steps_good | apply a_table_good]
     | destruct (N.eqb_spec c 35);
       [ subst c; unfold goodm, good; crush_line
       | assert (E : forall A (x y : A), match c with 35%N => x | _ => y end = y)
           by (intros A x y; destruct c as [|p]; [reflexivity|];
               destruct p as [p|p|]; try reflexivity; destruct p as [p|p|]; try reflexivity; destruct p as [p|p|]; try reflexivity;
               destruct p as [p|p|]; try reflexivity; destruct p as [p|p|]; try reflexivity; destruct p as [p|p|]; try reflexivity; congruence);
         rewrite E;
         first [apply a_initial_good | apply a_feature_good | apply a_taggable_good | apply a_scenario_good | apply a_rule_good
               | apply a_steps_good | apply a_table_good] ] ]).
Qed.

(* ---- the loop over lines ---- *)
Lemma feed_good m line : goodm (S (m_line m)) (feed (ROk m) line).
Proof.
  unfold feed. cbn [rbind]. set (m1 := upd_line m (S (m_line m))).
  assert (L : m_line m1 = S (m_line m)) by reflexivity. rewrite <- L.
  destruct (strip line) eqn:SL.
  - destruct (m_st m1); try reflexivity. apply action_good.
  - apply action_good.
Qed.

Lemma feed_err l line : feed (RErr l) line = RErr l.
Proof. reflexivity. Qed.

Lemma fold_feed_err lines l : fold_left feed lines (RErr l) = RErr l.
Proof. induction lines; cbn; auto. Qed.

(* after k lines: a state whose counter is k more, or an error at one of those k lines - the first rejected one *)
Theorem fold_feed_spec lines m :
  match fold_left feed lines (ROk m) with
  | ROk m' => m_line m' = m_line m + length lines
  | RErr l => exists pre line post mp,
                lines = pre ++ line :: post /\ l = m_line m + length pre + 1 /\
                fold_left feed pre (ROk m) = ROk mp /\ feed (ROk mp) line = RErr l
  end.
Proof.
  revert m. induction lines as [|line lines IH]; intros m; cbn [fold_left length].
  - lia.
  - pose proof (feed_good m line) as G. destruct (feed (ROk m) line) as [m1|l] eqn:F; unfold goodm, good in G.
    + specialize (IH m1). destruct (fold_left feed lines (ROk m1)) as [m2|l].
      * lia.
      * destruct IH as [pre [ln [post [mp [E [L [P Q]]]]]]]. exists (line :: pre), ln, post, mp.
        split; [now rewrite E|]. split; [cbn [length]; lia|]. split; [cbn [fold_left]; now rewrite F|exact Q].
    + rewrite fold_feed_err. exists [], line, lines, m. split; [reflexivity|]. split; [cbn [length]; lia|]. split; [reflexivity|exact F].
Qed.

Theorem parse_loop_error_line m0 text l :
  m_line m0 = 0 -> parse_loop m0 text = RErr l -> 1 <= l <= length (splitlines text).
Proof.
  unfold parse_loop, finish_table. intros Z H. pose proof (fold_feed_spec (splitlines text) m0) as S.
  destruct (fold_left feed (splitlines text) (ROk m0)) as [m|l'].
  - cbn [rbind] in H. destruct (m_table m); discriminate.
  - cbn [rbind] in H. inversion H. subst l'. destruct S as [pre [ln [post [mp [E [L _]]]]]].
    rewrite E, app_length. cbn [length]. lia.
Qed.

Lemma parse_tag_lines_error lines n l :
  parse_tag_lines lines n = RErr l -> n <= l < n + length lines.
Proof.
  revert n. induction lines as [|x lines IH]; intros n H; cbn [parse_tag_lines] in H; [discriminate|].
  cbn [length].
  destruct (match strip x with [] => true | _ :: _ => first_is cp_hash (strip x) end).
  - apply IH in H. lia.
  - destruct (first_is cp_at (strip x)).
    + destruct (tag_words (split_ws (strip x)) n) as [ts|].
      * destruct (parse_tag_lines lines (S n)) as [rest|l'] eqn:R; cbn in H; [discriminate H|]. inversion H. subst. apply IH in R. lia.
      * inversion H. lia.
    + inversion H. lia.
Qed.

(* C05: whatever the text, parsing yields a model or a ParserError whose line is a line of the text *)
Theorem parse_total_with_usable_error_line e lang text r :
  parse e lang text = Some r ->
  (exists p, r = ROk p) \/ (exists l, r = RErr l /\ 1 <= l <= length (splitlines text)).
Proof.
  unfold parse. destruct e.
  1-4: destruct (lang_table lang) as [[code kw]|]; [|discriminate]; intros H; inversion H as [H']; clear H H';
       match goal with |- context [parse_loop ?m0 ?t] =>
         destruct (parse_loop m0 t) as [m|l] eqn:P; cbn [rbind]; [left; eauto|right; exists l; split; [reflexivity|];
         apply (parse_loop_error_line m0 t l); [reflexivity|exact P]] end.
  intros H. inversion H as [H']. clear H H'.
  destruct (parse_tag_lines (splitlines text) 1) as [t|l] eqn:P; cbn [rbind]; [left; eauto|right].
  exists l. split; [reflexivity|]. apply parse_tag_lines_error in P. lia.
Qed.

(* ... and an error is reported at the first line the machine rejects, all lines before it having been accepted *)
Theorem error_is_at_the_first_rejected_line m0 text l :
  m_line m0 = 0 -> parse_loop m0 text = RErr l ->
  exists pre line post mp,
    splitlines text = pre ++ line :: post /\ l = length pre + 1 /\
    fold_left feed pre (ROk m0) = ROk mp /\ feed (ROk mp) line = RErr l.
Proof.
  unfold parse_loop, finish_table. intros Z H. pose proof (fold_feed_spec (splitlines text) m0) as S.
  destruct (fold_left feed (splitlines text) (ROk m0)) as [m|l'].
  - cbn [rbind] in H. destruct (m_table m); discriminate.
  - cbn [rbind] in H. inversion H. subst l'. destruct S as [pre [ln [post [mp [E [L [P Q]]]]]]].
    exists pre, ln, post, mp. repeat split; auto. lia.
Qed.

(* ---- what the machine rejects (the catalogued faults) ---- *)
Lemma steps_reject_other_lines m line :
  doc_fact line = None -> step_fact (m_kw m) (strip line) = None -> sub_taggable m (strip line) = ROk None ->
  starts_pipe (strip line) = false -> a_steps m line = RErr (m_line m).
Proof.
  intros D S T P. unfold a_steps. rewrite D. unfold parse_step. rewrite S. cbn [rbind]. rewrite T. cbn [rbind].
  rewrite match_pipe, P. reflexivity.
Qed.

Lemma examples_outside_an_outline_are_rejected m s a n :
  get_stmt m = Some (VScen s) -> sc_outline s = false -> build_examples m a n = RErr (m_line m).
Proof. intros G O. unfold build_examples. now rewrite G, O. Qed.

Lemma examples_without_statement_are_rejected m a n :
  (forall s, get_stmt m <> Some (VScen s)) -> build_examples m a n = RErr (m_line m).
Proof. intros G. unfold build_examples. destruct (get_stmt m) as [[b|s|r]|]; try reflexivity. exfalso. now apply (G s). Qed.

Lemma and_but_without_a_previous_step_is_rejected m s k text rt :
  step_fact (m_kw m) s = Some (rt, k, text) -> (rt = RAnd \/ rt = RBut) -> starts_with_star k = false ->
  m_last m = None -> last_bg_type m = None -> parse_step m s = RErr (m_line m).
Proof.
  intros S R ST L B. unfold parse_step. rewrite S, ST, L, B. destruct R as [-> | ->]; reflexivity.
Qed.

Lemma a_ragged_table_row_is_rejected m s t :
  m_table m = Some t -> Nat.eqb (length (row_cells s)) (length (pt_head t)) = false -> a_table_row m s = RErr (m_line m).
Proof. intros T L. unfold a_table_row. now rewrite T, L. Qed.

Lemma a_malformed_tag_line_is_rejected m s :
  starts_at s = true -> tag_words (split_ws s) (m_line m) = None -> sub_taggable m s = RErr (m_line m).
Proof. intros A T. unfold sub_taggable. rewrite match_at, A, T. reflexivity. Qed.

Lemma a_word_that_is_no_tag_spoils_the_line w rest line :
  (match w with 64%N :: _ => False | 35%N :: _ => False | _ => True end) -> tag_words (w :: rest) line = None.
Proof.
  intros H. cbn [tag_words]. destruct w as [|c r]; [reflexivity|].
  destruct c as [|p]; [reflexivity|].
  destruct p as [p|p|]; try reflexivity; destruct p as [p|p|]; try reflexivity; destruct p as [p|p|]; try reflexivity;
    destruct p as [p|p|]; try reflexivity; destruct p as [p|p|]; try reflexivity; destruct p as [p|p|]; try reflexivity;
    try (destruct p as [p|p|]; try reflexivity); destruct H.
Qed.

(* a second Feature line and plain text after the steps, in English *)
Definition english : kwtable := match find_lang default_language languages with Some k => k | None => mkKw [] [] [] [] [] [] [] [] [] [] [] end.

Example feature_and_text_lines_after_steps_are_rejected_in_english :
  forall m, m_kw m = english ->
  a_steps m [32; 32; 70; 101; 97; 116; 117; 114; 101; 58; 32; 97; 103; 97; 105; 110]%N = RErr (m_line m) /\
  a_steps m [32; 32; 115; 111; 109; 101; 32; 116; 101; 120; 116]%N = RErr (m_line m).
Proof.
  intros m K. split; apply steps_reject_other_lines; try reflexivity; try (rewrite K; vm_compute; reflexivity);
    unfold sub_taggable; rewrite match_at; rewrite K; vm_compute; reflexivity.
Qed.

(* ======================= C04: faithfulness ======================= *)

(* ---- blank lines and comment lines only advance the line counter ---- *)
Lemma blank_lines_are_skipped m line :
  strip line = [] -> m_st m <> StMultiline -> feed (ROk m) line = ROk (upd_line m (S (m_line m))).
Proof.
  intros B NM. unfold feed. cbn [rbind]. rewrite B. cbn [upd_line m_st]. destruct (m_st m); try reflexivity. congruence.
Qed.

Lemma comment_lines_are_skipped m line c r :
  strip line = c :: r -> c = cp_hash -> m_st m <> StMultiline ->
  (m_st m = StInitial -> m_tags m = [] -> m_variant m = VFeature -> lang_comment (strip line) = None) ->
  feed (ROk m) line = ROk (upd_line m (S (m_line m))).
Proof.
  intros S C NM L. unfold feed. cbn [rbind]. rewrite S. subst c. unfold action. rewrite S. cbn [upd_line m_st m_tags m_variant].
  unfold cp_hash. destruct (m_st m) eqn:ST; try reflexivity; try congruence.
  destruct (m_tags m) eqn:T; [|reflexivity]. destruct (m_variant m) eqn:V; try reflexivity.
  specialize (L eq_refl eq_refl eq_refl). rewrite S in L. unfold cp_hash in L. rewrite L. reflexivity.
Qed.

(* ---- outside doc-strings a line matters only through its stripped form (and whether it opens a doc-string) ---- *)
Theorem indentation_is_irrelevant m line line' :
  m_st m <> StMultiline -> strip line = strip line' -> doc_fact line = doc_fact line' -> action m line = action m line'.
Proof.
  intros NM S D. unfold action, a_steps, a_table. rewrite S, D.
  destruct (m_st m); try congruence; reflexivity.
Qed.

(* ---- every element carries the number of the line being processed ---- *)
Theorem elements_are_stamped_with_the_current_line m a n :
  (exists f, m_feat (build_feature m a n) = Some f /\ f_line f = m_line m /\ f_kw f = a /\ f_name f = n /\ f_tags f = m_tags m) /\
  (forall st m' s, parse_step m s = ROk (Some (st, m')) -> ps_line st = m_line m) /\
  (forall s t, m_table m = None -> a_table_row m s = ROk t -> exists tb, m_table t = Some tb /\ pt_line tb = m_line m /\ pt_head tb = row_cells s) /\
  (forall s ts, tag_words (split_ws s) (m_line m) = Some ts -> Forall (fun tg => snd tg = m_line m) ts).
Proof.
  split; [eexists; cbn; repeat split|]. split; [|split].
  - intros st m' s H. unfold parse_step in H. destruct (step_fact (m_kw m) s) as [[[rt k] text]|]; [|discriminate].
    repeat match type of H with context [match ?x with _ => _ end] => destruct x end; inversion H; reflexivity.
  - intros s t T H. unfold a_table_row in H. rewrite T in H. inversion H. eexists. cbn. repeat split.
  - intros s. generalize (split_ws s). intros ws. induction ws as [|w ws IH]; intros ts H; cbn [tag_words] in H.
    + inversion H. constructor.
    + destruct w as [|c r]; [discriminate|].
      destruct (N.eqb_spec c 64); [subst c|].
      * destruct (tag_words ws (m_line m)) as [ts'|]; [|discriminate]. inversion H. constructor; [reflexivity|]. now apply IH.
      * destruct (N.eqb_spec c 35); [subst c; inversion H; constructor|].
        exfalso. destruct c as [|p]; [discriminate|].
        destruct p as [p|p|]; try discriminate; destruct p as [p|p|]; try discriminate; destruct p as [p|p|]; try discriminate;
          destruct p as [p|p|]; try discriminate; destruct p as [p|p|]; try discriminate; destruct p as [p|p|]; try discriminate;
          try (destruct p as [p|p|]; try discriminate); congruence.
Qed.

(* ---- And / But / * take the type of the preceding step ---- *)
Theorem and_but_star_inherit_the_previous_step_type m s rt k text t :
  step_fact (m_kw m) s = Some (rt, k, text) -> m_last m = Some t ->
  (rt = RAnd \/ rt = RBut \/ starts_with_star k = true) ->
  exists st, parse_step m s = ROk (Some (st, m)) /\ ps_type st = t /\ ps_kw st = rstrip k /\ ps_name st = text.
Proof.
  intros S L R. unfold parse_step. rewrite S, L. destruct (starts_with_star k) eqn:ST.
  - eexists. split; [reflexivity|]. cbn. auto.
  - destruct R as [->|[->|R]]; try discriminate; eexists; (split; [reflexivity|]); cbn; auto.
Qed.

Theorem given_when_then_set_the_step_type m s k text :
  starts_with_star k = false \/ m_last m = None ->
  (step_fact (m_kw m) s = Some (RGiven, k, text) -> exists st m', parse_step m s = ROk (Some (st, m')) /\ ps_type st = SGiven /\ m_last m' = Some SGiven) /\
  (step_fact (m_kw m) s = Some (RWhen, k, text) -> exists st m', parse_step m s = ROk (Some (st, m')) /\ ps_type st = SWhen /\ m_last m' = Some SWhen) /\
  (step_fact (m_kw m) s = Some (RThen, k, text) -> exists st m', parse_step m s = ROk (Some (st, m')) /\ ps_type st = SThen /\ m_last m' = Some SThen).
Proof.
  intros C. repeat split; intros S; unfold parse_step; rewrite S;
    (assert (E : (if starts_with_star k then m_last m else None) = None) by (destruct C as [-> | ->]; [reflexivity|now destruct (starts_with_star k)]));
    rewrite E; eexists; eexists; (split; [reflexivity|]); cbn; auto.
Qed.

(* ---- keyword lines: the alias written and the stripped rest ---- *)
Theorem first_alias_spec aliases s a n :
  first_alias aliases s = Some (a, n) ->
  exists l1 l2, aliases = l1 ++ a :: l2 /\ prefixb (a ++ [58%N]) s = true /\ n = strip (skipn (S (length a)) s) /\
                forall b, In b l1 -> prefixb (b ++ [58%N]) s = false.
Proof.
  induction aliases as [|x aliases IH]; [discriminate|]. cbn [first_alias]. destruct (prefixb (x ++ [58%N]) s) eqn:P.
  - intros H. inversion H. subst. exists [], aliases. repeat split; auto. intros b [].
  - intros H. destruct (IH H) as [l1 [l2 [E [Q [N F]]]]]. exists (x :: l1), l2. split; [now rewrite E|]. repeat split; auto.
    intros b [->|Hin]; [exact P|now apply F].
Qed.

(* ---- the keyword tables: every keyword of every language is recognized as itself (decided by evaluation) ---- *)
Definition xname : ustr := [120%N].
Definition struct_kinds (kw : kwtable) : list (nat * list ustr) :=
  [(0, k_feature kw); (1, k_rule kw); (2, k_background kw); (3, k_scenario kw); (4, k_outline kw); (5, k_examples kw)].

(* the cascade of the parser for a keyword line: rule, scenario, scenario outline, examples (taggable), then feature / background *)
Definition classify (kw : kwtable) (s : ustr) : option (nat * ustr * ustr) :=
  match first_alias (k_rule kw) s with Some (a, n) => Some (1, a, n) | None =>
  match first_alias (k_scenario kw) s with Some (a, n) => Some (3, a, n) | None =>
  match first_alias (k_outline kw) s with Some (a, n) => Some (4, a, n) | None =>
  match first_alias (k_examples kw) s with Some (a, n) => Some (5, a, n) | None =>
  match first_alias (k_feature kw) s with Some (a, n) => Some (0, a, n) | None =>
  match first_alias (k_background kw) s with Some (a, n) => Some (2, a, n) | None => None end end end end end end.

Definition struct_keywords_ok (kw : kwtable) : bool :=
  forallb (fun kd => forallb (fun a =>
             let line := a ++ [58; 32]%N ++ xname in
             match classify kw line with
             | Some (k, a', n) => Nat.eqb k (fst kd) && ustr_eqb a' a && ustr_eqb n xname
             | None => false
             end && match step_fact kw line with None => true | Some _ => false end) (snd kd)) (struct_kinds kw).

Definition rawt_eqb (a b : rawt) : bool :=
  match a, b with RGiven, RGiven | RWhen, RWhen | RThen, RThen | RAnd, RAnd | RBut, RBut => true | _, _ => false end.

Definition step_keywords_ok (kw : kwtable) : bool :=
  forallb (fun tk => forallb (fun k =>
             starts_with_star k ||
             match step_fact kw (k ++ xname) with
             | Some (t, k', n) => rawt_eqb t (fst tk) && ustr_eqb k' k && ustr_eqb n xname
             | None => false
             end) (snd tk))
          [(RGiven, k_given kw); (RWhen, k_when kw); (RThen, k_then kw); (RAnd, k_and kw); (RBut, k_but kw)].

(* ---- doc-strings: the lines between the delimiters, without the delimiter's indentation and trailing blanks ---- *)
Definition doc_line_ok (col : nat) (term : ustr) (l : ustr) : Prop :=
  prefixb term (strip l) = false /\ strip (firstn col l) = [].

Lemma multiline_collects ls : forall m,
  m_st m = StMultiline -> Forall (doc_line_ok (m_ml_lead m) (m_ml_term m)) ls ->
  exists m', fold_left feed ls (ROk m) = ROk m' /\ m_st m' = StMultiline /\
             m_lines m' = rev (map (fun l => rstrip (skipn (m_ml_lead m) l)) ls) ++ m_lines m /\
             m_ml_lead m' = m_ml_lead m /\ m_ml_term m' = m_ml_term m /\ m_ml_start m' = m_ml_start m /\
             m_line m' = m_line m + length ls.
Proof.
  induction ls as [|l ls IH]; intros m ST F.
  - exists m. cbn [fold_left map rev app length]. repeat split; auto.
  - inversion F as [|? ? [T B] F']. subst. cbn [fold_left].
    assert (E : feed (ROk m) l = ROk (upd_ml (upd_line m (S (m_line m))) (m_ml_start m) (m_ml_lead m) (m_ml_term m)
                                             (rstrip (skipn (m_ml_lead m) l) :: m_lines m))).
    { unfold feed. cbn [rbind]. unfold action. cbn [upd_line m_st]. rewrite ST.
      assert (X : match strip l with [] => a_multiline (upd_line m (S (m_line m))) l | _ :: _ => a_multiline (upd_line m (S (m_line m))) l end
                  = a_multiline (upd_line m (S (m_line m))) l) by (now destruct (strip l)).
      rewrite X. unfold a_multiline. cbn [upd_line m_ml_term m_ml_lead m_ml_start m_lines]. rewrite T, B. reflexivity. }
    rewrite E. set (m1 := upd_ml _ _ _ _ _).
    destruct (IH m1) as [m' [R [S1 [L1 [A1 [A2 [A3 A4]]]]]]]; [exact ST|exact F'|].
    exists m'. split; [exact R|]. split; [exact S1|]. cbn [map rev]. rewrite L1. cbn [m1 upd_ml upd_line m_lines m_ml_lead m_ml_term m_ml_start m_line] in *.
    rewrite <- app_assoc. cbn [app length]. repeat split; auto. lia.
Qed.

(* the closing delimiter stores the collected lines, joined by newlines, with the line number of the opening delimiter *)
Lemma multiline_closes m line :
  m_st m = StMultiline -> prefixb (m_ml_term m) (strip line) = true ->
  a_multiline m line =
  ROk (upd_st (upd_ml (set_last_step m (fun st => mkPStep (ps_kw st) (ps_type st) (ps_name st) (ps_line st)
                                                         (Some (join [10%N] (rev (m_lines m)), m_ml_start m)) (ps_table st)))
                      (m_ml_start m) (m_ml_lead m) [] []) StSteps).
Proof. intros _ P. unfold a_multiline. now rewrite P. Qed.
