(* Context.v — model of behave.runner.Context: a stack of scopes with attributes and
   per-scope cleanup lists (Context._push/_pop/_do_cleanups, __getattr__/__setattr__/
   __delattr__/__contains__, _set_root_attribute, use_or_assign_param, add_cleanup) and of
   behave.fixture.use_fixture for generator fixtures.  Model only. *)
From BV Require Import Base.

Record cleanup := mkCleanup {
  cl_id : nat;          (* what the executed cleanup logs *)
  cl_raises : bool;
  cl_func : nat;        (* identity of the callable given to add_cleanup *)
  cl_plain : bool;      (* registered without arguments: the stored callable IS the function *)
  cl_logs : bool        (* a generator whose setup failed has nothing left to run *)
}.

Record frame := mkFrame { fr_layer : nat; fr_attrs : list (nat * nat); fr_cleanups : list cleanup }.

(* head = innermost scope, last = root (layer 1 = "testrun") *)
Definition cstate := list frame.

Inductive cop :=
| CPush (layer : nat)
| CPop
| CSet (k v : nat) | CGet (k : nat) | CHas (k : nat) | CDel (k : nat)
| CSetRoot (k v : nat) | CUseOrAssign (k v : nat)
| CAddCleanup (func : nat) (raises : bool) (layer : nat) (with_args : bool)
| CFixture (fid : nat) (setup_adds : list (nat * bool)) (setup_fails : bool) (teardown_raises : bool).

Inductive cout :=
| OOk | OVal (o : option nat) | OBool (b : bool) | OAttrErr | OLookupErr | OSetupErr | ONoPop
| OPopped (ran : list nat) (first_error : option nat).

(* ---- attribute maps *)
Fixpoint alookup (k : nat) (l : list (nat * nat)) : option nat :=
  match l with
  | [] => None
  | (k', v) :: r => if Nat.eqb k k' then Some v else alookup k r
  end.

Fixpoint aremove (k : nat) (l : list (nat * nat)) : list (nat * nat) :=
  match l with
  | [] => []
  | (k', v) :: r => if Nat.eqb k k' then aremove k r else (k', v) :: aremove k r
  end.

Definition aset (k v : nat) (l : list (nat * nat)) : list (nat * nat) := (k, v) :: aremove k l.

Fixpoint cget (st : cstate) (k : nat) : option nat :=
  match st with
  | [] => None
  | f :: r => match alookup k (fr_attrs f) with Some v => Some v | None => cget r k end
  end.

Definition set_top (st : cstate) (k v : nat) : cstate :=
  match st with
  | [] => []
  | f :: r => mkFrame (fr_layer f) (aset k v (fr_attrs f)) (fr_cleanups f) :: r
  end.

Fixpoint set_root (st : cstate) (k v : nat) : cstate :=
  match st with
  | [] => []
  | [f] => [mkFrame (fr_layer f) (aset k v (fr_attrs f)) (fr_cleanups f)]
  | f :: r => f :: set_root r k v
  end.

(* ---- cleanups *)
Definition dup_of (func : nat) (c : cleanup) : bool := cl_plain c && Nat.eqb (cl_func c) func.

Definition add_to_frame (f : frame) (c : cleanup) : frame :=
  if existsb (dup_of (cl_func c)) (fr_cleanups f) then f
  else mkFrame (fr_layer f) (fr_attrs f) (fr_cleanups f ++ [c]).

(* add to the first frame whose layer matches (0 = current frame); None = LookupError *)
Fixpoint add_cleanup_at (st : cstate) (layer : nat) (c : cleanup) : option cstate :=
  match st with
  | [] => None
  | f :: r =>
      if Nat.eqb layer 0 || Nat.eqb layer (fr_layer f) then Some (add_to_frame f c :: r)
      else match add_cleanup_at r layer c with
           | Some r' => Some (f :: r')
           | None => None
           end
  end.

Definition add_top (st : cstate) (c : cleanup) : cstate :=
  match add_cleanup_at st 0 c with Some s => s | None => st end.

Definition run_order (cs : list cleanup) : list cleanup := rev cs.

Definition ran_ids (cs : list cleanup) : list nat := map cl_id (filter cl_logs (run_order cs)).

Definition first_error (cs : list cleanup) : option nat :=
  match filter cl_raises (run_order cs) with
  | [] => None
  | c :: _ => Some (cl_id c)
  end.

Definition fixture_cleanup (fid : nat) (fails traises : bool) : cleanup :=
  (* a fresh closure per use_fixture call: never a duplicate of anything *)
  mkCleanup (100 + fid) (traises && negb fails) (100 + fid) false (negb fails).

(* ---- one operation *)
Definition cstep (st : cstate) (op : cop) : cstate * cout :=
  match op with
  | CPush l => (mkFrame l [] [] :: st, OOk)
  | CPop =>
      match st with
      | f :: (_ :: _) as r => (r, OPopped (ran_ids (fr_cleanups f)) (first_error (fr_cleanups f)))
      | _ => (st, ONoPop)
      end
  | CSet k v => (set_top st k v, OOk)
  | CGet k => (st, OVal (cget st k))
  | CHas k => (st, OBool (match cget st k with Some _ => true | None => false end))
  | CDel k =>
      match st with
      | f :: r =>
          match alookup k (fr_attrs f) with
          | Some _ => (mkFrame (fr_layer f) (aremove k (fr_attrs f)) (fr_cleanups f) :: r, OOk)
          | None => (st, OAttrErr)
          end
      | [] => (st, OAttrErr)
      end
  | CSetRoot k v => (set_root st k v, OOk)
  | CUseOrAssign k v =>
      match cget st k with
      | Some x => (st, OVal (Some x))
      | None => (set_top st k v, OVal (Some v))
      end
  | CAddCleanup func raises layer with_args =>
      match add_cleanup_at st layer (mkCleanup func raises func (negb with_args) true) with
      | Some st' => (st', OOk)
      | None => (st, OLookupErr)
      end
  | CFixture fid adds fails traises =>
      (* the teardown is registered BEFORE the setup part runs *)
      let st1 := add_top st (fixture_cleanup fid fails traises) in
      let st2 := fold_left (fun s a => add_top s (mkCleanup (fst a) (snd a) (fst a) true true)) adds st1 in
      (st2, if fails then OSetupErr else OOk)
  end.

Fixpoint crun (st : cstate) (ops : list cop) : cstate * list cout :=
  match ops with
  | [] => (st, [])
  | op :: r =>
      let '(st1, o) := cstep st op in
      let '(st2, os) := crun st1 r in
      (st2, o :: os)
  end.

(* Context(): root frame with the attributes behave itself puts there
   (10 failed, 11 aborted, 12 feature, 13 text; 900 = False, 901 = None) *)
Definition cinit : cstate := [mkFrame 1 [(10, 900); (11, 900); (12, 901); (13, 901)] []].

(* decidable equality of outputs, for the case files *)
Definition cout_eqb (a b : cout) : bool :=
  match a, b with
  | OOk, OOk | OAttrErr, OAttrErr | OLookupErr, OLookupErr | OSetupErr, OSetupErr | ONoPop, ONoPop => true
  | OVal x, OVal y => option_eqb Nat.eqb x y
  | OBool x, OBool y => Bool.eqb x y
  | OPopped r1 e1, OPopped r2 e2 => list_eqb Nat.eqb r1 r2 && option_eqb Nat.eqb e1 e2
  | _, _ => false
  end.

Definition crun_out (ops : list cop) : list cout := snd (crun cinit ops).

(* ---- Context.execute_steps: the caller's text/table (attributes 50 / 51; value 0 = None)
   are read through the stack, every nested step assigns its own (Step.run), the first
   nested step that does not pass raises, the originals are assigned back in a finally *)
Definition k_text : nat := 50.
Definition k_table : nat := 51.

Record nested := mkNested { n_text : nat; n_table : nat; n_passes : bool }.

Definition attr_or_none (st : cstate) (k : nat) : nat :=
  match cget st k with Some v => v | None => 0 end.

(* returns (state, (text, table) seen by each nested step that ran, raised) *)
Fixpoint exec_nested (st : cstate) (steps : list nested) : cstate * list (nat * nat) * bool :=
  match steps with
  | [] => (st, [], false)
  | s :: r =>
      let st1 := set_top (set_top st k_text (n_text s)) k_table (n_table s) in
      let seen := (attr_or_none st1 k_text, attr_or_none st1 k_table) in
      if n_passes s then
        let '(st2, sn, raised) := exec_nested st1 r in (st2, seen :: sn, raised)
      else (st1, [seen], true)
  end.

Definition execute_steps (st : cstate) (steps : list nested) : cstate * list (nat * nat) * bool :=
  let ot := attr_or_none st k_table in
  let ox := attr_or_none st k_text in
  let '(st1, seen, raised) := exec_nested st steps in
  (set_top (set_top st1 k_table ot) k_text ox, seen, raised).

(* case files: the outer step's text/table, the nested steps; result: seen, raised, text/table afterwards *)
Definition exec_case (c : nat * nat * list nested) : list (nat * nat) * bool * (nat * nat) :=
  let '(ox, ot, steps) := c in
  let st0 := set_top (set_top (mkFrame 4 [] [] :: cinit) k_text ox) k_table ot in
  let '(st1, seen, raised) := execute_steps st0 steps in
  (seen, raised, (attr_or_none st1 k_text, attr_or_none st1 k_table)).

Definition exec_out_eqb (a b : list (nat * nat) * bool * (nat * nat)) : bool :=
  let pair_eqb := fun (x y : nat * nat) => Nat.eqb (fst x) (fst y) && Nat.eqb (snd x) (snd y) in
  list_eqb pair_eqb (fst (fst a)) (fst (fst b)) && Bool.eqb (snd (fst a)) (snd (fst b)) && pair_eqb (snd a) (snd b).
