(* Runner.v — operational model of the run cluster:
     ModelRunner.run_model / run_hook            (behave/runner.py)
     ScenarioContainer.run, Scenario.run, ScenarioOutline.run, Step.run (behave/model.py)
     Context._push/_pop/_do_cleanups/add_cleanup (behave/runner.py)
   Writer style: every run function returns its own event segment.
   User code is data: a step's behaviour is its [skind]; hooks are described by
   which are defined, which sites raise and which sites register cleanups.
   Model only: no proofs here. *)
From BV Require Import Base Status Rollup.
From BVGen Require Import StatusTable.

(* ------------------------------------------------------------------ programs *)
Inductive skind :=
| KPass | KFail | KError | KPending | KUndefined | KSkip | KKbd | KAbort | KCleanOk | KCleanRaise.

Record step := mkStep { st_kind : skind; st_id : nat }.

Record scen := mkScen { sc_id : nat; sc_tags : list nat; sc_steps : list step }.

Record examples := mkEx { ex_id : nat; ex_tags : list nat; ex_rows : nat }.

Record outline := mkOutline { o_id : nat; o_tags : list nat; o_steps : list step;
                              o_examples : list examples }.

Inductive sitem := SScen (s : scen) | SOutline (o : outline).

Record rule := mkRule { r_id : nat; r_tags : list nat; r_bg : option (list step);
                        r_items : list sitem }.

Inductive fitem := FItem (i : sitem) | FRule (r : rule).

Record feature := mkFeature { f_id : nat; f_tags : list nat; f_bg : option (list step);
                              f_items : list fitem }.

Inductive hookname :=
| HBeforeAll | HAfterAll | HBeforeFeature | HAfterFeature | HBeforeRule | HAfterRule
| HBeforeScenario | HAfterScenario | HBeforeStep | HAfterStep | HBeforeTag | HAfterTag.

Definition is_all_hook (h : hookname) : bool :=
  match h with HBeforeAll | HAfterAll => true | _ => false end.

Record config := mkConfig {
  c_dry : bool; c_stop : bool; c_show_skipped : bool;
  c_expr : list nat -> bool;                 (* tag_expression.check *)
  c_hooks : hookname -> bool;                (* name in runner.hooks *)
  c_faults : hookname -> nat -> bool;        (* this hook invocation raises *)
  c_hook_cleanups : hookname -> nat -> list (nat * bool); (* cleanups the hook registers: (id, raises) *)
  c_wip : nat;                               (* the tag "wip" *)
  c_cont : bool;                             (* Scenario.continue_after_failed_step *)
  c_aborts : hookname -> nat -> bool;        (* this hook invocation calls context.abort() (before it returns or raises) *)
  c_excl : nat -> bool                       (* explicit exclusion: the feature's before_feature hook calls
                                                element.skip() on every element that carries such a tag;
                                                inside a feature: the exclusion tags that are in force *)
}.

(* should_skip: skip() marks the element and everything inside it, i.e. the elements whose
   effective tags contain an exclusion tag *)
Definition excluded (cfg : config) (eff : list nat) : bool := existsb (c_excl cfg) eff.

(* Scenario.should_run / Rule.should_run: not should_skip and selected by the tag expression *)
Definition sel (cfg : config) (eff : list nat) : bool := c_expr cfg eff && negb (excluded cfg eff).

Definition set_excl (cfg : config) (x : nat -> bool) : config :=
  mkConfig (c_dry cfg) (c_stop cfg) (c_show_skipped cfg) (c_expr cfg) (c_hooks cfg) (c_faults cfg)
           (c_hook_cleanups cfg) (c_wip cfg) (c_cont cfg) (c_aborts cfg) x.

(* ------------------------------------------------------------------ events *)
Inductive fevent :=
| FUri (fid : nat) | FFeature (fid : nat) | FRuleEv (rid : nat) | FBackground (steps : list nat)
| FScenario (id : nat) | FStepAnn (sid : nat) | FMatch (found : bool)
| FResult (sid : nat) (s : status) | FEof | FClose.

Inductive event :=
| EHook (h : hookname) (key : nat) (raised : bool)
| EStep (k : skind) (sid : nat) (scen : nat) (wip : bool) (* the step function is called; wip: scenario carries @wip *)
| EUndef (sid : nat)                               (* runner.undefined_steps.append *)
| ECleanup (cid : nat) (raised : bool)
| EAbort (h : hookname) (key : nat)                 (* the hook called context.abort() *)
| EFmt (f : fevent).

(* ------------------------------------------------------------------ results *)
Record scen_res := mkScenRes { sr_id : nat; sr_status : option status; sr_hook_failed : bool;
                               sr_steps : list status }.
Inductive item_res :=
| RScen (r : scen_res)
| ROutline (id : nat) (st : status) (rows : list scen_res).
Record rule_res := mkRuleRes { rr_id : nat; rr_status : status; rr_hook_failed : bool;
                               rr_items : list item_res }.
Inductive fitem_res := RFItem (i : item_res) | RFRule (r : rule_res).
Record feat_res := mkFeatRes { fr_id : nat; fr_status : status; fr_hook_failed : bool;
                               fr_items : list fitem_res }.

(* a crash of compute_status (assert) is carried as None and never happens on
   reachable step statuses (RunnerProofs) *)
Definition st_or_unknown (o : option status) : status :=
  match o with Some s => s | None => unknown end.

Definition item_status (r : item_res) : status :=
  match r with RScen s => st_or_unknown (sr_status s) | ROutline _ st _ => st end.
Definition fitem_status (r : fitem_res) : status :=
  match r with RFItem i => item_status i | RFRule rr => rr_status rr end.

(* ------------------------------------------------------------------ state *)
Record rstate := mkState { aborted : bool; stack : list (list (nat * bool)) }.

Definition push (st : rstate) : rstate := mkState (aborted st) ([] :: stack st).

Definition add_cleanups (st : rstate) (cs : list (nat * bool)) : rstate :=
  match stack st with
  | [] => st
  | fr :: rest => mkState (aborted st) ((fr ++ cs) :: rest)
  end.

Definition cleanup_events (fr : list (nat * bool)) : list event :=
  map (fun c => ECleanup (fst c) (snd c)) (rev fr).

Definition cleanups_raise (fr : list (nat * bool)) : bool := existsb snd fr.

(* Context._pop: run the frame's cleanups in reverse, drop the frame *)
Definition pop (st : rstate) : rstate * bool * list event :=
  match stack st with
  | [] => (st, false, [])
  | fr :: rest => (mkState (aborted st) rest, cleanups_raise fr, cleanup_events fr)
  end.

Definition set_aborted (st : rstate) (b : bool) : rstate := mkState (aborted st || b) (stack st).

(* ------------------------------------------------------------------ hooks *)
(* returns (state, raised, events) *)
Definition run_hook (cfg : config) (st : rstate) (h : hookname) (key : nat)
  : rstate * bool * list event :=
  if c_dry cfg || negb (c_hooks cfg h) then (st, false, [])
  else
    let st1 := add_cleanups st (c_hook_cleanups cfg h key) in
    let ab := c_aborts cfg h key in
    let evab := if ab then [EAbort h key] else [] in
    if c_faults cfg h key
    then (set_aborted st1 (is_all_hook h || ab), true, EHook h key true :: evab)
    else (set_aborted st1 ab, false, EHook h key false :: evab).

(* a list of tag hooks; returns whether any raised *)
Fixpoint run_tag_hooks (cfg : config) (st : rstate) (h : hookname) (tags : list nat)
  : rstate * bool * list event :=
  match tags with
  | [] => (st, false, [])
  | t :: r =>
      let '(st1, b1, e1) := run_hook cfg st h t in
      let '(st2, b2, e2) := run_tag_hooks cfg st1 h r in
      (st2, b1 || b2, e1 ++ e2)
  end.

(* ------------------------------------------------------------------ Step.run (non-dry-run) *)
Definition step_outcome (wip : bool) (k : skind) : status :=
  match k with
  | KFail => failed
  | KError | KKbd => error
  | KPending => if wip then pending_warn else pending
  | KSkip => skipped
  | KUndefined => undefined
  | _ => passed
  end.

Definition step_aborts (k : skind) : bool :=
  match k with KKbd | KAbort => true | _ => false end.

Definition step_cleanup (k : skind) (sid : nat) : list (nat * bool) :=
  match k with KCleanOk => [(sid, false)] | KCleanRaise => [(sid, true)] | _ => [] end.

(* returns (state, status, scenario_skipped_by_this_step, events) *)
Definition run_defined_step (cfg : config) (st : rstate) (wip : bool) (scid : nat) (k : skind) (id : nat)
  : rstate * status * bool * list event :=
  let '(st1, rb, eb) := run_hook cfg st HBeforeStep id in
  let '(st2, status, skip, ec) :=
    if rb then (st1, untested, false, [])
    else (set_aborted (add_cleanups st1 (step_cleanup k id)) (step_aborts k),
          step_outcome wip k,
          match k with KSkip => true | _ => false end,
          [EStep k id scid wip]) in
  let '(st3, ra, ea) := run_hook cfg st2 HAfterStep id in
  let status' := if rb || ra then hook_error else status in
  (st3, status', skip,
   EFmt (FMatch true) :: eb ++ ec ++ ea ++ [EFmt (FResult id status')]).

Definition run_step (cfg : config) (st : rstate) (wip : bool) (scid : nat) (s : step)
  : rstate * status * bool * list event :=
  let id := st_id s in
  match st_kind s with
  | KUndefined =>
      (st, undefined, false, [EUndef id; EFmt (FMatch false); EFmt (FResult id undefined)])
  | k => run_defined_step cfg st wip scid k id
  end.

(* ------------------------------------------------------------------ Scenario.run: the step loop *)
Record loopst := mkLoop { l_run_steps : bool; l_failed : bool; l_should_skip : bool }.

(* statuses are produced in step order; scenario.skip() turns earlier untested/skipped
   steps into skipped, which cannot change anything: every earlier step has been run *)
Fixpoint steps_loop (cfg : config) (st : rstate) (wip dry : bool) (scid : nat)
         (l : loopst) (steps : list step)
  : rstate * loopst * list status * list event :=
  match steps with
  | [] => (st, l, [], [])
  | s :: r =>
      if l_run_steps l then
        let '(st1, status, skip, ev) := run_step cfg st wip scid s in
        let l1 :=
          if has_failed status
          then mkLoop (c_cont cfg) true (l_should_skip l || skip)
          else mkLoop (negb (l_should_skip l || skip)) (l_failed l) (l_should_skip l || skip) in
        let '(st2, l2, sts, ev2) := steps_loop cfg st1 wip dry scid l1 r in
        (st2, l2, status :: sts, ev ++ ev2)
      else if l_failed l || dry then
        let '(status, ev) :=
          match st_kind s with
          | KUndefined =>
              (undefined,
               EUndef (st_id s) ::
               (if dry then [EFmt (FMatch false); EFmt (FResult (st_id s) undefined)] else []))
          | _ =>
              if dry then (untested, [EFmt (FMatch true); EFmt (FResult (st_id s) untested)])
              else (skipped, [])
          end in
        let '(st2, l2, sts, ev2) := steps_loop cfg st wip dry scid l r in
        (st2, l2, status :: sts, ev ++ ev2)
      else
        let '(st2, l2, sts, ev2) := steps_loop cfg st wip dry scid l r in
        (st2, l2, skipped :: sts, ev2)
  end.

Definition mem_nat (x : nat) (l : list nat) : bool := existsb (Nat.eqb x) l.

(* the `if not skip_scenario_untested: for step in self.all_steps` part *)
Definition scenario_steps (cfg : config) (st1 : rstate) (skip_untested hf run_sc wip : bool)
           (id : nat) (all_steps : list step)
  : rstate * loopst * list status * list event :=
  if skip_untested
  then (st1, mkLoop false hf false, map (fun _ => untested) all_steps, [])
  else steps_loop cfg st1 wip (run_sc && c_dry cfg) id
                  (mkLoop (run_sc && negb (c_dry cfg)) hf false) all_steps.

(* ------------------------------------------------------------------ Scenario.run *)
(* all_steps = inherited background ++ own; eff = effective tags; own = own tags
   (rows: rendered outline tags ++ examples tags); returns (state, result, failed, events) *)
Definition run_scenario (cfg : config) (st : rstate) (id : nat) (all_steps : list step)
           (no_steps_at_all : bool) (eff own : list nat)
  : rstate * scen_res * bool * list event :=
  let dry := c_dry cfg in
  let skip_untested0 := aborted st in
  let run_sc := sel cfg eff in
  let st0 := push st in
  let hooks_called := negb dry && run_sc in
  let '(st1, hf, ev_before) :=
    if hooks_called then
      let '(sa, b1, e1) := run_tag_hooks cfg st0 HBeforeTag own in
      let '(sb, b2, e2) := run_hook cfg sa HBeforeScenario id in
      (sb, b1 || b2, e1 ++ e2)
    else (st0, false, []) in
  let skip_untested := if hooks_called then hf || aborted st1 else skip_untested0 in
  let ev_ann :=
    if run_sc || c_show_skipped cfg
    then EFmt (FScenario id) :: map (fun s => EFmt (FStepAnn (st_id s))) all_steps
    else [] in
  let wip := mem_nat (c_wip cfg) eff in
  let '(st2, l2, statuses, ev_steps) :=
    scenario_steps cfg st1 skip_untested hf run_sc wip id all_steps in
  let ov1 : option status := if negb run_sc && no_steps_at_all then Some skipped else None in
  let '(st3, hf2, ev_after) :=
    if hooks_called then
      let '(sa, b1, e1) := run_hook cfg st2 HAfterScenario id in
      let '(sb, b2, e2) := run_tag_hooks cfg sa HAfterTag own in
      (sb, hf || b1 || b2, e1 ++ e2)
    else (st2, hf, []) in
  let ov2 := if hooks_called && hf2 then Some hook_error else ov1 in
  let '(st4, craised, ev_pop) := pop st3 in
  let ov3 := if craised then Some error else ov2 in
  let status :=
    match ov3 with
    | Some s => Some s
    | None => scenario_compute hf2 statuses
    end in
  (st4, mkScenRes id status hf2 statuses,
   l_failed l2 || (hooks_called && hf2) || craised,
   ev_before ++ ev_ann ++ ev_steps ++ ev_after ++ ev_pop).

(* a scenario object that was never run *)
Definition notrun_scenario (id : nat) (all_steps : list step) : scen_res :=
  let sts := map (fun _ => untested) all_steps in
  mkScenRes id (scenario_compute false sts) false sts.

(* ------------------------------------------------------------------ ScenarioOutline.run *)
(* row ids: rows of outline [oid] are numbered 200 + oid*16 + example index*4 + row index
   (the harness keeps element ids < 200, example indices and row indices < 4) *)
Definition row_id (oid ei ri : nat) : nat := 200 + oid * 16 + ei * 4 + ri.

Record rowspec := mkRow { rw_id : nat; rw_tags : list nat }.

Fixpoint rows_of_example (oid ei : nat) (otags : list nat) (ex : examples) (n : nat) (ri : nat)
  : list rowspec :=
  match n with
  | 0 => []
  | S n' => mkRow (row_id oid ei ri) (otags ++ ex_tags ex) :: rows_of_example oid ei otags ex n' (S ri)
  end.

Fixpoint rows_of_examples (oid : nat) (otags : list nat) (exs : list examples) (ei : nat)
  : list rowspec :=
  match exs with
  | [] => []
  | ex :: r => rows_of_example oid ei otags ex (ex_rows ex) 0 ++ rows_of_examples oid otags r (S ei)
  end.

Definition outline_rows (o : outline) : list rowspec :=
  rows_of_examples (o_id o) (o_tags o) (o_examples o) 0.

(* returns (state, row results, failed_count>0, events); stopped rows stay untested *)
Fixpoint run_rows (cfg : config) (st : rstate) (all_steps : list step) (own_empty : bool)
         (anc : list nat) (rows : list rowspec) (stopped : bool)
  : rstate * list scen_res * bool * list event :=
  match rows with
  | [] => (st, [], false, [])
  | rw :: r =>
      if stopped then
        let '(st2, rs, f2, ev2) := run_rows cfg st all_steps own_empty anc r true in
        (st2, notrun_scenario (rw_id rw) all_steps :: rs, f2, ev2)
      else
        let '(st1, res, fld, ev) :=
          run_scenario cfg st (rw_id rw) all_steps own_empty (rw_tags rw ++ anc) (rw_tags rw) in
        let stop_now := fld && (c_stop cfg || aborted st1) in
        let '(st2, rs, f2, ev2) := run_rows cfg st1 all_steps own_empty anc r stop_now in
        (st2, res :: rs, fld || f2, ev ++ ev2)
  end.

Definition row_statuses (rs : list scen_res) : list status :=
  map (fun r => st_or_unknown (sr_status r)) rs.

Definition run_outline (cfg : config) (st : rstate) (o : outline) (bg : list step) (anc : list nat)
  : rstate * item_res * bool * list event :=
  let rows := outline_rows o in
  let '(st1, rs, fld, ev) :=
    run_rows cfg st (bg ++ o_steps o) (match bg ++ o_steps o with [] => true | _ => false end) anc rows false in
  (st1, ROutline (o_id o) (outline_compute (length rows) (row_statuses rs)) rs, fld, ev).

Definition notrun_outline (o : outline) (bg : list step) : item_res :=
  let rows := outline_rows o in
  let rs := map (fun rw => notrun_scenario (rw_id rw) (bg ++ o_steps o)) rows in
  ROutline (o_id o) (outline_compute (length rows) (row_statuses rs)) rs.

(* ------------------------------------------------------------------ should_run_with_tags *)
Definition sitem_should_run (cfg : config) (anc : list nat) (it : sitem) : bool :=
  match it with
  | SScen s => c_expr cfg (sc_tags s ++ anc)
  | SOutline o =>
      c_expr cfg (o_tags o ++ anc)
      || existsb (fun rw => c_expr cfg (rw_tags rw ++ anc)) (outline_rows o)
  end.

Definition rule_should_run (cfg : config) (anc : list nat) (r : rule) : bool :=
  c_expr cfg (r_tags r ++ anc)
  || existsb (sitem_should_run cfg (r_tags r ++ anc)) (r_items r).

Definition fitem_should_run (cfg : config) (anc : list nat) (it : fitem) : bool :=
  match it with
  | FItem i => sitem_should_run cfg anc i
  | FRule r => rule_should_run cfg anc r
  end.

Definition feature_should_run (cfg : config) (f : feature) : bool :=
  c_expr cfg (f_tags f)
  || existsb (fitem_should_run cfg (f_tags f)) (f_items f).

(* ------------------------------------------------------------------ run items of a rule / feature *)
Definition run_sitem (cfg : config) (st : rstate) (bg : list step) (anc : list nat) (it : sitem)
  : rstate * item_res * bool * list event :=
  match it with
  | SScen s =>
      let '(st1, res, fld, ev) :=
        run_scenario cfg st (sc_id s) (bg ++ sc_steps s)
                     (match bg ++ sc_steps s with [] => true | _ => false end)
                     (sc_tags s ++ anc) (sc_tags s) in
      (st1, RScen res, fld, ev)
  | SOutline o => run_outline cfg st o bg anc
  end.

Definition notrun_sitem (bg : list step) (it : sitem) : item_res :=
  match it with
  | SScen s => RScen (notrun_scenario (sc_id s) (bg ++ sc_steps s))
  | SOutline o => notrun_outline o bg
  end.

Fixpoint run_sitems (cfg : config) (st : rstate) (bg : list step) (anc : list nat)
         (items : list sitem) (stopped : bool)
  : rstate * list item_res * bool * list event :=
  match items with
  | [] => (st, [], false, [])
  | it :: r =>
      if stopped then
        let '(st2, rs, f2, ev2) := run_sitems cfg st bg anc r true in
        (st2, notrun_sitem bg it :: rs, f2, ev2)
      else
        let '(st1, res, fld, ev) := run_sitem cfg st bg anc it in
        let stop_now := fld && (c_stop cfg || aborted st1) in
        let '(st2, rs, f2, ev2) := run_sitems cfg st1 bg anc r stop_now in
        (st2, res :: rs, fld || f2, ev ++ ev2)
  end.

Definition opt_steps (o : option (list step)) : list step :=
  match o with Some l => l | None => [] end.

(* Rule.should_run(config): not should_skip and should_run_with_tags *)
Definition rule_runs (cfg : config) (anc : list nat) (r : rule) : bool :=
  rule_should_run cfg anc r && negb (excluded cfg (r_tags r ++ anc)).

(* ------------------------------------------------------------------ Rule.run *)
(* feature_has_bg: the rule gets a default Background when the feature has one *)
Definition run_rule (cfg : config) (st : rstate) (r : rule) (anc : list nat)
           (inherited : list step) (feature_has_bg : bool)
  : rstate * rule_res * bool * list event :=
  let st0 := push st in
  let eff := r_tags r ++ anc in
  let should_run := rule_runs cfg anc r in
  let hooks_called := negb (c_dry cfg) && should_run in
  let '(st1, hf, ev_before) :=
    if hooks_called then
      let '(sa, b1, e1) := run_tag_hooks cfg st0 HBeforeTag (r_tags r) in
      let '(sb, b2, e2) := run_hook cfg sa HBeforeRule (r_id r) in
      (sb, b1 || b2, e1 ++ e2)
    else (st0, false, []) in
  let skip_untested := if hooks_called then hf || aborted st1 else aborted st in
  let has_bg := match r_bg r with Some _ => true | None => feature_has_bg end in
  let ev_ann :=
    if should_run || c_show_skipped cfg
    then EFmt (FRuleEv (r_id r)) ::
         (if has_bg then [EFmt (FBackground (map st_id (opt_steps (r_bg r))))] else [])
    else [] in
  let bg := inherited ++ opt_steps (r_bg r) in
  let '(st2, rs, items_failed, ev_items) := run_sitems cfg st1 bg eff (r_items r) skip_untested in
  let ov1 : option status :=
    match r_items r with [] => if should_run then None else Some skipped | _ => None end in
  let '(st3, hf2, ev_after) :=
    if hooks_called then
      let '(sa, b1, e1) := run_hook cfg st2 HAfterRule (r_id r) in
      let '(sb, b2, e2) := run_tag_hooks cfg sa HAfterTag (r_tags r) in
      (sb, hf || b1 || b2, e1 ++ e2)
    else (st2, hf, []) in
  let ov2 := if hooks_called && hf2 then Some hook_error else ov1 in
  let '(st4, craised, ev_pop) := pop st3 in
  let ov3 := if craised then Some error else ov2 in
  let status :=
    match ov3 with
    | Some s => s
    | None => container_compute hf2 (map item_status rs)
    end in
  (st4, mkRuleRes (r_id r) status hf2 rs,
   (hooks_called && hf) || items_failed || (hooks_called && hf2) || craised,
   ev_before ++ ev_ann ++ ev_items ++ ev_after ++ ev_pop).

Definition notrun_rule (r : rule) (inherited : list step) : rule_res :=
  let rs := map (notrun_sitem (inherited ++ opt_steps (r_bg r))) (r_items r) in
  mkRuleRes (r_id r) (container_compute false (map item_status rs)) false rs.

(* ------------------------------------------------------------------ Feature.run *)
Definition run_fitem (cfg : config) (st : rstate) (bg : list step) (has_bg : bool)
           (anc : list nat) (it : fitem)
  : rstate * fitem_res * bool * list event :=
  match it with
  | FItem i => let '(st1, res, fld, ev) := run_sitem cfg st bg anc i in (st1, RFItem res, fld, ev)
  | FRule r => let '(st1, res, fld, ev) := run_rule cfg st r anc bg has_bg in (st1, RFRule res, fld, ev)
  end.

Definition notrun_fitem (bg : list step) (it : fitem) : fitem_res :=
  match it with
  | FItem i => RFItem (notrun_sitem bg i)
  | FRule r => RFRule (notrun_rule r bg)
  end.

Fixpoint run_fitems (cfg : config) (st : rstate) (bg : list step) (has_bg : bool) (anc : list nat)
         (items : list fitem) (stopped : bool)
  : rstate * list fitem_res * bool * list event :=
  match items with
  | [] => (st, [], false, [])
  | it :: r =>
      if stopped then
        let '(st2, rs, f2, ev2) := run_fitems cfg st bg has_bg anc r true in
        (st2, notrun_fitem bg it :: rs, f2, ev2)
      else
        let '(st1, res, fld, ev) := run_fitem cfg st bg has_bg anc it in
        let stop_now := fld && (c_stop cfg || aborted st1) in
        let '(st2, rs, f2, ev2) := run_fitems cfg st1 bg has_bg anc r stop_now in
        (st2, res :: rs, fld || f2, ev ++ ev2)
  end.

(* the configuration the items of a feature run under: the exclusions are in force once the
   before_feature hook has been called (hooks are called, and the hook is defined) *)
Definition items_cfg (cfg : config) (hooks_called : bool) : config :=
  set_excl cfg (fun t => hooks_called && c_hooks cfg HBeforeFeature && c_excl cfg t).

(* Feature.should_run() after the hooks: not should_skip, and what the tags said before *)
Definition feature_runs (cfg : config) (hooks_called : bool) (f : feature) : bool :=
  feature_should_run cfg f && negb (excluded (items_cfg cfg hooks_called) (f_tags f)).

Definition run_feature (cfg : config) (st : rstate) (f : feature)
  : rstate * feat_res * bool * list event :=
  let st0 := push st in
  let eff := f_tags f in
  let hooks_called := negb (c_dry cfg) && feature_should_run cfg f in
  let '(st1, hf, ev_before) :=
    if hooks_called then
      let '(sa, b1, e1) := run_tag_hooks cfg st0 HBeforeTag (f_tags f) in
      let '(sb, b2, e2) := run_hook cfg sa HBeforeFeature (f_id f) in
      (sb, b1 || b2, e1 ++ e2)
    else (st0, false, []) in
  (* RE-EVALUATE SHOULD-RUN STATE: the before_feature hook, when it ran, has excluded what it excludes *)
  let cfgi := items_cfg cfg hooks_called in
  let should_run := feature_runs cfg hooks_called f in
  let skip_untested := if hooks_called then hf || aborted st1 else aborted st in
  let has_bg := match f_bg f with Some _ => true | None => false end in
  let shown := should_run || c_show_skipped cfg in
  let ev_ann :=
    if shown
    then EFmt (FFeature (f_id f)) ::
         (if has_bg then [EFmt (FBackground (map st_id (opt_steps (f_bg f))))] else [])
    else [] in
  let bg := opt_steps (f_bg f) in
  let '(st2, rs, items_failed, ev_items) := run_fitems cfgi st1 bg has_bg eff (f_items f) skip_untested in
  let ov1 : option status :=
    match f_items f with [] => if should_run then None else Some skipped | _ => None end in
  let '(st3, hf2, ev_after) :=
    if hooks_called then
      let '(sa, b1, e1) := run_hook cfg st2 HAfterFeature (f_id f) in
      let '(sb, b2, e2) := run_tag_hooks cfg sa HAfterTag (f_tags f) in
      (sb, hf || b1 || b2, e1 ++ e2)
    else (st2, hf, []) in
  let ov2 := if hooks_called && hf2 then Some hook_error else ov1 in
  let '(st4, craised, ev_pop) := pop st3 in
  let ov3 := if craised then Some error else ov2 in
  let status :=
    match ov3 with
    | Some s => s
    | None => container_compute hf2 (map fitem_status rs)
    end in
  (st4, mkFeatRes (f_id f) status hf2 rs,
   (hooks_called && hf) || items_failed || (hooks_called && hf2) || craised,
   ev_before ++ ev_ann ++ ev_items ++ ev_after ++ ev_pop ++ (if shown then [EFmt FEof] else [])).

Definition notrun_feature (f : feature) : feat_res :=
  let rs := map (notrun_fitem (opt_steps (f_bg f))) (f_items f) in
  mkFeatRes (f_id f) (container_compute false (map fitem_status rs)) false rs.

(* ------------------------------------------------------------------ ModelRunner.run_model *)
Fixpoint run_features (cfg : config) (st : rstate) (fs : list feature) (run_feature_flag : bool)
  : rstate * list feat_res * bool * list event :=
  match fs with
  | [] => (st, [], false, [])
  | f :: r =>
      if run_feature_flag then
        let '(st1, res, fld, ev) := run_feature cfg st f in
        let keep := negb (fld && (c_stop cfg || aborted st1)) in
        let '(st2, rs, f2, ev2) := run_features cfg st1 r keep in
        (st2, res :: rs, fld || f2, EFmt (FUri (f_id f)) :: ev ++ ev2)
      else
        let '(st2, rs, f2, ev2) := run_features cfg st r false in
        (st2, notrun_feature f :: rs, f2, ev2)
  end.

Definition hook_raised (e : event) : bool :=
  match e with EHook _ _ true => true | _ => false end.
Definition is_undef_event (e : event) : bool :=
  match e with EUndef _ => true | _ => false end.

Definition run_model (cfg : config) (fs : list feature)
  : list feat_res * bool * bool * list event :=
  let st0 := mkState false [[]] in
  let '(st1, _, e1) := run_hook cfg st0 HBeforeAll 0 in
  let '(st2, rs, any_failed, e2) := run_features cfg st1 fs (negb (aborted st1)) in
  let '(st3, _, e3) := run_hook cfg st2 HAfterAll 0 in
  let root := match stack st3 with fr :: _ => fr | [] => [] end in
  let e4 := cleanup_events root in
  let cleanups_failed := cleanups_raise root in
  let evs := e1 ++ e2 ++ e3 ++ e4 ++ [EFmt FClose] in
  let verdict :=
    any_failed || aborted st3 || existsb hook_raised evs || existsb is_undef_event evs
    || cleanups_failed in
  (rs, verdict, aborted st3, evs).

(* ------------------------------------------------------------------ concrete tag expressions for case files *)
Inductive texpr := TTrue | THas (t : nat) | TNot (e : texpr) | TAnd (a b : texpr) | TOr (a b : texpr).
Fixpoint teval (e : texpr) (tags : list nat) : bool :=
  match e with
  | TTrue => true
  | THas t => mem_nat t tags
  | TNot a => negb (teval a tags)
  | TAnd a b => teval a tags && teval b tags
  | TOr a b => teval a tags || teval b tags
  end.
