(* ContextProofs.v — C13 lemmas about Context.v *)
From BV Require Import Base Context.
From Coq Require Import Permutation.

(* ---- attribute maps *)
Lemma alookup_aremove_same k l : alookup k (aremove k l) = None.
Proof. induction l as [|[k' v] l IH]; cbn; [reflexivity|]. destruct (Nat.eqb k k') eqn:E; cbn; [exact IH|]. now rewrite E. Qed.

Lemma alookup_aremove_other k k' l : k <> k' -> alookup k' (aremove k l) = alookup k' l.
Proof.
  intros H. induction l as [|[k2 v] l IH]; cbn; [reflexivity|].
  destruct (Nat.eqb k k2) eqn:E.
  - apply Nat.eqb_eq in E; subst. destruct (Nat.eqb k' k2) eqn:E2; [apply Nat.eqb_eq in E2; congruence|exact IH].
  - cbn. destruct (Nat.eqb k' k2); [reflexivity|exact IH].
Qed.

Lemma alookup_aset_same k v l : alookup k (aset k v l) = Some v.
Proof. unfold aset. cbn. now rewrite Nat.eqb_refl. Qed.

Lemma alookup_aset_other k k' v l : k <> k' -> alookup k' (aset k v l) = alookup k' l.
Proof.
  intros H. unfold aset. cbn. destruct (Nat.eqb k' k) eqn:E; [apply Nat.eqb_eq in E; congruence|].
  now apply alookup_aremove_other.
Qed.

(* ---- visibility *)
Lemma get_after_set_top st k v : st <> [] -> cget (set_top st k v) k = Some v.
Proof. destruct st as [|f r]; [congruence|]. intros _. cbn [set_top cget fr_attrs]. now rewrite alookup_aset_same. Qed.

Lemma get_other_after_set_top st k k' v : k <> k' -> cget (set_top st k v) k' = cget st k'.
Proof. intros H. destruct st as [|f r]; [reflexivity|]. cbn [set_top cget fr_attrs]. now rewrite alookup_aset_other. Qed.

Lemma get_in_new_scope l st k : cget (mkFrame l [] [] :: st) k = cget st k.
Proof. reflexivity. Qed.

Lemma shadow_then_pop st l k v :
  st <> [] ->
  let st1 := fst (cstep st (CPush l)) in
  let st2 := fst (cstep st1 (CSet k v)) in
  cget st2 k = Some v /\ fst (cstep st2 CPop) = st.
Proof. destruct st as [|f r]; [congruence|]. intros _. cbn. rewrite Nat.eqb_refl. auto. Qed.

(* ---- operations that only touch the innermost scope *)
Definition local_op (op : cop) : bool :=
  match op with CSet _ _ | CGet _ | CHas _ | CDel _ | CUseOrAssign _ _ => true | _ => false end.

Lemma local_op_keeps_outer st op :
  local_op op = true -> tl (fst (cstep st op)) = tl st /\ length (fst (cstep st op)) = length st.
Proof.
  destruct op; cbn; try discriminate; intros _; destruct st as [|f r]; cbn; auto.
  - destruct (alookup k (fr_attrs f)); cbn; auto.
  - destruct (alookup k (fr_attrs f)); cbn; auto. destruct (cget r k); cbn; auto.
Qed.

Lemma local_ops_keep_outer ops : forall f st,
  forallb local_op ops = true ->
  exists f', fst (crun (f :: st) ops) = f' :: st.
Proof.
  induction ops as [|op ops IH]; intros f st H; cbn [crun].
  - exists f. reflexivity.
  - cbn [forallb] in H. apply andb_true_iff in H as [H1 H2].
    destruct (cstep (f :: st) op) as [st1 o] eqn:E.
    pose proof (local_op_keeps_outer (f :: st) op H1) as [A B]. rewrite E in A, B. cbn in A, B.
    destruct st1 as [|f1 r1]; [discriminate|]. cbn in A. subst r1.
    destruct (IH f1 st H2) as [f' E2]. exists f'.
    destruct (crun (f1 :: st) ops) as [st2 os]. cbn in *. exact E2.
Qed.

Lemma crun_app st a b :
  crun st (a ++ b) = let '(s1, o1) := crun st a in let '(s2, o2) := crun s1 b in (s2, o1 ++ o2).
Proof.
  revert st; induction a as [|op a IH]; intros st; cbn [crun app].
  - destruct (crun st b); reflexivity.
  - destruct (cstep st op) as [s1 o]. rewrite IH. destruct (crun s1 a) as [s2 o2].
    destruct (crun s2 b); reflexivity.
Qed.

(* a scope's attributes disappear when it ends; everything outside is as before *)
Lemma scope_vanishes st l ops :
  st <> [] -> forallb local_op ops = true ->
  fst (crun st (CPush l :: ops ++ [CPop])) = st.
Proof.
  intros Hne H. cbn [crun cstep]. rewrite crun_app.
  destruct (local_ops_keep_outer ops (mkFrame l [] []) st H) as [f' E].
  destruct (crun (mkFrame l [] [] :: st) ops) as [s1 o1]. cbn in E. subst s1.
  cbn [crun cstep]. destruct st as [|g r]; [congruence|]. reflexivity.
Qed.

(* ---- delete only in the owning scope *)
Lemma del_spec f r k :
  (alookup k (fr_attrs f) <> None ->
     snd (cstep (f :: r) (CDel k)) = OOk /\
     cget (fst (cstep (f :: r) (CDel k))) k = cget r k) /\
  (alookup k (fr_attrs f) = None ->
     cstep (f :: r) (CDel k) = (f :: r, OAttrErr)).
Proof.
  cbn. destruct (alookup k (fr_attrs f)) eqn:E; split; intros H; try congruence; try reflexivity.
  cbn. rewrite alookup_aremove_same. auto.
Qed.

(* ---- root attributes *)
Lemma set_root_length st k v : length (set_root st k v) = length st.
Proof. induction st as [|f [|g r] IH]; cbn in *; auto. Qed.

Lemma get_after_set_root st k v :
  st <> [] -> forallb (fun f => match alookup k (fr_attrs f) with None => true | Some _ => false end) (removelast st) = true ->
  cget (set_root st k v) k = Some v.
Proof.
  induction st as [|f [|g r] IH]; intros Hne H; [congruence| |].
  - cbn [set_root cget fr_attrs]. now rewrite alookup_aset_same.
  - cbn [removelast forallb] in H. apply andb_true_iff in H as [H1 H2].
    change (set_root (f :: g :: r) k v) with (f :: set_root (g :: r) k v). cbn [cget].
    destruct (alookup k (fr_attrs f)); [discriminate|]. apply IH; [discriminate|exact H2].
Qed.

(* ---- cleanups: pop runs all of the scope's cleanups, newest first, and removes the scope *)
Lemma pop_spec f g r :
  cstep (f :: g :: r) CPop =
  (g :: r, OPopped (map cl_id (filter cl_logs (rev (fr_cleanups f))))
                   (match filter cl_raises (rev (fr_cleanups f)) with [] => None | c :: _ => Some (cl_id c) end)).
Proof. reflexivity. Qed.

Lemma filter_rev {A} (p : A -> bool) l : filter p (rev l) = rev (filter p l).
Proof.
  induction l as [|x l IH]; [reflexivity|]. cbn. rewrite filter_app, IH. cbn.
  destruct (p x); cbn; [reflexivity|now rewrite app_nil_r].
Qed.

Lemma ran_ids_lifo cs : ran_ids cs = rev (map cl_id (filter cl_logs cs)).
Proof. unfold ran_ids, run_order. now rewrite filter_rev, map_rev. Qed.

(* ---- conservation: nothing is lost, nothing runs twice *)
Definition pending (st : cstate) : list cleanup := flat_map fr_cleanups st.

Definition quiet_op (op : cop) : bool :=
  match op with CAddCleanup _ _ _ _ | CFixture _ _ _ _ | CPop => false | _ => true end.

Lemma set_root_pending st k v : pending (set_root st k v) = pending st.
Proof.
  induction st as [|f [|g r] IH]; [reflexivity|reflexivity|].
  change (set_root (f :: g :: r) k v) with (f :: set_root (g :: r) k v).
  unfold pending in *. cbn [flat_map]. now rewrite IH.
Qed.

Lemma quiet_op_pending st op : quiet_op op = true -> pending (fst (cstep st op)) = pending st.
Proof.
  destruct op; cbn; try discriminate; intros _; try reflexivity.
  - destruct st; reflexivity.
  - destruct st as [|f r]; [reflexivity|]. destruct (alookup k (fr_attrs f)); reflexivity.
  - apply set_root_pending.
  - destruct (cget st k); [reflexivity|]. destruct st; reflexivity.
Qed.

Lemma pop_pending f g r :
  pending (f :: g :: r) = fr_cleanups f ++ pending (fst (cstep (f :: g :: r) CPop)).
Proof. reflexivity. Qed.

Lemma add_to_frame_pending f c :
  exists extra, fr_cleanups (add_to_frame f c) = fr_cleanups f ++ extra /\ (extra = [] \/ extra = [c]).
Proof.
  unfold add_to_frame. destruct (existsb _ _).
  - exists []. rewrite app_nil_r. auto.
  - exists [c]. auto.
Qed.

Lemma add_cleanup_at_pending st : forall layer c st',
  add_cleanup_at st layer c = Some st' ->
  exists extra, Permutation (pending st') (pending st ++ extra) /\ (extra = [] \/ extra = [c]).
Proof.
  induction st as [|f r IH]; intros layer c st'; cbn [add_cleanup_at]; [discriminate|].
  destruct (Nat.eqb layer 0 || Nat.eqb layer (fr_layer f)).
  - intros E; inversion E; subst. destruct (add_to_frame_pending f c) as [extra [A B]].
    exists extra. split; [|exact B]. unfold pending. cbn [flat_map]. rewrite A.
    rewrite <- !app_assoc. apply Permutation_app_head. apply Permutation_app_comm.
  - destruct (add_cleanup_at r layer c) as [r'|] eqn:Er; [|discriminate].
    intros E; inversion E; subst. destruct (IH _ _ _ Er) as [extra [A B]].
    exists extra. split; [|exact B]. unfold pending in *. cbn [flat_map]. rewrite <- app_assoc.
    now apply Permutation_app_head.
Qed.

Lemma add_top_pending st c :
  exists extra, Permutation (pending (add_top st c)) (pending st ++ extra) /\ (extra = [] \/ extra = [c]).
Proof.
  unfold add_top. destruct (add_cleanup_at st 0 c) as [s|] eqn:E.
  - eapply add_cleanup_at_pending; eauto.
  - exists []. rewrite app_nil_r. auto.
Qed.

(* registering never drops or duplicates what is already pending *)
Lemma register_keeps_pending st op :
  quiet_op op = false -> op <> CPop ->
  exists extra, Permutation (pending (fst (cstep st op))) (pending st ++ extra).
Proof.
  destruct op; cbn [quiet_op]; try discriminate; intros _ Hp; [congruence| |].
  - cbn [cstep]. destruct (add_cleanup_at st layer _) as [s|] eqn:E; cbn [fst].
    + destruct (add_cleanup_at_pending _ _ _ _ E) as [extra [A _]]. eauto.
    + exists []. now rewrite app_nil_r.
  - cbn [cstep fst].
    destruct (add_top_pending st (fixture_cleanup fid setup_fails teardown_raises)) as [e0 [A0 _]].
    revert A0. generalize (add_top st (fixture_cleanup fid setup_fails teardown_raises)). intros s0 A0.
    assert (G : forall adds s, exists e, Permutation
              (pending (fold_left (fun s a => add_top s (mkCleanup (fst a) (snd a) (fst a) true true)) adds s))
              (pending s ++ e)).
    { induction adds as [|a adds IH]; intros s; cbn [fold_left].
      - exists []. now rewrite app_nil_r.
      - destruct (add_top_pending s (mkCleanup (fst a) (snd a) (fst a) true true)) as [e1 [A1 _]].
        destruct (IH (add_top s (mkCleanup (fst a) (snd a) (fst a) true true))) as [e2 A2].
        exists (e1 ++ e2). rewrite A2, A1. now rewrite app_assoc. }
    destruct (G setup_adds s0) as [e A]. exists (e0 ++ e). rewrite A, A0. now rewrite app_assoc.
Qed.

(* unwinding the whole stack runs every pending cleanup exactly once, innermost scope first,
   newest first within a scope *)
Definition unwind_order (st : cstate) : list cleanup := flat_map (fun f => rev (fr_cleanups f)) st.

Lemma unwind_exactly_once st : Permutation (unwind_order st) (pending st).
Proof.
  induction st as [|f r IH]; [constructor|]. unfold unwind_order, pending in *. cbn [flat_map].
  apply Permutation_app; [symmetry; apply Permutation_rev|exact IH].
Qed.

(* ---- execute_steps *)
Lemma set_top_nonempty st k v : st <> [] -> set_top st k v <> [].
Proof. destruct st; [congruence|]. intros _. discriminate. Qed.

Lemma set_top_tl st k v : tl (set_top st k v) = tl st.
Proof. destruct st; reflexivity. Qed.

Lemma exec_nested_keeps steps : forall st st' seen raised,
  exec_nested st steps = (st', seen, raised) ->
  (st <> [] -> st' <> []) /\ tl st' = tl st /\
  forall k, k <> k_text -> k <> k_table -> cget st' k = cget st k.
Proof.
  induction steps as [|s r IH]; intros st st' seen raised; cbn [exec_nested].
  - intros E; inversion E; subst. auto.
  - assert (B : forall k, k <> k_text -> k <> k_table ->
              cget (set_top (set_top st k_text (n_text s)) k_table (n_table s)) k = cget st k).
    { intros k H1 H2. rewrite !get_other_after_set_top by congruence. reflexivity. }
    destruct (n_passes s).
    + destruct (exec_nested (set_top (set_top st k_text (n_text s)) k_table (n_table s)) r)
        as [[st2 sn] rs] eqn:E2.
      apply IH in E2 as (N & T & K). intros E; inversion E; subst. repeat split.
      * intros H. apply N. now apply set_top_nonempty, set_top_nonempty.
      * now rewrite T, !set_top_tl.
      * intros k H1 H2. rewrite K by assumption. now apply B.
    + intros E; inversion E; subst. repeat split.
      * intros H. now apply set_top_nonempty, set_top_nonempty.
      * now rewrite !set_top_tl.
      * exact B.
Qed.

(* whatever the nested steps are and whether or not one of them fails: afterwards the caller's
   text and table are what they were, no other attribute changed, outer scopes are untouched *)
Theorem execute_steps_restores st steps st' seen raised :
  st <> [] -> execute_steps st steps = (st', seen, raised) ->
  attr_or_none st' k_text = attr_or_none st k_text /\
  attr_or_none st' k_table = attr_or_none st k_table /\
  (forall k, k <> k_text -> k <> k_table -> cget st' k = cget st k) /\
  tl st' = tl st.
Proof.
  intros Hne. unfold execute_steps.
  destruct (exec_nested st steps) as [[st1 sn] rs] eqn:E1.
  apply exec_nested_keeps in E1 as (N & T & K). specialize (N Hne).
  intros E; inversion E; subst. repeat split.
  - unfold attr_or_none at 1. rewrite get_after_set_top by now apply set_top_nonempty. reflexivity.
  - unfold attr_or_none at 1. rewrite get_other_after_set_top by discriminate.
    rewrite get_after_set_top by assumption. reflexivity.
  - intros k H1 H2. rewrite !get_other_after_set_top by congruence. now apply K.
  - now rewrite !set_top_tl.
Qed.

(* every nested step sees its own text and table *)
Lemma exec_nested_seen steps : forall st st' seen raised,
  st <> [] -> exec_nested st steps = (st', seen, raised) ->
  exists n, seen = map (fun s => (n_text s, n_table s)) (firstn n steps) /\
            (raised = false -> n = length steps) /\
            (raised = true -> exists s, nth_error steps (n - 1) = Some s /\ n_passes s = false /\ 1 <= n).
Proof.
  induction steps as [|s r IH]; intros st st' seen raised Hne; cbn [exec_nested].
  - intros E; inversion E; subst. exists 0. repeat split; auto. discriminate.
  - assert (S1 : attr_or_none (set_top (set_top st k_text (n_text s)) k_table (n_table s)) k_text = n_text s).
    { unfold attr_or_none. rewrite get_other_after_set_top by discriminate.
      now rewrite get_after_set_top. }
    assert (S2 : attr_or_none (set_top (set_top st k_text (n_text s)) k_table (n_table s)) k_table = n_table s).
    { unfold attr_or_none. rewrite get_after_set_top by now apply set_top_nonempty. reflexivity. }
    rewrite S1, S2. destruct (n_passes s) eqn:P.
    + destruct (exec_nested (set_top (set_top st k_text (n_text s)) k_table (n_table s)) r)
        as [[st2 sn] rs] eqn:E2.
      apply IH in E2 as (n & Hs & Hf & Ht); [|now apply set_top_nonempty, set_top_nonempty].
      intros E; inversion E; subst. exists (S n). repeat split.
      * intros H. cbn. now rewrite Hf.
      * intros H. destruct (Ht H) as (s0 & Hn & Hp & Hle). exists s0. repeat split; auto.
        destruct n as [|n']; [inversion Hle|]. cbn in *. now rewrite Nat.sub_0_r in *.
    + intros E; inversion E; subst. exists 1. repeat split; try discriminate.
      intros _. exists s. auto.
Qed.
