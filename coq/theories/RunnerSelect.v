(* RunnerSelect.v — C09: every step call and every scenario hook of a run belongs to a
   scenario whose effective tags satisfy the expression; selected scenarios do run. *)
From BV Require Import Base Status Rollup RollupProofs Runner RunnerSteps RunnerQuiet.
From BVGen Require Import StatusTable.

(* ---- the ids of the selected scenarios of a subtree, with tag inheritance *)
Definition sel_rows (cfg : config) (anc : list nat) (rows : list rowspec) : list nat :=
  map rw_id (filter (fun rw => sel cfg (rw_tags rw ++ anc)) rows).

Definition sitem_sel_ids (cfg : config) (anc : list nat) (it : sitem) : list nat :=
  match it with
  | SScen s => if sel cfg (sc_tags s ++ anc) then [sc_id s] else []
  | SOutline o => sel_rows cfg anc (outline_rows o)
  end.

Definition rule_sel_ids (cfg : config) (anc : list nat) (r : rule) : list nat :=
  flat_map (sitem_sel_ids cfg (r_tags r ++ anc)) (r_items r).

Definition fitem_sel_ids (cfg : config) (anc : list nat) (it : fitem) : list nat :=
  match it with
  | FItem i => sitem_sel_ids cfg anc i
  | FRule r => rule_sel_ids cfg anc r
  end.

(* inside a feature the exclusions made by its before_feature hook are in force (Runner.items_cfg) *)
Definition feature_sel_ids (cfg : config) (f : feature) : list nat :=
  flat_map (fitem_sel_ids (items_cfg cfg (negb (c_dry cfg) && feature_should_run cfg f)) (f_tags f)) (f_items f).

Definition sel_ids (cfg : config) (fs : list feature) : list nat :=
  flat_map (feature_sel_ids cfg) fs.

(* ---- events attributable to a scenario *)
Definition ev_scope_ok (ids : list nat) (e : event) : bool :=
  match e with
  | EStep _ _ scid _ => mem_nat scid ids
  | EHook HBeforeScenario k _ => mem_nat k ids
  | EHook HAfterScenario k _ => mem_nat k ids
  | _ => true
  end.
Definition scoped (ids : list nat) (ev : list event) : bool := forallb (ev_scope_ok ids) ev.

Lemma scoped_app ids a b : scoped ids (a ++ b) = scoped ids a && scoped ids b.
Proof. apply forallb_app. Qed.

Lemma scoped_cons ids e l : scoped ids (e :: l) = ev_scope_ok ids e && scoped ids l.
Proof. reflexivity. Qed.

Lemma mem_nat_app x a b : mem_nat x (a ++ b) = mem_nat x a || mem_nat x b.
Proof. apply existsb_app. Qed.

Lemma scoped_weaken ids ids' ev :
  (forall x, mem_nat x ids = true -> mem_nat x ids' = true) ->
  scoped ids ev = true -> scoped ids' ev = true.
Proof.
  intros H. unfold scoped. rewrite !forallb_forall. intros A e He. specialize (A e He).
  destruct e as [h k r| | | | |]; cbn in *; auto. destruct h; auto.
Qed.

Lemma scoped_l a b ev : scoped a ev = true -> scoped (a ++ b) ev = true.
Proof. apply scoped_weaken. intros x H. now rewrite mem_nat_app, H. Qed.
Lemma scoped_r a b ev : scoped b ev = true -> scoped (a ++ b) ev = true.
Proof. apply scoped_weaken. intros x H. now rewrite mem_nat_app, H, orb_true_r. Qed.

Lemma scoped_quiet ids ev : allq ev = true -> scoped ids ev = true.
Proof.
  unfold allq, scoped. rewrite !forallb_forall. intros A e He. specialize (A e He).
  destruct e; cbn in *; try discriminate; auto.
Qed.

Definition scen_hook (h : hookname) : bool :=
  match h with HBeforeScenario | HAfterScenario => true | _ => false end.

Lemma run_hook_scoped cfg st h k st' r ev ids :
  run_hook cfg st h k = (st', r, ev) ->
  (scen_hook h = true -> mem_nat k ids = true) -> scoped ids ev = true.
Proof.
  unfold run_hook. destruct (c_dry cfg || negb (c_hooks cfg h)).
  - intros E; inversion E; subst. reflexivity.
  - destruct (c_faults cfg h k), (c_aborts cfg h k); intros E Hk; inversion E; subst; cbn;
      destruct h; cbn in *; auto; rewrite Hk; auto.
Qed.

Lemma run_hook_scoped_other cfg st h k st' r ev ids :
  scen_hook h = false -> run_hook cfg st h k = (st', r, ev) -> scoped ids ev = true.
Proof. intros Hh E. eapply run_hook_scoped; eauto. rewrite Hh. discriminate. Qed.

Lemma rh_other cfg st h k st' r ev ids :
  run_hook cfg st h k = (st', r, ev) -> scen_hook h = false -> scoped ids ev = true.
Proof. intros E Hh. eapply run_hook_scoped_other; eauto. Qed.



Lemma run_hook_scoped_self cfg st h k st' r ev :
  run_hook cfg st h k = (st', r, ev) -> scoped [k] ev = true.
Proof. intros E. eapply run_hook_scoped; eauto. intros _. cbn. now rewrite Nat.eqb_refl. Qed.

Lemma run_tag_hooks_scoped cfg h (Hh : scen_hook h = false) ids tags : forall st st' r ev,
  run_tag_hooks cfg st h tags = (st', r, ev) -> scoped ids ev = true.
Proof.
  induction tags as [|t tags IH]; intros st st' r ev; cbn [run_tag_hooks].
  - intros E; inversion E; subst. reflexivity.
  - destruct (run_hook cfg st h t) as [[st1 b1] e1] eqn:E1.
    destruct (run_tag_hooks cfg st1 h tags) as [[st2 b2] e2] eqn:E2.
    intros E; inversion E; subst. rewrite scoped_app.
    rewrite (run_hook_scoped_other _ _ _ _ _ _ _ ids Hh E1). cbn. eapply IH; eauto.
Qed.

Lemma rth_other cfg h ids tags st st' r ev :
  run_tag_hooks cfg st h tags = (st', r, ev) -> scen_hook h = false -> scoped ids ev = true.
Proof. intros E Hh. eapply run_tag_hooks_scoped; eauto. Qed.

Lemma run_defined_step_scoped cfg st wip scid k id st' status skip ev ids :
  mem_nat scid ids = true ->
  run_defined_step cfg st wip scid k id = (st', status, skip, ev) -> scoped ids ev = true.
Proof.
  intros Hm. unfold run_defined_step.
  destruct (run_hook cfg st HBeforeStep id) as [[st1 rb] eb] eqn:E1.
  eapply (rh_other _ _ _ _ _ _ _ ids) in E1; [|reflexivity].
  destruct rb.
  - destruct (run_hook cfg st1 HAfterStep id) as [[st3 ra] ea] eqn:E3.
    eapply (rh_other _ _ _ _ _ _ _ ids) in E3; [|reflexivity].
    intros E; inversion E; subst; clear E.
    rewrite scoped_cons, !scoped_app, E1, E3. reflexivity.
  - match goal with |- context [run_hook ?c ?stx HAfterStep id] =>
      destruct (run_hook c stx HAfterStep id) as [[st3 ra] ea] eqn:E3 end.
    eapply (rh_other _ _ _ _ _ _ _ ids) in E3; [|reflexivity].
    intros E; inversion E; subst; clear E.
    rewrite scoped_cons, scoped_app, scoped_cons, scoped_app, E1, E3. cbn. rewrite Hm. reflexivity.
Qed.

Lemma run_step_scoped cfg st wip scid s st' status skip ev ids :
  mem_nat scid ids = true ->
  run_step cfg st wip scid s = (st', status, skip, ev) -> scoped ids ev = true.
Proof.
  intros Hm. unfold run_step. destruct (st_kind s) eqn:K;
    try (apply run_defined_step_scoped; assumption).
  intros E; inversion E; subst; reflexivity.
Qed.

Lemma steps_loop_scoped cfg wip dry scid ids (Hm : mem_nat scid ids = true) steps : forall st l st' l' sts ev,
  steps_loop cfg st wip dry scid l steps = (st', l', sts, ev) -> scoped ids ev = true.
Proof.
  induction steps as [|s r IH]; intros st l st' l' sts ev; cbn [steps_loop].
  - intros E; inversion E; subst. reflexivity.
  - destruct (l_run_steps l).
    + destruct (run_step cfg st wip scid s) as [[[st1 status] skip] ev1] eqn:E1.
      eapply run_step_scoped in E1; [|exact Hm].
      match goal with |- context [steps_loop cfg st1 wip dry scid ?l1 r] =>
        destruct (steps_loop cfg st1 wip dry scid l1 r) as [[[st2 l2] sts2] ev2] eqn:E2 end.
      apply IH in E2. intros E; inversion E; subst; clear E. now rewrite scoped_app, E1, E2.
    + destruct (l_failed l || dry).
      * match goal with |- context [let '(status, ev) := ?X in _] => destruct X as [status0 ev0] eqn:E0 end.
        destruct (steps_loop cfg st wip dry scid l r) as [[[st2 l2] sts2] ev2] eqn:E2.
        apply IH in E2. intros E; inversion E; subst; clear E. rewrite scoped_app, E2.
        destruct (st_kind s), dry; inversion E0; subst; reflexivity.
      * destruct (steps_loop cfg st wip dry scid l r) as [[[st2 l2] sts2] ev2] eqn:E2.
        apply IH in E2. intros E; inversion E; subst; clear E. assumption.
Qed.

Lemma scoped_step_ann ids (steps : list step) :
  scoped ids (map (fun s => EFmt (FStepAnn (st_id s))) steps) = true.
Proof. induction steps; cbn; auto. Qed.

Lemma mem_nat_self x : mem_nat x [x] = true.
Proof. cbn. now rewrite Nat.eqb_refl. Qed.

Lemma run_scenario_scoped cfg st id all_steps oe eff own st' res fld ev :
  run_scenario cfg st id all_steps oe eff own = (st', res, fld, ev) ->
  scoped (if sel cfg eff then [id] else []) ev = true.
Proof.
  destruct (sel cfg eff) eqn:He.
  - unfold run_scenario. rewrite He.
    assert (Hq : forall (b : bool), scoped [id] (if b then EFmt (FScenario id) :: map (fun s => EFmt (FStepAnn (st_id s))) all_steps else []) = true)
      by (intros b; apply scoped_quiet, scen_ann_quiet).
    assert (Hsteps : forall st1 su hf wip st2 l2 sts evs,
               scenario_steps cfg st1 su hf true wip id all_steps = (st2, l2, sts, evs) -> scoped [id] evs = true).
    { intros st1 su hf wip st2 l2 sts evs. unfold scenario_steps. destruct su.
      - intros E; inversion E; subst. reflexivity.
      - apply steps_loop_scoped, mem_nat_self. }
    destruct (negb (c_dry cfg) && true) eqn:Hhc.
    + destruct (run_tag_hooks cfg (push st) HBeforeTag own) as [[sa b1] e1] eqn:E1.
      eapply (rth_other _ _ ([id])) in E1; [|reflexivity].
      destruct (run_hook cfg sa HBeforeScenario id) as [[sb b2] e2] eqn:E2.
      apply run_hook_scoped_self in E2.
      match goal with |- context [scenario_steps ?a ?b ?c ?d ?e ?f ?g ?h] =>
        destruct (scenario_steps a b c d e f g h) as [[[st2 l2] statuses] ev_steps] eqn:E3 end.
      apply Hsteps in E3.
      destruct (run_hook cfg st2 HAfterScenario id) as [[sc b3] e3] eqn:E4.
      apply run_hook_scoped_self in E4.
      destruct (run_tag_hooks cfg sc HAfterTag own) as [[sd b4] e4] eqn:E5.
      eapply (rth_other _ _ ([id])) in E5; [|reflexivity].
      destruct (pop sd) as [[st4 cr] ev_pop] eqn:E6. apply pop_quiet in E6.
      intros E; inversion E; subst; clear E.
      rewrite !scoped_app, scoped_cons, !scoped_app, E1, E2, scoped_step_ann, E3, E4, E5. cbn.
      now apply scoped_quiet.
    + match goal with |- context [scenario_steps ?a ?b ?c ?d ?e ?f ?g ?h] =>
        destruct (scenario_steps a b c d e f g h) as [[[st2 l2] statuses] ev_steps] eqn:E3 end.
      apply Hsteps in E3.
      destruct (pop st2) as [[st4 cr] ev_pop] eqn:E6. apply pop_quiet in E6.
      intros E; inversion E; subst; clear E.
      cbn [app]. rewrite scoped_cons, !scoped_app, scoped_step_ann, E3. cbn. now apply scoped_quiet.
  - rewrite (run_scenario_unselected _ _ _ _ _ _ _ He). intros E; inversion E; subst.
    apply scoped_quiet, scen_ann_quiet.
Qed.

Lemma run_rows_scoped cfg all_steps oe anc rows : forall st stopped st' rs fld ev,
  run_rows cfg st all_steps oe anc rows stopped = (st', rs, fld, ev) ->
  scoped (sel_rows cfg anc rows) ev = true.
Proof.
  induction rows as [|rw r IH]; intros st stopped st' rs fld ev; cbn [run_rows].
  - intros E; inversion E; subst. reflexivity.
  - unfold sel_rows. cbn [filter]. fold (sel_rows cfg anc r).
    destruct stopped.
    + destruct (run_rows cfg st all_steps oe anc r true) as [[[st2 rs2] f2] ev2] eqn:E2.
      intros E; inversion E; subst. apply IH in E2.
      destruct (sel cfg (rw_tags rw ++ anc)); [|exact E2].
      change (map rw_id (rw :: filter _ r)) with ([rw_id rw] ++ sel_rows cfg anc r). now apply scoped_r.
    + destruct (run_scenario cfg st (rw_id rw) all_steps oe (rw_tags rw ++ anc) (rw_tags rw))
        as [[[st1 res] f1] ev1] eqn:E1.
      apply run_scenario_scoped in E1.
      match goal with |- context [run_rows cfg st1 all_steps oe anc r ?b] =>
        destruct (run_rows cfg st1 all_steps oe anc r b) as [[[st2 rs2] f2] ev2] eqn:E2 end.
      apply IH in E2. intros E; inversion E; subst. rewrite scoped_app.
      destruct (sel cfg (rw_tags rw ++ anc)).
      * change (map rw_id (rw :: filter _ r)) with ([rw_id rw] ++ sel_rows cfg anc r).
        rewrite (scoped_l _ _ _ E1), (scoped_r _ _ _ E2). reflexivity.
      * fold (sel_rows cfg anc r). rewrite E2, andb_true_r.
        eapply scoped_weaken; [|exact E1]. intros x Hx. discriminate.
Qed.

Lemma run_sitem_scoped cfg st bg anc it st' res fld ev :
  run_sitem cfg st bg anc it = (st', res, fld, ev) -> scoped (sitem_sel_ids cfg anc it) ev = true.
Proof.
  destruct it as [s|o]; cbn [run_sitem sitem_sel_ids].
  - match goal with |- context [run_scenario ?a ?b ?c ?d ?e ?f ?g] =>
      destruct (run_scenario a b c d e f g) as [[[st1 r1] f1] ev1] eqn:E1 end.
    intros E; inversion E; subst. now apply run_scenario_scoped in E1.
  - unfold run_outline.
    match goal with |- context [run_rows ?a ?b ?c ?d ?e ?f ?g] =>
      destruct (run_rows a b c d e f g) as [[[st1 rs] f1] ev1] eqn:E1 end.
    intros E; inversion E; subst. now apply run_rows_scoped in E1.
Qed.

Lemma run_sitems_scoped cfg bg anc items : forall st stopped st' rs fld ev,
  run_sitems cfg st bg anc items stopped = (st', rs, fld, ev) ->
  scoped (flat_map (sitem_sel_ids cfg anc) items) ev = true.
Proof.
  induction items as [|it r IH]; intros st stopped st' rs fld ev; cbn [run_sitems flat_map].
  - intros E; inversion E; subst. reflexivity.
  - destruct stopped.
    + destruct (run_sitems cfg st bg anc r true) as [[[st2 rs2] f2] ev2] eqn:E2.
      intros E; inversion E; subst. apply IH in E2. now apply scoped_r.
    + destruct (run_sitem cfg st bg anc it) as [[[st1 res] f1] ev1] eqn:E1.
      apply run_sitem_scoped in E1.
      match goal with |- context [run_sitems cfg st1 bg anc r ?b] =>
        destruct (run_sitems cfg st1 bg anc r b) as [[[st2 rs2] f2] ev2] eqn:E2 end.
      apply IH in E2. intros E; inversion E; subst.
      rewrite scoped_app, (scoped_l _ _ _ E1), (scoped_r _ _ _ E2). reflexivity.
Qed.

Lemma run_rule_scoped cfg st r anc inh fhb st' res fld ev :
  run_rule cfg st r anc inh fhb = (st', res, fld, ev) -> scoped (rule_sel_ids cfg anc r) ev = true.
Proof.
  unfold run_rule, rule_sel_ids. set (ids := flat_map _ (r_items r)).
  assert (Hann : forall (b hb : bool) l, scoped ids (if b then EFmt (FRuleEv (r_id r)) :: (if hb then [EFmt (FBackground l)] else []) else []) = true)
    by (intros [] [] l; reflexivity).
  destruct (negb (c_dry cfg) && rule_runs cfg anc r).
  - destruct (run_tag_hooks cfg (push st) HBeforeTag (r_tags r)) as [[sa b1] e1] eqn:E1.
    eapply (rth_other _ _ (ids)) in E1; [|reflexivity].
    destruct (run_hook cfg sa HBeforeRule (r_id r)) as [[sb b2] e2] eqn:E2.
    eapply (rh_other _ _ _ _ _ _ _ (ids)) in E2; [|reflexivity].
    match goal with |- context [run_sitems ?a ?b ?c ?d ?e ?f] =>
      destruct (run_sitems a b c d e f) as [[[st2 rs] itf] evi] eqn:E3 end.
    apply run_sitems_scoped in E3. fold ids in E3.
    destruct (run_hook cfg st2 HAfterRule (r_id r)) as [[sc b3] e3] eqn:E4.
    eapply (rh_other _ _ _ _ _ _ _ (ids)) in E4; [|reflexivity].
    destruct (run_tag_hooks cfg sc HAfterTag (r_tags r)) as [[sd b4] e4] eqn:E5.
    eapply (rth_other _ _ (ids)) in E5; [|reflexivity].
    destruct (pop sd) as [[st4 cr] evp] eqn:E6. apply pop_quiet in E6.
    intros E; inversion E; subst; clear E.
    rewrite !scoped_app, E1, E2, Hann, E3, E4, E5. cbn. now apply scoped_quiet.
  - match goal with |- context [run_sitems ?a ?b ?c ?d ?e ?f] =>
      destruct (run_sitems a b c d e f) as [[[st2 rs] itf] evi] eqn:E3 end.
    apply run_sitems_scoped in E3. fold ids in E3.
    destruct (pop st2) as [[st4 cr] evp] eqn:E6. apply pop_quiet in E6.
    intros E; inversion E; subst; clear E.
    rewrite !scoped_app, Hann, E3. cbn. now apply scoped_quiet.
Qed.

Lemma run_fitems_scoped cfg bg hb anc items : forall st stopped st' rs fld ev,
  run_fitems cfg st bg hb anc items stopped = (st', rs, fld, ev) ->
  scoped (flat_map (fitem_sel_ids cfg anc) items) ev = true.
Proof.
  induction items as [|it r IH]; intros st stopped st' rs fld ev; cbn [run_fitems flat_map].
  - intros E; inversion E; subst. reflexivity.
  - destruct stopped.
    + destruct (run_fitems cfg st bg hb anc r true) as [[[st2 rs2] f2] ev2] eqn:E2.
      intros E; inversion E; subst. apply IH in E2. now apply scoped_r.
    + destruct (run_fitem cfg st bg hb anc it) as [[[st1 res] f1] ev1] eqn:E1.
      assert (S1 : scoped (fitem_sel_ids cfg anc it) ev1 = true).
      { destruct it as [i|rr]; cbn [run_fitem fitem_sel_ids] in *.
        - destruct (run_sitem cfg st bg anc i) as [[[sx rx] fx] ex] eqn:Ex.
          inversion E1; subst. now apply run_sitem_scoped in Ex.
        - destruct (run_rule cfg st rr anc bg hb) as [[[sx rx] fx] ex] eqn:Ex.
          inversion E1; subst. now apply run_rule_scoped in Ex. }
      match goal with |- context [run_fitems cfg st1 bg hb anc r ?b] =>
        destruct (run_fitems cfg st1 bg hb anc r b) as [[[st2 rs2] f2] ev2] eqn:E2 end.
      apply IH in E2. intros E; inversion E; subst.
      rewrite scoped_app, (scoped_l _ _ _ S1), (scoped_r _ _ _ E2). reflexivity.
Qed.

Lemma run_feature_scoped cfg st f st' res fld ev :
  run_feature cfg st f = (st', res, fld, ev) -> scoped (feature_sel_ids cfg f) ev = true.
Proof.
  unfold run_feature, feature_sel_ids. set (ids := flat_map _ (f_items f)).
  assert (Hann : forall (b hb : bool) l, scoped ids (if b then EFmt (FFeature (f_id f)) :: (if hb then [EFmt (FBackground l)] else []) else []) = true)
    by (intros [] [] l; reflexivity).
  assert (Heof : forall (b : bool), scoped ids (if b then [EFmt FEof] else []) = true) by (intros []; reflexivity).
  destruct (negb (c_dry cfg) && feature_should_run cfg f).
  - destruct (run_tag_hooks cfg (push st) HBeforeTag (f_tags f)) as [[sa b1] e1] eqn:E1.
    eapply (rth_other _ _ (ids)) in E1; [|reflexivity].
    destruct (run_hook cfg sa HBeforeFeature (f_id f)) as [[sb b2] e2] eqn:E2.
    eapply (rh_other _ _ _ _ _ _ _ (ids)) in E2; [|reflexivity].
    match goal with |- context [run_fitems ?a ?b ?c ?d ?e ?f ?g] =>
      destruct (run_fitems a b c d e f g) as [[[st2 rs] itf] evi] eqn:E3 end.
    apply run_fitems_scoped in E3. fold ids in E3.
    destruct (run_hook cfg st2 HAfterFeature (f_id f)) as [[sc b3] e3] eqn:E4.
    eapply (rh_other _ _ _ _ _ _ _ (ids)) in E4; [|reflexivity].
    destruct (run_tag_hooks cfg sc HAfterTag (f_tags f)) as [[sd b4] e4] eqn:E5.
    eapply (rth_other _ _ (ids)) in E5; [|reflexivity].
    destruct (pop sd) as [[st4 cr] evp] eqn:E6. apply pop_quiet in E6.
    intros E; inversion E; subst; clear E.
    rewrite !scoped_app, E1, E2, Hann, E3, E4, E5, Heof. cbn. rewrite andb_true_r. now apply scoped_quiet.
  - match goal with |- context [run_fitems ?a ?b ?c ?d ?e ?f ?g] =>
      destruct (run_fitems a b c d e f g) as [[[st2 rs] itf] evi] eqn:E3 end.
    apply run_fitems_scoped in E3. fold ids in E3.
    destruct (pop st2) as [[st4 cr] evp] eqn:E6. apply pop_quiet in E6.
    intros E; inversion E; subst; clear E.
    rewrite !scoped_app, Hann, E3, Heof. cbn. rewrite andb_true_r. now apply scoped_quiet.
Qed.

Lemma run_features_scoped cfg fs : forall st flag st' rs fld ev,
  run_features cfg st fs flag = (st', rs, fld, ev) -> scoped (sel_ids cfg fs) ev = true.
Proof.
  induction fs as [|f r IH]; intros st flag st' rs fld ev; cbn [run_features].
  - intros E; inversion E; subst. reflexivity.
  - unfold sel_ids. cbn [flat_map]. fold (sel_ids cfg r). destruct flag.
    + destruct (run_feature cfg st f) as [[[st1 res] f1] ev1] eqn:E1.
      apply run_feature_scoped in E1.
      match goal with |- context [run_features cfg st1 r ?b] =>
        destruct (run_features cfg st1 r b) as [[[st2 rs2] f2] ev2] eqn:E2 end.
      apply IH in E2. intros E; inversion E; subst.
      rewrite scoped_cons. cbn [ev_scope_ok andb].
      rewrite scoped_app, (scoped_l _ _ _ E1), (scoped_r _ _ _ E2). reflexivity.
    + destruct (run_features cfg st r false) as [[[st2 rs2] f2] ev2] eqn:E2.
      intros E; inversion E; subst. apply IH in E2. now apply scoped_r.
Qed.

Theorem executed_scenarios_are_selected cfg fs rs verdict ab evs :
  run_model cfg fs = (rs, verdict, ab, evs) -> scoped (sel_ids cfg fs) evs = true.
Proof.
  unfold run_model.
  destruct (run_hook cfg (mkState false [[]]) HBeforeAll 0) as [[st1 r1] e1] eqn:E1.
  eapply (rh_other _ _ _ _ _ _ _ (sel_ids cfg fs)) in E1; [|reflexivity].
  destruct (run_features cfg st1 fs (negb (aborted st1))) as [[[st2 rs2] anyf] e2] eqn:E2.
  apply run_features_scoped in E2.
  destruct (run_hook cfg st2 HAfterAll 0) as [[st3 r3] e3] eqn:E3.
  eapply (rh_other _ _ _ _ _ _ _ (sel_ids cfg fs)) in E3; [|reflexivity].
  intros E; inversion E; subst; clear E.
  rewrite !scoped_app, E1, E2, E3. cbn. rewrite andb_true_r. apply scoped_quiet, cleanup_events_quiet.
Qed.

(* ---- a selected scenario does run its hooks / first step *)
Lemma selected_scenario_runs_before_hook cfg st id all_steps oe eff own st' res fld ev :
  sel cfg eff = true -> c_dry cfg = false -> c_hooks cfg HBeforeScenario = true ->
  run_scenario cfg st id all_steps oe eff own = (st', res, fld, ev) ->
  In (EHook HBeforeScenario id (c_faults cfg HBeforeScenario id)) ev.
Proof.
  intros He Hd Hh. unfold run_scenario. rewrite He, Hd. cbn [negb andb].
  destruct (run_tag_hooks cfg (push st) HBeforeTag own) as [[sa b1] e1] eqn:E1.
  unfold run_hook at 1. rewrite Hd, Hh. cbn [orb negb].
  destruct (c_faults cfg HBeforeScenario id);
    match goal with |- context [scenario_steps ?a ?b ?c ?d ?e ?f ?g ?h] =>
      destruct (scenario_steps a b c d e f g h) as [[[st2 l2] statuses] ev_steps] eqn:E3 end;
    destruct (run_hook cfg st2 HAfterScenario id) as [[sc b3] e3] eqn:E4;
    destruct (run_tag_hooks cfg sc HAfterTag own) as [[sd b4] e4] eqn:E5;
    destruct (pop sd) as [[st4 cr] ev_pop] eqn:E6;
    intros E; inversion E; subst; clear E;
    rewrite <- !app_assoc; apply in_or_app; right; apply in_or_app; left; left; reflexivity.
Qed.

(* ---- a rule / outline / feature none of whose scenarios is selected ends skipped *)
Lemma unselected_rows_skipped cfg all_steps oe anc rows : forall st,
  aborted st = false -> all_steps <> [] ->
  forallb (fun rw => negb (sel cfg (rw_tags rw ++ anc))) rows = true ->
  exists rs ev, run_rows cfg st all_steps oe anc rows false = (st, rs, false, ev) /\
    forallb (fun r => status_eqb (st_or_unknown (sr_status r)) skipped) rs = true /\
    length rs = length rows /\ allq ev = true.
Proof.
  induction rows as [|rw r IH]; intros st Ha Hne Hall; cbn [run_rows].
  - eexists; eexists; split; [reflexivity|]. repeat split; reflexivity.
  - cbn [forallb] in Hall. apply andb_true_iff in Hall as [H1 H2]. apply negb_true_iff in H1.
    rewrite (run_scenario_unselected _ _ _ _ _ _ _ H1). rewrite Ha. cbn [andb].
    destruct (IH st Ha Hne H2) as (rs & ev & E & A & B & Q). rewrite E.
    eexists; eexists; split; [reflexivity|]. cbn [forallb length sr_status]. rewrite A, B.
    split; [|split; [reflexivity|]].
    + destruct oe; [reflexivity|]. destruct all_steps as [|s0 r0]; [congruence|]. reflexivity.
    + rewrite allq_app, Q, andb_true_r. apply scen_ann_quiet.
Qed.

Definition nonempty {A} (l : list A) : bool := match l with [] => false | _ => true end.

Definition sitem_nonempty (bg : list step) (it : sitem) : bool :=
  match it with
  | SScen s => nonempty (bg ++ sc_steps s)
  | SOutline o => nonempty (bg ++ o_steps o) && nonempty (outline_rows o)
  end.

Lemma unselected_sitems_skipped cfg bg anc items : forall st,
  aborted st = false ->
  forallb (fun it => negb (sitem_any_sel cfg anc it) && sitem_nonempty bg it) items = true ->
  exists rs ev, run_sitems cfg st bg anc items false = (st, rs, false, ev) /\
    forallb (fun r => status_eqb (item_status r) skipped) rs = true /\ length rs = length items /\
    allq ev = true.
Proof.
  induction items as [|it r IH]; intros st Ha Hall; cbn [run_sitems].
  - eexists; eexists; split; [reflexivity|]. repeat split; reflexivity.
  - cbn [forallb] in Hall. apply andb_true_iff in Hall as [H1 H2].
    apply andb_true_iff in H1 as [Hs Hn]. apply negb_true_iff in Hs.
    destruct (IH st Ha H2) as (rs & ev & E & A & B & Q).
    destruct it as [s|o]; cbn [run_sitem sitem_any_sel sitem_nonempty] in *.
    + rewrite (run_scenario_unselected _ _ _ _ _ _ _ Hs). rewrite Ha. cbn [andb]. rewrite E.
      eexists; eexists; split; [reflexivity|]. cbn [forallb length item_status sr_status]. rewrite A, B.
      split; [|split; [reflexivity|]].
      * rewrite andb_true_r. destruct (bg ++ sc_steps s) as [|x y] eqn:Eb; reflexivity.
      * rewrite allq_app, Q, andb_true_r. apply scen_ann_quiet.
    + rename Hs into Hrows. apply andb_true_iff in Hn as [Hn1 Hn2].
      unfold run_outline.
      assert (Hr : forallb (fun rw => negb (sel cfg (rw_tags rw ++ anc))) (outline_rows o) = true).
      { rewrite forallb_forall. intros x Hx. apply negb_true_iff.
        destruct (sel cfg (rw_tags x ++ anc)) eqn:Ex; [|reflexivity].
        assert (existsb (fun rw => sel cfg (rw_tags rw ++ anc)) (outline_rows o) = true)
          by (apply existsb_exists; exists x; auto). congruence. }
      assert (Hne : bg ++ o_steps o <> []) by (destruct (bg ++ o_steps o); [discriminate|congruence]).
      destruct (unselected_rows_skipped cfg (bg ++ o_steps o)
                  (match bg ++ o_steps o with [] => true | _ => false end) anc (outline_rows o) st Ha Hne Hr)
        as (rrs & rev & Er & Ar & Br & Qr).
      rewrite Er. rewrite Ha. cbn [andb]. rewrite E.
      eexists; eexists; split; [reflexivity|]. cbn [forallb length item_status]. rewrite A, B.
      split; [|split; [reflexivity|]].
      * rewrite andb_true_r. apply status_eqb_eq.
        apply outline_skipped_iff.
        -- unfold row_statuses. destruct rrs; [|discriminate]. destruct (outline_rows o); discriminate.
        -- unfold row_statuses. rewrite forallb_forall. intros x Hx. apply in_map_iff in Hx as [y [<- Hy]].
           rewrite forallb_forall in Ar. exact (Ar y Hy).
      * now rewrite allq_app, Qr, Q.
Qed.

Lemma pop_push st : pop (push st) = (st, false, []).
Proof. destruct st; reflexivity. Qed.

Theorem unselected_rule_is_skipped cfg st r anc inh fhb :
  aborted st = false ->
  rule_runs cfg anc r = false ->
  forallb (sitem_nonempty (inh ++ opt_steps (r_bg r))) (r_items r) = true ->
  exists res ev, run_rule cfg st r anc inh fhb = (st, res, false, ev) /\
    rr_status res = skipped /\ rr_hook_failed res = false /\ allq ev = true.
Proof.
  intros Ha Hs Hn. unfold run_rule. rewrite Hs. rewrite andb_false_r. cbn [orb].
  assert (Hall : forallb (fun it => negb (sitem_any_sel cfg (r_tags r ++ anc) it) &&
                                     sitem_nonempty (inh ++ opt_steps (r_bg r)) it) (r_items r) = true).
  { rewrite forallb_forall in *. intros x Hx. rewrite (Hn x Hx), andb_true_r. apply negb_true_iff.
    unfold rule_runs in Hs. apply andb_false_iff in Hs as [Hs|Hs].
    - apply sitem_any_sel_le. unfold rule_should_run in Hs. apply orb_false_iff in Hs as [_ Hitems].
      destruct (sitem_should_run cfg (r_tags r ++ anc) x) eqn:Ex; [|reflexivity].
      assert (existsb (sitem_should_run cfg (r_tags r ++ anc)) (r_items r) = true)
        by (apply existsb_exists; exists x; auto). congruence.
    - apply sitem_any_sel_excluded. now apply negb_false_iff in Hs. }
  destruct (unselected_sitems_skipped cfg (inh ++ opt_steps (r_bg r)) (r_tags r ++ anc) (r_items r)
              (push st) Ha Hall) as (rs & ev & E & A & B & Q).
  rewrite Ha. rewrite E. rewrite pop_push.
  eexists; eexists; split; [reflexivity|]. cbn [rr_status rr_hook_failed].
  split; [|split; [reflexivity|]].
  - destruct (r_items r) as [|i0 r0] eqn:Ei; [reflexivity|].
    apply container_skipped_iff. rewrite forallb_forall in *. intros x Hx.
    apply in_map_iff in Hx as [y [<- Hy]]. exact (A y Hy).
  - cbn [app]. rewrite app_nil_r. rewrite allq_app, Q, andb_true_r.
    destruct (c_show_skipped cfg); [|reflexivity].
    destruct (match r_bg r with Some _ => true | None => fhb end); reflexivity.
Qed.
