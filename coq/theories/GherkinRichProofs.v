(* GherkinRichProofs.v - C04 at the level of the state machine: scenarios with tag lines whose
   steps carry a doc-string and/or a table.  Builds on GherkinTableProofs (settled view, tables)
   and GherkinDocProofs (doc-string blocks). *)
From BV Require Import Base UStr GherkinTypes Gherkin GherkinProofs GherkinRowProofs GherkinBlockProofs GherkinTagProofs
                       GherkinTableProofs GherkinDocProofs.

(* a doc-string block: opening delimiter line, its delimiter and column, the content lines, the closing line *)
Definition docblock : Type := (ustr * ustr * nat * list ustr * ustr)%type.

Definition doc_lines (d : docblock) : list ustr := let '(o, _, _, cs, c) := d in o :: cs ++ [c].

Definition doc_ok (d : docblock) : Prop :=
  let '(o, term, col, cs, c) := d in
  doc_fact o = Some (term, col) /\ strip o <> [] /\ first_is cp_hash (strip o) = false /\
  Forall (doc_line_ok col term) cs /\ prefixb term (strip c) = true.

Definition doc_text (d : docblock) (ln : nat) : ustr * nat :=
  let '(_, _, col, cs, _) := d in (join [10%N] (map (fun l => rstrip (skipn col l)) cs), ln).

Definition odoc_lines (d : option docblock) : list ustr := match d with Some x => doc_lines x | None => [] end.

(* a step: line, type, keyword, text, an optional doc-string block, the lines of its table *)
Definition xstep : Type := (ustr * stept * ustr * ustr * option docblock * list ustr)%type.

Definition xstep_lines (x : xstep) : list ustr := let '(line, _, _, _, d, rows) := x in line :: odoc_lines d ++ rows.

Definition xstep_ok (kw : kwtable) (x : xstep) : Prop :=
  let '(line, t, k, text, d, rows) := x in
  step_line kw line t k text /\ starts_pipe (strip line) = false /\
  match d with Some b => doc_ok b | None => True end /\
  Forall (fun l => row_line kw l /\
                   length (row_cells (strip l)) = length (row_cells (strip (hd [] rows)))) rows.

Definition xstep_of (x : xstep) (ln : nat) : pstep :=
  let '(_, t, k, text, d, rows) := x in
  mkPStep (rstrip k) t text (S ln) (option_map (fun b => doc_text b (S (S ln))) d)
          (table_of rows (S ln + length (odoc_lines d))).

Fixpoint xsteps_of (xs : list xstep) (ln : nat) : list pstep :=
  match xs with
  | [] => []
  | x :: r => xstep_of x ln :: xsteps_of r (ln + length (xstep_lines x))
  end.

(* stage A: the step line and its doc-string *)
Lemma feed_step_and_doc m f s rest line t k text d :
  settled m f s rest -> step_line (m_kw m) line t k text -> starts_pipe (strip line) = false ->
  match d with Some b => doc_ok b | None => True end ->
  let st := mkPStep (rstrip k) t text (S (m_line m)) (option_map (fun b => doc_text b (S (S (m_line m)))) d) None in
  let s' := with_steps s (st :: sc_steps s) in
  exists m', fold_left feed (line :: odoc_lines d) (ROk m) = ROk m' /\
             m_st m' = StSteps /\ m_table m' = None /\ m_in_examples m' = false /\ m_lines m' = [] /\
             at_feature_scenario m' (with_items f (FScen s' :: rest)) s' rest /\
             m_line m' = S (m_line m) + length (odoc_lines d) /\ m_kw m' = m_kw m /\ m_tags m' = m_tags m /\ m_lang m' = m_lang m.
Proof.
  intros SE SL NP DO st s'.
  destruct (feed_step_line_settled m f s rest line t k text SE SL NP) as (m1 & FD1 & SE1 & ST1 & T1 & L1 & K1 & TG1 & G1).
  destruct SE1 as [IE1 [LN1 [[_ [_ W1]] | (f0 & s0 & st0 & r0 & t0 & STx & _)]]]; [|congruence].
  cbn [fold_left]. rewrite FD1. destruct d as [[[[[o term] col] cs] c]|].
  - destruct DO as (DF & NB & NC & CS & CL).
    destruct (feed_doc_block m1 _ _ rest _ (sc_steps s) o term col cs c ST1 LN1 W1 eq_refl DF NB NC CS CL)
      as (m2 & FD2 & ST2 & LN2 & W2 & L2 & (KC & KS & KK & KT & KB & KI & KG)).
    exists m2. cbn [odoc_lines doc_lines]. split; [exact FD2|].
    split; [exact ST2|]. split; [congruence|]. split; [congruence|]. split; [exact LN2|]. split.
    + unfold s', st. cbn [option_map doc_text]. rewrite L1 in W2.
      unfold with_text, with_steps, with_items in *. cbn in W2 |- *. exact W2.
    + cbn [length]. rewrite app_length. cbn [length]. repeat split; try congruence. unfold ustr in *; lia.
  - exists m1. cbn [odoc_lines fold_left length option_map]. rewrite Nat.add_0_r.
    repeat split; try assumption.
    all: destruct W1 as [A [B [C D]]]; assumption.
Qed.

(* stage B: the table rows *)
Lemma feed_rows m f s rest st r rows :
  m_st m = StSteps -> m_table m = None -> m_in_examples m = false -> m_lines m = [] ->
  at_feature_scenario m f s rest -> sc_steps s = st :: r ->
  Forall (fun l => row_line (m_kw m) l /\
                   length (row_cells (strip l)) = length (row_cells (strip (hd [] rows)))) rows ->
  let st' := mkPStep (ps_kw st) (ps_type st) (ps_name st) (ps_line st) (ps_text st)
                     (match rows with [] => ps_table st | _ => table_of rows (m_line m) end) in
  let s' := with_steps s (st' :: r) in
  exists m', fold_left feed rows (ROk m) = ROk m' /\ settled m' (with_items f (FScen s' :: rest)) s' rest /\
             m_line m' = m_line m + length rows /\ m_kw m' = m_kw m /\ m_tags m' = m_tags m /\ m_lang m' = m_lang m.
Proof.
  intros ST T IE LN W HS RS st' s'. destruct rows as [|h body].
  - exists m. cbn [fold_left length]. rewrite Nat.add_0_r. split; [reflexivity|]. split.
    + split; [exact IE|]. split; [exact LN|]. left. split; [exact T|]. split; [left; exact ST|].
      unfold s', st'. destruct W as [A [B [C D]]]. unfold at_feature_scenario, with_items, with_steps.
      destruct s, f, st; cbn in *. subst. repeat split; auto.
    + repeat split.
  - inversion RS as [|? ? [RLh _] RB]. subst. cbn [hd] in RB.
    destruct (feed_heading m f s rest st r h ST T IE LN W HS RLh) as (m2 & FD2 & PD2 & L2 & K2 & TG2 & G2).
    assert (RB2 : Forall (fun l => row_line (m_kw m2) l /\
                length (row_cells (strip l)) = length (pt_head (mkPTable (row_cells (strip h)) [] (S (m_line m))))) body)
      by (rewrite K2; exact RB).
    destruct (feed_body_rows body m2 f s rest st r _ PD2 RB2) as (m3 & FD3 & PD3 & L3 & K3 & TG3 & G3).
    exists m3. cbn [fold_left]. rewrite FD2. split; [exact FD3|]. split.
    + apply pending_settled in PD3. rewrite app_nil_r in PD3.
      unfold closed_feature, with_table, with_items, with_steps, table_rows_in_order in *.
      cbn in PD3 |- *. rewrite !rev_involutive in PD3. rewrite L2 in PD3. exact PD3.
    + cbn [length]. repeat split; try congruence. unfold ustr in *; lia.
Qed.

Lemma feed_xstep m f s rest x :
  settled m f s rest -> xstep_ok (m_kw m) x ->
  let st := xstep_of x (m_line m) in
  exists m', fold_left feed (xstep_lines x) (ROk m) = ROk m' /\
             settled m' (with_items f (FScen (with_steps s (st :: sc_steps s)) :: rest)) (with_steps s (st :: sc_steps s)) rest /\
             m_line m' = m_line m + length (xstep_lines x) /\ m_kw m' = m_kw m /\ m_tags m' = m_tags m /\ m_lang m' = m_lang m.
Proof.
  destruct x as [[[[[line t] k] text] d] rows]. intros SE (SL & NP & DO & RS) st.
  destruct (feed_step_and_doc m f s rest line t k text d SE SL NP DO) as (m1 & FD1 & ST1 & T1 & IE1 & LN1 & W1 & L1 & K1 & TG1 & G1).
  assert (RS1 : Forall (fun l => row_line (m_kw m1) l /\
                  length (row_cells (strip l)) = length (row_cells (strip (hd [] rows)))) rows) by (now rewrite K1).
  destruct (feed_rows m1 _ _ rest _ (sc_steps s) rows ST1 T1 IE1 LN1 W1 eq_refl RS1) as (m2 & FD2 & SE2 & L2 & K2 & TG2 & G2).
  exists m2. cbn [xstep_lines]. rewrite app_comm_cons, fold_left_app, FD1. split; [exact FD2|]. split.
  - unfold st, xstep_of. rewrite L1 in SE2.
    destruct rows as [|h body]; cbn [table_of] in *; unfold with_items, with_steps in *; cbn in SE2 |- *; exact SE2.
  - rewrite app_length. cbn [length]. repeat split; try congruence. unfold ustr in *; lia.
Qed.

Lemma xsteps_are_read xs : forall m f s rest,
  settled m f s rest -> Forall (xstep_ok (m_kw m)) xs ->
  exists m' f' s',
    fold_left feed (flat_map xstep_lines xs) (ROk m) = ROk m' /\ settled m' f' s' rest /\
    m_line m' = m_line m + length (flat_map xstep_lines xs) /\ m_kw m' = m_kw m /\ m_tags m' = m_tags m /\ m_lang m' = m_lang m /\
    s' = with_steps s (rev (xsteps_of xs (m_line m)) ++ sc_steps s) /\ f' = with_items f (FScen s' :: rest).
Proof.
  induction xs as [|x xs IH]; intros m f s rest SE OK.
  - exists m, f, s. cbn [flat_map fold_left xsteps_of rev app length]. rewrite Nat.add_0_r.
    split; [reflexivity|]. split; [exact SE|]. split; [reflexivity|]. split; [reflexivity|]. split; [reflexivity|].
    split; [reflexivity|]. split.
    + destruct s; reflexivity.
    + pose proof (settled_items _ _ _ _ SE) as D. destruct f; cbn in *. now rewrite D.
  - inversion OK as [|? ? H1 OK']. subst.
    destruct (feed_xstep m f s rest x SE H1) as (m1 & FD1 & SE1 & L1 & K1 & TG1 & G1).
    assert (OK1 : Forall (xstep_ok (m_kw m1)) xs) by (now rewrite K1).
    destruct (IH m1 _ _ rest SE1 OK1) as (m' & f' & s' & FD' & SE' & L' & K' & TG' & G' & ES & EF).
    exists m', f', s'. cbn [flat_map]. rewrite fold_left_app, FD1. split; [exact FD'|]. split; [exact SE'|].
    split; [rewrite L', L1, app_length; unfold ustr in *; lia|].
    split; [congruence|]. split; [congruence|]. split; [congruence|]. split.
    + rewrite ES. cbn [xsteps_of rev]. rewrite L1. unfold with_steps. cbn. now rewrite <- app_assoc.
    + rewrite EF. unfold with_items. cbn. reflexivity.
Qed.

(* ---- scenarios ---- *)
Definition xscen : Type := (list (ustr * list ustr) * (ustr * ustr * ustr) * list xstep)%type.

Definition xscen_lines (x : xscen) : list ustr :=
  let '(tls, (line, _, _), steps) := x in map fst tls ++ line :: flat_map xstep_lines steps.

Definition xscen_ok (kw : kwtable) (x : xscen) : Prop :=
  let '(tls, (line, alias, name), steps) := x in
  Forall (fun y => tag_line kw (fst y) (snd y)) tls /\ scenario_line kw line alias name /\
  starts_pipe (strip line) = false /\ Forall (xstep_ok kw) steps.

Fixpoint expected_x (scens : list xscen) (ln : nat) : list fitem :=
  match scens with
  | [] => []
  | (tls, (_, alias, name), steps) :: r =>
      let l1 := ln + length tls in
      FScen (mkPScen false alias name (S l1) (tags_of tls ln) [] (xsteps_of steps (S l1)) []) ::
      expected_x r (S l1 + length (flat_map xstep_lines steps))
  end.

Lemma x_scenarios_are_read scens : forall m f,
  body m f -> m_tags m = [] -> Forall (xscen_ok (m_kw m)) scens ->
  exists m' f',
    fold_left feed (flat_map xscen_lines scens) (ROk m) = ROk m' /\ body m' f' /\ m_tags m' = [] /\ m_kw m' = m_kw m /\
    rev (map fin_item (f_items f')) = rev (map fin_item (f_items f)) ++ expected_x scens (m_line m) /\
    with_items f' [] = with_items f [].
Proof.
  induction scens as [|[[tls [[line alias] name]] steps] scens IH]; intros m f B T OK.
  - exists m, f. cbn [flat_map fold_left expected_x]. rewrite app_nil_r.
    split; [reflexivity|]. split; [exact B|]. repeat split; auto.
  - inversion OK as [|? ? H1 OK']. subst. destruct H1 as (TL & SL & NP & STP).
    destruct (tag_lines_body tls m f B TL) as (m0 & FD0 & B0 & L0 & K0 & T0).
    assert (SL0 : scenario_line (m_kw m0) line alias name) by (now rewrite K0).
    destruct (feed_scenario_line_body m0 f line alias name B0 SL0 NP) as (m1 & FD1 & SE1 & L1 & K1 & T1).
    assert (STP1 : Forall (xstep_ok (m_kw m1)) steps) by (now rewrite K1, K0).
    destruct (xsteps_are_read steps m1 _ _ (f_items f) SE1 STP1) as (m2 & f2 & s2 & FD2 & SE2 & L2 & K2 & T2 & _ & ES & EF).
    assert (OK2 : Forall (xscen_ok (m_kw m2)) scens) by (rewrite K2, K1, K0; exact OK').
    assert (T2' : m_tags m2 = []) by congruence.
    destruct (IH m2 f2 (settled_body _ _ _ _ SE2) T2' OK2) as (m' & f' & FD' & B' & T' & K' & IT' & HD').
    exists m', f'. cbn [flat_map xscen_lines]. rewrite !fold_left_app. rewrite FD0. cbn [fold_left]. rewrite FD1, FD2.
    split; [exact FD'|]. split; [exact B'|]. split; [exact T'|]. split; [congruence|]. split.
    + rewrite IT'. rewrite EF. cbn [with_items f_items map rev fin_item]. rewrite ES.
      assert (FS : fin_scen (with_steps (new_scenario m0 alias name) (rev (xsteps_of steps (m_line m1)) ++ sc_steps (new_scenario m0 alias name))) =
                   mkPScen false alias name (S (m_line m + length tls)) (tags_of tls (m_line m)) [] (xsteps_of steps (S (m_line m + length tls))) []).
      { unfold new_scenario. rewrite T0, T. cbn [sc_steps app]. rewrite L1, L0. apply fin_scen_with_steps_tags. }
      rewrite FS. rewrite <- app_assoc. cbn [app expected_x]. rewrite L2, L1, L0. reflexivity.
    + rewrite HD', EF. unfold with_items. cbn. reflexivity.
Qed.

(* C04 for features whose scenarios carry tags and whose steps carry doc-strings and tables *)
Theorem a_feature_with_tags_docstrings_and_tables_is_read_back_exactly kw code fline falias fname scens :
  feature_line kw fline falias fname -> Forall (xscen_ok kw) scens ->
  exists m',
    finish_table (fold_left feed (fline :: flat_map xscen_lines scens) (ROk (init_state code kw VFeature StInitial))) = ROk m' /\
    m_table m' = None /\
    option_map fin_feature (m_feat m') = Some (mkPFeat falias fname 1 [] [] None (expected_x scens 1) code).
Proof.
  intros [NB NC NT FA] OK. set (m0 := init_state code kw VFeature StInitial).
  assert (F0 : feed (ROk m0) fline = ROk (upd_st (build_feature (upd_line m0 1) falias fname) StFeature)).
  { rewrite (feed_nonblank m0 fline NB). rewrite (action_dispatch _ fline NB NC). cbn [upd_line m_st m0 init_state].
    unfold a_initial. rewrite match_at, NT. cbn [upd_line m_kw m0 init_state]. now rewrite FA. }
  set (m1 := upd_st (build_feature (upd_line m0 1) falias fname) StFeature) in *.
  set (f1 := mkPFeat falias fname 1 [] [] None [] code).
  assert (B1 : body m1 f1).
  { split; [reflexivity|]. split; [reflexivity|]. left. split; [reflexivity|]. split; [left; reflexivity|]. split; reflexivity. }
  destruct (x_scenarios_are_read scens m1 f1 B1 eq_refl OK) as (m' & f' & FD & B' & T' & K' & IT & HD).
  cbn [fold_left]. rewrite F0, FD. unfold finish_table. cbn [rbind].
  assert (FIN : fin_feature f' = mkPFeat falias fname 1 [] [] None (expected_x scens 1) code).
  { unfold fin_feature. rewrite IT. cbn [f_items map rev app m_line m1 upd_st build_feature upd_tags upd_tree upd_line m0 init_state f1].
    unfold with_items in HD. cbn in HD. inversion HD as [[H1 H2 H3 H4 H5 H6 H7]]. rewrite H1, H2, H3, H4, H5, H6, H7. reflexivity. }
  destruct B' as [IE [_ [[TB [ST [C F]]] | (f0 & s0 & rest & st & r & t & PD & EF)]]].
  - rewrite TB. eexists. split; [reflexivity|]. split; [exact TB|]. rewrite F. cbn [option_map]. now rewrite FIN.
  - destruct PD as (_ & ST & TB & W & HS & _). rewrite TB.
    destruct (closed_state m' f0 s0 rest st r t W HS TB IE) as (_ & W1 & T1 & _).
    eexists. split; [reflexivity|]. split; [exact T1|].
    destruct W1 as [_ [_ [C1 _]]]. rewrite C1. cbn [option_map]. fold (closed_feature f0 s0 rest st r t). rewrite <- EF. now rewrite FIN.
Qed.

(* non-vacuity: an English doc-string block (with an empty and an indented content line) *)
Example an_english_docstring_block :
  doc_ok ([32; 32; 32; 32; 32; 32; 34; 34; 34]%N, [34; 34; 34]%N, 6, [[32; 32; 32; 32; 32; 32; 102; 105; 114; 115; 116; 32; 108; 105; 110; 101; 32; 32]%N; []; [32; 32; 32; 32; 32; 32; 32; 32; 105; 110; 100; 101; 110; 116; 101; 100]%N], [32; 32; 32; 32; 32; 32; 34; 34; 34]%N) /\
  doc_text ([32; 32; 32; 32; 32; 32; 34; 34; 34]%N, [34; 34; 34]%N, 6, [[32; 32; 32; 32; 32; 32; 102; 105; 114; 115; 116; 32; 108; 105; 110; 101; 32; 32]%N; []; [32; 32; 32; 32; 32; 32; 32; 32; 105; 110; 100; 101; 110; 116; 101; 100]%N], [32; 32; 32; 32; 32; 32; 34; 34; 34]%N) 7 = ([102; 105; 114; 115; 116; 32; 108; 105; 110; 101; 10; 10; 32; 32; 105; 110; 100; 101; 110; 116; 101; 100]%N, 7).
Proof.
  split; [|vm_compute; reflexivity].
  split; [vm_compute; reflexivity|]. split; [vm_compute; congruence|]. split; [vm_compute; reflexivity|].
  split; [|vm_compute; reflexivity].
  repeat constructor; vm_compute; reflexivity.
Qed.
