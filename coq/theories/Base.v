(* Base.v — helpers shared by every model and by the generated case files.
   No proofs about behave live here. *)
From Coq Require Export List Bool Arith ZArith NArith Lia.
Export ListNotations.

(* Index list of the cases on which the model disagrees with the expected
   (= implementation) output.  The harness prints this with vm_compute. *)
Fixpoint mism_from {A B : Type} (f : A -> B) (eqb : B -> B -> bool)
         (i : nat) (l : list (A * B)) : list nat :=
  match l with
  | [] => []
  | (a, b) :: r =>
      if eqb (f a) b then mism_from f eqb (S i) r
      else i :: mism_from f eqb (S i) r
  end.
Definition mismatches {A B : Type} (f : A -> B) (eqb : B -> B -> bool)
           (l : list (A * B)) : list nat := mism_from f eqb 0 l.

Fixpoint list_eqb {A : Type} (eqb : A -> A -> bool) (l1 l2 : list A) : bool :=
  match l1, l2 with
  | [], [] => true
  | x :: r1, y :: r2 => eqb x y && list_eqb eqb r1 r2
  | _, _ => false
  end.

Definition option_eqb {A : Type} (eqb : A -> A -> bool) (o1 o2 : option A) : bool :=
  match o1, o2 with
  | None, None => true
  | Some x, Some y => eqb x y
  | _, _ => false
  end.

Definition pair_eqb {A B : Type} (ea : A -> A -> bool) (eb : B -> B -> bool)
           (p q : A * B) : bool :=
  ea (fst p) (fst q) && eb (snd p) (snd q).

Lemma list_eqb_refl {A} (eqb : A -> A -> bool) :
  (forall x, eqb x x = true) -> forall l, list_eqb eqb l l = true.
Proof. intros H l; induction l as [|x l IH]; cbn; [reflexivity|]. now rewrite H, IH. Qed.

Lemma list_eqb_eq {A} (eqb : A -> A -> bool) :
  (forall x y, eqb x y = true -> x = y) ->
  forall l1 l2, list_eqb eqb l1 l2 = true -> l1 = l2.
Proof.
  intros H l1; induction l1 as [|x l1 IH]; intros [|y l2]; cbn; try discriminate; auto.
  intros E. apply andb_true_iff in E as [E1 E2]. f_equal; auto.
Qed.

(* strings are lists of code points *)
Definition ustr := list N.
Definition ustr_eqb : ustr -> ustr -> bool := list_eqb N.eqb.

Fixpoint count_occ_b {A} (p : A -> bool) (l : list A) : nat :=
  match l with [] => 0 | x :: r => (if p x then 1 else 0) + count_occ_b p r end.

Lemma existsb_app' {A} (p : A -> bool) l1 l2 :
  existsb p (l1 ++ l2) = existsb p l1 || existsb p l2.
Proof. apply existsb_app. Qed.
