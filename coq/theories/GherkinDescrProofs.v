(* GherkinDescrProofs.v - C04 at the level of the state machine: description lines under the
   feature line and under scenario lines, on top of tags, doc-strings and tables. *)
From BV Require Import Base UStr GherkinTypes Gherkin GherkinProofs GherkinRowProofs GherkinBlockProofs GherkinTagProofs
                       GherkinTableProofs GherkinDocProofs GherkinRichProofs.

Record descr_line (kw : kwtable) (line : ustr) : Prop := {
  dl_nonblank : strip line <> [];
  dl_nocomment : first_is cp_hash (strip line) = false;
  dl_nostep : step_fact kw (strip line) = None;
  dl_notag : starts_at (strip line) = false;
  dl_norule : first_alias (k_rule kw) (strip line) = None;
  dl_noscenario : first_alias (k_scenario kw) (strip line) = None;
  dl_nooutline : first_alias (k_outline kw) (strip line) = None;
  dl_noexamples : first_alias (k_examples kw) (strip line) = None;
  dl_nobackground : first_alias (k_background kw) (strip line) = None }.

Definition with_descr (s : pscen) (d : list ustr) : pscen :=
  mkPScen (sc_outline s) (sc_kw s) (sc_name s) (sc_line s) (sc_tags s) d (sc_steps s) (sc_examples s).

(* the state directly after a scenario line and its description lines: nothing pending *)
Definition fresh (m : mstate) (f : pfeature) (s : pscen) (rest : list fitem) : Prop :=
  m_st m = StScenario /\ m_table m = None /\ m_in_examples m = false /\ m_lines m = [] /\ at_feature_scenario m f s rest.

Lemma fresh_settled m f s rest : fresh m f s rest -> settled m f s rest.
Proof.
  intros (ST & T & IE & LN & W). split; [exact IE|]. split; [exact LN|]. left. split; [exact T|]. split; [right; exact ST|exact W].
Qed.

Lemma feed_descr_line m f s rest line :
  fresh m f s rest -> descr_line (m_kw m) line ->
  let s' := with_descr s (strip line :: sc_descr s) in
  exists m', feed (ROk m) line = ROk m' /\ fresh m' (with_items f (FScen s' :: rest)) s' rest /\
             m_line m' = S (m_line m) /\ m_kw m' = m_kw m /\ m_tags m' = m_tags m.
Proof.
  intros (ST & T & IE & LN & W) [NB NC NS NA NR NSc NO NE _] s'.
  set (m1 := upd_line m (S (m_line m))).
  assert (W1 : at_feature_scenario (upd_last m1 None) f s rest)
    by (destruct W as [A [B [C D]]]; unfold at_feature_scenario; cbn; auto).
  rewrite (feed_nonblank m line NB). fold m1. rewrite (action_dispatch m1 line NB NC). cbn [m1 upd_line m_st]. rewrite ST.
  unfold a_scenario. unfold parse_step. cbn [upd_last m1 upd_line m_kw]. rewrite NS. cbn [rbind].
  rewrite (sub_taggable_none (upd_last m1 None) (strip line) NA NR NSc NO NE). cbn [rbind].
  rewrite (get_stmt_at _ _ _ _ W1). eexists. split; [reflexivity|].
  destruct W as [A [B [C D]]]. cbn [view_add_descr]. unfold set_stmt. cbn [upd_last m1 upd_line m_stmt]. rewrite A.
  unfold set_item. cbn [upd_last m1 upd_line m_cont m_feat]. rewrite B, C, D.
  unfold fresh, at_feature_scenario, s', with_items, with_descr. cbn. repeat split; auto.
Qed.

Lemma descr_lines_are_read ds : forall m f s rest,
  fresh m f s rest -> Forall (descr_line (m_kw m)) ds ->
  exists m' f' s', fold_left feed ds (ROk m) = ROk m' /\ fresh m' f' s' rest /\
    m_line m' = m_line m + length ds /\ m_kw m' = m_kw m /\ m_tags m' = m_tags m /\
    s' = with_descr s (rev (map strip ds) ++ sc_descr s) /\ f' = with_items f (FScen s' :: rest).
Proof.
  induction ds as [|d ds IH]; intros m f s rest FR OK.
  - exists m, f, s. cbn [fold_left map rev app length]. rewrite Nat.add_0_r.
    split; [reflexivity|]. split; [exact FR|]. split; [reflexivity|]. split; [reflexivity|]. split; [reflexivity|]. split.
    + destruct s; reflexivity.
    + destruct FR as (_ & _ & _ & _ & (_ & _ & _ & D)). destruct f; cbn in *. now rewrite D.
  - inversion OK as [|? ? H1 OK']. subst.
    destruct (feed_descr_line m f s rest d FR H1) as (m1 & FD1 & FR1 & L1 & K1 & T1).
    assert (OK1 : Forall (descr_line (m_kw m1)) ds) by (now rewrite K1).
    destruct (IH m1 _ _ rest FR1 OK1) as (m' & f' & s' & FD' & FR' & L' & K' & T' & ES & EF).
    exists m', f', s'. cbn [fold_left]. rewrite FD1. split; [exact FD'|]. split; [exact FR'|].
    split; [cbn [length]; lia|]. split; [congruence|]. split; [congruence|]. split.
    + rewrite ES. cbn [map rev]. unfold with_descr. cbn. now rewrite <- app_assoc.
    + rewrite EF. unfold with_items. cbn. reflexivity.
Qed.

(* the scenario line, with the state it leaves *)
Lemma feed_scenario_line_fresh m f line alias name :
  body m f -> scenario_line (m_kw m) line alias name -> starts_pipe (strip line) = false ->
  exists m', feed (ROk m) line = ROk m' /\
             fresh m' (with_items f (FScen (new_scenario m alias name) :: f_items f)) (new_scenario m alias name) (f_items f) /\
             m_line m' = S (m_line m) /\ m_kw m' = m_kw m /\ m_tags m' = [].
Proof.
  intros [IE [LN [[T [ST [C F]]] | (f0 & s0 & rest & st & r & t & PD & EF)]]] SL P.
  - destruct (feed_scenario_line_anywhere m f line alias name C F ST SL) as (m' & FD & ST' & W' & L' & K' & TG' & G' & TB' & IE' & LN').
    exists m'. split; [exact FD|]. split.
    + split; [exact ST'|]. split; [congruence|]. split; [congruence|]. split; [congruence|exact W'].
    + repeat split; congruence.
  - destruct PD as (_ & ST & T & W & HS & _). pose proof SL as [ND NB NC NT NS NR SC].
    rewrite (table_closes m f0 s0 rest st r t line ST W HS T IE NB NC P).
    destruct (closed_state m f0 s0 rest st r t W HS T IE) as (ST1 & W1 & T1 & IE1 & L1 & K1 & TG1 & G1 & _ & LN1).
    set (m1 := upd_st (close_table m) StSteps) in *.
    assert (SL1 : scenario_line (m_kw m1) (strip line) alias name) by (rewrite K1; now apply scenario_line_strip).
    destruct W1 as [A1 [B1 [C1 D1]]].
    assert (ST1' : in_feature_body m1) by (right; left; exact ST1).
    destruct (feed_scenario_line_anywhere m1 _ (strip line) alias name B1 C1 ST1' SL1) as (m' & FD & ST' & W' & L' & K' & TG' & G' & TB' & IE' & LN').
    exists m'. split; [exact FD|]. split.
    + split; [exact ST'|]. split; [congruence|]. split; [congruence|]. split; [congruence|].
      unfold new_scenario in *. rewrite L1, TG1 in W'. rewrite EF. exact W'.
    + repeat split; congruence.
Qed.

(* ---- scenarios with tags, description, steps with doc-strings and tables ---- *)
Definition yscen : Type := (list (ustr * list ustr) * (ustr * ustr * ustr) * list ustr * list xstep)%type.

Definition yscen_lines (x : yscen) : list ustr :=
  let '(tls, (line, _, _), ds, steps) := x in map fst tls ++ line :: ds ++ flat_map xstep_lines steps.

Definition yscen_ok (kw : kwtable) (x : yscen) : Prop :=
  let '(tls, (line, alias, name), ds, steps) := x in
  Forall (fun y => tag_line kw (fst y) (snd y)) tls /\ scenario_line kw line alias name /\
  starts_pipe (strip line) = false /\ Forall (descr_line kw) ds /\ Forall (xstep_ok kw) steps.

Fixpoint expected_y (scens : list yscen) (ln : nat) : list fitem :=
  match scens with
  | [] => []
  | (tls, (_, alias, name), ds, steps) :: r =>
      let l1 := ln + length tls in
      FScen (mkPScen false alias name (S l1) (tags_of tls ln) (map strip ds) (xsteps_of steps (S l1 + length ds)) []) ::
      expected_y r (S l1 + length ds + length (flat_map xstep_lines steps))
  end.

Lemma fin_scen_full alias name ln tags ds steps :
  fin_scen (with_steps (with_descr (mkPScen false alias name ln tags [] [] []) (rev ds ++ [])) (rev steps ++ []))
  = mkPScen false alias name ln tags ds steps [].
Proof. unfold fin_scen, with_steps, with_descr. cbn. now rewrite !app_nil_r, !rev_involutive. Qed.

Lemma y_scenarios_are_read scens : forall m f,
  body m f -> m_tags m = [] -> Forall (yscen_ok (m_kw m)) scens ->
  exists m' f',
    fold_left feed (flat_map yscen_lines scens) (ROk m) = ROk m' /\ body m' f' /\ m_tags m' = [] /\ m_kw m' = m_kw m /\
    rev (map fin_item (f_items f')) = rev (map fin_item (f_items f)) ++ expected_y scens (m_line m) /\
    with_items f' [] = with_items f [].
Proof.
  induction scens as [|[[[tls [[line alias] name]] ds] steps] scens IH]; intros m f B T OK.
  - exists m, f. cbn [flat_map fold_left expected_y]. rewrite app_nil_r.
    split; [reflexivity|]. split; [exact B|]. repeat split; auto.
  - inversion OK as [|? ? H1 OK']. subst. destruct H1 as (TL & SL & NP & DL & STP).
    destruct (tag_lines_body tls m f B TL) as (m0 & FD0 & B0 & L0 & K0 & T0).
    assert (SL0 : scenario_line (m_kw m0) line alias name) by (now rewrite K0).
    destruct (feed_scenario_line_fresh m0 f line alias name B0 SL0 NP) as (m1 & FD1 & FR1 & L1 & K1 & T1).
    assert (DL1 : Forall (descr_line (m_kw m1)) ds) by (now rewrite K1, K0).
    destruct (descr_lines_are_read ds m1 _ _ (f_items f) FR1 DL1) as (mD & fD & sD & FDD & FRD & LD & KD & TD & ESD & EFD).
    assert (STP1 : Forall (xstep_ok (m_kw mD)) steps) by (now rewrite KD, K1, K0).
    destruct (xsteps_are_read steps mD _ _ (f_items f) (fresh_settled _ _ _ _ FRD) STP1)
      as (m2 & f2 & s2 & FD2 & SE2 & L2 & K2 & T2 & _ & ES & EF).
    assert (OK2 : Forall (yscen_ok (m_kw m2)) scens) by (rewrite K2, KD, K1, K0; exact OK').
    assert (T2' : m_tags m2 = []) by congruence.
    destruct (IH m2 f2 (settled_body _ _ _ _ SE2) T2' OK2) as (m' & f' & FD' & B' & T' & K' & IT' & HD').
    exists m', f'. cbn [flat_map yscen_lines]. rewrite !fold_left_app. rewrite FD0. cbn [fold_left]. rewrite FD1.
    rewrite !fold_left_app. rewrite FDD, FD2.
    split; [exact FD'|]. split; [exact B'|]. split; [exact T'|]. split; [congruence|]. split.
    + rewrite IT'. rewrite EF. cbn [with_items f_items map rev fin_item]. rewrite ES, ESD.
      assert (FS : fin_scen (with_steps (with_descr (new_scenario m0 alias name) (rev (map strip ds) ++ sc_descr (new_scenario m0 alias name)))
                                        (rev (xsteps_of steps (m_line mD)) ++
                                         sc_steps (with_descr (new_scenario m0 alias name) (rev (map strip ds) ++ sc_descr (new_scenario m0 alias name))))) =
                   mkPScen false alias name (S (m_line m + length tls)) (tags_of tls (m_line m)) (map strip ds)
                           (xsteps_of steps (S (m_line m + length tls) + length ds)) []).
      { unfold new_scenario. rewrite T0, T. cbn [sc_steps sc_descr with_descr app]. rewrite LD, L1, L0. apply fin_scen_full. }
      rewrite FS. rewrite <- app_assoc. cbn [app expected_y]. rewrite L2, LD, L1, L0. reflexivity.
    + rewrite HD', EF, EFD. unfold with_items. cbn. reflexivity.
Qed.

(* ---- description lines of the feature ---- *)
Lemma feed_feature_descr_line m f line :
  m_st m = StFeature -> m_table m = None -> m_in_examples m = false -> m_lines m = [] -> m_cont m = CFeat -> m_feat m = Some f ->
  descr_line (m_kw m) line ->
  let f' := mkPFeat (f_kw f) (f_name f) (f_line f) (f_tags f) (strip line :: f_descr f) (f_bg f) (f_items f) (f_lang f) in
  exists m', feed (ROk m) line = ROk m' /\
             m_st m' = StFeature /\ m_table m' = None /\ m_in_examples m' = false /\ m_lines m' = [] /\ m_cont m' = CFeat /\
             m_feat m' = Some f' /\ m_line m' = S (m_line m) /\ m_kw m' = m_kw m /\ m_tags m' = m_tags m.
Proof.
  intros ST T IE LN C F [NB NC NS NA NR NSc NO NE NBg] f'.
  set (m1 := upd_line m (S (m_line m))).
  rewrite (feed_nonblank m line NB). fold m1. rewrite (action_dispatch m1 line NB NC). cbn [m1 upd_line m_st]. rewrite ST.
  unfold a_feature. rewrite (sub_taggable_none m1 (strip line) NA NR NSc NO NE). cbn [rbind m1 upd_line m_kw]. rewrite NBg.
  unfold add_feature_descr. cbn [m1 upd_line m_feat]. rewrite F. eexists. split; [reflexivity|].
  cbn. repeat split; auto.
Qed.

Lemma feature_descr_lines_are_read ds : forall m f,
  m_st m = StFeature -> m_table m = None -> m_in_examples m = false -> m_lines m = [] -> m_cont m = CFeat -> m_feat m = Some f ->
  Forall (descr_line (m_kw m)) ds ->
  exists m', fold_left feed ds (ROk m) = ROk m' /\
    m_st m' = StFeature /\ m_table m' = None /\ m_in_examples m' = false /\ m_lines m' = [] /\ m_cont m' = CFeat /\
    m_feat m' = Some (mkPFeat (f_kw f) (f_name f) (f_line f) (f_tags f) (rev (map strip ds) ++ f_descr f) (f_bg f) (f_items f) (f_lang f)) /\
    m_line m' = m_line m + length ds /\ m_kw m' = m_kw m /\ m_tags m' = m_tags m.
Proof.
  induction ds as [|d ds IH]; intros m f ST T IE LN C F OK.
  - exists m. cbn [fold_left map rev app length]. rewrite Nat.add_0_r. destruct f; cbn in *. repeat split; auto.
  - inversion OK as [|? ? H1 OK']. subst.
    destruct (feed_feature_descr_line m f d ST T IE LN C F H1) as (m1 & FD1 & ST1 & T1 & IE1 & LN1 & C1 & F1 & L1 & K1 & TG1).
    assert (OK1 : Forall (descr_line (m_kw m1)) ds) by (now rewrite K1).
    destruct (IH m1 _ ST1 T1 IE1 LN1 C1 F1 OK1) as (m' & FD' & ST' & T' & IE' & LN' & C' & F' & L' & K' & TG').
    exists m'. cbn [fold_left]. rewrite FD1. split; [exact FD'|]. repeat split; try assumption; try congruence.
    + rewrite F'. cbn [f_kw f_name f_line f_tags f_descr f_bg f_items f_lang map rev]. now rewrite <- app_assoc.
    + cbn [length]. lia.
Qed.

(* C04 for features with a description, whose scenarios carry tags and a description and whose
   steps carry doc-strings and tables *)
Theorem a_feature_with_descriptions_tags_docstrings_and_tables_is_read_back_exactly kw code fline falias fname fds scens :
  feature_line kw fline falias fname -> Forall (descr_line kw) fds -> Forall (yscen_ok kw) scens ->
  exists m',
    finish_table (fold_left feed (fline :: fds ++ flat_map yscen_lines scens) (ROk (init_state code kw VFeature StInitial))) = ROk m' /\
    m_table m' = None /\
    option_map fin_feature (m_feat m') =
    Some (mkPFeat falias fname 1 [] (map strip fds) None (expected_y scens (1 + length fds)) code).
Proof.
  intros [NB NC NT FA] FD OK. set (m0 := init_state code kw VFeature StInitial).
  assert (F0 : feed (ROk m0) fline = ROk (upd_st (build_feature (upd_line m0 1) falias fname) StFeature)).
  { rewrite (feed_nonblank m0 fline NB). rewrite (action_dispatch _ fline NB NC). cbn [upd_line m_st m0 init_state].
    unfold a_initial. rewrite match_at, NT. cbn [upd_line m_kw m0 init_state]. now rewrite FA. }
  set (m1 := upd_st (build_feature (upd_line m0 1) falias fname) StFeature) in *.
  set (f1 := mkPFeat falias fname 1 [] [] None [] code).
  destruct (feature_descr_lines_are_read fds m1 f1 eq_refl eq_refl eq_refl eq_refl eq_refl eq_refl FD)
    as (mD & FDD & STD & TD & IED & LND & CD & FDf & LD & KD & TGD).
  set (fD := mkPFeat (f_kw f1) (f_name f1) (f_line f1) (f_tags f1) (rev (map strip fds) ++ f_descr f1) (f_bg f1) (f_items f1) (f_lang f1)) in *.
  assert (BD : body mD fD).
  { split; [exact IED|]. split; [exact LND|]. left. split; [exact TD|]. split; [left; exact STD|]. split; assumption. }
  assert (OKD : Forall (yscen_ok (m_kw mD)) scens) by (rewrite KD; exact OK).
  assert (TGD' : m_tags mD = []) by (rewrite TGD; reflexivity).
  destruct (y_scenarios_are_read scens mD fD BD TGD' OKD) as (m' & f' & FD' & B' & T' & K' & IT & HD).
  cbn [fold_left]. rewrite F0. rewrite fold_left_app, FDD, FD'. unfold finish_table. cbn [rbind].
  assert (FIN : fin_feature f' = mkPFeat falias fname 1 [] (map strip fds) None (expected_y scens (1 + length fds)) code).
  { unfold fin_feature. rewrite IT. rewrite LD.
    unfold with_items in HD. cbn in HD. inversion HD as [[H1 H2 H3 H4 H5 H6 H7]]. rewrite H1, H2, H3, H4, H5, H6, H7.
    cbn [fD f1 f_items f_descr map rev app m_line m1 upd_st build_feature upd_tags upd_tree upd_line m0 init_state].
    rewrite app_nil_r, rev_involutive. reflexivity. }
  destruct B' as [IE [_ [[TB [ST [C F]]] | (f0 & s0 & rest & st & r & t & PD & EF)]]].
  - rewrite TB. eexists. split; [reflexivity|]. split; [exact TB|]. rewrite F. cbn [option_map]. now rewrite FIN.
  - destruct PD as (_ & ST & TB & W & HS & _). rewrite TB.
    destruct (closed_state m' f0 s0 rest st r t W HS TB IE) as (_ & W1 & T1 & _).
    eexists. split; [reflexivity|]. split; [exact T1|].
    destruct W1 as [_ [_ [C1 _]]]. rewrite C1. cbn [option_map]. fold (closed_feature f0 s0 rest st r t). rewrite <- EF. now rewrite FIN.
Qed.
