(* TagExprParseProofs.v - C07: the shunting-yard parser reads back what the printer writes (token level). *)
From BV Require Import Base UStr TagExpr TagExprProofs.

(* tokens of the printed form: "( a and b )", "not ( a )", "not" before a binary (which brings its own parentheses) *)
Fixpoint toks (e : texp) : list ustr :=
  match e with
  | XTrue => []
  | XLit n => [n]
  | XMat p => [p]
  | XNot a =>
      match a with
      | XAnd _ _ | XOr _ _ => kw_not :: toks a
      | _ => kw_not :: [cLP] :: toks a ++ [[cRP]]
      end
  | XAnd a b => [cLP] :: toks a ++ kw_and :: toks b ++ [[cRP]]
  | XOr a b => [cLP] :: toks a ++ kw_or :: toks b ++ [[cRP]]
  end.

Definition operand_word (t : ustr) : bool :=
  negb (ustr_eqb t kw_or || ustr_eqb t kw_and) && negb (ustr_eqb t kw_not) && negb (ustr_eqb t [cLP]) && negb (ustr_eqb t [cRP]).

(* expressions the parser can produce: operands that are no keywords, literals without / matchers with wildcard characters *)
Fixpoint wf (e : texp) : bool :=
  match e with
  | XTrue => false
  | XLit n => operand_word n && negb (has_magic n)
  | XMat p => operand_word p && has_magic p
  | XNot a => wf a
  | XAnd a b | XOr a b => wf a && wf b
  end.

Definition nots (k : nat) : list optok := repeat ONot k.
Fixpoint apply_nots (k : nat) (e : texp) : texp := match k with 0 => e | S j => apply_nots j (XNot e) end.

Definition pending (e : texp) : nat * texp := match e with XNot a => (1, a) | _ => (0, e) end.

Lemma pending_spec e : apply_nots (fst (pending e)) (snd (pending e)) = e.
Proof. destruct e; reflexivity. Qed.

Lemma sy_operand t r ops exprs :
  operand_word t = true -> sy_loop (t :: r) ops exprs true = sy_loop r ops (make_operand t :: exprs) false.
Proof.
  unfold operand_word. intros H. repeat (apply andb_true_iff in H as [H ?]).
  repeat match goal with X : negb _ = true |- _ => apply negb_true_iff in X end.
  cbn [sy_loop]. now rewrite H, H0, H1, H2.
Qed.

Lemma pop_to_paren_nots k ops c exprs :
  pop_to_paren (nots k ++ OLParen :: ops) (c :: exprs) = POk (ops, apply_nots k c :: exprs).
Proof.
  revert c. induction k as [|k IH]; intros c; cbn [nots repeat app pop_to_paren]; [reflexivity|].
  cbn [push_expr]. fold (nots k). apply IH.
Qed.

Lemma pop_while_nots tok k ops c exprs :
  (tok = OAnd \/ tok = OOr) ->
  pop_while tok (nots k ++ OLParen :: ops) (c :: exprs) = POk (OLParen :: ops, apply_nots k c :: exprs).
Proof.
  intros T. revert c. induction k as [|k IH]; intros c; cbn [nots repeat app pop_while]; [reflexivity|].
  assert (L : is_operation ONot && lower_prec tok ONot = true) by (destruct T; subst; reflexivity).
  rewrite L. cbn [push_expr]. fold (nots k). apply IH.
Qed.

Lemma pop_all_nots k c : pop_all (nots k) [c] = POk [apply_nots k c].
Proof. revert c. induction k as [|k IH]; intros c; cbn [nots repeat pop_all]; [reflexivity|]. cbn [push_expr]. fold (nots k). apply IH. Qed.

Lemma kw_facts :
  ustr_eqb kw_not kw_or = false /\ ustr_eqb kw_not kw_and = false /\ ustr_eqb kw_not kw_not = true /\
  ustr_eqb [cLP] kw_or = false /\ ustr_eqb [cLP] kw_and = false /\ ustr_eqb [cLP] kw_not = false /\ ustr_eqb [cLP] [cLP] = true /\
  ustr_eqb [cRP] kw_or = false /\ ustr_eqb [cRP] kw_and = false /\ ustr_eqb [cRP] kw_not = false /\ ustr_eqb [cRP] [cLP] = false /\
  ustr_eqb [cRP] [cRP] = true /\ ustr_eqb kw_and kw_or = false /\ ustr_eqb kw_and kw_and = true /\ ustr_eqb kw_or kw_or = true.
Proof. vm_compute. repeat split. Qed.

Lemma sy_not r ops exprs : sy_loop (kw_not :: r) ops exprs true = sy_loop r (ONot :: ops) exprs true.
Proof. destruct kw_facts as [A [B [C _]]]. cbn [sy_loop]. now rewrite A, B, C. Qed.

Lemma sy_lparen r ops exprs : sy_loop ([cLP] :: r) ops exprs true = sy_loop r (OLParen :: ops) exprs true.
Proof. destruct kw_facts as [_ [_ [_ [A [B [C [D _]]]]]]]. cbn [sy_loop]. now rewrite A, B, C, D. Qed.

Lemma sy_rparen r k ops c exprs :
  sy_loop ([cRP] :: r) (nots k ++ OLParen :: ops) (c :: exprs) false = sy_loop r ops (apply_nots k c :: exprs) false.
Proof.
  destruct kw_facts as [_ [_ [_ [_ [_ [_ [_ [A [B [C [D [E _]]]]]]]]]]]]. cbn [sy_loop]. rewrite A, B, C, D, E. cbn [orb].
  now rewrite pop_to_paren_nots.
Qed.

Lemma sy_and r k ops c exprs :
  sy_loop (kw_and :: r) (nots k ++ OLParen :: ops) (c :: exprs) false =
  sy_loop r (OAnd :: OLParen :: ops) (apply_nots k c :: exprs) true.
Proof.
  destruct kw_facts as [_ [_ [_ [_ [_ [_ [_ [_ [_ [_ [_ [_ [A [B _]]]]]]]]]]]]]]. cbn [sy_loop]. rewrite A, B. cbn [orb].
  now rewrite (pop_while_nots OAnd) by auto.
Qed.

Lemma sy_or r k ops c exprs :
  sy_loop (kw_or :: r) (nots k ++ OLParen :: ops) (c :: exprs) false =
  sy_loop r (OOr :: OLParen :: ops) (apply_nots k c :: exprs) true.
Proof.
  destruct kw_facts as [_ [_ [_ [_ [_ [_ [_ [_ [_ [_ [_ [_ [_ [_ A]]]]]]]]]]]]]]. cbn [sy_loop]. rewrite A. cbn [orb].
  now rewrite (pop_while_nots OOr) by auto.
Qed.

(* reading the tokens of a printed expression pushes exactly that expression (a leading "not" stays pending on the
   operator stack until the next operator, parenthesis or the end applies it) *)
Lemma sy_reads e : wf e = true ->
  forall k ops exprs rest,
  sy_loop (toks e ++ rest) (nots k ++ ops) exprs true =
  sy_loop rest (nots (fst (pending e) + k) ++ ops) (snd (pending e) :: exprs) false.
Proof.
  induction e as [|n|p|a IHa|a IHa b IHb|a IHa b IHb]; intros W k ops exprs rest; cbn [wf] in W.
  - discriminate.
  - apply andb_true_iff in W as [W1 W2]. cbn [toks app pending fst snd Nat.add]. rewrite sy_operand by exact W1.
    unfold make_operand. apply negb_true_iff in W2. now rewrite W2.
  - apply andb_true_iff in W as [W1 W2]. cbn [toks app pending fst snd Nat.add]. rewrite sy_operand by exact W1.
    unfold make_operand. now rewrite W2.
  - cbn [pending fst snd]. change (nots (1 + k)) with (ONot :: nots k).
    assert (P : forall r0, sy_loop (kw_not :: [cLP] :: toks a ++ [[cRP]] ++ r0) (nots k ++ ops) exprs true =
                           sy_loop r0 ((ONot :: nots k) ++ ops) (a :: exprs) false).
    { intros r0. rewrite sy_not, sy_lparen.
      specialize (IHa W 0 (OLParen :: ONot :: nots k ++ ops) exprs ([cRP] :: r0)). cbn [nots repeat app] in IHa.
      cbn [app]. rewrite IHa. rewrite Nat.add_0_r.
      change (OLParen :: ONot :: nots k ++ ops) with (OLParen :: (ONot :: nots k ++ ops)).
      rewrite sy_rparen. now rewrite pending_spec. }
    assert (TA : (match a with XAnd _ _ | XOr _ _ => False | _ => True end) -> toks (XNot a) = kw_not :: [cLP] :: toks a ++ [[cRP]])
      by (destruct a; intros H; try reflexivity; destruct H).
    assert (TB : (match a with XAnd _ _ | XOr _ _ => True | _ => False end) -> toks (XNot a) = kw_not :: toks a)
      by (destruct a; intros H; try reflexivity; destruct H).
    destruct a as [|n|p|a'|a1 a2|a1 a2].
    1-4: rewrite TA by exact I; specialize (P rest); cbn [app] in P |- *; rewrite <- app_assoc; exact P.
    + rewrite TB by exact I. cbn [app]. rewrite sy_not. specialize (IHa W (S k) ops exprs rest).
      cbn [nots repeat app pending fst snd Nat.add] in IHa. exact IHa.
    + rewrite TB by exact I. cbn [app]. rewrite sy_not. specialize (IHa W (S k) ops exprs rest).
      cbn [nots repeat app pending fst snd Nat.add] in IHa. exact IHa.
  - apply andb_true_iff in W as [Wa Wb]. cbn [toks pending fst snd Nat.add]. cbn [app]. rewrite sy_lparen.
    rewrite <- app_assoc. specialize (IHa Wa 0 (OLParen :: nots k ++ ops) exprs). cbn [nots repeat app] in IHa. rewrite IHa.
    rewrite Nat.add_0_r. cbn [app]. rewrite sy_and, pending_spec.
    rewrite <- app_assoc. specialize (IHb Wb 0 (OAnd :: OLParen :: nots k ++ ops) (a :: exprs)). cbn [nots repeat app] in IHb. rewrite IHb.
    rewrite Nat.add_0_r. cbn [app].
    (* ")" pops the pending nots of b, then the "and" *)
    destruct kw_facts as [_ [_ [_ [_ [_ [_ [_ [A [B [C [D [E _]]]]]]]]]]]]. cbn [sy_loop]. rewrite A, B, C, D, E. cbn [orb].
    assert (Q : pop_to_paren (nots (fst (pending b)) ++ OAnd :: OLParen :: nots k ++ ops) (snd (pending b) :: a :: exprs) =
                POk (nots k ++ ops, XAnd a b :: exprs)).
    { generalize (pending_spec b). generalize (fst (pending b)) as j. generalize (snd (pending b)) as c.
      intros c j. revert c. induction j as [|j IHj]; intros c E0; cbn [nots repeat app pop_to_paren push_expr apply_nots] in *.
      - now subst.
      - fold (nots j). apply IHj. exact E0. }
    now rewrite Q.
  - apply andb_true_iff in W as [Wa Wb]. cbn [toks pending fst snd Nat.add]. cbn [app]. rewrite sy_lparen.
    rewrite <- app_assoc. specialize (IHa Wa 0 (OLParen :: nots k ++ ops) exprs). cbn [nots repeat app] in IHa. rewrite IHa.
    rewrite Nat.add_0_r. cbn [app]. rewrite sy_or, pending_spec.
    rewrite <- app_assoc. specialize (IHb Wb 0 (OOr :: OLParen :: nots k ++ ops) (a :: exprs)). cbn [nots repeat app] in IHb. rewrite IHb.
    rewrite Nat.add_0_r. cbn [app].
    destruct kw_facts as [_ [_ [_ [_ [_ [_ [_ [A [B [C [D [E _]]]]]]]]]]]]. cbn [sy_loop]. rewrite A, B, C, D, E. cbn [orb].
    assert (Q : pop_to_paren (nots (fst (pending b)) ++ OOr :: OLParen :: nots k ++ ops) (snd (pending b) :: a :: exprs) =
                POk (nots k ++ ops, XOr a b :: exprs)).
    { generalize (pending_spec b). generalize (fst (pending b)) as j. generalize (snd (pending b)) as c.
      intros c j. revert c. induction j as [|j IHj]; intros c E0; cbn [nots repeat app pop_to_paren push_expr apply_nots] in *.
      - now subst.
      - fold (nots j). apply IHj. exact E0. }
    now rewrite Q.
Qed.

Lemma toks_nonempty e : wf e = true -> toks e <> [].
Proof. destruct e; cbn; try discriminate. destruct e; discriminate. Qed.

(* C07: parsing the tokens of a printed expression gives that expression back *)
Theorem parse_reads_back_what_print_writes e : wf e = true -> parse_tokens (toks e) = POk e.
Proof.
  intros W. unfold parse_tokens. pose proof (toks_nonempty e W) as NE. destruct (toks e) eqn:T; [congruence|]. rewrite <- T.
  pose proof (sy_reads e W 0 [] [] []) as R. cbn [nots repeat app] in R. rewrite app_nil_r in R. rewrite R.
  rewrite Nat.add_0_r, app_nil_r. cbn [sy_loop]. fold (nots (fst (pending e))). rewrite pop_all_nots. now rewrite pending_spec.
Qed.

(* ---- the tokenizer reads the printed text back into those tokens ---- *)
Definition flush (tok : ustr) (acc : list ustr) : list ustr := match tok with [] => acc | _ => rev tok :: acc end.

Definition special_c (c : N) : bool := N.eqb c cBS || N.eqb c cLP || N.eqb c cRP || is_space c.

Lemma tok_plain c r tok acc : special_c c = false -> tokenize_aux (c :: r) false tok acc = tokenize_aux r false (c :: tok) acc.
Proof.
  unfold special_c. intros H. apply orb_false_elim in H as [H S]. apply orb_false_elim in H as [H R]. apply orb_false_elim in H as [B L].
  cbn [tokenize_aux]. now rewrite B, L, R, S.
Qed.

Lemma tok_escaped c r tok acc : special_c c = true -> tokenize_aux (cBS :: c :: r) false tok acc = tokenize_aux r false (c :: tok) acc.
Proof.
  intros H. cbn [tokenize_aux]. rewrite N.eqb_refl. unfold special_c in H.
  assert (E : N.eqb c cLP || N.eqb c cRP || N.eqb c cBS || is_space c = true).
  { destruct (N.eqb c cBS), (N.eqb c cLP), (N.eqb c cRP), (is_space c); cbn in *; auto. }
  now rewrite E.
Qed.

Lemma tok_name n rest tok acc : tokenize_aux (esc_lit n ++ rest) false tok acc = tokenize_aux rest false (rev n ++ tok) acc.
Proof.
  revert tok. induction n as [|c n IH]; intros tok; [reflexivity|]. unfold esc_lit. cbn [flat_map]. fold (esc_lit n).
  destruct (N.eqb c cBS || N.eqb c cLP || N.eqb c cRP || is_space c) eqn:S.
  - cbn [app]. rewrite tok_escaped by exact S. rewrite IH. cbn [rev]. now rewrite <- app_assoc.
  - cbn [app]. rewrite tok_plain by exact S. rewrite IH. cbn [rev]. now rewrite <- app_assoc.
Qed.

Lemma delim_facts :
  N.eqb cSP cBS = false /\ is_space cSP = true /\ N.eqb cLP cBS = false /\ N.eqb cRP cBS = false /\
  N.eqb cLP cSP = false /\ N.eqb cRP cSP = false /\
  esc_lit kw_and = kw_and /\ esc_lit kw_or = kw_or /\ esc_lit kw_not = kw_not.
Proof. vm_compute. repeat split. Qed.

Lemma tok_space r tok acc : tokenize_aux (cSP :: r) false tok acc = tokenize_aux r false [] (flush tok acc).
Proof.
  destruct delim_facts as [A [B _]]. cbn [tokenize_aux]. rewrite A, B. rewrite !orb_true_r. rewrite N.eqb_refl. reflexivity.
Qed.
Lemma tok_lp r tok acc : tokenize_aux (cLP :: r) false tok acc = tokenize_aux r false [] ([cLP] :: flush tok acc).
Proof.
  destruct delim_facts as [_ [_ [A [_ [B _]]]]]. cbn [tokenize_aux]. rewrite A, B. rewrite N.eqb_refl. reflexivity.
Qed.
Lemma tok_rp r tok acc : tokenize_aux (cRP :: r) false tok acc = tokenize_aux r false [] ([cRP] :: flush tok acc).
Proof.
  destruct delim_facts as [_ [_ [_ [A [_ [B _]]]]]]. cbn [tokenize_aux]. rewrite A, B. rewrite N.eqb_refl, orb_true_r. reflexivity.
Qed.
Lemma tok_end tok acc : tokenize_aux [] false tok acc = Some (rev (flush tok acc)).
Proof. reflexivity. Qed.

Lemma tok_kw kw r acc : esc_lit kw = kw -> kw <> [] ->
  tokenize_aux (kw ++ cSP :: r) false [] acc = tokenize_aux r false [] (kw :: acc).
Proof.
  intros E NE. rewrite <- E at 1. rewrite tok_name, tok_space, app_nil_r. unfold flush.
  destruct (rev kw) eqn:R; [apply (f_equal (@rev N)) in R; rewrite rev_involutive in R; cbn in R; congruence|].
  rewrite <- R. now rewrite rev_involutive.
Qed.

Fixpoint named (e : texp) : bool :=
  match e with
  | XTrue => false
  | XLit n | XMat n => match n with [] => false | _ => true end
  | XNot a => named a
  | XAnd a b | XOr a b => named a && named b
  end.

Lemma flush_rev n acc : n <> [] -> flush (rev n) acc = n :: acc.
Proof.
  intros NE. unfold flush. destruct (rev n) eqn:R; [apply (f_equal (@rev N)) in R; rewrite rev_involutive in R; cbn in R; congruence|].
  rewrite <- R. now rewrite rev_involutive.
Qed.

Definition binaryb (e : texp) : bool := match e with XAnd _ _ | XOr _ _ => true | _ => false end.

Lemma not_of_binary a : binaryb a = true ->
  to_str (XNot a) = kw_not ++ cSP :: to_str a /\ toks (XNot a) = kw_not :: toks a.
Proof. destruct a; intros H; try discriminate; split; reflexivity. Qed.

Lemma not_of_other a : binaryb a = false ->
  to_str (XNot a) = kw_not ++ cSP :: cLP :: cSP :: to_str a ++ [cSP; cRP] /\ toks (XNot a) = kw_not :: [cLP] :: toks a ++ [[cRP]].
Proof. destruct a; intros H; try discriminate; split; reflexivity. Qed.

Lemma rev_snoc_toks (l : list ustr) x acc : rev (l ++ [x]) ++ acc = x :: rev l ++ acc.
Proof. now rewrite rev_app_distr. Qed.

Lemma rev_binary (ta tb : list ustr) k x y acc :
  rev (x :: ta ++ k :: tb ++ [y]) ++ acc = y :: rev tb ++ k :: rev ta ++ x :: acc.
Proof.
  cbn [rev]. rewrite rev_app_distr. cbn [rev]. rewrite rev_app_distr. cbn [rev app].
  f_equal. repeat rewrite <- app_assoc. reflexivity.
Qed.

(* a printed sub-expression followed by a blank, or standing at the end of the text *)
Lemma tokenizer_reads e : named e = true ->
  (forall acc rest, tokenize_aux (to_str e ++ cSP :: rest) false [] acc = tokenize_aux rest false [] (rev (toks e) ++ acc)) /\
  (forall acc, tokenize_aux (to_str e) false [] acc = Some (rev (rev (toks e) ++ acc))).
Proof.
  destruct delim_facts as [_ [_ [_ [_ [_ [_ [EA [EO EN]]]]]]]].
  assert (KN : kw_not <> []) by discriminate. assert (KA : kw_and <> []) by discriminate. assert (KO : kw_or <> []) by discriminate.
  induction e as [|n|p|a IHa|a IHa b IHb|a IHa b IHb]; intros N; cbn [named] in N.
  - discriminate.
  - assert (NE : n <> []) by (destruct n; discriminate). cbn [to_str toks rev app]. split.
    + intros acc rest. rewrite tok_name, tok_space, app_nil_r. now rewrite flush_rev.
    + intros acc. rewrite <- (app_nil_r (esc_lit n)). rewrite tok_name, tok_end, app_nil_r. now rewrite flush_rev.
  - assert (NE : p <> []) by (destruct p; discriminate). cbn [to_str toks rev app]. split.
    + intros acc rest. rewrite tok_name, tok_space, app_nil_r. now rewrite flush_rev.
    + intros acc. rewrite <- (app_nil_r (esc_lit p)). rewrite tok_name, tok_end, app_nil_r. now rewrite flush_rev.
  - destruct (IHa N) as [IH1 IH2]. destruct (binaryb a) eqn:B.
    + destruct (not_of_binary a B) as [S T]. rewrite S, T. split.
      * intros acc rest. rewrite <- app_assoc. cbn [app]. rewrite (tok_kw kw_not _ _ EN KN), IH1. cbn [rev]. now rewrite <- app_assoc.
      * intros acc. rewrite (tok_kw kw_not _ _ EN KN), IH2. cbn [rev]. now rewrite <- app_assoc.
    + destruct (not_of_other a B) as [S T]. rewrite S, T. split.
      * intros acc rest.
        replace ((kw_not ++ cSP :: cLP :: cSP :: to_str a ++ [cSP; cRP]) ++ cSP :: rest)
          with (kw_not ++ cSP :: (cLP :: cSP :: (to_str a ++ cSP :: (cRP :: cSP :: rest))))
          by (rewrite <- ?app_assoc; cbn [app]; rewrite <- ?app_assoc; cbn [app]; rewrite <- ?app_assoc; reflexivity).
        rewrite (tok_kw kw_not _ _ EN KN), tok_lp, tok_space. cbn [flush]. rewrite IH1, tok_rp. cbn [flush]. rewrite tok_space. cbn [flush].
        cbn [rev]. rewrite rev_snoc_toks. cbn [rev app]. rewrite <- !app_assoc. reflexivity.
      * intros acc.
        replace (kw_not ++ cSP :: cLP :: cSP :: to_str a ++ [cSP; cRP])
          with (kw_not ++ cSP :: (cLP :: cSP :: (to_str a ++ cSP :: [cRP])))
          by (rewrite <- ?app_assoc; cbn [app]; rewrite <- ?app_assoc; reflexivity).
        rewrite (tok_kw kw_not _ _ EN KN), tok_lp, tok_space. cbn [flush]. rewrite IH1, tok_rp. cbn [flush]. rewrite tok_end. cbn [flush].
        cbn [rev]. rewrite rev_snoc_toks. cbn [rev app]. rewrite <- !app_assoc. reflexivity.
  - apply andb_true_iff in N as [Na Nb]. destruct (IHa Na) as [A1 _]. destruct (IHb Nb) as [B1 _]. cbn [to_str toks]. split.
    + intros acc rest.
      replace (([cLP; cSP] ++ to_str a ++ [cSP] ++ kw_and ++ [cSP] ++ to_str b ++ [cSP; cRP]) ++ cSP :: rest)
        with (cLP :: cSP :: (to_str a ++ cSP :: (kw_and ++ cSP :: (to_str b ++ cSP :: (cRP :: cSP :: rest)))))
        by (cbn [app]; rewrite <- ?app_assoc; cbn [app]; rewrite <- ?app_assoc; cbn [app]; rewrite <- ?app_assoc; reflexivity).
      rewrite tok_lp, tok_space. cbn [flush]. rewrite A1, (tok_kw kw_and _ _ EA KA), B1, tok_rp. cbn [flush]. rewrite tok_space. cbn [flush].
      now rewrite rev_binary.
    + intros acc.
      replace ([cLP; cSP] ++ to_str a ++ [cSP] ++ kw_and ++ [cSP] ++ to_str b ++ [cSP; cRP])
        with (cLP :: cSP :: (to_str a ++ cSP :: (kw_and ++ cSP :: (to_str b ++ cSP :: [cRP]))))
        by (cbn [app]; rewrite <- ?app_assoc; cbn [app]; rewrite <- ?app_assoc; cbn [app]; rewrite <- ?app_assoc; reflexivity).
      rewrite tok_lp, tok_space. cbn [flush]. rewrite A1, (tok_kw kw_and _ _ EA KA), B1, tok_rp. cbn [flush]. rewrite tok_end. cbn [flush].
      now rewrite rev_binary.
  - apply andb_true_iff in N as [Na Nb]. destruct (IHa Na) as [A1 _]. destruct (IHb Nb) as [B1 _]. cbn [to_str toks]. split.
    + intros acc rest.
      replace (([cLP; cSP] ++ to_str a ++ [cSP] ++ kw_or ++ [cSP] ++ to_str b ++ [cSP; cRP]) ++ cSP :: rest)
        with (cLP :: cSP :: (to_str a ++ cSP :: (kw_or ++ cSP :: (to_str b ++ cSP :: (cRP :: cSP :: rest)))))
        by (cbn [app]; rewrite <- ?app_assoc; cbn [app]; rewrite <- ?app_assoc; cbn [app]; rewrite <- ?app_assoc; reflexivity).
      rewrite tok_lp, tok_space. cbn [flush]. rewrite A1, (tok_kw kw_or _ _ EO KO), B1, tok_rp. cbn [flush]. rewrite tok_space. cbn [flush].
      now rewrite rev_binary.
    + intros acc.
      replace ([cLP; cSP] ++ to_str a ++ [cSP] ++ kw_or ++ [cSP] ++ to_str b ++ [cSP; cRP])
        with (cLP :: cSP :: (to_str a ++ cSP :: (kw_or ++ cSP :: (to_str b ++ cSP :: [cRP]))))
        by (cbn [app]; rewrite <- ?app_assoc; cbn [app]; rewrite <- ?app_assoc; cbn [app]; rewrite <- ?app_assoc; reflexivity).
      rewrite tok_lp, tok_space. cbn [flush]. rewrite A1, (tok_kw kw_or _ _ EO KO), B1, tok_rp. cbn [flush]. rewrite tok_end. cbn [flush].
      now rewrite rev_binary.
Qed.

(* C07: print, tokenize, parse gives the expression back *)
Theorem print_then_parse_is_the_identity e :
  wf e = true -> named e = true ->
  match tokenize (to_str e) with Some t => parse_tokens t | None => PErr ErrEscape end = POk e.
Proof.
  intros W N. unfold tokenize. destruct (tokenizer_reads e N) as [_ T]. rewrite T. rewrite app_nil_r, rev_involutive.
  now apply parse_reads_back_what_print_writes.
Qed.
