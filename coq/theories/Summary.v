(* Summary.v - model of behave.reporter.summary.SummaryReporterV1: the process_feature /
   process_rule / process_scenario walk over the model after the run with its name-keyed
   tables, where a missing key is a KeyError; of behave.summary.SummaryCollector; and of the
   number selection of the five format_summary functions.  The key sets, STATUS_ORDER and the
   OPTIONAL_STATUS_PARTS tuples are generated from the code. *)
From BV Require Import Base Status Rollup Runner.
From BVGen Require Import StatusTable SummaryTables.

Definition table := list (status * nat).

Definition zero_table (keys : list status) : table := map (fun k => (k, 0)) keys.

(* d[name] += 1 ; None = KeyError *)
Fixpoint incr (t : table) (s : status) : option table :=
  match t with
  | [] => None
  | (k, n) :: r =>
      if status_eqb k s then Some ((k, S n) :: r)
      else match incr r s with Some r' => Some ((k, n) :: r') | None => None end
  end.

Fixpoint incr_all (t : table) (l : list status) : option table :=
  match l with
  | [] => Some t
  | s :: r => match incr t s with Some t' => incr_all t' r | None => None end
  end.

Fixpoint tlookup (t : table) (s : status) : nat :=
  match t with
  | [] => 0
  | (k, n) :: r => if status_eqb k s then n else tlookup r s
  end.

Definition in_table (t : table) (s : status) : bool := existsb (fun kn => status_eqb (fst kn) s) t.

Definition table_sum (t : table) : nat := fold_right (fun kn acc => snd kn + acc) 0 t.

(* ---- the elements of a finished run, in the reporter's visiting order *)
Definition scen_results_of_item (i : item_res) : list scen_res :=
  match i with RScen r => [r] | ROutline _ _ rows => rows end.

Definition scen_results_of_fitem (i : fitem_res) : list scen_res :=
  match i with
  | RFItem x => scen_results_of_item x
  | RFRule r => flat_map scen_results_of_item (rr_items r)
  end.

Definition scen_results (fs : list feat_res) : list scen_res :=
  flat_map (fun f => flat_map scen_results_of_fitem (fr_items f)) fs.

Definition rule_results (fs : list feat_res) : list rule_res :=
  flat_map (fun f => flat_map (fun i => match i with RFRule r => [r] | RFItem _ => [] end) (fr_items f)) fs.

Definition feature_statuses (fs : list feat_res) : list status := map fr_status fs.
Definition rule_statuses (fs : list feat_res) : list status := map rr_status (rule_results fs).
(* a scenario whose compute_status asserted has no status to count: None *)
Definition scenario_statuses (fs : list feat_res) : list (option status) := map sr_status (scen_results fs).
Definition step_statuses (fs : list feat_res) : list status := flat_map sr_steps (scen_results fs).

Fixpoint all_some {A} (l : list (option A)) : option (list A) :=
  match l with
  | [] => Some []
  | Some x :: r => match all_some r with Some r' => Some (x :: r') | None => None end
  | None :: _ => None
  end.

Record summary := mkSummary {
  sm_features : table; sm_rules : table; sm_scenarios : table; sm_steps : table;
  sm_failing : list nat; sm_errored : list nat }.

Definition problem_ids (p : status -> bool) (fs : list feat_res) : list nat :=
  map sr_id (filter (fun r => match sr_status r with Some s => p s | None => false end) (scen_results fs)).

(* the walk with given key sets; None = the reporter raised (KeyError / assertion) *)
Definition summarize (fk rk sk stk : list status) (fs : list feat_res) : option summary :=
  match all_some (scenario_statuses fs) with
  | None => None
  | Some scs =>
    match incr_all (zero_table fk) (feature_statuses fs),
          incr_all (zero_table rk) (rule_statuses fs),
          incr_all (zero_table sk) scs,
          incr_all (zero_table stk) (step_statuses fs) with
    | Some tf, Some tr, Some ts, Some tst =>
        Some (mkSummary tf tr ts tst (problem_ids is_failure fs) (problem_ids is_error fs))
    | _, _, _, _ => None
    end
  end.

Definition reporter_summary : list feat_res -> option summary :=
  summarize feature_keys rule_keys element_keys step_keys.

Definition collector_summary : list feat_res -> option summary :=
  summarize collector_keys collector_keys collector_keys collector_keys.

(* ---- which numbers a summary line shows *)
Definition mem_status (s : status) (l : list status) : bool := existsb (status_eqb s) l.

Definition parts (optional : list status) (t : table) : list (status * nat) :=
  flat_map (fun s =>
              if in_table t s
              then (if mem_status s optional && Nat.eqb (tlookup t s) 0 then [] else [(s, tlookup t s)])
              else []) status_order.

Inductive sformat := FV1 | FV1A | FV1B | FV2 | FV3.

(* (leading total if the format prints one, the (status, count) parts) *)
Definition format_numbers (f : sformat) (t : table) : option nat * list (status * nat) :=
  match f with
  | FV1 => (None, parts optional_v1 t)
  | FV1A | FV2 | FV3 => (Some (table_sum t), parts optional_v2 t)
  | FV1B => (Some (tlookup t passed),
             filter (fun p => negb (status_eqb (fst p) passed)) (parts optional_v2 t))
  end.
