(* RegexProofs.v - C11: soundness of the backtracking matcher of Regex.v: a match consumes a prefix that is in the
   language of the expression; with the end anchored the whole text is; recorded group spans lie inside the text. *)
From BV Require Import Base UStr StepMatch Regex.

Inductive lang : rx -> ustr -> Prop :=
| LEps : lang REps []
| LChar c : lang (RChar c) [c]
| LClass k c : class_ok k c = true -> lang (RClass k) [c]
| LSeq a b s t : lang a s -> lang b t -> lang (RSeq a b) (s ++ t)
| LAltL a b s : lang a s -> lang (RAlt a b) s
| LAltR a b s : lang b s -> lang (RAlt a b) s
| LStarNil g a : lang (RStar g a) []
| LStarCons g a s t : lang a s -> lang (RStar g a) t -> lang (RStar g a) (s ++ t)
| LPlus g a s t : lang a s -> lang (RStar g a) t -> lang (RPlus g a) (s ++ t)
| LOptNone g a : lang (ROpt g a) []
| LOptSome g a s : lang a s -> lang (ROpt g a) s
| LGroup n a s : lang a s -> lang (RGroup n a) s
| LNGroup a s : lang a s -> lang (RNGroup a) s.

(* what a successful call tells: a prefix `piece` of `rest` is in the language of r and the continuation succeeded behind it *)
Definition consumes (r : rx) (rest : ustr) (pos : nat) (k : kont) (res : caps) : Prop :=
  exists piece rest' cs', rest = piece ++ rest' /\ lang r piece /\ k rest' (pos + length piece) cs' = Some res.

Definition body_sound (a : rx) (body : ustr -> nat -> caps -> kont -> option caps) : Prop :=
  forall rest pos cs k res, body rest pos cs k = Some res -> consumes a rest pos k res.

Lemma star_loop_sound a body g k : body_sound a body ->
  forall f rest pos cs res, star_loop body g k f rest pos cs = Some res -> consumes (RStar g a) rest pos k res.
Proof.
  intros HB. induction f as [|f IH]; intros rest pos cs res H; cbn [star_loop] in H.
  - exists [], rest, cs. split; [reflexivity|]. split; [constructor|]. now rewrite Nat.add_0_r.
  - assert (EXIT : k rest pos cs = Some res -> consumes (RStar g a) rest pos k res).
    { intros E. exists [], rest, cs. split; [reflexivity|]. split; [constructor|]. now rewrite Nat.add_0_r. }
    assert (ITER : body rest pos cs (fun rest' pos' cs' => if Nat.eqb pos' pos then None else star_loop body g k f rest' pos' cs') = Some res ->
                   consumes (RStar g a) rest pos k res).
    { intros E. apply HB in E. destruct E as [p1 [r1 [c1 [E1 [L1 K1]]]]].
      destruct (Nat.eqb (pos + length p1) pos); [discriminate|].
      apply IH in K1. destruct K1 as [p2 [r2 [c2 [E2 [L2 K2]]]]].
      exists (p1 ++ p2), r2, c2. split; [now rewrite E1, E2, app_assoc|]. split; [now constructor|].
      rewrite app_length, Nat.add_assoc. exact K2. }
    destruct g.
    + destruct (body rest pos cs _) eqn:E; [inversion H; subst; now apply ITER|now apply EXIT].
    + destruct (k rest pos cs) eqn:E; [inversion H; subst; now apply EXIT|now apply ITER].
Qed.

Theorem mrx_sound r : forall idx fuel rest pos cs k res,
  mrx r idx fuel rest pos cs k = Some res -> consumes r rest pos k res.
Proof.
  induction r as [|c|cl|a IHa b IHb|a IHa b IHb|g a IHa|g a IHa|g a IHa|n a IHa|a IHa];
    intros idx fuel rest pos cs k res H; cbn [mrx] in H.
  - exists [], rest, cs. split; [reflexivity|]. split; [constructor|]. now rewrite Nat.add_0_r.
  - destruct rest as [|x t]; [discriminate|]. destruct (N.eqb x c) eqn:E; [|discriminate]. apply N.eqb_eq in E. subst x.
    exists [c], t, cs. split; [reflexivity|]. split; [constructor|]. cbn [length]. now rewrite Nat.add_1_r.
  - destruct rest as [|x t]; [discriminate|]. destruct (class_ok cl x) eqn:E; [|discriminate].
    exists [x], t, cs. split; [reflexivity|]. split; [now constructor|]. cbn [length]. now rewrite Nat.add_1_r.
  - apply IHa in H. destruct H as [p1 [r1 [c1 [E1 [L1 K1]]]]]. apply IHb in K1. destruct K1 as [p2 [r2 [c2 [E2 [L2 K2]]]]].
    exists (p1 ++ p2), r2, c2. split; [now rewrite E1, E2, app_assoc|]. split; [now constructor|].
    rewrite app_length, Nat.add_assoc. exact K2.
  - destruct (mrx a idx fuel rest pos cs k) eqn:E.
    + inversion H. subst. apply IHa in E. destruct E as [p [r [c [E1 [L K]]]]]. exists p, r, c. split; [exact E1|]. split; [now apply LAltL|exact K].
    + apply IHb in H. destruct H as [p [r [c [E1 [L K]]]]]. exists p, r, c. split; [exact E1|]. split; [now apply LAltR|exact K].
  - apply (star_loop_sound a) in H; [exact H|]. intros rest' pos' cs' k' res' H'. now apply IHa in H'.
  - apply IHa in H. destruct H as [p1 [r1 [c1 [E1 [L1 K1]]]]].
    apply (star_loop_sound a) in K1; [|intros rest' pos' cs' k' res' H'; now apply IHa in H'].
    destruct K1 as [p2 [r2 [c2 [E2 [L2 K2]]]]].
    exists (p1 ++ p2), r2, c2. split; [now rewrite E1, E2, app_assoc|]. split; [now constructor|].
    rewrite app_length, Nat.add_assoc. exact K2.
  - assert (SKIP : k rest pos cs = Some res -> consumes (ROpt g a) rest pos k res).
    { intros E. exists [], rest, cs. split; [reflexivity|]. split; [constructor|]. now rewrite Nat.add_0_r. }
    assert (TAKE : mrx a idx fuel rest pos cs k = Some res -> consumes (ROpt g a) rest pos k res).
    { intros E. apply IHa in E. destruct E as [p [r [c [E1 [L K]]]]]. exists p, r, c. split; [exact E1|]. split; [now apply LOptSome|exact K]. }
    destruct g.
    + destruct (mrx a idx fuel rest pos cs k) eqn:E; [inversion H; subst; now apply TAKE|now apply SKIP].
    + destruct (k rest pos cs) eqn:E; [inversion H; subst; now apply SKIP|now apply TAKE].
  - apply IHa in H. destruct H as [p [r [c [E1 [L K]]]]]. exists p, r, ((idx, (pos, pos + length p)) :: c).
    split; [exact E1|]. split; [now constructor|exact K].
  - apply IHa in H. destruct H as [p [r [c [E1 [L K]]]]]. exists p, r, c. split; [exact E1|]. split; [now constructor|exact K].
Qed.

(* C11: a pattern anchored at the end binds a step only if the complete step text is in the language of the pattern *)
Theorem anchored_regex_matches_only_complete_texts r text cs :
  rx_match true r text = Some cs -> lang r text.
Proof.
  unfold rx_match. intros H. apply mrx_sound in H. destruct H as [p [r' [c [E [L K]]]]].
  unfold final_k in K. destruct r'; [|discriminate]. rewrite app_nil_r in E. now subst.
Qed.

Theorem unanchored_regex_matches_a_prefix r text cs :
  rx_match false r text = Some cs -> exists p rest, text = p ++ rest /\ lang r p.
Proof.
  unfold rx_match. intros H. apply mrx_sound in H. destruct H as [p [r' [c [E [L K]]]]]. now exists p, r'.
Qed.

(* ---- group spans lie inside the text ---- *)
Definition bounded (n : nat) (cs : caps) : Prop := Forall (fun e => fst (snd e) <= snd (snd e) <= n) cs.
Definition inv (n : nat) (rest : ustr) (pos : nat) (cs : caps) : Prop := pos + length rest = n /\ bounded n cs.
Definition kgood (n p0 : nat) (k : kont) : Prop :=
  forall rest pos cs res, p0 <= pos -> inv n rest pos cs -> k rest pos cs = Some res -> bounded n res.

Lemma kgood_mono n p0 p1 k : p0 <= p1 -> kgood n p0 k -> kgood n p1 k.
Proof. intros L G rest pos cs res P I K. apply (G rest pos cs res); [lia|exact I|exact K]. Qed.

Definition body_good (n : nat) (body : ustr -> nat -> caps -> kont -> option caps) : Prop :=
  forall rest pos cs k res, inv n rest pos cs -> kgood n pos k -> body rest pos cs k = Some res -> bounded n res.

Lemma star_loop_bounded n body g k : body_good n body ->
  forall f rest pos cs res, inv n rest pos cs -> kgood n pos k -> star_loop body g k f rest pos cs = Some res -> bounded n res.
Proof.
  intros HB. induction f as [|f IH]; intros rest pos cs res I G H; cbn [star_loop] in H.
  - apply (G rest pos cs res); [lia|exact I|exact H].
  - assert (EXIT : k rest pos cs = Some res -> bounded n res) by (intros E; apply (G rest pos cs res); [lia|exact I|exact E]).
    assert (ITER : body rest pos cs (fun rest' pos' cs' => if Nat.eqb pos' pos then None else star_loop body g k f rest' pos' cs') = Some res ->
                   bounded n res).
    { intros E. refine (HB rest pos cs _ res I _ E).
      intros rest' pos' cs' res' P I' K'. destruct (Nat.eqb pos' pos); [discriminate|].
      apply (IH rest' pos' cs' res' I'); [|exact K']. apply (kgood_mono n pos pos' k P G). }
    destruct g.
    + destruct (body rest pos cs _) eqn:E; [inversion H; subst; now apply ITER|now apply EXIT].
    + destruct (k rest pos cs) eqn:E; [inversion H; subst; now apply EXIT|now apply ITER].
Qed.

Theorem mrx_bounded n r : forall idx fuel rest pos cs k res,
  inv n rest pos cs -> kgood n pos k -> mrx r idx fuel rest pos cs k = Some res -> bounded n res.
Proof.
  induction r as [|c|cl|a IHa b IHb|a IHa b IHb|g a IHa|g a IHa|g a IHa|nm a IHa|a IHa];
    intros idx fuel rest pos cs k res I G H; cbn [mrx] in H.
  - apply (G rest pos cs res); [lia|exact I|exact H].
  - destruct rest as [|x t]; [discriminate|]. destruct (N.eqb x c); [|discriminate].
    apply (G t (S pos) cs res); [lia| |exact H]. destruct I as [I1 I2]. split; [cbn [length] in I1; lia|exact I2].
  - destruct rest as [|x t]; [discriminate|]. destruct (class_ok cl x); [|discriminate].
    apply (G t (S pos) cs res); [lia| |exact H]. destruct I as [I1 I2]. split; [cbn [length] in I1; lia|exact I2].
  - refine (IHa idx fuel rest pos cs _ res I _ H).
    intros rest' pos' cs' res' P I' K'. refine (IHb _ fuel rest' pos' cs' k res' I' _ K'). apply (kgood_mono n pos pos' k P G).
  - destruct (mrx a idx fuel rest pos cs k) eqn:E.
    + inversion H. subst. apply (IHa idx fuel rest pos cs k res I G E).
    + apply (IHb _ fuel rest pos cs k res I G H).
  - apply (star_loop_bounded n _ g k) in H; [exact H| |exact I|exact G].
    intros rest' pos' cs' k' res' I' G' H'. apply (IHa idx fuel rest' pos' cs' k' res' I' G' H').
  - refine (IHa idx fuel rest pos cs _ res I _ H).
    intros rest1 pos1 cs1 res1 P I1 K1.
    apply (star_loop_bounded n _ g k) in K1; [exact K1| |exact I1|apply (kgood_mono n pos pos1 k P G)].
    intros rest' pos' cs' k' res' I' G' H'. apply (IHa idx fuel rest' pos' cs' k' res' I' G' H').
  - assert (SKIP : k rest pos cs = Some res -> bounded n res) by (intros E; apply (G rest pos cs res); [lia|exact I|exact E]).
    assert (TAKE : mrx a idx fuel rest pos cs k = Some res -> bounded n res) by (intros E; apply (IHa idx fuel rest pos cs k res I G E)).
    destruct g.
    + destruct (mrx a idx fuel rest pos cs k) eqn:E; [inversion H; subst; now apply TAKE|now apply SKIP].
    + destruct (k rest pos cs) eqn:E; [inversion H; subst; now apply SKIP|now apply TAKE].
  - refine (IHa (S idx) fuel rest pos cs _ res I _ H).
    intros rest' pos' cs' res' P I' K'. refine (G rest' pos' _ res' P _ K').
    destruct I' as [I1 I2]. split; [exact I1|]. constructor; [cbn; lia|exact I2].
  - apply (IHa idx fuel rest pos cs k res I G H).
Qed.

Theorem group_spans_lie_inside_the_text anch r text cs :
  rx_match anch r text = Some cs -> bounded (length text) cs.
Proof.
  unfold rx_match. intros H. refine (mrx_bounded (length text) r 1 _ text 0 [] (final_k anch) cs _ _ H).
  - split; [reflexivity|constructor].
  - intros rest pos cs' res _ [_ B] K. unfold final_k in K. destruct anch; [destruct rest; [|discriminate]|]; inversion K; now subst.
Qed.

Lemma cap_get_in i cs sp : cap_get i cs = Some sp -> In (i, sp) cs.
Proof.
  induction cs as [|[j s] cs IH]; [discriminate|]. cbn [cap_get]. destruct (Nat.eqb i j) eqn:E.
  - intros H. inversion H. apply Nat.eqb_eq in E. subst. now left.
  - intros H. right. now apply IH.
Qed.

(* every reported argument: unset, or a span inside the text whose slice is the reported original text *)
Theorem reported_arguments_delimit_their_text anch r text args :
  rx_check_match anch r text = Some args ->
  Forall (fun a => match ra_span a with
                   | None => ra_text a = None
                   | Some (s, e) => s <= e <= length text /\ ra_text a = Some (firstn (e - s) (skipn s text))
                   end) args.
Proof.
  unfold rx_check_match. destruct (rx_match anch r text) as [cs|] eqn:M; [|discriminate]. intros H. inversion H as [H1]. clear H H1.
  pose proof (group_spans_lie_inside_the_text _ _ _ _ M) as B. clear M.
  generalize 1 as i. induction (group_names r) as [|nm l IH]; intros i; cbn [rargs_from]; constructor; [|apply IH].
  destruct (cap_get i cs) as [[s e]|] eqn:G; cbn [ra_span ra_text]; [|reflexivity].
  apply cap_get_in in G. unfold bounded in B. rewrite Forall_forall in B. specialize (B _ G). cbn in B. split; [exact B|reflexivity].
Qed.
