(* SelectProofs.v - C10 lemmas about Select.v *)
From BV Require Import Base Select.
From Coq Require Import Sorting.Sorted.

Definition keys_increasing (db : list entry) : Prop := StronglySorted lt (map fst db).

(* ---- lookup: the entry with the greatest key <= line *)
Lemma pred_entry_none_below line db best :
  (forall e, In e db -> line < fst e) -> pred_entry line db best = best.
Proof.
  destruct db as [|x r]; [reflexivity|]. intros H. cbn.
  assert (line < fst x) by (apply H; now left). destruct (fst x <=? line) eqn:E; [apply Nat.leb_le in E; lia|reflexivity].
Qed.

Lemma pred_entry_spec db : keys_increasing db -> forall line best k v,
  In (k, v) db -> k <= line -> (forall e, In e db -> fst e <= line -> fst e <= k) ->
  pred_entry line db best = Some (k, v).
Proof.
  induction db as [|x r IH]; intros Hs line best k v Hin Hk Hmax; [destruct Hin|].
  inversion Hs as [|? ? Hs' Hall]; subst. cbn [pred_entry].
  destruct Hin as [->|Hin].
  - cbn [fst]. assert (E : (k <=? line) = true) by now apply Nat.leb_le. rewrite E.
    apply pred_entry_none_below. intros e He.
    assert (k < fst e). { rewrite Forall_forall in Hall. apply Hall. now apply in_map. }
    destruct (Nat.le_gt_cases (fst e) line) as [H1|H1]; [|exact H1].
    assert (fst e <= k) by (apply Hmax; [now right|exact H1]). lia.
  - assert (fst x < k). { rewrite Forall_forall in Hall. apply (Hall k). change k with (fst (k, v)). now apply in_map. }
    assert (E : (fst x <=? line) = true) by (apply Nat.leb_le; lia). rewrite E.
    apply IH; auto. intros e He Hle. apply Hmax; [now right|exact Hle].
Qed.

Theorem select_line_nearest_above db line k v :
  keys_increasing db -> In (k, v) db -> k <= line ->
  (forall e, In e db -> fst e <= line -> fst e <= k) ->
  select_line db line = v.
Proof. intros Hs Hin Hk Hmax. unfold select_line. now rewrite (pred_entry_spec db Hs line None k v Hin Hk Hmax). Qed.

Corollary select_line_exact db line v :
  keys_increasing db -> In (line, v) db -> select_line db line = v.
Proof.
  intros Hs Hin. apply (select_line_nearest_above db line line v Hs Hin (le_n _)). intros e He Hle. exact Hle.
Qed.

(* ---- the line database is sorted and keeps every entry of a document with distinct lines *)
Lemma insert_entry_sorted e db : keys_increasing db -> keys_increasing (insert_entry e db).
Proof.
  unfold keys_increasing. induction db as [|x r IH]; intros Hs; cbn [insert_entry].
  - cbn. constructor; constructor.
  - inversion Hs as [|? ? Hs' Hall]; subst.
    destruct (fst e <? fst x) eqn:E1.
    + apply Nat.ltb_lt in E1. cbn [map]. constructor; [exact Hs|]. constructor; [exact E1|].
      rewrite Forall_forall in *. intros y Hy. specialize (Hall y Hy). lia.
    + destruct (fst e =? fst x) eqn:E2.
      * apply Nat.eqb_eq in E2. cbn [map]. rewrite E2. constructor; assumption.
      * apply Nat.ltb_ge in E1. apply Nat.eqb_neq in E2. cbn [map]. constructor; [now apply IH|].
        rewrite Forall_forall in *. intros y Hy.
        assert (G : forall d, In y (map fst (insert_entry e d)) -> y = fst e \/ In y (map fst d)).
        { clear. induction d as [|z d IHd]; cbn [insert_entry]; intros H.
          - destruct H as [<-|[]]. now left.
          - destruct (fst e <? fst z); [destruct H as [<-|H]; [now left|now right]|].
            destruct (fst e =? fst z); [destruct H as [<-|H]; [now left|right; now right]|].
            destruct H as [<-|H]; [right; now left|]. destruct (IHd H); [now left|right; now right]. }
        destruct (G r Hy) as [->|Hy']; [lia|now apply Hall].
Qed.

Lemma line_db_sorted data : keys_increasing (line_db data).
Proof.
  unfold line_db. assert (G : forall acc, keys_increasing acc -> keys_increasing (fold_left (fun a e => insert_entry e a) data acc)).
  { induction data as [|e d IH]; intros acc Ha; cbn [fold_left]; [exact Ha|]. apply IH. now apply insert_entry_sorted. }
  apply G. constructor.
Qed.

Lemma insert_entry_in e db x :
  keys_increasing db ->
  (In x (insert_entry e db) <-> x = e \/ (In x db /\ fst x <> fst e)).
Proof.
  unfold keys_increasing. induction db as [|y r IH]; intros Hs; cbn [insert_entry].
  - cbn. split; [intros [<-|[]]; now left|intros [->|[[] _]]; now left].
  - inversion Hs as [|? ? Hs' Hall]; subst. rewrite Forall_forall in Hall.
    destruct (fst e <? fst y) eqn:E1.
    + apply Nat.ltb_lt in E1. split.
      * intros [<-|H]; [now left|right]. split; [exact H|].
        destruct H as [<-|H]; [lia|]. assert (fst y < fst x) by (apply Hall; now apply in_map). lia.
      * intros [->|[H _]]; [now left|now right].
    + destruct (fst e =? fst y) eqn:E2.
      * apply Nat.eqb_eq in E2. split.
        -- intros [<-|H]; [now left|right]. split; [now right|].
           assert (fst y < fst x) by (apply Hall; now apply in_map). lia.
        -- intros [->|[[<-|H] Hne]]; [now left|congruence|now right].
      * apply Nat.eqb_neq in E2. split.
        -- intros [<-|H]; [right; split; [now left|congruence]|].
           apply IH in H; [|exact Hs']. destruct H as [->|[H Hne]]; [now left|right; split; [now right|exact Hne]].
        -- intros [->|[[<-|H] Hne]].
           ++ right. apply IH; [exact Hs'|now left].
           ++ now left.
           ++ right. apply IH; [exact Hs'|]. right. split; assumption.
Qed.

(* a document whose entities start on distinct lines: nothing is lost in the database *)
Lemma line_db_complete data e :
  NoDup (map fst data) -> In e data -> In e (line_db data).
Proof.
  unfold line_db.
  assert (G : forall d acc, keys_increasing acc -> NoDup (map fst d) ->
            (forall a, In a acc -> ~ In (fst a) (map fst d)) ->
            forall x, (In x acc \/ In x d) -> In x (fold_left (fun a e0 => insert_entry e0 a) d acc)).
  { induction d as [|y d IH]; intros acc Ha Hnd Hdis x Hx; cbn [fold_left].
    - destruct Hx as [Hx|[]]. exact Hx.
    - inversion Hnd as [|? ? Hnotin Hnd']; subst. apply IH.
      + now apply insert_entry_sorted.
      + exact Hnd'.
      + intros a Ha' Hin. apply insert_entry_in in Ha'; [|exact Ha]. destruct Ha' as [->|[Ha' _]]; [contradiction|].
        apply (Hdis a Ha'). now right.
      + destruct Hx as [Hx|[<-|Hx]].
        * left. apply insert_entry_in; [exact Ha|]. right. split; [exact Hx|].
          intros Heq. apply (Hdis x Hx). left. now symmetry.
        * left. apply insert_entry_in; [exact Ha|]. now left.
        * now right. }
  intros Hnd Hin. apply G.
  - constructor.
  - exact Hnd.
  - intros a [].
  - now right.
Qed.

(* ---- collector: no line => everything runs; otherwise skipped = not selected and not @setup/@teardown *)
Lemma no_line_selects_all f locs :
  existsb (fun l => negb (loc_has_line l)) locs = true -> skipped_ids f locs = [].
Proof.
  intros H. unfold skipped_ids.
  assert (forallb loc_has_line locs = false) as ->; [|reflexivity].
  induction locs as [|l r IH]; [discriminate|]. cbn in *. destruct (loc_has_line l); cbn in *; auto.
Qed.

Lemma skipped_spec f locs s :
  locs <> [] -> forallb loc_has_line locs = true ->
  (In (ls_id s) (skipped_ids f locs) <->
   exists s', In s' (feature_scens f) /\ ls_id s' = ls_id s /\ ls_keep s' = false /\
              ~ In (ls_id s') (selected_ids f locs)).
Proof.
  intros Hne Hall. unfold skipped_ids. rewrite Hall. destruct locs as [|l0 r0]; [congruence|]. cbn [andb negb].
  unfold ids. rewrite in_map_iff. split.
  - intros [s' [Hid Hin]]. apply filter_In in Hin as [Hin Hc]. apply andb_true_iff in Hc as [Hc1 Hc2].
    exists s'. repeat split; auto.
    + now apply negb_true_iff in Hc2.
    + intros Hsel. apply negb_true_iff in Hc1.
      assert (existsb (Nat.eqb (ls_id s')) (selected_ids f (l0 :: r0)) = true)
        by (apply existsb_exists; exists (ls_id s'); split; [exact Hsel|apply Nat.eqb_refl]).
      congruence.
  - intros [s' [Hin [Hid [Hk Hns]]]]. exists s'. split; [exact Hid|]. apply filter_In. split; [exact Hin|].
    rewrite Hk. cbn [negb]. rewrite andb_true_r. apply negb_true_iff.
    destruct (existsb (Nat.eqb (ls_id s')) (selected_ids f (l0 :: r0))) eqn:E; [|reflexivity].
    apply existsb_exists in E as [x [Hx Ex]]. apply Nat.eqb_eq in Ex. subst x. contradiction.
Qed.

Lemma selected_union f a b : selected_ids f (a ++ b) = selected_ids f a ++ selected_ids f b.
Proof. unfold selected_ids. apply flat_map_app. Qed.

(* ---- grouping of consecutive locations of one file *)
Definition ungroup (gs : list (nat * list (option nat))) : list (nat * option nat) :=
  flat_map (fun g => map (pair (fst g)) (snd g)) gs.

Lemma group_locs_ungroup locs : forall cur,
  ungroup (group_locs locs cur) = (match cur with Some g => map (pair (fst g)) (snd g) | None => [] end) ++ locs.
Proof.
  induction locs as [|[file line] r IH]; intros cur; cbn [group_locs].
  - destruct cur as [g|]; cbn; now rewrite ?app_nil_r.
  - destruct cur as [[cf ls]|].
    + destruct (Nat.eqb cf file) eqn:E.
      * apply Nat.eqb_eq in E; subst. rewrite IH. cbn [fst snd]. rewrite map_app. cbn. now rewrite <- app_assoc.
      * cbn [ungroup flat_map fst snd]. fold (ungroup (group_locs r (Some (file, [line])))). rewrite IH. cbn. reflexivity.
    + rewrite IH. reflexivity.
Qed.

Theorem grouping_preserves_the_location_sequence locs : ungroup (group_locs locs None) = locs.
Proof. now rewrite group_locs_ungroup. Qed.
