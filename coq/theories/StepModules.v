(* load_step_modules (behave/runner_util.py): the matcher in force becomes the default, then every step module of every
   steps directory is executed, and after EACH module the default matcher is put back. Expressed over the registry model of
   StepMatch.v as the operation list it amounts to. *)
From Coq Require Import List Bool Arith NArith.
Import ListNotations.
From BV Require Import Base UStr StepMatch StepMatchProofs.

Definition module_ops (m : list rop) : list rop := m ++ [UseDefault None].
Definition load_ops (mods : list (list rop)) : list rop := CurrentAsDefault :: flat_map module_ops mods.

Definition run_from (r : registry) (ops : list rop) : registry := fold_left (fun r o => fst (rstep r o)) ops r.

(* what a step module may do without touching the run's default: register, choose a matcher, go back to the default, look up *)
Definition keeps_default (o : rop) : bool :=
  match o with UseDefault (Some _) | CurrentAsDefault => false | _ => true end.

Lemma add_step_keeps r t p f loc :
  r_current (fst (add_step r t p f loc)) = r_current r /\ r_default (fst (add_step r t p f loc)) = r_default r.
Proof.
  unfold add_step. destruct (scan _ _ _ _); cbn [fst]; try (split; reflexivity). apply current_with_defs.
Qed.

Lemma rstep_keeps_default r o : keeps_default o = true -> r_default (fst (rstep r o)) = r_default r.
Proof.
  destruct o as [t p f loc|k|[k|]| |t text]; cbn [keeps_default]; intros H; try discriminate; try reflexivity.
  cbn [rstep]. destruct (add_step r t p f loc) as [r' a] eqn:E. cbn [fst].
  pose proof (add_step_keeps r t p f loc) as [_ Hd]. rewrite E in Hd. exact Hd.
Qed.

Lemma run_from_app r a b : run_from r (a ++ b) = run_from (run_from r a) b.
Proof. unfold run_from. apply fold_left_app. Qed.

Lemma run_from_keeps_default ops : forall r, forallb keeps_default ops = true -> r_default (run_from r ops) = r_default r.
Proof.
  induction ops as [|o ops IH]; intros r H; [reflexivity|].
  cbn [forallb] in H. apply andb_true_iff in H. destruct H as [Ho Hr].
  change (run_from r (o :: ops)) with (run_from (fst (rstep r o)) ops).
  rewrite (IH _ Hr). apply rstep_keeps_default. exact Ho.
Qed.

(* one module: whatever it chose, afterwards the matcher in force is the run's default again *)
Lemma module_ends_on_default r m :
  forallb keeps_default m = true ->
  r_current (run_from r (module_ops m)) = r_default r /\ r_default (run_from r (module_ops m)) = r_default r.
Proof.
  intros H. unfold module_ops. rewrite run_from_app.
  pose proof (run_from_keeps_default m r H) as Hd.
  change (run_from (run_from r m) [UseDefault None]) with (fst (rstep (run_from r m) (UseDefault None))).
  cbn. split; exact Hd.
Qed.

Lemma modules_end_on_default mods : forall r,
  Forall (fun m => forallb keeps_default m = true) mods -> r_current r = r_default r ->
  r_current (run_from r (flat_map module_ops mods)) = r_default r /\ r_default (run_from r (flat_map module_ops mods)) = r_default r.
Proof.
  induction mods as [|m mods IH]; intros r HF Hc; [split; [exact Hc|reflexivity]|].
  inversion HF as [|m' mods' Hm Hrest]; subst. cbn [flat_map]. rewrite run_from_app.
  destruct (module_ends_on_default r m Hm) as [H1 H2].
  destruct (IH (run_from r (module_ops m)) Hrest) as [H3 H4]; [congruence|].
  split; congruence.
Qed.

(* every step module starts under the matcher that was in force when loading began, whatever the modules loaded before it
   chose and left chosen *)
Theorem every_module_starts_under_the_default r before :
  Forall (fun m => forallb keeps_default m = true) before ->
  let r1 := run_from r (load_ops before) in
  r_current r1 = r_current r /\ r_default r1 = r_current r.
Proof.
  intros HF. unfold load_ops. cbn zeta.
  change (run_from r (CurrentAsDefault :: flat_map module_ops before))
    with (run_from (fst (rstep r CurrentAsDefault)) (flat_map module_ops before)).
  set (r0 := fst (rstep r CurrentAsDefault)).
  assert (Hc : r_current r0 = r_current r) by reflexivity.
  assert (Hd : r_default r0 = r_current r) by reflexivity.
  destruct (modules_end_on_default before r0 HF) as [H1 H2]; [congruence|].
  split; congruence.
Qed.

(* so a definition registered by a module that made no choice of its own is compiled by the run's default matcher *)
Theorem a_module_without_a_choice_registers_under_the_default r before t p f loc r' :
  Forall (fun m => forallb keeps_default m = true) before ->
  add_step (run_from r (load_ops before)) t p f loc = (r', Added) ->
  exists d, defs_of r' t = defs_of (run_from r (load_ops before)) t ++ [d] /\ d_kind d = r_current r /\ d_func d = f.
Proof.
  intros HF HA. destruct (every_module_starts_under_the_default r before HF) as [Hc _].
  destruct (accepted_registration_appends _ _ _ _ _ _ HA) as [Hdefs _].
  eexists. split; [exact Hdefs|]. cbn. split; [exact Hc|reflexivity].
Qed.

(* executable form used by the correspondence: modules as (index, own choice), one literal definition each *)
Definition lit_pattern (s : ustr) : pattern := mkPattern (fun _ => s) (fun _ => [[ALit s]]) true.
Definition simple_module (m : nat * option mkind) : list rop :=
  (match snd m with Some k => [UseMatcher k] | None => [] end)
  ++ [Register TGiven (lit_pattern [109; N.of_nat (fst m) + 48]%N) (fst m) (fst m)].
Definition kinds_after_loading (c : mkind * list (nat * option mkind)) : list (nat * mkind) :=
  map (fun d => (d_func d, d_kind d))
      (r_given (fst (run_ops (UseMatcher (fst c) :: load_ops (map simple_module (snd c)))))).

Example a_left_over_choice_does_not_leak :
  kinds_after_loading (KParse, [(0, Some KRe); (1, None); (2, Some KCfparse); (3, None)])
  = [(0, KRe); (1, KParse); (2, KCfparse); (3, KParse)].
Proof. vm_compute. reflexivity. Qed.
