(* UserDataProofs.v - parse_user_define on the documented forms; getters. *)
From BV Require Import Base UStr ConfigTypes UserData.
From BVGen Require Import ConfigTables UnicodeTables.

Definition all_space (p : ustr) : bool := forallb is_space p.
(* no padding: does not start or end with white space *)
Definition no_pad (s : ustr) : bool :=
  match s with [] => true | c :: _ => negb (is_space c) && negb (is_space (last s 0%N)) end.
Definition no_eq (s : ustr) : bool := negb (memN cp_eq s).
Definition is_quote (c : N) : bool := N.eqb c cp_dq || N.eqb c cp_sq.

Lemma drop_while_all (f : N -> bool) p r : forallb f p = true -> drop_while f (p ++ r) = drop_while f r.
Proof.
  induction p as [|c p IH]; intros H; [reflexivity|]. cbn [forallb] in H. apply andb_true_iff in H as [H1 H2].
  cbn [app drop_while]. rewrite H1. now apply IH.
Qed.

Lemma drop_while_stop (f : N -> bool) c r : f c = false -> drop_while f (c :: r) = c :: r.
Proof. intros H. cbn [drop_while]. now rewrite H. Qed.

Lemma drop_while_nil_all (f : N -> bool) p : forallb f p = true -> drop_while f p = [].
Proof. intros H. rewrite <- (app_nil_r p). now rewrite drop_while_all. Qed.

Lemma lstrip_pad p s : all_space p = true -> lstrip (p ++ s) = lstrip s.
Proof. apply drop_while_all. Qed.

Lemma all_space_rev p : all_space p = true -> all_space (rev p) = true.
Proof.
  unfold all_space. intros H. rewrite forallb_forall in *. intros x Hin. apply H. now apply in_rev.
Qed.

Lemma rstrip_pad s p : all_space p = true -> rstrip (s ++ p) = rstrip s.
Proof. intros H. unfold rstrip. rewrite rev_app_distr. now rewrite drop_while_all by (apply all_space_rev; exact H). Qed.

Lemma last_rev_head (s : ustr) c r : rev s = c :: r -> last s 0%N = c.
Proof.
  intros H. assert (s = rev (c :: r)) as -> by (now rewrite <- H, rev_involutive).
  cbn [rev]. clear H. induction (rev r) as [|x l IH]; [reflexivity|].
  cbn [app]. destruct (l ++ [c]) eqn:E; [destruct l; discriminate|]. cbn [last]. exact IH.
Qed.

Lemma lstrip_no_pad s : no_pad s = true -> lstrip s = s.
Proof.
  destruct s as [|c r]; [reflexivity|]. cbn [no_pad]. intros H. apply andb_true_iff in H as [H _].
  apply negb_true_iff in H. now apply drop_while_stop.
Qed.

Lemma rstrip_no_pad s : no_pad s = true -> rstrip s = s.
Proof.
  destruct s as [|c r] eqn:ES; [reflexivity|]. rewrite <- ES. intros H.
  assert (L : is_space (last s 0%N) = false).
  { rewrite ES in *. cbn [no_pad] in H. apply andb_true_iff in H as [_ H]. now apply negb_true_iff. }
  unfold rstrip. destruct (rev s) as [|x l] eqn:ER.
  - apply (f_equal (@rev N)) in ER. rewrite rev_involutive in ER. now rewrite ER.
  - rewrite (last_rev_head s x l ER) in L. rewrite drop_while_stop by exact L. rewrite <- ER. apply rev_involutive.
Qed.

Lemma strip_no_pad s : no_pad s = true -> strip s = s.
Proof. intros H. unfold strip. rewrite lstrip_no_pad by exact H. now apply rstrip_no_pad. Qed.

Lemma strip_padded p1 s p2 : all_space p1 = true -> all_space p2 = true -> no_pad s = true ->
  strip (p1 ++ s ++ p2) = s.
Proof.
  intros H1 H2 HS. unfold strip. rewrite lstrip_pad by exact H1.
  destruct s as [|c r] eqn:ES.
  - cbn [app]. unfold lstrip. rewrite drop_while_nil_all by exact H2. reflexivity.
  - rewrite <- ES in *. assert (lstrip (s ++ p2) = s ++ p2) as ->.
    { rewrite ES in *. cbn [no_pad] in HS. apply andb_true_iff in HS as [HS _]. apply negb_true_iff in HS.
      cbn [app]. now apply drop_while_stop. }
    rewrite rstrip_pad by exact H2. now apply rstrip_no_pad.
Qed.

(* rstrip stops at a non-blank character *)
Lemma rstrip_after a c b : is_space c = false -> rstrip (a ++ c :: b) = a ++ c :: rstrip b.
Proof.
  intros H. unfold rstrip. rewrite rev_app_distr. cbn [rev]. rewrite <- app_assoc. cbn [app].
  destruct (drop_while is_space (rev b)) as [|y l] eqn:E.
  - (* b is all blanks *)
    assert (A : all_space (rev b) = true).
    { clear -E. induction (rev b) as [|x l IH]; [reflexivity|]. cbn [drop_while] in E. unfold all_space. cbn [forallb].
      destruct (is_space x); [cbn; now apply IH|discriminate]. }
    rewrite drop_while_all by exact A. rewrite drop_while_stop by exact H.
    cbn [rev]. now rewrite rev_involutive.
  - assert (S : drop_while is_space (rev b ++ c :: rev a) = (y :: l) ++ c :: rev a).
    { clear -E. revert E. induction (rev b) as [|x r IH]; intros E; [discriminate|].
      cbn [drop_while app] in *. destruct (is_space x); [now apply IH|]. now inversion E. }
    rewrite S. rewrite rev_app_distr. cbn [rev]. rewrite rev_involutive. now rewrite <- !app_assoc.
Qed.

Lemma rstrip_end a s : s <> [] -> no_pad s = true -> rstrip (a ++ s) = a ++ s.
Proof.
  intros NE NP.
  assert (L : is_space (last s 0%N) = false).
  { destruct s as [|c r]; [congruence|]. cbn [no_pad] in NP. apply andb_true_iff in NP as [_ B]. now apply negb_true_iff. }
  rewrite (app_removelast_last 0%N NE) at 1. rewrite app_assoc. rewrite rstrip_after by exact L.
  unfold rstrip. cbn [rev drop_while]. rewrite <- app_assoc. now rewrite <- (app_removelast_last 0%N NE).
Qed.

Lemma split_first_app sep a b : memN sep a = false -> split_first sep (a ++ sep :: b) = Some (a, b).
Proof.
  induction a as [|x a IH]; intros H; cbn [app split_first].
  - now rewrite N.eqb_refl.
  - unfold memN in H. cbn [existsb] in H. apply orb_false_elim in H as [H1 H2]. rewrite N.eqb_sym in H1.
    rewrite H1. now rewrite IH.
Qed.

Lemma split_first_some sep s : memN sep s = true -> exists a b, split_first sep s = Some (a, b).
Proof.
  induction s as [|x s IH]; intros H; [discriminate|]. cbn [split_first].
  destruct (N.eqb x sep) eqn:E; [eauto|].
  unfold memN in H. cbn [existsb] in H. rewrite N.eqb_sym, E in H. destruct (IH H) as [a [b ->]]. eauto.
Qed.

Lemma unquote_quoted q v : is_quote q = true -> unquote (q :: v ++ [q]) = v.
Proof.
  intros Q. unfold unquote.
  assert (L : last (q :: v ++ [q]) 0%N = q).
  { clear Q. change (q :: v ++ [q]) with ((q :: v) ++ [q]). generalize (q :: v) as l.
    induction l as [|x l IH]; [reflexivity|]. cbn [app]. destruct (l ++ [q]) eqn:E; [destruct l; discriminate|].
    cbn [last]. exact IH. }
  rewrite L. unfold is_quote in Q. rewrite !andb_diag. rewrite Q. cbn [tl]. apply removelast_last.
Qed.

Lemma unquote_unquoted c r : is_quote c = false -> unquote (c :: r) = c :: r.
Proof.
  unfold unquote, is_quote. intros H. apply orb_false_elim in H as [H1 H2]. now rewrite H1, H2.
Qed.

Lemma mem_app c a b : memN c (a ++ b) = memN c a || memN c b.
Proof. unfold memN. apply existsb_app. Qed.

Lemma all_space_no_eq p : is_space cp_eq = false -> all_space p = true -> memN cp_eq p = false.
Proof.
  intros NE H. unfold memN. destruct (existsb (N.eqb cp_eq) p) eqn:E; [|reflexivity].
  apply existsb_exists in E as [x [Hin Hx]]. apply N.eqb_eq in Hx. subst x.
  unfold all_space in H. rewrite forallb_forall in H. rewrite (H _ Hin) in NE. discriminate.
Qed.

Lemma eq_not_space : is_space cp_eq = false.
Proof. vm_compute. reflexivity. Qed.

(* the documented forms, with any padding around the name, the '=' and the value:
   {name}={value}, {name} = {value}, {name}="{value}", {name}='{value}' *)
Theorem define_name_value p1 name p2 p3 value p4 c r :
  all_space p1 = true -> all_space p2 = true -> all_space p3 = true -> all_space p4 = true ->
  name = c :: r -> is_quote c = false -> no_pad name = true -> no_eq name = true -> no_pad value = true ->
  parse_user_define (p1 ++ name ++ p2 ++ [cp_eq] ++ p3 ++ value ++ p4) = (name, unquote value).
Proof.
  intros P1 P2 P3 P4 EN Q NPn NEn NPv.
  assert (C0 : is_space c = false).
  { rewrite EN in NPn. cbn [no_pad] in NPn. apply andb_true_iff in NPn as [A _]. now apply negb_true_iff. }
  unfold parse_user_define.
  assert (T : strip (p1 ++ name ++ p2 ++ [cp_eq] ++ p3 ++ value ++ p4) = name ++ p2 ++ cp_eq :: rstrip (p3 ++ value)).
  { unfold strip. rewrite lstrip_pad by exact P1.
    assert (lstrip (name ++ p2 ++ [cp_eq] ++ p3 ++ value ++ p4) = name ++ p2 ++ [cp_eq] ++ p3 ++ value ++ p4) as ->.
    { rewrite EN. cbn [app]. now apply drop_while_stop. }
    replace (name ++ p2 ++ [cp_eq] ++ p3 ++ value ++ p4) with ((name ++ p2) ++ cp_eq :: ((p3 ++ value) ++ p4))
      by (cbn [app]; now rewrite <- !app_assoc).
    rewrite rstrip_after by exact eq_not_space. rewrite rstrip_pad by exact P4. now rewrite <- app_assoc. }
  rewrite T.
  assert (M : memN cp_eq (name ++ p2 ++ cp_eq :: rstrip (p3 ++ value)) = true).
  { rewrite !mem_app. unfold memN at 3. cbn [existsb]. rewrite N.eqb_refl. cbn. now rewrite !orb_true_r. }
  rewrite M.
  assert (U : unquote (name ++ p2 ++ cp_eq :: rstrip (p3 ++ value)) = name ++ p2 ++ cp_eq :: rstrip (p3 ++ value)).
  { rewrite EN. cbn [app]. now apply unquote_unquoted. }
  rewrite U. rewrite app_assoc.
  rewrite split_first_app.
  2:{ rewrite mem_app. unfold no_eq in NEn. apply negb_true_iff in NEn. rewrite NEn.
      now rewrite (all_space_no_eq p2 eq_not_space P2). }
  f_equal.
  - apply (strip_padded [] name p2); [reflexivity|exact P2|exact NPn].
  - f_equal. destruct value as [|v0 vr] eqn:EV.
    + rewrite app_nil_r. unfold rstrip. rewrite drop_while_nil_all by (apply all_space_rev; exact P3). reflexivity.
    + rewrite <- EV in *. assert (NV : value <> []) by (rewrite EV; discriminate).
      rewrite rstrip_end by assumption.
      rewrite <- (app_nil_r value) at 1. apply strip_padded; [exact P3|reflexivity|exact NPv].
Qed.

Lemma last_cons_ne' (x : N) l d : l <> [] -> last (x :: l) d = last l d.
Proof. destruct l; [congruence|reflexivity]. Qed.

Lemma quote_not_space q : is_quote q = true -> is_space q = false.
Proof.
  unfold is_quote. intros H. apply orb_true_iff in H as [H|H]; apply N.eqb_eq in H; subst q; vm_compute; reflexivity.
Qed.

Lemma last_snoc (l : ustr) q : last (l ++ [q]) 0%N = q.
Proof.
  induction l as [|x l IH]; [reflexivity|]. cbn [app]. destruct (l ++ [q]) eqn:E; [destruct l; discriminate|].
  cbn [last]. exact IH.
Qed.

Lemma no_pad_quoted q v : is_quote q = true -> no_pad (q :: v ++ [q]) = true.
Proof.
  intros Q. cbn [no_pad]. change (q :: v ++ [q]) with ((q :: v) ++ [q]). rewrite last_snoc.
  now rewrite (quote_not_space q Q).
Qed.

Theorem define_unquoted_value p1 name p2 p3 value p4 c r :
  all_space p1 = true -> all_space p2 = true -> all_space p3 = true -> all_space p4 = true ->
  name = c :: r -> is_quote c = false -> no_pad name = true -> no_eq name = true -> no_pad value = true ->
  unquote value = value ->
  parse_user_define (p1 ++ name ++ p2 ++ [cp_eq] ++ p3 ++ value ++ p4) = (name, value).
Proof. intros. rewrite (define_name_value p1 name p2 p3 value p4 c r) by assumption. now f_equal. Qed.

(* a quoted value is taken verbatim: blanks, '=' and quotes inside the quotes are kept *)
Theorem define_quoted_value p1 name p2 p3 q v p4 c r :
  all_space p1 = true -> all_space p2 = true -> all_space p3 = true -> all_space p4 = true ->
  name = c :: r -> is_quote c = false -> no_pad name = true -> no_eq name = true -> is_quote q = true ->
  parse_user_define (p1 ++ name ++ p2 ++ [cp_eq] ++ p3 ++ (q :: v ++ [q]) ++ p4) = (name, v).
Proof.
  intros. rewrite (define_name_value p1 name p2 p3 (q :: v ++ [q]) p4 c r); try assumption.
  - now rewrite unquote_quoted.
  - now apply no_pad_quoted.
Qed.

(* a bare name is a Boolean flag *)
Theorem define_bare_name text : memN cp_eq (strip text) = false -> parse_user_define text = (strip text, str_true).
Proof. intros H. unfold parse_user_define. now rewrite H. Qed.

(* the whole pair inside one pair of quotes *)
Theorem define_quoted_pair q name value :
  is_quote q = true -> no_pad name = true -> no_eq name = true -> no_pad value = true ->
  parse_user_define (q :: (name ++ cp_eq :: value) ++ [q]) = (name, unquote value).
Proof.
  intros Q NPn NEn NPv. unfold parse_user_define.
  rewrite strip_no_pad by (apply no_pad_quoted; exact Q).
  assert (M : memN cp_eq (q :: (name ++ cp_eq :: value) ++ [q]) = true).
  { change (q :: (name ++ cp_eq :: value) ++ [q]) with ([q] ++ (name ++ cp_eq :: value) ++ [q]).
    rewrite !mem_app. unfold memN at 3. cbn [existsb]. rewrite N.eqb_refl. cbn. now rewrite !orb_true_r. }
  rewrite M. rewrite unquote_quoted by exact Q.
  rewrite split_first_app by (unfold no_eq in NEn; now apply negb_true_iff).
  now rewrite !strip_no_pad by assumption.
Qed.

(* the '=' test and the split agree: the fall-back branch of the model is dead code *)
Lemma unquote_keeps_eq t : memN cp_eq t = true -> memN cp_eq (unquote t) = true.
Proof.
  destruct t as [|c r]; [discriminate|]. unfold unquote.
  destruct ((N.eqb c cp_dq && N.eqb (last (c :: r) 0%N) cp_dq) || (N.eqb c cp_sq && N.eqb (last (c :: r) 0%N) cp_sq)) eqn:E;
    [|auto]. intros M. cbn [tl].
  assert (QC : is_quote c = true).
  { unfold is_quote. apply orb_true_iff in E as [E|E]; apply andb_true_iff in E as [E _]; rewrite E; auto using orb_true_r. }
  assert (QL : is_quote (last (c :: r) 0%N) = true).
  { unfold is_quote. apply orb_true_iff in E as [E|E]; apply andb_true_iff in E as [_ E]; rewrite E; auto using orb_true_r. }
  assert (NQ : forall x, is_quote x = true -> N.eqb cp_eq x = false).
  { intros x Hx. unfold is_quote in Hx. apply orb_true_iff in Hx as [Hx|Hx]; apply N.eqb_eq in Hx; subst x; reflexivity. }
  unfold memN in M. cbn [existsb] in M. rewrite (NQ c QC) in M. cbn [orb] in M.
  destruct r as [|y r']; [discriminate M|].
  assert (NE : y :: r' <> []) by discriminate.
  rewrite (app_removelast_last 0%N NE) in M. rewrite existsb_app in M. cbn [existsb] in M.
  rewrite last_cons_ne' in QL.
  - rewrite (NQ _ QL) in M. cbn [orb] in M. now rewrite orb_false_r in M.
  - exact NE.
Qed.

Theorem define_splits_at_first_eq text :
  memN cp_eq (strip text) = true ->
  exists n v, split_first cp_eq (unquote (strip text)) = Some (n, v) /\
              parse_user_define text = (strip n, unquote (strip v)).
Proof.
  intros M. destruct (split_first_some cp_eq _ (unquote_keeps_eq _ M)) as [n [v S]].
  exists n, v. split; [exact S|]. unfold parse_user_define. now rewrite M, S.
Qed.

(* ---- int(): decimal digit strings ---- *)
Definition dec_value (s : ustr) : Z := fold_left (fun a c => (a * 10 + digit_val c)%Z) s 0%Z.

Lemma int_digits_true ds acc :
  forallb is_digit ds = true ->
  int_digits ds acc true = Some (fold_left (fun a c => (a * 10 + digit_val c)%Z) ds acc).
Proof.
  revert acc. induction ds as [|c r IH]; intros acc H; [reflexivity|].
  cbn [forallb] in H. apply andb_true_iff in H as [Hc Hr]. cbn [int_digits fold_left]. rewrite Hc. now apply IH.
Qed.

Lemma int_digits_start ds acc :
  forallb is_digit ds = true -> ds <> [] ->
  int_digits ds acc false = Some (fold_left (fun a c => (a * 10 + digit_val c)%Z) ds acc).
Proof.
  destruct ds as [|c r]; [congruence|]. intros H _. cbn [forallb] in H. apply andb_true_iff in H as [Hc Hr].
  cbn [int_digits fold_left]. rewrite Hc. now apply int_digits_true.
Qed.

Lemma digit_cases c : is_digit c = true ->
  In c [48; 49; 50; 51; 52; 53; 54; 55; 56; 57]%N.
Proof.
  unfold is_digit. intros H. apply andb_true_iff in H as [A B]. apply N.leb_le in A. apply N.leb_le in B.
  cbn [In]. lia.
Qed.

Lemma digit_not_space c : is_digit c = true -> is_space c = false.
Proof.
  intros H. apply digit_cases in H. cbn [In] in H.
  repeat (destruct H as [H|H]; [subst c; vm_compute; reflexivity|]). destruct H.
Qed.

Lemma digits_no_pad s : forallb is_digit s = true -> no_pad s = true.
Proof.
  intros H. destruct s as [|c r] eqn:ES; [reflexivity|]. rewrite <- ES in *.
  assert (NE : s <> []) by (rewrite ES; discriminate).
  rewrite forallb_forall in H.
  assert (A : is_space c = false) by (apply digit_not_space, H; rewrite ES; now left).
  assert (B : is_space (last s 0%N) = false).
  { apply digit_not_space, H. rewrite (app_removelast_last 0%N NE) at 2. apply in_or_app. right. now left. }
  rewrite ES in B |- *. cbn [no_pad]. now rewrite A, B.
Qed.

Theorem py_int_digits s : forallb is_digit s = true -> s <> [] -> py_int s = Some (dec_value s).
Proof.
  intros H NE. unfold py_int. rewrite strip_no_pad by (apply digits_no_pad; exact H).
  destruct s as [|c r] eqn:ES; [congruence|].
  assert (Hc : is_digit c = true) by (cbn [forallb] in H; now apply andb_true_iff in H as [Hc _]).
  pose proof (digit_cases c Hc) as Hin. cbn [In] in Hin.
  repeat (destruct Hin as [Hin|Hin]; [subst c; apply (int_digits_start _ 0%Z H NE)|]). destruct Hin.
Qed.

Theorem py_int_negative s : forallb is_digit s = true -> s <> [] -> py_int (45%N :: s) = Some (- dec_value s)%Z.
Proof.
  intros H NE. unfold py_int.
  assert (NP : no_pad (45%N :: s) = true).
  { pose proof (digits_no_pad s H) as D. destruct s as [|c r]; [congruence|]. cbn [no_pad] in *.
    change (last (45%N :: c :: r) 0%N) with (last (c :: r) 0%N). apply andb_true_iff in D as [_ D]. rewrite D.
    vm_compute. reflexivity. }
  rewrite strip_no_pad by exact NP. rewrite (int_digits_start _ 0%Z H NE). reflexivity.
Qed.

(* a text with a character that is neither digit, sign, underscore nor blank is rejected *)
Lemma int_digits_bad s acc p c :
  In c s -> is_digit c = false -> N.eqb c 95 = false -> int_digits s acc p = None.
Proof.
  revert acc p. induction s as [|x r IH]; intros acc p Hin ND NU; [destruct Hin|].
  cbn [int_digits]. destruct Hin as [->|Hin].
  - rewrite ND, NU. reflexivity.
  - destruct (is_digit x); [now apply IH|].
    destruct (N.eqb x 95 && p); [|reflexivity].
    destruct r as [|d r']; [reflexivity|]. destruct (is_digit d); [|reflexivity]. now apply IH.
Qed.

(* ---- getters ---- *)
Theorem getint_missing d name : ud_get name d = None -> getint d name = GDefault.
Proof. unfold getint. now intros ->. Qed.
Theorem getbool_missing d name : ud_get name d = None -> getbool d name = GDefault.
Proof. unfold getbool. now intros ->. Qed.
Theorem getfloat_missing d name : ud_get name d = None -> getfloat d name = GDefault.
Proof. unfold getfloat. now intros ->. Qed.

Theorem getint_text d name s :
  ud_get name d = Some (UText s) ->
  getint d name = match py_int s with Some z => GInt z | None => GValueError end.
Proof. unfold getint. now intros ->. Qed.

Theorem getint_digits d name s :
  ud_get name d = Some (UText s) -> forallb is_digit s = true -> s <> [] -> getint d name = GInt (dec_value s).
Proof. intros G H NE. rewrite (getint_text d name s G). now rewrite py_int_digits. Qed.

Theorem getbool_text d name s :
  ud_get name d = Some (UText s) ->
  getbool d name = match parse_bool_text s with Some b => GBool b | None => GValueError end.
Proof. unfold getbool. now intros ->. Qed.

Theorem getfloat_text d name s :
  ud_get name d = Some (UText s) ->
  getfloat d name = match py_float s with Some f => GFloat f | None => GValueError end.
Proof. unfold getfloat. now intros ->. Qed.

(* a value that already has the requested type is returned as it is *)
Theorem getters_keep_converted d name :
  (forall b, ud_get name d = Some (UBool b) -> getbool d name = GKeep (UBool b)) /\
  (forall z, ud_get name d = Some (UInt z) -> getint d name = GKeep (UInt z)) /\
  (forall i, ud_get name d = Some (UFloat i) -> getfloat d name = GKeep (UFloat i)).
Proof. unfold getbool, getint, getfloat. repeat split; intros x ->; reflexivity. Qed.

(* ---- int(str(n)) = n ---- *)
From Coq Require Import DecimalPos.

Definition dstep (a : Z) (c : N) : Z := (a * 10 + digit_val c)%Z.

Lemma fold_digits_acc d acc :
  fold_left dstep (digits_of_uint d) (Zpos acc) = Zpos (Pos.of_uint_acc d acc).
Proof.
  revert acc. induction d; intros acc; cbn [digits_of_uint fold_left Pos.of_uint_acc]; try reflexivity;
    unfold dstep at 2; unfold digit_val; cbn [N.sub Pos.sub Pos.sub_mask Pos.succ_double_mask Pos.double_mask Pos.pred_double Z.of_N];
    rewrite <- IHd; f_equal; lia.
Qed.

Lemma fold_digits d : fold_left dstep (digits_of_uint d) 0%Z = Z.of_N (Pos.of_uint d).
Proof.
  induction d; cbn [digits_of_uint fold_left Pos.of_uint]; try reflexivity;
    unfold dstep at 2; unfold digit_val; cbn [N.sub Pos.sub Pos.sub_mask Pos.succ_double_mask Pos.double_mask Pos.pred_double Z.of_N Z.mul Z.add];
    try exact IHd; apply fold_digits_acc.
Qed.

Lemma digits_of_uint_all d : forallb is_digit (digits_of_uint d) = true.
Proof. induction d; cbn [digits_of_uint forallb]; try reflexivity; rewrite IHd; reflexivity. Qed.

Theorem py_int_of_decimal_text_positive p : py_int (z_to_str (Zpos p)) = Some (Zpos p).
Proof.
  cbn [z_to_str]. rewrite py_int_digits.
  - f_equal. unfold dec_value. change (fun a c => (a * 10 + digit_val c)%Z) with dstep. rewrite fold_digits.
    now rewrite Unsigned.of_to.
  - apply digits_of_uint_all.
  - pose proof (Unsigned.to_uint_nonnil p) as N. destruct (Pos.to_uint p); try discriminate; congruence.
Qed.

Theorem py_int_of_decimal_text z : py_int (z_to_str z) = Some z.
Proof.
  destruct z as [|p|p].
  - reflexivity.
  - apply py_int_of_decimal_text_positive.
  - cbn [z_to_str]. rewrite py_int_negative.
    + f_equal. unfold dec_value. change (fun a c => (a * 10 + digit_val c)%Z) with dstep. rewrite fold_digits.
      now rewrite Unsigned.of_to.
    + apply digits_of_uint_all.
    + pose proof (Unsigned.to_uint_nonnil p) as N. destruct (Pos.to_uint p); try discriminate; congruence.
Qed.
