(* Rollup.v — the three compute_status bodies of behave/model.py and the
   cached-status protocol of TagAndStatusStatement (model_core.py), written over
   the predicates tabulated from the code in gen/StatusTable.v.
   Model only: no proofs here. *)
From BV Require Import Base Status.
From BVGen Require Import StatusTable.

(* ---- Scenario.compute_status
   None = the `assert step.status in other_status_values` fires. *)
Fixpoint scen_steps_status (steps : list status) : option status :=
  match steps with
  | [] => Some passed
  | s :: r =>
      if status_eqb s pending_warn then scen_steps_status r
      else if is_error s then Some error
      else if is_failure s then Some failed
      else if is_untested s then Some untested
      else if status_eqb s passed then scen_steps_status r
      else if status_eqb s skipped then Some skipped
      else None
  end.

Definition scenario_compute (hook_failed : bool) (steps : list status) : option status :=
  if hook_failed then Some hook_error else scen_steps_status steps.

(* ---- ScenarioOutline.compute_status (rows = statuses of self._scenarios;
   expected = _expected_scenarios_count(), consulted only when no row is built) *)
Fixpoint outline_loop (rows : list status) (skipped_count passed_count : nat) : status + nat :=
  match rows with
  | [] => inr skipped_count
  | s :: r =>
      let t := from_inner s in
      if has_failed t then inl t
      else if status_eqb s untested then
             inl (if 0 <? passed_count then failed else untested)
      else if status_eqb s skipped then outline_loop r (S skipped_count) passed_count
      else if status_eqb s passed then outline_loop r skipped_count (S passed_count)
      else outline_loop r skipped_count passed_count
  end.

Definition outline_compute (expected : nat) (rows : list status) : status :=
  match rows with
  | [] => if 0 <? expected then untested else passed
  | _ =>
    match outline_loop rows 0 0 with
    | inl t => t
    | inr k => if (0 <? k) && (k =? length rows) then skipped else passed
    end
  end.

(* ---- ScenarioContainer.compute_status (Feature and Rule) *)
Fixpoint container_loop (items : list status) (skippedf : bool) (passed_count : nat) : status :=
  match items with
  | [] => if skippedf then skipped else passed
  | s :: r =>
      if is_error s then error
      else if is_failure s then failed
      else if status_eqb s untested then
             (if 0 <? passed_count then failed else untested)
      else container_loop r
             (if status_eqb s skipped then skippedf else false)
             (if status_eqb s passed then S passed_count else passed_count)
  end.

Definition container_compute (hook_failed : bool) (items : list status) : status :=
  if hook_failed then hook_error else container_loop items true 0.

(* ---- cached status: `status` property, set_status, clear_status *)
Definition read_status (cached computed : status) : status :=
  if is_final cached then cached else computed.

(* element statuses that the run methods can produce (used as a range) *)
Definition elem_status (s : status) : bool :=
  match s with
  | passed | failed | error | hook_error | skipped | untested => true
  | _ => false
  end.

(* step statuses that Step.run / Scenario.run can assign *)
Definition step_status (s : status) : bool :=
  match s with
  | untested | skipped | passed | failed | error | hook_error
  | undefined | pending | pending_warn | untested_pending | untested_undefined => true
  | _ => false
  end.

(* "decisive" child of a scenario: the first one decides *)
Definition scen_decisive (s : status) : bool :=
  negb (status_eqb s pending_warn) && negb (status_eqb s passed).

(* documented outer status (docs/appendix.status.rst, transcribed by hand once;
   the generator also tabulates the .rst table, see gen/StatusTable.v) *)
Definition doc_outer (s : status) : option status :=
  match s with
  | untested | untested_pending | untested_undefined => Some untested
  | skipped => Some skipped
  | passed => Some passed
  | failed => Some failed
  | error | hook_error | pending | undefined => Some error
  | pending_warn => Some passed
  | _ => None
  end.
