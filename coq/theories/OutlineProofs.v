(* OutlineProofs.v - proofs about Outline.v *)
From BV Require Import Base UStr Outline.
From BVGen Require Import UnicodeTables OutlineTables.

(* ---- one scenario per row, in block-then-row order ---- *)
Record slot := mkSlot { sl_ex : examples; sl_ei : nat; sl_head : list ustr; sl_cells : list ustr; sl_ri : nat; sl_line : nat }.

Fixpoint row_slots (e : examples) (ei : nat) (head : list ustr) (rows : list (list ustr * nat)) (ri : nat) : list slot :=
  match rows with
  | [] => []
  | (cells, line) :: r => mkSlot e ei head cells ri line :: row_slots e ei head r (S ri)
  end.

Fixpoint example_slots (es : list examples) (ei : nat) : list slot :=
  match es with
  | [] => []
  | e :: r => (match e_table e with Some t => row_slots e ei (t_head t) (t_rows t) 1 | None => [] end)
              ++ example_slots r (S ei)
  end.

Definition slots (o : outline) : list slot := example_slots (o_examples o) 1.

Definition scenario_of_slot (o : outline) (s : slot) : option scenario :=
  scenario_for o (sl_ex s) (sl_ei s) (sl_head s) (sl_cells s) (sl_ri s) (sl_line s).

Lemma rows_from_spec o e ei head rows ri l :
  rows_from o e ei head rows ri = Some l ->
  Forall2 (fun s sc => scenario_of_slot o s = Some sc) (row_slots e ei head rows ri) l.
Proof.
  revert ri l. induction rows as [|[cells line] rows IH]; intros ri l H; cbn [rows_from row_slots] in *.
  - inversion H. constructor.
  - destruct (scenario_for o e ei head cells ri line) as [s|] eqn:HS; [|discriminate].
    destruct (rows_from o e ei head rows (S ri)) as [rest|] eqn:R; [|discriminate].
    inversion H. constructor; [exact HS|]. now apply IH.
Qed.

Lemma examples_from_spec o es ei l :
  examples_from o es ei = Some l ->
  Forall2 (fun s sc => scenario_of_slot o s = Some sc) (example_slots es ei) l.
Proof.
  revert ei l. induction es as [|e es IH]; intros ei l H; cbn [examples_from example_slots] in *.
  - inversion H. constructor.
  - destruct (e_table e) as [t|].
    + destruct (rows_from o e ei (t_head t) (t_rows t) 1) as [a|] eqn:A; [|discriminate].
      destruct (examples_from o es (S ei)) as [b|] eqn:B; [|discriminate]. inversion H.
      subst. apply Forall2_app; [apply rows_from_spec; exact A|apply IH; exact B].
    + destruct (examples_from o es (S ei)) as [b|] eqn:B; [|discriminate]. inversion H. subst. cbn [app]. apply IH. exact B.
Qed.

Theorem build_spec o l :
  build o = Some l -> Forall2 (fun s sc => scenario_of_slot o s = Some sc) (slots o) l.
Proof. apply examples_from_spec. Qed.

Lemma scenario_for_line o e ei head cells ri line sc :
  scenario_for o e ei head cells ri line = Some sc -> sc_line sc = line.
Proof.
  unfold scenario_for. destruct (parse_format _ _ _); [|discriminate]. destruct (fill_format _ _); [|discriminate].
  intros H. inversion H. reflexivity.
Qed.

Definition row_lines (o : outline) : list nat := map sl_line (slots o).

Theorem one_scenario_per_row_at_its_line o l :
  build o = Some l -> length l = length (slots o) /\ map sc_line l = row_lines o.
Proof.
  intros H. pose proof (build_spec o l H) as F. clear H. unfold row_lines. set (sl := slots o) in *. clearbody sl.
  induction F as [|s sc ss l' Hs F IH]; [split; reflexivity|].
  destruct IH as [L M]. cbn [length map]. split; [now rewrite L|].
  f_equal; [|exact M]. unfold scenario_of_slot in Hs. now apply scenario_for_line in Hs.
Qed.

(* the slots are exactly the rows of the tables, block by block *)
Lemma row_slots_lines e ei head rows ri : map sl_line (row_slots e ei head rows ri) = map snd rows.
Proof. revert ri. induction rows as [|[c ln] rows IH]; intros ri; cbn; [reflexivity|]. now rewrite IH. Qed.

Theorem row_lines_are_the_table_rows o :
  row_lines o = flat_map (fun e => match e_table e with Some t => map snd (t_rows t) | None => [] end) (o_examples o).
Proof.
  unfold row_lines, slots. generalize 1. induction (o_examples o) as [|e es IH]; intros ei; cbn [example_slots flat_map map].
  - reflexivity.
  - rewrite map_app, IH. f_equal. destruct (e_table e); [apply row_slots_lines|reflexivity].
Qed.

(* the parameters a row sees *)
Definition slot_params (o : outline) (s : slot) : list (ustr * ustr) :=
  let row := row_items (sl_head s) (sl_cells s) in
  let ex_index := nat_to_str (sl_ei s) in
  let row_index := nat_to_str (sl_ri s) in
  let row_id := ex_index ++ [dot] ++ row_index in
  let params0 := [(k_examples_name, e_name (sl_ex s)); (k_examples_index, ex_index); (k_row_index, row_index); (k_row_id, row_id)] in
  [(k_examples_name, render (e_name (sl_ex s)) row params0); (k_examples_index, ex_index); (k_row_index, row_index); (k_row_id, row_id)].

Theorem scenario_of_slot_shape o s sc :
  scenario_of_slot o s = Some sc ->
  let row := row_items (sl_head s) (sl_cells s) in
  sc_line sc = sl_line s /\
  sc_tags sc = row_tags (o_tags o) row (slot_params o s) ++ e_tags (sl_ex s) /\
  sc_steps sc = map (fun st => step_for_row st row (slot_params o s)) (o_steps o) /\
  sc_background sc = (if existsb (fun st => looks_parametrized (s_text_name st)) (o_background o)
                      then map (fun st => step_for_row st row (slot_params o s)) (o_background o)
                      else o_background o).
Proof.
  unfold scenario_of_slot, scenario_for, slot_params. destruct (parse_format _ _ _); [|discriminate].
  destruct (fill_format _ _); [|discriminate]. intros H. inversion H. cbn. repeat split.
Qed.

(* a scenario is a function of the template and its own row: other rows and blocks do not enter *)
Theorem rows_do_not_influence_each_other o l :
  build o = Some l ->
  forall i s sc, nth_error (slots o) i = Some s -> nth_error l i = Some sc -> scenario_of_slot o s = Some sc.
Proof.
  intros H. pose proof (build_spec o l H) as F. clear H. set (sl := slots o) in *. clearbody sl.
  induction F as [|s0 sc0 ss l' Hs F IH]; intros i s sc A B.
  - destruct i; discriminate.
  - destruct i as [|i]; cbn [nth_error] in *.
    + inversion A. inversion B. subst. exact Hs.
    + eapply IH; eassumption.
Qed.

(* ---- the scenarios cache and the Table API ---- *)
Definition cache_valid (o : outline) : Prop := any_modified o = true \/ build o = Some (o_cache o).

Definition ex_modified (e : examples) : bool := match e_table e with Some t => t_modified t | None => false end.

Lemma apply_table_op_modified t op t' : apply_table_op t op = Some t' -> t_modified t' = true.
Proof.
  destruct op; cbn [apply_table_op]; intros H.
  - now inversion H.
  - destruct (existsb _ _); [discriminate|]. now inversion H.
  - destruct (index_of_str _ _ _); [|discriminate]. now inversion H.
  - now inversion H.
Qed.

Lemma update_nth_modified (f : examples -> examples) i l :
  (forall e, ex_modified (f e) = true \/ f e = e) ->
  existsb ex_modified (update_nth i f l) = true \/ update_nth i f l = l.
Proof.
  intros Hf. revert i. induction l as [|x l IH]; intros i; [right; now destruct i|].
  destruct i as [|i]; cbn [update_nth existsb].
  - destruct (Hf x) as [M|E]; [left; now rewrite M|right; now rewrite E].
  - destruct (IH i) as [M|E]; [left; rewrite M; apply orb_true_r|right; now rewrite E].
Qed.

Theorem table_step_keeps_cache_valid o i op : cache_valid o -> cache_valid (table_step o i op).
Proof.
  intros V. unfold table_step.
  match goal with |- context [update_nth i ?f _] => set (f0 := f) end.
  assert (Hf : forall e, ex_modified (f0 e) = true \/ f0 e = e).
  { intros e. unfold f0, ex_modified. destruct (e_table e) as [t|] eqn:T; [|now right].
    destruct (apply_table_op t op) as [t'|] eqn:A; [|now right]. left. cbn. now apply apply_table_op_modified in A. }
  destruct (update_nth_modified f0 i (o_examples o) Hf) as [M|E].
  - left. unfold any_modified, with_examples. cbn [o_examples]. exact M.
  - rewrite E. destruct o. exact V.
Qed.

Definition same_template (o o' : outline) : Prop :=
  o_name o = o_name o' /\ o_tags o = o_tags o' /\ o_steps o = o_steps o' /\ o_background o = o_background o' /\
  o_schema o = o_schema o'.

Lemma scenario_for_ext o o' e e' ei head cells ri line :
  same_template o o' -> e_name e = e_name e' -> e_tags e = e_tags e' ->
  scenario_for o e ei head cells ri line = scenario_for o' e' ei head cells ri line.
Proof.
  intros [A [B [C [D E]]]] F G. unfold scenario_for. now rewrite A, B, C, D, E, F, G.
Qed.

Lemma rows_from_ext o o' e e' ei head rows ri :
  same_template o o' -> e_name e = e_name e' -> e_tags e = e_tags e' ->
  rows_from o e ei head rows ri = rows_from o' e' ei head rows ri.
Proof.
  intros T F G. revert ri. induction rows as [|[c ln] rows IH]; intros ri; cbn [rows_from]; [reflexivity|].
  now rewrite IH, (scenario_for_ext o o' e e' _ _ _ _ _ T F G).
Qed.

Definition reset_example (e : examples) : examples :=
  mkExamples (e_name e) (e_tags e)
             (match e_table e with Some t => Some (mkTable (t_head t) (t_rows t) (t_line t) false) | None => None end).

Lemma examples_from_reset o o' es ei :
  same_template o o' -> examples_from o' (map reset_example es) ei = examples_from o es ei.
Proof.
  intros T. revert ei. induction es as [|e es IH]; intros ei; cbn [examples_from map]; [reflexivity|].
  rewrite IH. destruct (e_table e) as [t|] eqn:ET; unfold reset_example at 1; rewrite ET; cbn [e_table t_head t_rows]; [|reflexivity].
  rewrite (rows_from_ext o' o (reset_example e) e); [reflexivity| |reflexivity|reflexivity].
  destruct T as [A [B [C [D E]]]]. repeat split; auto.
Qed.

(* resetting the flags changes neither the rows nor anything else build looks at *)
Lemma build_reset o l : build (reset_modified o l) = build o.
Proof.
  unfold build, reset_modified. cbn [o_examples]. apply (examples_from_reset o). repeat split.
Qed.

Theorem access_returns_build o o' r :
  cache_valid o -> access o = (o', r) -> r = build o /\ cache_valid o'.
Proof.
  intros V. unfold access. destruct (any_modified o) eqn:M.
  - destruct (build o) as [l|] eqn:B; intros H; inversion H; subst.
    + split; [reflexivity|]. right. rewrite build_reset. cbn [o_cache reset_modified]. exact B.
    + split; [reflexivity|]. left. exact M.
  - intros H. inversion H. subst. destruct V as [V|V]; [congruence|]. split; [now rewrite V|now right].
Qed.

(* every access in every history returns build of the tables as they are at that moment *)
Fixpoint expected_outs (o : outline) (h : list hist_op) : list (option (list scenario)) :=
  match h with
  | [] => []
  | HAccess :: r => build o :: expected_outs (fst (access o)) r
  | HTable i op :: r => expected_outs (table_step o i op) r
  end.

Lemma run_history_from o h outs0 :
  snd (fold_left hist_step h (o, outs0)) = outs0 ++ snd (fold_left hist_step h (o, [])).
Proof.
  revert o outs0. induction h as [|x h IH]; intros o outs0; cbn [fold_left].
  - cbn. now rewrite app_nil_r.
  - destruct x as [|i op]; cbn [hist_step].
    + destruct (access o) as [o' r]. rewrite IH. rewrite (IH o' ([] ++ [r])). cbn [app]. now rewrite <- app_assoc.
    + apply IH.
Qed.

Theorem every_access_returns_the_current_build o h :
  cache_valid o -> snd (run_history o h) = expected_outs o h.
Proof.
  unfold run_history. revert o. induction h as [|x h IH]; intros o V; [reflexivity|].
  cbn [fold_left expected_outs]. destruct x as [|i op]; cbn [hist_step].
  - destruct (access o) as [o' r] eqn:A. destruct (access_returns_build o o' r V A) as [R V'].
    rewrite run_history_from. cbn [app fst]. rewrite R. f_equal. now apply IH.
  - apply IH. now apply table_step_keeps_cache_valid.
Qed.

(* a freshly parsed outline: every examples table is marked modified, or there is no table and nothing is cached *)
Lemma fresh_outline_valid o :
  o_cache o = [] -> forallb (fun e => match e_table e with Some t => t_modified t | None => true end) (o_examples o) = true ->
  cache_valid o.
Proof.
  intros C F. unfold cache_valid. destruct (any_modified o) eqn:M; [now left|right].
  rewrite C. unfold build, any_modified in *. generalize 1.
  induction (o_examples o) as [|e es IH]; intros ei; [reflexivity|].
  cbn [forallb existsb examples_from] in *. apply andb_true_iff in F as [F1 F2]. apply orb_false_elim in M as [M1 M2].
  destruct (e_table e) as [t|]; [congruence|]. now rewrite (IH F2 M2).
Qed.

(* ---- exact substitution: sequential str.replace over a template of literals and <holes> ---- *)
Inductive chunk := CLit (s : ustr) | CHole (name : ustr).

Definition chunk_text (c : chunk) : ustr := match c with CLit s => s | CHole n => placeholder n end.
Definition flatten (cs : list chunk) : ustr := concat (map chunk_text cs).

Definition chunk_wf (c : chunk) : bool :=
  match c with
  | CLit s => negb (memN cp_lt s)
  | CHole n => negb (memN cp_lt n) && negb (memN cp_gt n)
  end.

Definition fill1 (n v : ustr) (cs : list chunk) : list chunk :=
  map (fun c => match c with CHole m => if ustr_eqb m n then CLit v else c | _ => c end) cs.

Fixpoint lookup (m : ustr) (items : list (ustr * ustr)) : option ustr :=
  match items with [] => None | (k, v) :: r => if ustr_eqb m k then Some v else lookup m r end.

Definition fill_chunk (items : list (ustr * ustr)) (c : chunk) : chunk :=
  match c with CHole m => match lookup m items with Some v => CLit v | None => c end | _ => c end.

Lemma ueqb_refl s : ustr_eqb s s = true.
Proof. apply list_eqb_refl. apply N.eqb_refl. Qed.
Lemma ueqb_eq a b : ustr_eqb a b = true -> a = b.
Proof. apply list_eqb_eq. intros x y H. now apply N.eqb_eq. Qed.

Lemma prefixb_app p r : prefixb p (p ++ r) = true.
Proof. induction p as [|c p IH]; [reflexivity|]. cbn. now rewrite N.eqb_refl, IH. Qed.

Lemma skipn_app_len {A} (p r : list A) : skipn (length p) (p ++ r) = r.
Proof. induction p; cbn; auto. Qed.

Lemma memN_app c a b : memN c (a ++ b) = memN c a || memN c b.
Proof. unfold memN. apply existsb_app. Qed.

Lemma memN_cons c x r : memN c (x :: r) = N.eqb c x || memN c r.
Proof. reflexivity. Qed.

(* "<n>" against "<m>..." when neither name contains '>' *)
Lemma prefix_names_equal n m rest :
  memN cp_gt n = false -> memN cp_gt m = false ->
  prefixb (n ++ [cp_gt]) (m ++ cp_gt :: rest) = true -> n = m.
Proof.
  revert m. induction n as [|x n IH]; intros m Hn Hm P.
  - destruct m as [|y m]; [reflexivity|]. cbn [app prefixb] in P. rewrite memN_cons in Hm. apply orb_false_elim in Hm as [Hy _].
    apply andb_true_iff in P as [P _]. rewrite P in Hy. discriminate.
  - rewrite memN_cons in Hn. apply orb_false_elim in Hn as [Hx Hn].
    destruct m as [|y m].
    + cbn [app prefixb] in P. apply andb_true_iff in P as [P _]. apply N.eqb_eq in P. subst x. rewrite N.eqb_refl in Hx. discriminate.
    + cbn [app prefixb] in P. apply andb_true_iff in P as [P1 P2]. apply N.eqb_eq in P1. subst y.
      rewrite memN_cons in Hm. apply orb_false_elim in Hm as [_ Hm]. f_equal. now apply IH.
Qed.

Section Replace.
  Variables (n v : ustr).
  Hypothesis n_no_gt : memN cp_gt n = false.
  Let pat := placeholder n.

  Lemma replace_nil fuel : replace_aux fuel pat v [] = [].
  Proof. destruct fuel; reflexivity. Qed.

  Lemma replace_lit lit rest fuel :
    memN cp_lt lit = false -> length (lit ++ rest) < fuel ->
    replace_aux fuel pat v (lit ++ rest) = lit ++ replace_aux (fuel - length lit) pat v rest.
  Proof.
    revert fuel. induction lit as [|c lit IH]; intros fuel H L.
    - cbn [app length]. now rewrite Nat.sub_0_r.
    - destruct fuel as [|f]; [cbn in L; lia|]. cbn [app replace_aux].
      rewrite memN_cons in H. apply orb_false_elim in H as [Hc H].
      assert (prefixb pat (c :: lit ++ rest) = false) as ->.
      { unfold pat, placeholder. cbn [prefixb]. now rewrite Hc. }
      cbn [length]. rewrite IH; [reflexivity|exact H|cbn [app length] in L; lia].
  Qed.

  Lemma replace_hole_same rest fuel :
    length (pat ++ rest) < fuel ->
    replace_aux fuel pat v (pat ++ rest) = v ++ replace_aux (fuel - 1) pat v rest.
  Proof.
    intros L. destruct fuel as [|f]; [lia|].
    unfold pat at 2, placeholder. cbn [app]. cbn [replace_aux].
    change (cp_lt :: (n ++ [cp_gt]) ++ rest) with (pat ++ rest).
    rewrite prefixb_app, skipn_app_len. cbn [Nat.sub]. now rewrite Nat.sub_0_r.
  Qed.

  Lemma replace_hole_other m rest fuel :
    ustr_eqb m n = false -> memN cp_lt m = false -> memN cp_gt m = false ->
    length (placeholder m ++ rest) < fuel ->
    replace_aux fuel pat v (placeholder m ++ rest) =
    placeholder m ++ replace_aux (fuel - length (placeholder m)) pat v rest.
  Proof.
    intros NE Hlt Hgt L. destruct fuel as [|f]; [lia|].
    unfold placeholder at 1 2. cbn [app]. cbn [replace_aux].
    assert (prefixb pat (cp_lt :: (m ++ [cp_gt]) ++ rest) = false) as ->.
    { destruct (prefixb pat (cp_lt :: (m ++ [cp_gt]) ++ rest)) eqn:P; [|reflexivity]. exfalso.
      unfold pat, placeholder in P. cbn [prefixb] in P. rewrite N.eqb_refl in P. cbn [andb] in P.
      rewrite <- app_assoc in P. cbn [app] in P.
      apply (prefix_names_equal n m rest n_no_gt Hgt) in P. subst m. rewrite ueqb_refl in NE. discriminate. }
    f_equal. rewrite replace_lit.
    - assert (E : S f - length (placeholder m) = f - length (m ++ [cp_gt])) by (unfold placeholder; cbn [length]; lia).
      now rewrite E.
    - rewrite memN_app, Hlt. reflexivity.
    - unfold placeholder in L. cbn [app length] in L. lia.
  Qed.

  Lemma replace_chunks cs fuel :
    forallb chunk_wf cs = true -> length (flatten cs) < fuel ->
    replace_aux fuel pat v (flatten cs) = flatten (fill1 n v cs).
  Proof.
    revert fuel. induction cs as [|c cs IH]; intros fuel W L.
    - apply replace_nil.
    - cbn [forallb] in W. apply andb_true_iff in W as [Wc W].
      unfold flatten in *. cbn [map concat fill1] in *. fold (fill1 n v cs). rewrite app_length in L.
      destruct c as [s|m]; cbn [chunk_text chunk_wf] in *.
      + apply negb_true_iff in Wc. rewrite replace_lit by (assumption || (rewrite app_length; lia)).
        f_equal. apply IH; [exact W|lia].
      + apply andb_true_iff in Wc as [W1 W2]. apply negb_true_iff in W1. apply negb_true_iff in W2.
        destruct (ustr_eqb m n) eqn:E.
        * apply ueqb_eq in E. subst m. fold pat. rewrite replace_hole_same by (rewrite app_length; fold pat in L; lia).
          cbn [chunk_text]. f_equal. apply IH; [exact W|].
          fold pat in L. assert (0 < length pat) by (unfold pat, placeholder; cbn; lia). lia.
        * rewrite replace_hole_other by (assumption || (rewrite app_length; lia)).
          cbn [chunk_text]. f_equal. apply IH; [exact W|]. lia.
  Qed.

  Lemma replace_all_chunks cs :
    forallb chunk_wf cs = true -> replace_all pat v (flatten cs) = flatten (fill1 n v cs).
  Proof. intros W. unfold replace_all. apply replace_chunks; [exact W|lia]. Qed.
End Replace.

Lemma fill1_wf n v cs : memN cp_lt v = false -> forallb chunk_wf cs = true -> forallb chunk_wf (fill1 n v cs) = true.
Proof.
  intros Hv W. unfold fill1. rewrite forallb_forall in *. intros c Hin. apply in_map_iff in Hin as [c0 [E Hin]]. subst c.
  specialize (W c0 Hin). destruct c0 as [s|m]; [exact W|]. destruct (ustr_eqb m n); [cbn; now rewrite Hv|exact W].
Qed.

Definition items_ok (items : list (ustr * ustr)) : bool :=
  forallb (fun kv => negb (memN cp_gt (fst kv)) && negb (memN cp_lt (snd kv))) items.

Lemma fill_fold items cs :
  fold_left (fun cs kv => fill1 (fst kv) (snd kv) cs) items cs = map (fill_chunk items) cs.
Proof.
  revert cs. induction items as [|[k v] items IH]; intros cs; cbn [fold_left fst snd].
  - induction cs as [|c cs IHc]; [reflexivity|]. cbn [map]. rewrite <- IHc. now destruct c.
  - rewrite IH. unfold fill1. rewrite map_map. apply map_ext. intros c. destruct c as [s|m]; [reflexivity|].
    cbn [fill_chunk lookup]. destruct (ustr_eqb m k); reflexivity.
Qed.

Theorem substitute_fills_holes items cs :
  items_ok items = true -> forallb chunk_wf cs = true ->
  substitute items (flatten cs) = flatten (map (fill_chunk items) cs).
Proof.
  intros OK W. rewrite <- fill_fold. unfold substitute. revert cs W.
  induction items as [|[k v] items IH]; intros cs W; cbn [fold_left fst snd]; [reflexivity|].
  cbn [items_ok forallb fst snd] in OK. apply andb_true_iff in OK as [OK1 OK]. apply andb_true_iff in OK1 as [Hk Hv].
  apply negb_true_iff in Hk. apply negb_true_iff in Hv.
  rewrite (replace_all_chunks k v Hk cs W). apply IH; [exact OK|]. now apply fill1_wf.
Qed.

Lemma flatten_has_hole_marks cs m : In (CHole m) cs -> looks_parametrized (flatten cs) = true.
Proof.
  intros Hin. unfold looks_parametrized, flatten. apply in_split in Hin as [a [b ->]].
  rewrite map_app, concat_app. cbn [map concat chunk_text]. rewrite !memN_app.
  unfold placeholder. rewrite !memN_cons, !memN_app, !memN_cons. rewrite !N.eqb_refl. cbn. rewrite !orb_true_r. reflexivity.
Qed.

Lemma no_holes_fill items cs : (forall m, ~ In (CHole m) cs) -> map (fill_chunk items) cs = cs.
Proof.
  intros H. induction cs as [|c cs IH]; [reflexivity|]. cbn [map]. rewrite IH by (intros m Hin; apply (H m); now right).
  destruct c as [s|m]; [reflexivity|]. exfalso. apply (H m). now left.
Qed.

(* render_template: every <column> hole of a known column is replaced by the row's cell (row items first, then the
   parameters), unknown holes and all literal text stay as they are *)
Theorem render_fills_holes cs row params :
  items_ok row = true -> items_ok params = true -> forallb chunk_wf cs = true ->
  render (flatten cs) row params = flatten (map (fill_chunk (row ++ params)) cs).
Proof.
  intros R P W. unfold render. destruct (looks_parametrized (flatten cs)) eqn:L.
  - assert (OK : items_ok (row ++ params) = true).
    { unfold items_ok in *. rewrite forallb_app. apply andb_true_iff. split; assumption. }
    rewrite <- (substitute_fills_holes (row ++ params) cs OK W). unfold substitute. now rewrite fold_left_app.
  - rewrite no_holes_fill; [reflexivity|]. intros m Hin. apply flatten_has_hole_marks in Hin. congruence.
Qed.

Corollary text_without_placeholders_is_unchanged text row params :
  looks_parametrized text = false -> render text row params = text.
Proof. unfold render. now intros ->. Qed.

Corollary literal_text_is_unchanged s row params :
  items_ok row = true -> items_ok params = true -> memN cp_lt s = false -> render s row params = s.
Proof.
  intros R P H. pose proof (render_fills_holes [CLit s] row params R P) as X. unfold flatten in X. cbn in X.
  rewrite app_nil_r in X. apply X. now rewrite H.
Qed.
