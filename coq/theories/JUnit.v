(* JUnit.v - behave/reporter/junit.py: what one feature's report contains (counters, test cases and their entries)
   and how names, messages and captured output are escaped on their way into the XML text.  Model only.
   The serialisation of the element tree itself (tags, nesting, attribute quoting) is xml.etree.ElementTree's. *)
From BV Require Import Base UStr Status.
From BVGen Require Import StatusTable JUnitTables.

(* ---- characters ---- *)
(* XML 1.0 production [2] Char *)
Definition xml_char (c : N) : bool :=
  N.eqb c 9 || N.eqb c 10 || N.eqb c 13 || (N.leb 32 c && N.leb c 55295) ||
  (N.leb 57344 c && N.leb c 65533) || (N.leb 65536 c && N.leb c 1114111).

Definition in_nranges (c : N) (rs : list (N * N)) : bool := existsb (fun r => N.leb (fst r) c && N.leb c (snd r)) rs.
Definition junit_invalid (c : N) : bool := in_nranges c junit_invalid_ranges.

(* u'U+{0:0=4}'.format(ord(c)): decimal, zero padded to four digits *)
Definition pad4 (s : ustr) : ustr := repeat 48%N (4 - length s) ++ s.
Definition uplus (c : N) : ustr := [85; 43]%N ++ pad4 (z_to_str (Z.of_N c)).

Definition escape_invalid (s : ustr) : ustr := flat_map (fun c => if junit_invalid c then uplus c else [c]) s.

(* text.replace("]]>", "]]&gt;") *)
Definition cdata_end : ustr := [93; 93; 62]%N.
Definition cdata_end_escaped : ustr := [93; 93; 38; 103; 116; 59]%N.
Definition escape_cdata (s : ustr) : ustr :=
  match s with [] => [] | _ => escape_invalid (replace_all cdata_end cdata_end_escaped s) end.

(* ansi_escapes.strip_escapes: ESC [ digits (m|A) removed *)
Definition is_dig (c : N) : bool := N.leb 48 c && N.leb c 57.
Fixpoint take_while_digits (s : ustr) : ustr :=
  match s with c :: r => if is_dig c then c :: take_while_digits r else [] | [] => [] end.

Fixpoint strip_escapes_aux (fuel : nat) (s : ustr) : ustr :=
  match fuel with
  | 0 => s
  | S f =>
      match s with
      | [] => []
      | 27%N :: 91%N :: r =>
          let ds := length (take_while_digits r) in
          match ds, skipn ds r with
          | S _, e :: r' => if N.eqb e 109 || N.eqb e 65 then strip_escapes_aux f r'
                            else 27%N :: strip_escapes_aux f (91%N :: r)
          | _, _ => 27%N :: strip_escapes_aux f (91%N :: r)
          end
      | c :: r => c :: strip_escapes_aux f r
      end
  end.
Definition strip_escapes (s : ustr) : ustr := strip_escapes_aux (S (length s)) s.

(* what ends up between <![CDATA[ and ]]> for an element built with CDATA(text) *)
Definition cdata_content (text : ustr) : ustr := escape_cdata (strip_escapes text).

(* ElementTree._escape_attrib, character by character *)
Fixpoint assoc_esc (c : N) (l : list (N * ustr)) : option ustr :=
  match l with [] => None | (a, t) :: r => if N.eqb a c then Some t else assoc_esc c r end.
Definition et_escape_attrib (s : ustr) : ustr :=
  flat_map (fun c => match assoc_esc c et_attr_escapes with Some t => t | None => [c] end) s.

(* the text of an attribute as it stands in the file: invalid characters replaced, then ElementTree's escaping *)
Definition attr_content (value : ustr) : ustr := et_escape_attrib (escape_invalid value).

(* ---- one feature's report ---- *)
Record jscen := mkJ { j_name : ustr; j_status : status; j_steps : list status; j_stdout : ustr; j_stderr : ustr }.
Inductive child := CError | CFailure | CUndefinedFailure | CSkipped.
Record tcase := mkTC { tc_name : ustr; tc_status : status; tc_children : list child; tc_out : ustr; tc_err : option ustr }.
Record counts := mkCounts { n_tests : nat; n_errors : nat; n_failed : nat; n_skipped : nat }.

Definition mem_status (s : status) (l : list status) : bool := existsb (status_eqb s) l.

Definition captured (label out : ustr) : ustr := [10%N] ++ label ++ [10%N] ++ out ++ [10%N].
Definition lbl_out : ustr := [67; 97; 112; 116; 117; 114; 101; 100; 32; 115; 116; 100; 111; 117; 116; 58]%N.
Definition lbl_err : ustr := [67; 97; 112; 116; 117; 114; 101; 100; 32; 115; 116; 100; 101; 114; 114; 58]%N.

(* _process_scenario with show_scenarios off *)
Definition process (show_skipped : bool) (acc : counts * list tcase) (s : jscen) : counts * list tcase :=
  let '(c, cases) := acc in
  let counted := negb (status_eqb (j_status s) skipped) || show_skipped in
  let tests := if counted then S (n_tests c) else n_tests c in
  let '(errs, fails, skips, kids) :=
    if is_error (j_status s) then (S (n_errors c), n_failed c, n_skipped c, [CError])
    else if is_failure (j_status s) then (n_errors c, S (n_failed c), n_skipped c, [CFailure])
    else if mem_status (j_status s) junit_skipped_statuses && show_skipped
         then if existsb (fun st => mem_status st junit_problematic_statuses) (j_steps s)
              then (n_errors c, S (n_failed c), S (n_skipped c), [CUndefinedFailure; CSkipped])
              else (n_errors c, n_failed c, S (n_skipped c), [CSkipped])
         else (n_errors c, n_failed c, n_skipped c, []) in
  let out := cdata_content (match j_stdout s with [] => [] | o => captured lbl_out o end) in
  let err := match j_stderr s with [] => None | e => Some (cdata_content (captured lbl_err e)) end in
  let tc := mkTC (attr_content (j_name s)) (j_status s) kids out err in
  (mkCounts tests errs fails skips, if counted then cases ++ [tc] else cases).

Definition report (show_skipped : bool) (scens : list jscen) : counts * list tcase :=
  fold_left (process show_skipped) scens (mkCounts 0 0 0 0, []).

(* a feature is reported unless it is skipped and skipped ones are not shown *)
Definition feature_reported (show_skipped : bool) (feature_status : status) : bool :=
  negb (status_eqb feature_status skipped) || show_skipped.
