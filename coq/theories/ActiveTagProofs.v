(* ActiveTagProofs.v - C19: the grouped evaluation equals the documented formula *)
From BV Require Import Base UStr TagExpr TagExprProofs ActiveTag.
From BVGen Require Import UnicodeTables ActiveTagTables.

Definition same_cat (c : ustr) (a : atag) : bool := ustr_eqb c (at_cat a).

Lemma ustr_eqb_refl s : ustr_eqb s s = true.
Proof. now apply ustr_eqb_eq. Qed.

Lemma ustr_eqb_neq a b : ustr_eqb a b = false <-> a <> b.
Proof.
  split.
  - intros H E. subst. rewrite ustr_eqb_refl in H. discriminate.
  - intros H. destruct (ustr_eqb a b) eqn:E; [|reflexivity]. apply ustr_eqb_eq in E. contradiction.
Qed.

Lemma ustr_eqb_sym' a b : ustr_eqb a b = ustr_eqb b a.
Proof.
  destruct (ustr_eqb a b) eqn:E.
  - apply ustr_eqb_eq in E; subst. symmetry. apply ustr_eqb_refl.
  - destruct (ustr_eqb b a) eqn:E2; [|reflexivity]. apply ustr_eqb_eq in E2; subst. rewrite ustr_eqb_refl in E. discriminate.
Qed.

Fixpoint glookup (c : ustr) (gs : list (ustr * list atag)) : list atag :=
  match gs with
  | [] => []
  | (k, l) :: r => if ustr_eqb k c then l else glookup c r
  end.

Lemma glookup_add c a gs :
  glookup c (add_to_group a gs) = if same_cat c a then glookup c gs ++ [a] else glookup c gs.
Proof.
  unfold same_cat. induction gs as [|[k l] r IH]; cbn [add_to_group glookup].
  - destruct (ustr_eqb (at_cat a) c) eqn:E.
    + apply ustr_eqb_eq in E. subst. now rewrite ustr_eqb_refl.
    + destruct (ustr_eqb c (at_cat a)) eqn:E2; [apply ustr_eqb_eq in E2; subst; rewrite ustr_eqb_refl in E; discriminate|reflexivity].
  - destruct (ustr_eqb k (at_cat a)) eqn:E.
    + apply ustr_eqb_eq in E. subst k. cbn [glookup].
      destruct (ustr_eqb (at_cat a) c) eqn:E2.
      * apply ustr_eqb_eq in E2. subst c. now rewrite ustr_eqb_refl.
      * destruct (ustr_eqb c (at_cat a)) eqn:E3; [apply ustr_eqb_eq in E3; subst; rewrite ustr_eqb_refl in E2; discriminate|reflexivity].
    + cbn [glookup]. destruct (ustr_eqb k c) eqn:E2.
      * apply ustr_eqb_eq in E2. subst k.
        destruct (ustr_eqb c (at_cat a)) eqn:E3; [congruence|reflexivity].
      * exact IH.
Qed.

Lemma glookup_fold c ats : forall acc,
  glookup c (fold_left (fun gs a => add_to_group a gs) ats acc) = glookup c acc ++ filter (same_cat c) ats.
Proof.
  induction ats as [|a r IH]; intros acc; cbn [fold_left filter]; [now rewrite app_nil_r|].
  rewrite IH, glookup_add. destruct (same_cat c a); [now rewrite <- app_assoc|reflexivity].
Qed.

Lemma glookup_group_tags c ats : glookup c (group_tags ats) = filter (same_cat c) ats.
Proof. unfold group_tags. now rewrite glookup_fold. Qed.

(* keys stay distinct, groups stay non-empty, and every seen category has a key *)
Definition keys (gs : list (ustr * list atag)) : list ustr := map fst gs.

Lemma keys_add a gs : keys (add_to_group a gs) = if existsb (ustr_eqb (at_cat a)) (keys gs) then keys gs else keys gs ++ [at_cat a].
Proof.
  unfold keys. induction gs as [|[k l] r IH]; cbn [add_to_group map fst existsb]; [reflexivity|].
  destruct (ustr_eqb k (at_cat a)) eqn:E.
  - apply ustr_eqb_eq in E. subst. rewrite ustr_eqb_refl. reflexivity.
  - cbn [map fst]. rewrite IH. destruct (ustr_eqb (at_cat a) k) eqn:E2.
    + apply ustr_eqb_eq in E2. subst. rewrite ustr_eqb_refl in E. discriminate.
    + cbn [orb]. destruct (existsb _ _); reflexivity.
Qed.

Lemma NoDup_app_snoc {A} (l : list A) x : NoDup l -> ~ In x l -> NoDup (l ++ [x]).
Proof.
  induction l as [|y l IH]; intros Hn Hx; cbn; [constructor; [intros []|constructor]|].
  inversion Hn; subst. constructor.
  - intros Hin. apply in_app_or in Hin as [Hin|[->|[]]]; [contradiction|apply Hx; now left].
  - apply IH; [assumption|]. intros Hin. apply Hx. now right.
Qed.

Lemma nodup_keys_add a gs : NoDup (keys gs) -> NoDup (keys (add_to_group a gs)).
Proof.
  intros H. rewrite keys_add. destruct (existsb (ustr_eqb (at_cat a)) (keys gs)) eqn:E; [exact H|].
  apply NoDup_app_snoc; [exact H|]. intros Hin.
  assert (existsb (ustr_eqb (at_cat a)) (keys gs) = true)
    by (apply existsb_exists; exists (at_cat a); split; [exact Hin|apply ustr_eqb_refl]).
  congruence.
Qed.

Lemma group_tags_inv ats : forall acc,
  NoDup (keys acc) -> (forall c g, In (c, g) acc -> g <> []) ->
  let gs := fold_left (fun gs a => add_to_group a gs) ats acc in
  NoDup (keys gs) /\ (forall c g, In (c, g) gs -> g <> []) /\
  (forall c, In c (keys gs) <-> In c (keys acc) \/ exists a, In a ats /\ at_cat a = c).
Proof.
  induction ats as [|a r IH]; intros acc Hn Hne; cbn [fold_left].
  - repeat split; auto. intros [H|[a [[] _]]]. exact H.
  - assert (Hne' : forall c g, In (c, g) (add_to_group a acc) -> g <> []).
    { clear IH. induction acc as [|[k l] acc' IHa]; cbn [add_to_group].
      - intros c g [H|[]]. inversion H. discriminate.
      - destruct (ustr_eqb k (at_cat a)).
        + intros c g [H|H]; [inversion H; destruct l; discriminate|]. apply (Hne c g). now right.
        + intros c g [H|H]; [inversion H; subst; apply (Hne c g); now left|].
          apply IHa with (c := c); auto.
          * inversion Hn; assumption.
          * intros c' g' H'. apply (Hne c' g'). now right. }
    destruct (IH (add_to_group a acc) (nodup_keys_add a acc Hn) Hne') as (A & B & C).
    repeat split; auto.
    + intros H. apply C in H as [H|[b [Hb Hc]]].
      * rewrite keys_add in H. destruct (existsb (ustr_eqb (at_cat a)) (keys acc)) eqn:E; [now left|].
        apply in_app_or in H as [H|[<-|[]]]; [now left|right]. exists a. split; [now left|reflexivity].
      * right. exists b. split; [now right|exact Hc].
    + intros [H|[b [Hb Hc]]]; apply C.
      * left. rewrite keys_add. destruct (existsb _ _); [exact H|apply in_or_app; now left].
      * destruct Hb as [Hb|Hb].
        -- subst b. left. rewrite keys_add. destruct (existsb (ustr_eqb (at_cat a)) (keys acc)) eqn:E.
           ++ apply existsb_exists in E as [k [Hk Ek]]. apply ustr_eqb_eq in Ek. subst k. now rewrite <- Hc.
           ++ apply in_or_app. right. left. exact Hc.
        -- right. exists b. auto.
Qed.

Lemma in_glookup c g gs : NoDup (keys gs) -> In (c, g) gs -> glookup c gs = g.
Proof.
  induction gs as [|[k l] r IH]; intros Hn Hin; [destruct Hin|]. destruct Hin as [H|H]; cbn [glookup].
  - inversion H; subst. now rewrite ustr_eqb_refl.
  - inversion Hn as [|? ? Hnotin Hn']; subst. destruct (ustr_eqb k c) eqn:E.
    + apply ustr_eqb_eq in E. subst k. exfalso. apply Hnotin. unfold keys. change c with (fst (c, g)). now apply in_map.
    + now apply IH.
Qed.

Lemma existsb_id_map {A} (f : A -> bool) l : existsb id (map f l) = existsb f l.
Proof. induction l; cbn; [reflexivity|]. unfold id at 1. now rewrite IHl. Qed.

(* the two formulations of "this category's tag group is disabled" *)
Lemma group_disabled_formula get c g :
  at_ignore_unknown = true -> g <> [] ->
  negb (group_enabled get c g) =
  match get c with
  | None => false
  | Some v =>
      (match filter (fun b => negb (at_neg b)) g with
       | [] => false
       | _ => negb (existsb (fun b => value_matches v (at_val b)) (filter (fun b => negb (at_neg b)) g))
       end) || existsb (fun b => value_matches v (at_val b)) (filter at_neg g)
  end.
Proof.
  intros Hi Hne. unfold group_enabled. destruct g as [|a0 r0]; [congruence|].
  destruct (get c) as [v|]; [|now rewrite Hi].
  rewrite !existsb_id_map.
  destruct (filter (fun b => negb (at_neg b)) (a0 :: r0)) as [|p ps]; cbn [map].
  - cbn. now rewrite negb_involutive.
  - set (P := existsb _ (p :: ps)). set (Q := existsb _ (filter at_neg (a0 :: r0))). destruct P, Q; reflexivity.
Qed.

Theorem should_exclude_is_the_documented_formula get tags :
  should_exclude get tags = excluded_by_formula get tags.
Proof.
  assert (Hi : at_ignore_unknown = true) by reflexivity.
  unfold should_exclude, excluded_by_formula. set (ats := active_tags tags).
  destruct (group_tags_inv ats [] (NoDup_nil _) (fun c g H => match H with end)) as (Hn & Hne & Hk).
  fold (group_tags ats) in Hn, Hne, Hk.
  apply eq_true_iff_eq. rewrite !existsb_exists. split.
  - intros [[c g] [Hin Hd]]. cbn [fst snd] in Hd.
    pose proof (in_glookup c g _ Hn Hin) as Hg. rewrite glookup_group_tags in Hg.
    rewrite (group_disabled_formula get c g Hi (Hne c g Hin)) in Hd.
    assert (Hc : In c (keys (group_tags ats))) by (unfold keys; change c with (fst (c, g)); now apply in_map).
    apply Hk in Hc as [[]|[a [Ha Hca]]]. exists a. split; [exact Ha|]. rewrite Hca.
    destruct (get c) as [v|]; [|discriminate]. subst c.
    replace (filter (fun b => ustr_eqb (at_cat b) (at_cat a)) ats) with g; [exact Hd|].
    rewrite <- Hg. apply filter_ext. intros b. unfold same_cat. apply ustr_eqb_sym'.
  - intros [a [Ha Hf]].
    assert (Hc : In (at_cat a) (keys (group_tags ats))) by (apply Hk; right; exists a; auto).
    unfold keys in Hc. apply in_map_iff in Hc as [[c g] [Hcg Hin]]. cbn [fst] in Hcg. subst c.
    exists (at_cat a, g). split; [exact Hin|]. cbn [fst snd].
    pose proof (in_glookup _ g _ Hn Hin) as Hg. rewrite glookup_group_tags in Hg.
    rewrite (group_disabled_formula get _ g Hi (Hne _ g Hin)).
    destruct (get (at_cat a)) as [v|]; [|discriminate].
    replace g with (filter (fun b => ustr_eqb (at_cat b) (at_cat a)) ats); [exact Hf|].
    rewrite <- Hg. apply filter_ext. intros b. unfold same_cat. symmetry. apply ustr_eqb_sym'.
Qed.

Lemma unknown_categories_never_exclude get tags :
  (forall a, In a (active_tags tags) -> get (at_cat a) = None) -> should_exclude get tags = false.
Proof.
  intros H. rewrite should_exclude_is_the_documented_formula. unfold excluded_by_formula.
  destruct (existsb _ (active_tags tags)) eqn:E; [|reflexivity].
  apply existsb_exists in E as [a [Ha Hf]]. rewrite (H a Ha) in Hf. discriminate.
Qed.

Lemma ordinary_tags_never_exclude get tags :
  (forall t, In t tags -> recognise t = None) -> should_exclude get tags = false.
Proof.
  intros H. apply unknown_categories_never_exclude. intros a Ha. exfalso.
  unfold active_tags in Ha. apply in_flat_map in Ha as [t [Ht Ha]]. rewrite (H t Ht) in Ha. destruct Ha.
Qed.

Lemma malformed_number_never_matches n op s : parse_int s = None -> value_matches (VNum n op) s = false.
Proof. intros H. cbn. now rewrite H. Qed.

Lemma malformed_bool_never_matches b s : parse_bool s = None -> value_matches (VBool b) s = false.
Proof. intros H. cbn. now rewrite H. Qed.

Lemma composite_excludes_iff_any gets tags :
  composite_exclude gets tags = true <-> exists g, In g gets /\ should_exclude g tags = true.
Proof. unfold composite_exclude. apply existsb_exists. Qed.
