(* RunnerSteps.v — C02: order of step calls, outcome-to-status mapping, stop after the
   first non-pass, dry-run calls nothing. *)
From BV Require Import Base Status Rollup Runner.
From BVGen Require Import StatusTable.

Definition is_call (e : event) : bool := match e with EStep _ _ _ _ => true | _ => false end.
Definition is_hook (e : event) : bool := match e with EHook _ _ _ => true | _ => false end.

Fixpoint call_ids (ev : list event) : list nat :=
  match ev with
  | [] => []
  | EStep _ id _ _ :: r => id :: call_ids r
  | _ :: r => call_ids r
  end.

Lemma call_ids_app a b : call_ids (a ++ b) = call_ids a ++ call_ids b.
Proof. induction a as [|e a IH]; [reflexivity|]. destruct e; cbn; now rewrite ?IH. Qed.

Definition hook_fires (cfg : config) (h : hookname) (k : nat) : bool :=
  negb (c_dry cfg) && c_hooks cfg h && c_faults cfg h k.

Lemma run_hook_calls cfg st h k st' r ev :
  run_hook cfg st h k = (st', r, ev) -> call_ids ev = [] /\ r = hook_fires cfg h k.
Proof.
  unfold run_hook, hook_fires. destruct (c_dry cfg), (c_hooks cfg h); cbn;
    try (intros E; inversion E; subst; split; reflexivity).
  destruct (c_faults cfg h k), (c_aborts cfg h k); intros E; inversion E; subst; split; reflexivity.
Qed.

(* ---- the documented outcome-to-status mapping *)
Lemma run_defined_step_status cfg st wip scid k id st' status skip ev :
  run_defined_step cfg st wip scid k id = (st', status, skip, ev) ->
  let rb := hook_fires cfg HBeforeStep id in
  let ra := hook_fires cfg HAfterStep id in
  status = (if rb || ra then hook_error else step_outcome wip k) /\
  call_ids ev = (if rb then [] else [id]) /\
  skip = (if rb then false else match k with KSkip => true | _ => false end).
Proof.
  unfold run_defined_step.
  destruct (run_hook cfg st HBeforeStep id) as [[st1 rb] eb] eqn:E1.
  apply run_hook_calls in E1 as [A1 A2].
  destruct rb.
  - destruct (run_hook cfg st1 HAfterStep id) as [[st3 ra] ea] eqn:E3.
    apply run_hook_calls in E3 as [B1 B2].
    intros E; inversion E; subst; clear E. cbn zeta. rewrite <- A2. cbn [orb].
    change (EFmt (FMatch true) :: ?x) with ([EFmt (FMatch true)] ++ x).
    repeat (rewrite ?call_ids_app; cbn [call_ids app]). rewrite A1, B1. cbn. auto.
  - match goal with |- context [run_hook ?c ?stx HAfterStep id] =>
      destruct (run_hook c stx HAfterStep id) as [[st3 ra] ea] eqn:E3 end.
    apply run_hook_calls in E3 as [B1 B2].
    intros E; inversion E; subst; clear E. cbn zeta. rewrite <- A2. cbn [orb].
    change (EFmt (FMatch true) :: ?x) with ([EFmt (FMatch true)] ++ x).
    repeat (rewrite ?call_ids_app; cbn [call_ids app]). rewrite A1, B1. cbn. auto.
Qed.

Lemma run_step_status cfg st wip scid s st' status skip ev :
  run_step cfg st wip scid s = (st', status, skip, ev) ->
  let rb := hook_fires cfg HBeforeStep (st_id s) in
  let ra := hook_fires cfg HAfterStep (st_id s) in
  match st_kind s with
  | KUndefined => status = undefined /\ call_ids ev = [] /\ skip = false
  | k => status = (if rb || ra then hook_error else step_outcome wip k) /\
         call_ids ev = (if rb then [] else [st_id s]) /\
         skip = (if rb then false else match k with KSkip => true | _ => false end)
  end.
Proof.
  unfold run_step. destruct (st_kind s) eqn:K; try apply run_defined_step_status.
  intros E; inversion E; subst. cbn. auto.
Qed.

(* a step that is not called has a failing status *)
Lemma run_step_uncalled_fails cfg st wip scid s st' status skip ev :
  run_step cfg st wip scid s = (st', status, skip, ev) ->
  call_ids ev = [] -> has_failed status = true /\ skip = false.
Proof.
  intros E. apply run_step_status in E. cbn zeta in E.
  destruct (st_kind s); destruct E as (A & B & C); intros H; rewrite B in H;
    try (subst; split; [vm_compute|]; reflexivity);
    destruct (hook_fires cfg HBeforeStep (st_id s)); try discriminate;
    cbn [orb] in A; subst; split; reflexivity.
Qed.

(* ---- once run_steps is off, nothing is called any more *)
Definition rest_status (dry failedf : bool) (s : step) : status :=
  if failedf || dry then
    match st_kind s with
    | KUndefined => undefined
    | _ => if dry then untested else skipped
    end
  else skipped.

Lemma norun_spec cfg wip dry scid steps : forall st l st' l' sts ev,
  l_run_steps l = false ->
  steps_loop cfg st wip dry scid l steps = (st', l', sts, ev) ->
  st' = st /\ l' = l /\ sts = map (rest_status dry (l_failed l)) steps /\
  call_ids ev = [] /\ forallb (fun e => negb (is_hook e)) ev = true.
Proof.
  induction steps as [|s r IH]; intros st l st' l' sts ev Hr; cbn [steps_loop].
  - intros E; inversion E; subst. cbn. auto.
  - rewrite Hr. cbn [map].
    assert (Hrs : rest_status dry (l_failed l) s =
                  if l_failed l || dry then match st_kind s with KUndefined => undefined | _ => if dry then untested else skipped end else skipped)
      by reflexivity.
    destruct (l_failed l || dry) eqn:Hfd.
    + match goal with |- context [let '(status, ev) := ?X in _] => destruct X as [status0 ev0] eqn:E0 end.
      destruct (steps_loop cfg st wip dry scid l r) as [[[st2 l2] sts2] ev2] eqn:E2.
      apply IH in E2 as (A & B & C & D & F); [|assumption].
      intros E; inversion E; subst; clear E. rewrite call_ids_app, forallb_app, D, F, Hrs.
      destruct (st_kind s), dry; inversion E0; subst; cbn; auto.
    + destruct (steps_loop cfg st wip dry scid l r) as [[[st2 l2] sts2] ev2] eqn:E2.
      apply IH in E2 as (A & B & C & D & F); [|assumption].
      intros E; inversion E; subst; clear E. rewrite Hrs. auto.
Qed.

(* ---- calls are made in document order; with the default class switch they form a prefix *)
Fixpoint subseq (a b : list nat) : Prop :=
  match a, b with
  | [], _ => True
  | _ :: _, [] => False
  | x :: a', y :: b' => (x = y /\ subseq a' b') \/ subseq a b'
  end.

Lemma subseq_nil_l b : subseq [] b. Proof. destruct b; exact I. Qed.

Lemma subseq_skip a y b : subseq a b -> subseq a (y :: b).
Proof. destruct a; cbn; auto. Qed.

Lemma steps_loop_calls_in_order cfg wip dry scid steps : forall st l st' l' sts ev,
  steps_loop cfg st wip dry scid l steps = (st', l', sts, ev) ->
  subseq (call_ids ev) (map st_id steps) /\ length sts = length steps.
Proof.
  induction steps as [|s r IH]; intros st l st' l' sts ev; cbn [steps_loop].
  - intros E; inversion E; subst. cbn. auto.
  - destruct (l_run_steps l).
    + destruct (run_step cfg st wip scid s) as [[[st1 status] skip] ev1] eqn:E1.
      apply run_step_status in E1. cbn zeta in E1.
      match goal with |- context [steps_loop cfg st1 wip dry scid ?l1 r] =>
        destruct (steps_loop cfg st1 wip dry scid l1 r) as [[[st2 l2] sts2] ev2] eqn:E2 end.
      apply IH in E2 as [B1 B2].
      intros E; inversion E; subst; clear E. rewrite call_ids_app. cbn [map length]. split; [|now rewrite B2].
      assert (Hc : call_ids ev1 = [] \/ call_ids ev1 = [st_id s]).
      { destruct (st_kind s); destruct E1 as (_ & C & _); rewrite C; auto;
          destruct (hook_fires cfg HBeforeStep (st_id s)); auto. }
      destruct Hc as [-> | ->]; cbn [app].
      * now apply subseq_skip.
      * cbn. left. auto.
    + destruct (l_failed l || dry).
      * match goal with |- context [let '(status, ev) := ?X in _] => destruct X as [status0 ev0] eqn:E0 end.
        destruct (steps_loop cfg st wip dry scid l r) as [[[st2 l2] sts2] ev2] eqn:E2.
        apply IH in E2 as [B1 B2].
        intros E; inversion E; subst; clear E. rewrite call_ids_app. cbn [map length]. split; [|now rewrite B2].
        assert (call_ids ev0 = []) as -> by (destruct (st_kind s), dry; inversion E0; subst; reflexivity).
        now apply subseq_skip.
      * destruct (steps_loop cfg st wip dry scid l r) as [[[st2 l2] sts2] ev2] eqn:E2.
        apply IH in E2 as [B1 B2].
        intros E; inversion E; subst; clear E. cbn [map length]. split; [now apply subseq_skip|now rewrite B2].
Qed.

(* default class switch: the calls are exactly the first n steps, and everything after
   the first step that does not pass (or skips the scenario) is not called *)
Lemma steps_loop_prefix cfg wip dry scid (Hc : c_cont cfg = false) steps : forall st l st' l' sts ev,
  steps_loop cfg st wip dry scid l steps = (st', l', sts, ev) ->
  exists n, call_ids ev = firstn n (map st_id steps).
Proof.
  induction steps as [|s r IH]; intros st l st' l' sts ev; cbn [steps_loop].
  - intros E; inversion E; subst. exists 0. reflexivity.
  - destruct (l_run_steps l) eqn:Hr.
    + destruct (run_step cfg st wip scid s) as [[[st1 status] skip] ev1] eqn:E1.
      match goal with |- context [steps_loop cfg st1 wip dry scid ?l1 r] =>
        destruct (steps_loop cfg st1 wip dry scid l1 r) as [[[st2 l2] sts2] ev2] eqn:E2 end.
      intros E; inversion E; subst; clear E. rewrite call_ids_app.
      destruct (call_ids ev1) as [|c cs] eqn:Hcalls.
      * (* not called: failing status, loop is switched off *)
        destruct (run_step_uncalled_fails _ _ _ _ _ _ _ _ _ E1 Hcalls) as [Hf Hs].
        rewrite Hf, Hc in E2. apply norun_spec in E2 as (_ & _ & _ & D & _); [|reflexivity].
        exists 0. now rewrite D.
      * apply run_step_status in E1. cbn zeta in E1.
        assert (c = st_id s /\ cs = []) as [-> ->].
        { destruct (st_kind s); destruct E1 as (_ & C & _); rewrite C in Hcalls; try discriminate;
            destruct (hook_fires cfg HBeforeStep (st_id s)); inversion Hcalls; auto. }
        apply IH in E2 as [n Hn]. exists (S n). cbn. now rewrite Hn.
    + intros E.
      assert (E' : steps_loop cfg st wip dry scid l (s :: r) = (st', l', sts, ev))
        by (cbn [steps_loop]; rewrite Hr; exact E).
      apply norun_spec in E' as (_ & _ & _ & D & _); [|assumption].
      exists 0. now rewrite D.
Qed.

(* after a step that fails (default switch) the rest is skipped / undefined, uncalled *)
Lemma steps_loop_after_failure cfg st wip scid l s r st' l' sts ev (Hc : c_cont cfg = false) :
  l_run_steps l = true ->
  steps_loop cfg st wip false scid l (s :: r) = (st', l', sts, ev) ->
  forall st1 status skip ev1,
    run_step cfg st wip scid s = (st1, status, skip, ev1) ->
    has_failed status = true ->
    sts = status :: map (rest_status false true) r /\
    call_ids ev = call_ids ev1 /\ l_failed l' = true.
Proof.
  intros Hr E st1 status skip ev1 E1 Hf. cbn [steps_loop] in E. rewrite Hr, E1, Hf, Hc in E.
  match type of E with context [steps_loop cfg st1 wip false scid ?l1 r] =>
    destruct (steps_loop cfg st1 wip false scid l1 r) as [[[st2 l2] sts2] ev2] eqn:E2 end.
  apply norun_spec in E2 as (A & B & C & D & F); [|reflexivity].
  inversion E; subst; clear E. rewrite call_ids_app, D, app_nil_r. cbn [l_failed]. auto.
Qed.

(* a step that skips its scenario leaves the rest skipped and uncalled *)
Lemma steps_loop_after_skip cfg st wip scid l s r st' l' sts ev :
  l_run_steps l = true -> l_failed l = false ->
  steps_loop cfg st wip false scid l (s :: r) = (st', l', sts, ev) ->
  forall st1 status ev1,
    run_step cfg st wip scid s = (st1, status, true, ev1) ->
    has_failed status = false ->
    sts = status :: map (fun _ => skipped) r /\ call_ids ev = call_ids ev1.
Proof.
  intros Hr Hlf E st1 status ev1 E1 Hf. cbn [steps_loop] in E. rewrite Hr, E1, Hf in E.
  rewrite orb_true_r in E. cbn [negb] in E.
  match type of E with context [steps_loop cfg st1 wip false scid ?l1 r] =>
    destruct (steps_loop cfg st1 wip false scid l1 r) as [[[st2 l2] sts2] ev2] eqn:E2 end.
  apply norun_spec in E2 as (A & B & C & D & F); [|reflexivity].
  inversion E; subst; clear E. rewrite call_ids_app, D, app_nil_r. cbn [l_failed] in *. rewrite ?Hlf.
  split; [|reflexivity]. f_equal.
Qed.

(* when every step passes, every step is called, in order *)
Definition plain_pass (cfg : config) (s : step) : bool :=
  match st_kind s with KPass | KAbort | KCleanOk | KCleanRaise => true | _ => false end
  && negb (hook_fires cfg HBeforeStep (st_id s)) && negb (hook_fires cfg HAfterStep (st_id s)).

Lemma steps_loop_all_pass cfg wip dry scid steps : forall st l st' l' sts ev,
  l_run_steps l = true -> l_should_skip l = false ->
  forallb (plain_pass cfg) steps = true ->
  steps_loop cfg st wip dry scid l steps = (st', l', sts, ev) ->
  call_ids ev = map st_id steps /\ sts = map (fun _ => passed) steps /\ l_failed l' = l_failed l.
Proof.
  induction steps as [|s r IH]; intros st l st' l' sts ev Hr Hs Hp; cbn [steps_loop].
  - intros E; inversion E; subst. auto.
  - rewrite Hr. cbn [forallb] in Hp. apply andb_true_iff in Hp as [Hp1 Hp2].
    destruct (run_step cfg st wip scid s) as [[[st1 status] skip] ev1] eqn:E1.
    apply run_step_status in E1. cbn zeta in E1. unfold plain_pass in Hp1.
    apply andb_true_iff in Hp1 as [Hp1 Ha]. apply andb_true_iff in Hp1 as [Hk Hb].
    apply negb_true_iff in Ha, Hb. rewrite Ha, Hb in E1. cbn [orb] in E1.
    assert (status = passed /\ call_ids ev1 = [st_id s] /\ skip = false) as (-> & Hc1 & ->).
    { destruct (st_kind s); try discriminate; destruct E1 as (A & B & C); subst; auto. }
    replace (has_failed passed) with false by (vm_compute; reflexivity).
    rewrite Hs. cbn [orb negb].
    match goal with |- context [steps_loop cfg st1 wip dry scid ?l1 r] =>
      destruct (steps_loop cfg st1 wip dry scid l1 r) as [[[st2 l2] sts2] ev2] eqn:E2 end.
    apply IH in E2 as (A & B & C); auto.
    intros E; inversion E; subst; clear E. rewrite call_ids_app, Hc1, A. cbn. auto.
Qed.
