(* Capture.v — model of behave.capture.CaptureController + behave.log_capture.LoggingCapture
   as the runner drives them: setup_capture (per scenario), start_capture / stop_capture
   (per step), teardown_capture (scenario end).  Streams are identities: the real stream, or
   the capture buffer of generation g.  Model only. *)
From BV Require Import Base.

Record capcfg := mkCapCfg { cc_out : bool; cc_err : bool; cc_log : bool; cc_clear : bool;
                            cc_level : nat (* config.logging_level *) }.

Inductive chan := ChOut | ChErr | ChLog.

Inductive capop :=
| CapSetup | CapStart | CapStop | CapTeardown
| CapWrite (c : chan) (m : nat)
| CapAddHandler (h : nat)          (* user code installs handler h on the root logger *)
| CapReport.

Inductive handler := HUser (n : nat) | HCapture (g : nat).

Definition handler_eqb (a b : handler) : bool :=
  match a, b with
  | HUser x, HUser y => Nat.eqb x y
  | HCapture x, HCapture y => Nat.eqb x y
  | _, _ => false
  end.

Record capst := mkCapSt {
  gen : nat;                       (* generation of the current capture buffers / LoggingCapture *)
  sys_out : option nat;            (* None = the real stream; Some g = buffer of generation g *)
  sys_err : option nat;
  old_out : bool;                  (* controller.old_stdout is set *)
  old_err : bool;
  has_out : bool;                  (* controller.stdout_capture is not None *)
  has_err : bool;
  has_log : bool;
  buf_out : list nat; buf_err : list nat; buf_log : list nat;   (* current generation's buffers *)
  real_out : list nat; real_err : list nat;                      (* what reached the real streams *)
  root_handlers : list handler;    (* the root logger's handlers, in order *)
  handler_seen : list (nat * nat); (* (handler, marker): what user handlers on the root logger received *)
  saved_handlers : list handler;   (* old_handlers of the current LoggingCapture *)
  root_level : nat;
  old_level : option nat;          (* of the current LoggingCapture *)
  crashed : bool                   (* an `assert sys.stdout is self.stdout_capture` fired *)
}.

Definition is_capture_handler (h : handler) : bool := match h with HCapture _ => true | HUser _ => false end.
Definition user_ids (l : list handler) : list nat :=
  flat_map (fun h => match h with HUser n => [n] | HCapture _ => [] end) l.

Definition cap_init (handlers : list nat) (level : nat) : capst :=
  mkCapSt 0 None None false false false false false [] [] [] [] [] (map HUser handlers) [] [] level None false.

Definition upd_streams (st : capst) so se oo oe crash : capst :=
  mkCapSt (gen st) so se oo oe (has_out st) (has_err st) (has_log st) (buf_out st) (buf_err st) (buf_log st)
          (real_out st) (real_err st) (root_handlers st) (handler_seen st) (saved_handlers st)
          (root_level st) (old_level st) (crashed st || crash).

Definition cap_step (cfg : capcfg) (st : capst) (op : capop) : capst * list (list nat) :=
  match op with
  | CapSetup =>
      let g := S (gen st) in
      let clear := cc_log cfg && cc_clear cfg in
      let without_capture := filter (fun h => negb (is_capture_handler h)) (root_handlers st) in
      (mkCapSt g (sys_out st) (sys_err st) (old_out st) (old_err st)
               (has_out st || cc_out cfg) (has_err st || cc_err cfg) (has_log st || cc_log cfg)
               (if cc_out cfg then [] else buf_out st)
               (if cc_err cfg then [] else buf_err st)
               (if cc_log cfg then [] else buf_log st)
               (real_out st) (real_err st)
               (if cc_log cfg then (if cc_clear cfg then [] else without_capture) ++ [HCapture g]
                else root_handlers st)
               (handler_seen st)
               (if cc_log cfg then (if cc_clear cfg then without_capture else []) else saved_handlers st)
               (if cc_log cfg then cc_level cfg else root_level st)
               (if cc_log cfg then Some (root_level st) else old_level st)
               (crashed st), [])
  | CapStart =>
      let '(so, oo, c1) :=
        if cc_out cfg then
          if old_out st then (sys_out st, true, negb (option_eqb Nat.eqb (sys_out st) (Some (gen st))))
          else (Some (gen st), true, false)
        else (sys_out st, old_out st, false) in
      let '(se, oe, c2) :=
        if cc_err cfg then
          if old_err st then (sys_err st, true, negb (option_eqb Nat.eqb (sys_err st) (Some (gen st))))
          else (Some (gen st), true, false)
        else (sys_err st, old_err st, false) in
      (upd_streams st so se oo oe (c1 || c2), [])
  | CapStop =>
      let '(so, oo) := if cc_out cfg then (if old_out st then None else sys_out st, false) else (sys_out st, old_out st) in
      let '(se, oe) := if cc_err cfg then (if old_err st then None else sys_err st, false) else (sys_err st, old_err st) in
      (upd_streams st so se oo oe false, [])
  | CapTeardown =>
      if cc_log cfg && has_log st then
        (mkCapSt (gen st) (sys_out st) (sys_err st) (old_out st) (old_err st) (has_out st) (has_err st) (has_log st)
                 (buf_out st) (buf_err st) (buf_log st) (real_out st) (real_err st)
                 (let rest := filter (fun h => negb (handler_eqb h (HCapture (gen st)))) (root_handlers st) in
                  rest ++ (if cc_clear cfg
                           then filter (fun h => negb (existsb (handler_eqb h) rest)) (saved_handlers st)
                           else []))
                 (handler_seen st) (saved_handlers st)
                 (match old_level st with Some l => l | None => root_level st end)
                 None (crashed st), [])
      else (st, [])
  | CapWrite ChOut m =>
      match sys_out st with
      | None => (mkCapSt (gen st) (sys_out st) (sys_err st) (old_out st) (old_err st) (has_out st) (has_err st) (has_log st)
                         (buf_out st) (buf_err st) (buf_log st) (real_out st ++ [m]) (real_err st)
                         (root_handlers st) (handler_seen st) (saved_handlers st) (root_level st) (old_level st) (crashed st), [])
      | Some g =>
          if Nat.eqb g (gen st)
          then (mkCapSt (gen st) (sys_out st) (sys_err st) (old_out st) (old_err st) (has_out st) (has_err st) (has_log st)
                        (buf_out st ++ [m]) (buf_err st) (buf_log st) (real_out st) (real_err st)
                        (root_handlers st) (handler_seen st) (saved_handlers st) (root_level st) (old_level st) (crashed st), [])
          else (st, [])            (* written into an abandoned buffer *)
      end
  | CapWrite ChErr m =>
      match sys_err st with
      | None => (mkCapSt (gen st) (sys_out st) (sys_err st) (old_out st) (old_err st) (has_out st) (has_err st) (has_log st)
                         (buf_out st) (buf_err st) (buf_log st) (real_out st) (real_err st ++ [m])
                         (root_handlers st) (handler_seen st) (saved_handlers st) (root_level st) (old_level st) (crashed st), [])
      | Some g =>
          if Nat.eqb g (gen st)
          then (mkCapSt (gen st) (sys_out st) (sys_err st) (old_out st) (old_err st) (has_out st) (has_err st) (has_log st)
                        (buf_out st) (buf_err st ++ [m]) (buf_log st) (real_out st) (real_err st)
                        (root_handlers st) (handler_seen st) (saved_handlers st) (root_level st) (old_level st) (crashed st), [])
          else (st, [])
      end
  | CapWrite ChLog m =>
      (* a record at a level that passes: every handler on the root logger receives it;
         with no handler at all Python's logging.lastResort writes it to the current sys.stderr *)
      match root_handlers st with
      | [] =>
      match sys_err st with
      | None => (mkCapSt (gen st) (sys_out st) (sys_err st) (old_out st) (old_err st) (has_out st) (has_err st) (has_log st)
                         (buf_out st) (buf_err st) (buf_log st) (real_out st) (real_err st ++ [m])
                         (root_handlers st) (handler_seen st) (saved_handlers st) (root_level st) (old_level st) (crashed st), [])
      | Some g =>
          if Nat.eqb g (gen st)
          then (mkCapSt (gen st) (sys_out st) (sys_err st) (old_out st) (old_err st) (has_out st) (has_err st) (has_log st)
                        (buf_out st) (buf_err st ++ [m]) (buf_log st) (real_out st) (real_err st)
                        (root_handlers st) (handler_seen st) (saved_handlers st) (root_level st) (old_level st) (crashed st), [])
          else (st, [])
      end
      | _ :: _ =>
      let captured := existsb (handler_eqb (HCapture (gen st))) (root_handlers st) in
      let users := user_ids (root_handlers st) in
      (mkCapSt (gen st) (sys_out st) (sys_err st) (old_out st) (old_err st) (has_out st) (has_err st) (has_log st)
               (buf_out st) (buf_err st) (if captured then buf_log st ++ [m] else buf_log st)
               (real_out st) (real_err st) (root_handlers st)
               (handler_seen st ++ map (fun h => (h, m)) users)
               (saved_handlers st) (root_level st) (old_level st) (crashed st), [])
      end
  | CapAddHandler h =>
      (mkCapSt (gen st) (sys_out st) (sys_err st) (old_out st) (old_err st) (has_out st) (has_err st) (has_log st)
               (buf_out st) (buf_err st) (buf_log st) (real_out st) (real_err st)
               (root_handlers st ++ [HUser h]) (handler_seen st) (saved_handlers st) (root_level st) (old_level st) (crashed st), [])
  | CapReport =>
      (* controller.captured: the three parts (empty when the channel is off or never set up) *)
      (st, [if cc_out cfg && has_out st then buf_out st else [];
            if cc_err cfg && has_err st then buf_err st else [];
            if cc_log cfg && has_log st then buf_log st else []])
  end.

Fixpoint cap_run (cfg : capcfg) (st : capst) (ops : list capop) : capst * list (list (list nat)) :=
  match ops with
  | [] => (st, [])
  | op :: r =>
      let '(st1, o) := cap_step cfg st op in
      let '(st2, os) := cap_run cfg st1 r in
      (st2, match op with CapReport => o :: os | _ => os end)
  end.

(* what the correspondence check compares *)
Definition cap_obs (cfg : capcfg) (handlers : list nat) (level : nat) (ops : list capop) :=
  let '(st, reports) := cap_run cfg (cap_init handlers level) ops in
  (reports, real_out st, real_err st, handler_seen st,
   user_ids (root_handlers st), root_level st,
   (match sys_out st with None => true | Some _ => false end,
    match sys_err st with None => true | Some _ => false end), crashed st).
