(* Outline.v - behave/model.py: ScenarioOutlineBuilder (render_template, make_scenario_name, make_row_tags,
   make_step_for_row, make_scenario_for, build_scenarios), Tag.make_name, the Table modification API and the
   ScenarioOutline.scenarios cache.  Model only. *)
From BV Require Import Base UStr.
From BVGen Require Import UnicodeTables OutlineTables.

Definition cp_lt : N := 60%N.
Definition cp_gt : N := 62%N.

Definition placeholder (name : ustr) : ustr := cp_lt :: name ++ [cp_gt].
Definition looks_parametrized (t : ustr) : bool := memN cp_lt t && memN cp_gt t.

(* text.replace("<name>", value) for every item, in order *)
Definition substitute (items : list (ustr * ustr)) (text : ustr) : ustr :=
  fold_left (fun t kv => replace_all (placeholder (fst kv)) (snd kv) t) items text.

(* render_template(text, row, params) *)
Definition render (text : ustr) (row params : list (ustr * ustr)) : ustr :=
  if looks_parametrized text then substitute params (substitute row text) else text.

(* ---- str.format of the annotation schema ---- *)
Inductive fchunk := FLit (s : ustr) | FField (name : ustr).

(* "{name}" fields, "{{" and "}}" escapes; a lone "}" or an unclosed "{" is a ValueError.  Fuel = length. *)
Fixpoint parse_format (fuel : nat) (s : ustr) (lit : ustr) : option (list fchunk) :=
  match fuel with
  | 0 => match s with [] => Some (match lit with [] => [] | _ => [FLit (rev lit)] end) | _ => None end
  | S f =>
      match s with
      | [] => Some (match lit with [] => [] | _ => [FLit (rev lit)] end)
      | 123%N :: 123%N :: r => parse_format f r (123%N :: lit)
      | 125%N :: 125%N :: r => parse_format f r (125%N :: lit)
      | 125%N :: _ => None
      | 123%N :: r =>
          match split_on 125%N r with
          | name :: _ :: _ =>
              if memN 123%N name then None
              else match parse_format f (skipn (S (length name)) r) [] with
                   | Some rest => Some ((match lit with [] => [] | _ => [FLit (rev lit)] end) ++ FField name :: rest)
                   | None => None
                   end
          | _ => None
          end
      | c :: r => parse_format f r (c :: lit)
      end
  end.

Definition dot : N := 46%N.
Definition s_name : ustr := [110; 97; 109; 101]%N.
Definition s_index : ustr := [105; 110; 100; 101; 120]%N.
Definition s_id : ustr := [105; 100]%N.
Definition s_examples : ustr := [101; 120; 97; 109; 112; 108; 101; 115]%N.
Definition s_row : ustr := [114; 111; 119]%N.

(* fields of format(name=..., examples=Data(examples_name, index), row=Data(row.id, row.index)) *)
Definition field_value (name_v ex_name ex_index row_id row_index : ustr) (f : ustr) : option ustr :=
  if ustr_eqb f s_name then Some name_v
  else if ustr_eqb f (s_examples ++ [dot] ++ s_name) || ustr_eqb f (s_examples ++ [dot] ++ s_id) then Some ex_name
  else if ustr_eqb f (s_examples ++ [dot] ++ s_index) then Some ex_index
  else if ustr_eqb f (s_row ++ [dot] ++ s_name) || ustr_eqb f (s_row ++ [dot] ++ s_id) then Some row_id
  else if ustr_eqb f (s_row ++ [dot] ++ s_index) then Some row_index
  else None.

Fixpoint fill_format (chunks : list fchunk) (val : ustr -> option ustr) : option ustr :=
  match chunks with
  | [] => Some []
  | FLit s :: r => match fill_format r val with Some t => Some (s ++ t) | None => None end
  | FField f :: r => match val f, fill_format r val with Some v, Some t => Some (v ++ t) | _, _ => None end
  end.

(* ---- Tag.make_name(tag, unescape=True) ---- *)
Definition in_ranges (c : N) (rs : list (N * N)) : bool := existsb (fun r => N.leb (fst r) c && N.leb c (snd r)) rs.
Definition is_alnum (c : N) : bool := in_ranges c alnum_ranges.

Definition make_tag_name (t : ustr) : ustr :=
  let t := replace_all [92; 110]%N [10%N] (replace_all [92; 116]%N [9%N] t) in
  flat_map (fun c => if is_alnum c || memN c tag_allowed_chars then [c]
                     else if is_space c then [95%N] else []) t.

(* ---- model of the data ---- *)
Record step := mkStep {
  s_keyword : ustr; s_text_name : ustr; s_doc : option ustr;
  s_table : option (list ustr * list (list ustr)); s_line : nat }.

Record table := mkTable { t_head : list ustr; t_rows : list (list ustr * nat); t_line : nat; t_modified : bool }.
Record examples := mkExamples { e_name : ustr; e_tags : list ustr; e_table : option table }.
Record scenario := mkScenario {
  sc_name : ustr; sc_tags : list ustr; sc_line : nat; sc_steps : list step; sc_background : list step }.
Record outline := mkOutline {
  o_name : ustr; o_tags : list ustr; o_steps : list step; o_background : list step;
  o_examples : list examples; o_schema : ustr; o_cache : list scenario }.

Definition row_items (head cells : list ustr) : list (ustr * ustr) := combine head cells.

Definition step_for_row (st : step) (row params : list (ustr * ustr)) : step :=
  mkStep (s_keyword st)
         (render (s_text_name st) row params)
         (match s_doc st with
          | Some [] => Some []
          | Some d => Some (render d row [])
          | None => None
          end)
         (match s_table st with
          | Some (h, rows) => Some (map (substitute row) h, map (map (substitute row)) rows)
          | None => None
          end)
         (s_line st).

Definition row_tags (tags : list ustr) (row params : list (ustr * ustr)) : list ustr :=
  flat_map (fun tag =>
              if looks_parametrized tag
              then let t := render tag row params in
                   if looks_parametrized t then [] else [make_tag_name t]
              else [tag]) tags.

Definition k_examples_name : ustr := s_examples ++ [dot] ++ s_name.
Definition k_examples_index : ustr := s_examples ++ [dot] ++ s_index.
Definition k_row_index : ustr := s_row ++ [dot] ++ s_index.
Definition k_row_id : ustr := s_row ++ [dot] ++ s_id.

(* one generated scenario, or None when formatting the annotation schema raises *)
Definition scenario_for (o : outline) (e : examples) (ei : nat) (head cells : list ustr) (ri line : nat) : option scenario :=
  let row := row_items head cells in
  let ex_index := nat_to_str ei in
  let row_index := nat_to_str ri in
  let row_id := ex_index ++ [dot] ++ row_index in
  let params0 := [(k_examples_name, e_name e); (k_examples_index, ex_index); (k_row_index, row_index); (k_row_id, row_id)] in
  let ex_name := render (e_name e) row params0 in
  let params := [(k_examples_name, ex_name); (k_examples_index, ex_index); (k_row_index, row_index); (k_row_id, row_id)] in
  let name0 := render (o_name o) row params in
  match parse_format (S (length (o_schema o))) (o_schema o) [] with
  | None => None
  | Some chunks =>
      match fill_format chunks (field_value name0 ex_name ex_index row_id row_index) with
      | None => None
      | Some name =>
          let bg := if existsb (fun s => looks_parametrized (s_text_name s)) (o_background o)
                    then map (fun s => step_for_row s row params) (o_background o)
                    else o_background o in
          Some (mkScenario name (row_tags (o_tags o) row params ++ e_tags e) line
                           (map (fun s => step_for_row s row params) (o_steps o)) bg)
      end
  end.

Fixpoint rows_from (o : outline) (e : examples) (ei : nat) (head : list ustr) (rows : list (list ustr * nat)) (ri : nat)
  : option (list scenario) :=
  match rows with
  | [] => Some []
  | (cells, line) :: r =>
      match scenario_for o e ei head cells ri line, rows_from o e ei head r (S ri) with
      | Some s, Some rest => Some (s :: rest)
      | _, _ => None
      end
  end.

Fixpoint examples_from (o : outline) (es : list examples) (ei : nat) : option (list scenario) :=
  match es with
  | [] => Some []
  | e :: r =>
      match (match e_table e with
             | None => Some []
             | Some t => rows_from o e ei (t_head t) (t_rows t) 1
             end), examples_from o r (S ei) with
      | Some a, Some b => Some (a ++ b)
      | _, _ => None
      end
  end.

Definition build (o : outline) : option (list scenario) := examples_from o (o_examples o) 1.

(* ---- the Table API on an examples table and the scenarios cache ---- *)
Inductive table_op :=
| AddRow (cells : list ustr) (line : option nat)
| AddColumn (name : ustr) (values : option (list ustr)) (default : ustr)
| RemoveColumn (name : ustr)
| Clear.

Fixpoint index_of_str (k : ustr) (l : list ustr) (i : nat) : option nat :=
  match l with [] => None | a :: r => if ustr_eqb a k then Some i else index_of_str k r (S i) end.

Fixpoint remove_nth {A} (i : nat) (l : list A) : list A :=
  match l, i with
  | [], _ => []
  | _ :: r, 0 => r
  | x :: r, S j => x :: remove_nth j r
  end.

Fixpoint zip_default (rows : list (list ustr * nat)) (vals : list ustr) (d : ustr) : list (list ustr * nat) :=
  match rows with
  | [] => []
  | (cells, line) :: r =>
      match vals with
      | [] => (cells ++ [d], line) :: zip_default r [] d
      | v :: vs => (cells ++ [v], line) :: zip_default r vs d
      end
  end.

(* None: the operation raises (unknown column, duplicate column) and leaves the table as it was *)
Definition apply_table_op (t : table) (op : table_op) : option table :=
  match op with
  | AddRow cells line =>
      let ln := match line with Some l => l | None => t_line t + length (t_rows t) + 1 end in
      Some (mkTable (t_head t) (t_rows t ++ [(cells, ln)]) (t_line t) true)
  | AddColumn name values default =>
      if existsb (ustr_eqb name) (t_head t) then None
      else Some (mkTable (t_head t ++ [name])
                         (zip_default (t_rows t) (match values with Some v => v | None => [] end) default)
                         (t_line t) true)
  | RemoveColumn name =>
      match index_of_str name (t_head t) 0 with
      | None => None
      | Some i => Some (mkTable (remove_nth i (t_head t)) (map (fun r => (remove_nth i (fst r), snd r)) (t_rows t)) (t_line t) true)
      end
  | Clear => Some (mkTable (t_head t) [] (t_line t) true)
  end.

Definition any_modified (o : outline) : bool :=
  existsb (fun e => match e_table e with Some t => t_modified t | None => false end) (o_examples o).

Definition reset_modified (o : outline) (cache : list scenario) : outline :=
  mkOutline (o_name o) (o_tags o) (o_steps o) (o_background o)
            (map (fun e => mkExamples (e_name e) (e_tags e)
                                      (match e_table e with
                                       | Some t => Some (mkTable (t_head t) (t_rows t) (t_line t) false)
                                       | None => None
                                       end)) (o_examples o))
            (o_schema o) cache.

(* the `scenarios` property: (new state, result); None when building raises (state unchanged in the model) *)
Definition access (o : outline) : outline * option (list scenario) :=
  if any_modified o
  then match build o with
       | Some l => (reset_modified o l, Some l)
       | None => (o, None)
       end
  else (o, Some (o_cache o)).

Fixpoint update_nth {A} (i : nat) (f : A -> A) (l : list A) : list A :=
  match l, i with
  | [], _ => []
  | x :: r, 0 => f x :: r
  | x :: r, S j => x :: update_nth j f r
  end.

Definition with_examples (o : outline) (es : list examples) : outline :=
  mkOutline (o_name o) (o_tags o) (o_steps o) (o_background o) es (o_schema o) (o_cache o).

(* operation on the table of examples block i (no-op when the block has no table or the operation raises) *)
Definition table_step (o : outline) (i : nat) (op : table_op) : outline :=
  with_examples o (update_nth i (fun e => match e_table e with
                                           | Some t => match apply_table_op t op with
                                                       | Some t' => mkExamples (e_name e) (e_tags e) (Some t')
                                                       | None => e
                                                       end
                                           | None => e
                                           end) (o_examples o)).

Inductive hist_op := HAccess | HTable (i : nat) (op : table_op).

Definition hist_step (st : outline * list (option (list scenario))) (h : hist_op) : outline * list (option (list scenario)) :=
  let '(o, outs) := st in
  match h with
  | HAccess => let '(o', r) := access o in (o', outs ++ [r])
  | HTable i op => (table_step o i op, outs)
  end.

Definition run_history (o : outline) (h : list hist_op) : outline * list (option (list scenario)) :=
  fold_left hist_step h (o, []).
