(* RollupCutShort.v — two more rows of the documented roll-up table for outlines,
   rules and features:
     * de-selected (skipped) children are no execution: skipped and never-run
       children together, at least one of them never run, give untested;
     * "some passed, now untested": a run that was cut short is failed. *)
From BV Require Import Base Status Rollup RollupProofs.
From BVGen Require Import StatusTable.

Definition passed_or_skipped (s : status) : bool := status_eqb s passed || status_eqb s skipped.
Definition skipped_or_untested (s : status) : bool := status_eqb s skipped || status_eqb s untested.

Lemma pos_S n : (0 <? S n) = true.
Proof. reflexivity. Qed.

(* ------------------------------------------------------------------ outlines *)
Lemma outline_loop_idle rows : forall sk,
  forallb skipped_or_untested rows = true ->
  existsb (fun s => status_eqb s untested) rows = true ->
  outline_loop rows sk 0 = inl untested.
Proof.
  induction rows as [|s r IH]; intros sk A E; [discriminate|].
  cbn [forallb] in A. apply andb_true_iff in A as [As Ar].
  unfold skipped_or_untested in As. apply orb_true_iff in As as [As|As]; apply status_eqb_eq in As; subst s.
  - cbn [existsb] in E. change (status_eqb skipped untested) with false in E. cbn [orb] in E.
    change (outline_loop (skipped :: r) sk 0) with (outline_loop r (S sk) 0). now apply IH.
  - reflexivity.
Qed.

Lemma outline_loop_cut rows : forall post sk pc,
  forallb passed_or_skipped rows = true ->
  (0 <? pc) || existsb (fun s => status_eqb s passed) rows = true ->
  outline_loop (rows ++ untested :: post) sk pc = inl failed.
Proof.
  induction rows as [|s r IH]; intros post sk pc A E.
  - cbn [existsb] in E. rewrite orb_false_r in E. cbn [app].
    change (outline_loop (untested :: post) sk pc) with (@inl status nat (if 0 <? pc then failed else untested)).
    now rewrite E.
  - cbn [forallb] in A. apply andb_true_iff in A as [As Ar].
    unfold passed_or_skipped in As. apply orb_true_iff in As as [As|As]; apply status_eqb_eq in As; subst s.
    + change (outline_loop ((passed :: r) ++ untested :: post) sk pc)
        with (outline_loop (r ++ untested :: post) sk (S pc)).
      apply IH; [exact Ar|]. now rewrite pos_S.
    + change (outline_loop ((skipped :: r) ++ untested :: post) sk pc)
        with (outline_loop (r ++ untested :: post) (S sk) pc).
      apply IH; [exact Ar|]. cbn [existsb] in E. change (status_eqb skipped passed) with false in E. exact E.
Qed.

Lemma outline_nothing_executed_skips_included expected rows :
  forallb skipped_or_untested rows = true ->
  existsb (fun s => status_eqb s untested) rows = true ->
  outline_compute expected rows = untested.
Proof.
  intros A E. destruct rows as [|s r]; [discriminate|].
  unfold outline_compute. now rewrite (outline_loop_idle (s :: r) 0 A E).
Qed.

Lemma outline_cut_short_is_failed expected pre post :
  forallb passed_or_skipped pre = true ->
  existsb (fun s => status_eqb s passed) pre = true ->
  outline_compute expected (pre ++ untested :: post) = failed.
Proof.
  intros A E. unfold outline_compute.
  destruct (pre ++ untested :: post) as [|x xs] eqn:L; [destruct pre; discriminate|]. rewrite <- L.
  rewrite (outline_loop_cut pre post 0 0 A); [reflexivity|]. now rewrite E.
Qed.

(* ------------------------------------------------------------------ rules and features *)
Lemma container_loop_idle items : forall sf,
  forallb skipped_or_untested items = true ->
  existsb (fun s => status_eqb s untested) items = true ->
  container_loop items sf 0 = untested.
Proof.
  induction items as [|s r IH]; intros sf A E; [discriminate|].
  cbn [forallb] in A. apply andb_true_iff in A as [As Ar].
  unfold skipped_or_untested in As. apply orb_true_iff in As as [As|As]; apply status_eqb_eq in As; subst s.
  - cbn [existsb] in E. change (status_eqb skipped untested) with false in E. cbn [orb] in E.
    change (container_loop (skipped :: r) sf 0) with (container_loop r sf 0). now apply IH.
  - reflexivity.
Qed.

Lemma container_loop_cut items : forall post sf pc,
  forallb passed_or_skipped items = true ->
  (0 <? pc) || existsb (fun s => status_eqb s passed) items = true ->
  container_loop (items ++ untested :: post) sf pc = failed.
Proof.
  induction items as [|s r IH]; intros post sf pc A E.
  - cbn [existsb] in E. rewrite orb_false_r in E. cbn [app].
    change (container_loop (untested :: post) sf pc) with (if 0 <? pc then failed else untested).
    now rewrite E.
  - cbn [forallb] in A. apply andb_true_iff in A as [As Ar].
    unfold passed_or_skipped in As. apply orb_true_iff in As as [As|As]; apply status_eqb_eq in As; subst s.
    + change (container_loop ((passed :: r) ++ untested :: post) sf pc)
        with (container_loop (r ++ untested :: post) false (S pc)).
      apply IH; [exact Ar|]. now rewrite pos_S.
    + change (container_loop ((skipped :: r) ++ untested :: post) sf pc)
        with (container_loop (r ++ untested :: post) sf pc).
      apply IH; [exact Ar|]. cbn [existsb] in E. change (status_eqb skipped passed) with false in E. exact E.
Qed.

Lemma container_nothing_executed_skips_included items :
  forallb skipped_or_untested items = true ->
  existsb (fun s => status_eqb s untested) items = true ->
  container_compute false items = untested.
Proof. intros A E. unfold container_compute. now apply container_loop_idle. Qed.

Lemma container_cut_short_is_failed pre post :
  forallb passed_or_skipped pre = true ->
  existsb (fun s => status_eqb s passed) pre = true ->
  container_compute false (pre ++ untested :: post) = failed.
Proof.
  intros A E. unfold container_compute. apply container_loop_cut; [exact A|]. now rewrite E.
Qed.
