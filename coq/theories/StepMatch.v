(* StepMatch.v - behave/matchers.py and behave/step_registry.py.
   (1) matching a step text against a *flat* pattern: a sequence of literals and capturing fields, each field a
       character class with a greedy or lazy quantifier - the shape the parse, cfparse and re matchers produce
       for the patterns of this check - with Python's backtracking priority (lazy: shortest first, greedy: longest
       first), arguments with spans and converted values, Match.run's split into positional / keyword arguments;
   (2) the step registry: add_step_definition (same-definition short cut, AmbiguousStep), find_match, and the
       current/default matcher switches of StepMatcherFactory.
   Model only.  The translation of a pattern text ("{n:d}", "(?P<n>\d+)") into the flat form is done by the harness. *)
From BV Require Import Base UStr.
From BVGen Require Import UnicodeTables ActiveTagTables.

Inductive cls := CAny | CWord | CDigit | CNonSpace | CAlpha | CSignedInt | CFloat.
Inductive conv := VText | VInt | VSmallInt (* a custom converter that raises ValueError above 99 *) | VFloatText
                | VZeroNone (* a custom converter that returns None for zero *).

Inductive atom :=
| ALit (s : ustr)
| AField (name : option ustr) (c : cls) (greedy : bool) (min0 : bool) (cv : conv).

Definition is_word_c (c : N) : bool := memN c word_cps.
Definition is_digit_c (c : N) : bool := N.leb 48 c && N.leb c 57.
Definition is_alpha_c (c : N) : bool := (N.leb 65 c && N.leb c 90) || (N.leb 97 c && N.leb c 122).
Definition is_sign_c (c : N) : bool := N.eqb c 45 || N.eqb c 43 || N.eqb c 32.

Definition all_nonempty (p : N -> bool) (s : ustr) : bool := match s with [] => false | _ => forallb p s end.

(* "[-+ ]?[-+ ]?[0-9]+" (the decimal alternative of parse's d type) *)
Definition signed_int_ok (s : ustr) : bool :=
  match s with
  | a :: b :: r => if is_sign_c a then (if is_sign_c b then all_nonempty is_digit_c r else all_nonempty is_digit_c (b :: r))
                   else all_nonempty is_digit_c s
  | [a] => is_digit_c a
  | [] => false
  end.

(* "[-+ ]?\d*\.\d+" (parse's f type) *)
Fixpoint split_at_dot (s : ustr) (acc : ustr) : option (ustr * ustr) :=
  match s with
  | [] => None
  | c :: r => if N.eqb c 46 then Some (rev acc, r) else split_at_dot r (c :: acc)
  end.
Definition float_ok (s : ustr) : bool :=
  let body := match s with a :: r => if is_sign_c a then r else s | [] => s end in
  match split_at_dot body [] with
  | Some (ip, fp) => forallb is_digit_c ip && all_nonempty is_digit_c fp
  | None => false
  end.

(* does the field's sub-pattern match exactly this piece? *)
Definition piece_ok (c : cls) (min0 : bool) (s : ustr) : bool :=
  match s with
  | [] => min0
  | _ =>
      match c with
      | CAny => true
      | CWord => forallb is_word_c s
      | CDigit => forallb is_digit_c s
      | CNonSpace => forallb (fun x => negb (is_space x)) s
      | CAlpha => forallb is_alpha_c s
      | CSignedInt => signed_int_ok s
      | CFloat => float_ok s
      end
  end.

(* candidate piece lengths in the order the regex engine tries them *)
Definition lengths (greedy : bool) (n : nat) : list nat := if greedy then rev (seq 0 (S n)) else seq 0 (S n).

Fixpoint first_some {A B} (f : A -> option B) (l : list A) : option B :=
  match l with [] => None | x :: r => match f x with Some y => Some y | None => first_some f r end end.

(* pieces, one per atom; `anchored_end` = the pattern must consume the whole text *)
Fixpoint match_atoms (anchored_end : bool) (atoms : list atom) (text : ustr) : option (list ustr) :=
  match atoms with
  | [] => if anchored_end then (match text with [] => Some [] | _ => None end) else Some []
  | ALit s :: rest =>
      if prefixb s text
      then match match_atoms anchored_end rest (skipn (length s) text) with Some ps => Some (s :: ps) | None => None end
      else None
  | AField _ c greedy min0 _ :: rest =>
      first_some (fun k =>
                    let piece := firstn k text in
                    if piece_ok c min0 piece
                    then match match_atoms anchored_end rest (skipn k text) with Some ps => Some (piece :: ps) | None => None end
                    else None)
                 (lengths greedy (length text))
  end.

(* ---- arguments ---- *)
Inductive value := XText (s : ustr) | XInt (z : Z) | XFloatOf (s : ustr) | XNone.
Record argument := mkArg { a_start : nat; a_end : nat; a_original : ustr; a_value : value; a_name : option ustr }.

Definition dec_digits (s : ustr) : Z := fold_left (fun a c => (a * 10 + Z.of_N (c - 48))%Z) s 0%Z.
(* parse's int conversion for the decimal alternative: the sign characters are '-' / '+' / ' ' *)
Definition int_value (s : ustr) : Z :=
  let neg := match s with c :: _ => N.eqb c 45 | [] => false end in
  let z := dec_digits (filter is_digit_c s) in
  if neg then (- z)%Z else z.

Definition convert (cv : conv) (s : ustr) : option value :=
  match cv with
  | VText => Some (XText s)
  | VInt => Some (XInt (int_value s))
  | VSmallInt => let z := int_value s in if Z.ltb 99 z then None else Some (XInt z)
  | VFloatText => Some (XFloatOf s)
  | VZeroNone => let z := int_value s in Some (if Z.eqb z 0 then XNone else XInt z)
  end.

Inductive match_result := NoMatch | ConvError | Matched (args : list argument).

Fixpoint build_args (atoms : list atom) (pieces : list ustr) (pos : nat) : option (list argument) :=
  match atoms, pieces with
  | [], _ => Some []
  | ALit _ :: ar, p :: pr => build_args ar pr (pos + length p)
  | AField name _ _ _ cv :: ar, p :: pr =>
      match convert cv p, build_args ar pr (pos + length p) with
      | Some v, Some rest => Some (mkArg pos (pos + length p) p v name :: rest)
      | _, _ => None
      end
  | _ :: _, [] => Some []
  end.

Definition match_pattern (anchored_end : bool) (atoms : list atom) (text : ustr) : match_result :=
  match match_atoms anchored_end atoms text with
  | None => NoMatch
  | Some pieces => match build_args atoms pieces 0 with Some args => Matched args | None => ConvError end
  end.

(* Match.run: anonymous arguments by position in text order, named ones by keyword *)
Definition positional (args : list argument) : list value :=
  flat_map (fun a => match a_name a with None => [a_value a] | Some _ => [] end) args.
Definition keywords (args : list argument) : list (ustr * value) :=
  flat_map (fun a => match a_name a with Some n => [(n, a_value a)] | None => [] end) args.

(* ---- the registry ---- *)
Inductive mkind := KParse | KCfparse | KRe | KRe0.
Inductive stype := TGiven | TWhen | TThen | TStep.

Definition mkind_eqb (a b : mkind) : bool :=
  match a, b with KParse, KParse | KCfparse, KCfparse | KRe, KRe | KRe0, KRe0 => true | _, _ => false end.
Definition stype_eqb (a b : stype) : bool :=
  match a, b with TGiven, TGiven | TWhen, TWhen | TThen, TThen | TStep, TStep => true | _, _ => false end.

(* a pattern as the step author wrote it: per matcher kind its text and its flat form; alternatives for `re` *)
Record pattern := mkPattern {
  p_text : mkind -> ustr;                 (* the decorator argument *)
  p_alts : mkind -> list (list atom);     (* top-level alternatives (one for parse / cfparse) *)
  p_end : bool }.                         (* re0 only: the author wrote the trailing "$" *)

Record sdef := mkDef {
  d_kind : mkind; d_type : stype; d_text : ustr; d_alts : list (list atom); d_end : bool; d_func : nat; d_loc : nat }.

(* Matcher.pattern: the simplified regex matcher stores the anchored expression *)
Definition pattern_attr (d : sdef) : ustr :=
  match d_kind d with KRe => [94; 40; 63; 58]%N ++ d_text d ++ [41; 36]%N | _ => d_text d end.   (* ^(?:...)$ *)

(* parse / cfparse match the whole text (\A...\Z), `re` is anchored by behave, `re0` only if the author did *)
Definition anchored (d : sdef) : bool := match d_kind d with KRe0 => d_end d | _ => true end.

Fixpoint match_alts (anch : bool) (alts : list (list atom)) (text : ustr) : match_result :=
  match alts with
  | [] => NoMatch
  | a :: r => match match_pattern anch a text with NoMatch => match_alts anch r text | res => res end
  end.

Definition match_def (d : sdef) (text : ustr) : match_result := match_alts (anchored d) (d_alts d) text.

(* Matcher.matches(step_text): used for the ambiguity test *)
Definition def_matches (d : sdef) (text : ustr) : bool :=
  ustr_eqb (pattern_attr d) text || match match_def d text with Matched _ => true | _ => false end.

Record registry := mkReg {
  r_given : list sdef; r_when : list sdef; r_then : list sdef; r_step : list sdef;
  r_current : mkind; r_default : mkind }.

Definition defs_of (r : registry) (t : stype) : list sdef :=
  match t with TGiven => r_given r | TWhen => r_when r | TThen => r_then r | TStep => r_step r end.

Definition with_defs (r : registry) (t : stype) (l : list sdef) : registry :=
  match t with
  | TGiven => mkReg l (r_when r) (r_then r) (r_step r) (r_current r) (r_default r)
  | TWhen => mkReg (r_given r) l (r_then r) (r_step r) (r_current r) (r_default r)
  | TThen => mkReg (r_given r) (r_when r) l (r_step r) (r_current r) (r_default r)
  | TStep => mkReg (r_given r) (r_when r) (r_then r) l (r_current r) (r_default r)
  end.

Definition same_definition (existing : sdef) (attr : ustr) (loc : nat) : bool :=
  ustr_eqb (pattern_attr existing) attr && Nat.eqb (d_loc existing) loc.

Inductive add_result := Added | Ignored | Ambiguous (with_loc : nat).

(* the loop of add_step_definition over the existing definitions of that type *)
Fixpoint scan (existing : list sdef) (attr text : ustr) (loc : nat) : add_result :=
  match existing with
  | [] => Added
  | e :: r => if same_definition e attr loc then Ignored
              else if def_matches e text then Ambiguous (d_loc e)
              else scan r attr text loc
  end.

Definition add_step (r : registry) (t : stype) (p : pattern) (func loc : nat) : registry * add_result :=
  let k := r_current r in
  let d := mkDef k t (p_text p k) (p_alts p k) (p_end p) func loc in
  match scan (defs_of r t) (pattern_attr d) (p_text p k) loc with
  | Added => (with_defs r t (defs_of r t ++ [d]), Added)
  | res => (r, res)
  end.

Definition candidates (r : registry) (t : stype) : list sdef :=
  match t with TStep => defs_of r TStep | _ => defs_of r t ++ defs_of r TStep end.

Inductive lookup_result := Undefined | Bound (func : nat) (res : match_result).

Fixpoint find_first (l : list sdef) (text : ustr) : lookup_result :=
  match l with
  | [] => Undefined
  | d :: r => match match_def d text with NoMatch => find_first r text | res => Bound (d_func d) res end
  end.

Definition find_match (r : registry) (t : stype) (text : ustr) : lookup_result := find_first (candidates r t) text.

Inductive rop :=
| Register (t : stype) (p : pattern) (func loc : nat)
| UseMatcher (k : mkind)
| UseDefault (k : option mkind)
| CurrentAsDefault
| Lookup (t : stype) (text : ustr).

Inductive rout := OAdd (a : add_result) | OLookup (l : lookup_result).

Definition rstep (r : registry) (o : rop) : registry * list rout :=
  match o with
  | Register t p f loc => let '(r', a) := add_step r t p f loc in (r', [OAdd a])
  | UseMatcher k => (mkReg (r_given r) (r_when r) (r_then r) (r_step r) k (r_default r), [])
  | UseDefault None => (mkReg (r_given r) (r_when r) (r_then r) (r_step r) (r_default r) (r_default r), [])
  | UseDefault (Some k) => (mkReg (r_given r) (r_when r) (r_then r) (r_step r) k k, [])
  | CurrentAsDefault => (mkReg (r_given r) (r_when r) (r_then r) (r_step r) (r_current r) (r_current r), [])
  | Lookup t text => (r, [OLookup (find_match r t text)])
  end.

Definition empty_registry : registry := mkReg [] [] [] [] KParse KParse.

Definition run_ops (ops : list rop) : registry * list rout :=
  fold_left (fun st o => let '(r, outs) := st in let '(r', o') := rstep r o in (r', outs ++ o')) ops (empty_registry, []).
