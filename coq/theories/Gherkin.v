(* Gherkin.v - behave/parser.py in two layers:
     facts   - everything the parser computes from one line alone (keyword matches, tag words, table cells, ...)
     machine - the state machine of Parser.action_* / _build_* consuming facts
   Outcomes: a model tree, or a ParserError with its line number.  Model only.
   Lists inside the machine state are kept newest-first and reversed by `finish`. *)
From BV Require Import Base UStr GherkinTypes.
From BVGen Require Import UnicodeTables GherkinTables.

(* ---- model tree ---- *)
Inductive stept := SGiven | SWhen | SThen.
Definition tag : Type := (ustr * nat)%type.

Record ptable := mkPTable { pt_head : list ustr; pt_rows : list (list ustr * nat); pt_line : nat }.
Record pstep := mkPStep {
  ps_kw : ustr; ps_type : stept; ps_name : ustr; ps_line : nat;
  ps_text : option (ustr * nat); ps_table : option ptable }.
Record pexamples := mkPEx { pe_kw : ustr; pe_name : ustr; pe_line : nat; pe_tags : list tag; pe_table : option ptable }.
Record pscen := mkPScen {
  sc_outline : bool; sc_kw : ustr; sc_name : ustr; sc_line : nat; sc_tags : list tag;
  sc_descr : list ustr; sc_steps : list pstep; sc_examples : list pexamples }.
Record pbg := mkPBg { bg_kw : ustr; bg_name : ustr; bg_line : nat; bg_steps : list pstep; bg_descr : list ustr }.
Record prule := mkPRule {
  r_kw : ustr; r_name : ustr; r_line : nat; r_tags : list tag; r_descr : list ustr;
  r_bg : option pbg; r_items : list pscen }.
Inductive fitem := FScen (s : pscen) | FRule (r : prule).
Record pfeature := mkPFeat {
  f_kw : ustr; f_name : ustr; f_line : nat; f_tags : list tag; f_descr : list ustr;
  f_bg : option pbg; f_items : list fitem; f_lang : ustr }.

(* ---- strings ---- *)
Definition is_linebreak (c : N) : bool := memN c linebreak_cps.

(* str.splitlines(): "\r\n" is one boundary, a trailing boundary opens no further line *)
Fixpoint splitlines_aux (s : ustr) (cur : ustr) : list ustr :=
  match s with
  | [] => match cur with [] => [] | _ => [rev cur] end
  | 13%N :: 10%N :: r => rev cur :: splitlines_aux r []
  | c :: r => if is_linebreak c then rev cur :: splitlines_aux r [] else splitlines_aux r (c :: cur)
  end.
Definition splitlines (s : ustr) : list ustr := splitlines_aux s [].

Fixpoint assoc_nn (c : N) (l : list (N * N)) : option N :=
  match l with [] => None | (a, b) :: r => if N.eqb a c then Some b else assoc_nn c r end.
(* lower case as far as a comparison with a lower-cased keyword can tell (see gen_gherkin) *)
Definition kw_lower (s : ustr) : ustr := map (fun c => match assoc_nn c kw_lower_pairs with Some d => d | None => c end) s.

Definition ends_with_char (c : N) (s : ustr) : bool := match rev s with x :: _ => N.eqb x c | [] => false end.

(* re.split(r"(?<!\\)\|", s): split at every '|' that does not directly follow a backslash *)
Fixpoint split_cells_aux (s : ustr) (prev_backslash : bool) (cur : ustr) : list ustr :=
  match s with
  | [] => [rev cur]
  | c :: r =>
      if N.eqb c 124 && negb prev_backslash then rev cur :: split_cells_aux r false []
      else split_cells_aux r (N.eqb c 92) (c :: cur)
  end.
Definition cell_text (s : ustr) : ustr := strip (replace_all [92; 124]%N [124%N] s).
Definition row_cells (stripped : ustr) : list ustr :=
  map cell_text (split_cells_aux (removelast (tl stripped)) false []).

(* ---- facts about one line ---- *)
Fixpoint first_alias (aliases : list ustr) (s : ustr) : option (ustr * ustr) :=
  match aliases with
  | [] => None
  | a :: r => if prefixb (a ++ [58%N]) s then Some (a, strip (skipn (S (length a)) s)) else first_alias r s
  end.

Inductive rawt := RGiven | RWhen | RThen | RAnd | RBut.

(* _select_step_keyword: of all keywords the line starts with (as written, or both lower-cased), the longest one; among
   equally long ones one that matches as written, else the first in scan order (given, when, then, and, but) *)
Definition kw_matches (k s low : ustr) : bool := prefixb k s || prefixb (kw_lower k) low.

Definition scan_order (kw : kwtable) : list (rawt * ustr) :=
  map (fun k => (RGiven, k)) (k_given kw) ++ map (fun k => (RWhen, k)) (k_when kw) ++ map (fun k => (RThen, k)) (k_then kw) ++
  map (fun k => (RAnd, k)) (k_and kw) ++ map (fun k => (RBut, k)) (k_but kw).

(* rank = (length of the keyword, matches as written); a later candidate replaces the best one only with a greater rank *)
Definition rank_lt (a b : nat * bool) : bool :=
  Nat.ltb (fst a) (fst b) || (Nat.eqb (fst a) (fst b) && negb (snd a) && snd b).

Fixpoint longest_match (cands : list (rawt * ustr)) (s low : ustr) (best : option (rawt * ustr * (nat * bool)))
  : option (rawt * ustr * (nat * bool)) :=
  match cands with
  | [] => best
  | (t, k) :: r =>
      if kw_matches k s low
      then let rk := (length k, prefixb k s) in
           match best with
           | Some (_, _, brk) => if rank_lt brk rk then longest_match r s low (Some (t, k, rk)) else longest_match r s low best
           | None => longest_match r s low (Some (t, k, rk))
           end
      else longest_match r s low best
  end.

Definition step_fact (kw : kwtable) (s : ustr) : option (rawt * ustr * ustr) :=
  match longest_match (scan_order kw) s (kw_lower s) None with
  | Some (t, k, _) => Some (t, k, strip (skipn (length k) s))
  | None => None
  end.

Definition cp_hash : N := 35%N.
Definition cp_at : N := 64%N.
Definition s_language : ustr := [108; 97; 110; 103; 117; 97; 103; 101; 58]%N.   (* "language:" *)

Definition lang_comment (stripped : ustr) : option ustr :=
  let body := strip (tl stripped) in
  if prefixb s_language (kw_lower (lstrip body)) then Some (strip (skipn 9 body)) else None.

Definition doc_fact (line : ustr) : option (ustr * nat) :=
  let ls := lstrip line in
  if prefixb [34; 34; 34]%N ls || prefixb [39; 39; 39]%N ls
  then Some (firstn 3 ls, length line - length ls) else None.

(* Parser.parse_tags(line): words starting with '@' are tags, a word starting with '#' ends the line, anything else is an error *)
Fixpoint tag_words (words : list ustr) (line : nat) : option (list tag) :=
  match words with
  | [] => Some []
  | w :: r =>
      match w with
      | 64%N :: name => match tag_words r line with Some ts => Some ((name, line) :: ts) | None => None end
      | 35%N :: _ => Some []
      | _ => None
      end
  end.

(* ---- machine state ---- *)
Inductive variant := VFeature | VRuleEntry | VOther.
Inductive pst := StInitial | StFeature | StTaggable | StBackground | StRule | StScenario | StSteps | StMultiline | StTable.
Inductive cont := CNone | CFeat | CRule.
Inductive sptr := PNone | PBg | PItem | PRuleS | PDetached.
Inductive sview := VBg (b : pbg) | VScen (s : pscen) | VRule (r : prule).

Record mstate := mkM {
  m_st : pst; m_line : nat; m_last : option stept;
  m_ml_start : nat; m_ml_lead : nat; m_ml_term : ustr;
  m_lang : ustr; m_kw : kwtable; m_variant : variant;
  m_feat : option pfeature; m_cont : cont; m_det_rule : option prule; m_stmt : sptr; m_det : option pscen;
  m_tags : list tag; m_lines : list ustr; m_table : option ptable; m_in_examples : bool }.

Definition upd_st (m : mstate) (s : pst) : mstate :=
  mkM s (m_line m) (m_last m) (m_ml_start m) (m_ml_lead m) (m_ml_term m) (m_lang m) (m_kw m) (m_variant m)
      (m_feat m) (m_cont m) (m_det_rule m) (m_stmt m) (m_det m) (m_tags m) (m_lines m) (m_table m) (m_in_examples m).
Definition upd_last (m : mstate) (l : option stept) : mstate :=
  mkM (m_st m) (m_line m) l (m_ml_start m) (m_ml_lead m) (m_ml_term m) (m_lang m) (m_kw m) (m_variant m)
      (m_feat m) (m_cont m) (m_det_rule m) (m_stmt m) (m_det m) (m_tags m) (m_lines m) (m_table m) (m_in_examples m).
Definition upd_tags (m : mstate) (t : list tag) : mstate :=
  mkM (m_st m) (m_line m) (m_last m) (m_ml_start m) (m_ml_lead m) (m_ml_term m) (m_lang m) (m_kw m) (m_variant m)
      (m_feat m) (m_cont m) (m_det_rule m) (m_stmt m) (m_det m) t (m_lines m) (m_table m) (m_in_examples m).
Definition upd_tree (m : mstate) (f : option pfeature) (c : cont) (dr : option prule) (p : sptr) (d : option pscen) : mstate :=
  mkM (m_st m) (m_line m) (m_last m) (m_ml_start m) (m_ml_lead m) (m_ml_term m) (m_lang m) (m_kw m) (m_variant m)
      f c dr p d (m_tags m) (m_lines m) (m_table m) (m_in_examples m).
Definition upd_ml (m : mstate) (start lead : nat) (term : ustr) (lines : list ustr) : mstate :=
  mkM (m_st m) (m_line m) (m_last m) start lead term (m_lang m) (m_kw m) (m_variant m)
      (m_feat m) (m_cont m) (m_det_rule m) (m_stmt m) (m_det m) (m_tags m) lines (m_table m) (m_in_examples m).
Definition upd_table (m : mstate) (t : option ptable) (inex : bool) : mstate :=
  mkM (m_st m) (m_line m) (m_last m) (m_ml_start m) (m_ml_lead m) (m_ml_term m) (m_lang m) (m_kw m) (m_variant m)
      (m_feat m) (m_cont m) (m_det_rule m) (m_stmt m) (m_det m) (m_tags m) (m_lines m) t inex.
Definition upd_lang (m : mstate) (l : ustr) (k : kwtable) : mstate :=
  mkM (m_st m) (m_line m) (m_last m) (m_ml_start m) (m_ml_lead m) (m_ml_term m) l k (m_variant m)
      (m_feat m) (m_cont m) (m_det_rule m) (m_stmt m) (m_det m) (m_tags m) (m_lines m) (m_table m) (m_in_examples m).
Definition upd_line (m : mstate) (n : nat) : mstate :=
  mkM (m_st m) n (m_last m) (m_ml_start m) (m_ml_lead m) (m_ml_term m) (m_lang m) (m_kw m) (m_variant m)
      (m_feat m) (m_cont m) (m_det_rule m) (m_stmt m) (m_det m) (m_tags m) (m_lines m) (m_table m) (m_in_examples m).

(* the rule currently being filled: the newest item of the feature, or the detached one of parse_rule *)
Definition cur_rule (m : mstate) : option prule :=
  match m_feat m with
  | Some f => match f_items f with FRule r :: _ => Some r | _ => None end
  | None => m_det_rule m
  end.
Definition set_cur_rule (m : mstate) (r : prule) : mstate :=
  match m_feat m with
  | Some f => match f_items f with
              | FRule _ :: rest =>
                  upd_tree m (Some (mkPFeat (f_kw f) (f_name f) (f_line f) (f_tags f) (f_descr f) (f_bg f) (FRule r :: rest) (f_lang f)))
                           (m_cont m) (m_det_rule m) (m_stmt m) (m_det m)
              | _ => m
              end
  | None => upd_tree m None (m_cont m) (Some r) (m_stmt m) (m_det m)
  end.

Definition cont_bg (m : mstate) : option pbg :=
  match m_cont m with
  | CNone => None
  | CFeat => match m_feat m with Some f => f_bg f | None => None end
  | CRule => match cur_rule m with Some r => r_bg r | None => None end
  end.

Definition set_feat_bg (f : pfeature) (b : option pbg) : pfeature :=
  mkPFeat (f_kw f) (f_name f) (f_line f) (f_tags f) (f_descr f) b (f_items f) (f_lang f).
Definition set_rule_bg (r : prule) (b : option pbg) : prule :=
  mkPRule (r_kw r) (r_name r) (r_line r) (r_tags r) (r_descr r) b (r_items r).

Definition set_cont_bg (m : mstate) (b : pbg) : mstate :=
  match m_cont m with
  | CNone => m
  | CFeat => match m_feat m with
             | Some f => upd_tree m (Some (set_feat_bg f (Some b))) (m_cont m) (m_det_rule m) (m_stmt m) (m_det m)
             | None => m
             end
  | CRule => match cur_rule m with Some r => set_cur_rule m (set_rule_bg r (Some b)) | None => m end
  end.

Definition get_stmt (m : mstate) : option sview :=
  match m_stmt m with
  | PNone => None
  | PBg => option_map VBg (cont_bg m)
  | PDetached => option_map VScen (m_det m)
  | PRuleS => option_map VRule (cur_rule m)
  | PItem =>
      match m_cont m with
      | CFeat => match m_feat m with
                 | Some f => match f_items f with FScen s :: _ => Some (VScen s) | _ => None end
                 | None => None
                 end
      | CRule => match cur_rule m with
                 | Some r => match r_items r with s :: _ => Some (VScen s) | [] => None end
                 | None => None
                 end
      | CNone => None
      end
  end.

Definition set_item (m : mstate) (s : pscen) : mstate :=
  match m_cont m with
  | CFeat => match m_feat m with
             | Some f => match f_items f with
                         | FScen _ :: rest =>
                             upd_tree m (Some (mkPFeat (f_kw f) (f_name f) (f_line f) (f_tags f) (f_descr f) (f_bg f) (FScen s :: rest) (f_lang f)))
                                      (m_cont m) (m_det_rule m) (m_stmt m) (m_det m)
                         | _ => m
                         end
             | None => m
             end
  | CRule => match cur_rule m with
             | Some r => match r_items r with
                         | _ :: rest => set_cur_rule m (mkPRule (r_kw r) (r_name r) (r_line r) (r_tags r) (r_descr r) (r_bg r) (s :: rest))
                         | [] => m
                         end
             | None => m
             end
  | CNone => m
  end.

Definition set_stmt (m : mstate) (v : sview) : mstate :=
  match m_stmt m, v with
  | PBg, VBg b => set_cont_bg m b
  | PDetached, VScen s => upd_tree m (m_feat m) (m_cont m) (m_det_rule m) (m_stmt m) (Some s)
  | PRuleS, VRule r => set_cur_rule m r
  | PItem, VScen s => set_item m s
  | _, _ => m
  end.

Definition view_steps (v : sview) : option (list pstep) :=
  match v with VBg b => Some (bg_steps b) | VScen s => Some (sc_steps s) | VRule _ => None end.
Definition view_set_steps (v : sview) (l : list pstep) : sview :=
  match v with
  | VBg b => VBg (mkPBg (bg_kw b) (bg_name b) (bg_line b) l (bg_descr b))
  | VScen s => VScen (mkPScen (sc_outline s) (sc_kw s) (sc_name s) (sc_line s) (sc_tags s) (sc_descr s) l (sc_examples s))
  | VRule r => VRule r
  end.
Definition view_add_descr (v : sview) (d : ustr) : sview :=
  match v with
  | VBg b => VBg (mkPBg (bg_kw b) (bg_name b) (bg_line b) (bg_steps b) (d :: bg_descr b))
  | VScen s => VScen (mkPScen (sc_outline s) (sc_kw s) (sc_name s) (sc_line s) (sc_tags s) (d :: sc_descr s) (sc_steps s) (sc_examples s))
  | VRule r => VRule (mkPRule (r_kw r) (r_name r) (r_line r) (r_tags r) (d :: r_descr r) (r_bg r) (r_items r))
  end.

(* ---- outcomes ---- *)
Inductive res (A : Type) := ROk (a : A) | RErr (line : nat).
Arguments ROk {A} a.
Arguments RErr {A} line.
Definition rbind {A B} (r : res A) (f : A -> res B) : res B := match r with ROk a => f a | RErr l => RErr l end.

(* ---- builders ---- *)
Definition name_after (alias_rest : ustr * ustr) : ustr := snd alias_rest.

Definition build_feature (m : mstate) (alias name : ustr) : mstate :=
  let f := mkPFeat alias name (m_line m) (m_tags m) [] None [] (m_lang m) in
  upd_tags (upd_tree m (Some f) CFeat (m_det_rule m) (m_stmt m) (m_det m)) [].

(* Rule: a rule of a feature that has a background starts with an (empty) background of its own that inherits it *)
Definition build_rule (m : mstate) (alias name : ustr) : res mstate :=
  let r := mkPRule alias name (m_line m) (m_tags m) [] None [] in
  match m_feat m with
  | Some f =>
      let f' := mkPFeat (f_kw f) (f_name f) (f_line f) (f_tags f) (f_descr f) (f_bg f) (FRule r :: f_items f) (f_lang f) in
      ROk (upd_tags (upd_tree m (Some f') CRule (m_det_rule m) PRuleS (m_det m)) [])
  | None =>
      match m_variant m with
      | VRuleEntry => ROk (upd_tags (upd_tree m None CRule (Some r) PRuleS (m_det m)) [])
      | _ => RErr (m_line m)
      end
  end.

Definition build_background (m : mstate) (alias name : ustr) : res mstate :=
  match m_tags m with
  | _ :: _ => RErr (m_line m)
  | [] =>
      match m_cont m with
      | CNone => RErr (m_line m)
      | _ =>
          match cont_bg m with
          | Some b => match bg_steps b with _ :: _ => RErr (m_line m) | [] =>
                        let m1 := set_cont_bg m (mkPBg alias name (m_line m) [] []) in
                        ROk (upd_tree m1 (m_feat m1) (m_cont m1) (m_det_rule m1) PBg (m_det m1)) end
          | None =>
              let m1 := set_cont_bg m (mkPBg alias name (m_line m) [] []) in
              ROk (upd_tree m1 (m_feat m1) (m_cont m1) (m_det_rule m1) PBg (m_det m1))
          end
      end
  end.

Definition add_item (m : mstate) (s : pscen) : mstate :=
  match m_cont m with
  | CFeat => match m_feat m with
             | Some f => upd_tree m (Some (mkPFeat (f_kw f) (f_name f) (f_line f) (f_tags f) (f_descr f) (f_bg f) (FScen s :: f_items f) (f_lang f)))
                                  CFeat (m_det_rule m) PItem (m_det m)
             | None => upd_tree m None CFeat (m_det_rule m) PDetached (Some s)
             end
  | CRule => match cur_rule m with
             | Some r => let m1 := set_cur_rule m (mkPRule (r_kw r) (r_name r) (r_line r) (r_tags r) (r_descr r) (r_bg r) (s :: r_items r)) in
                         upd_tree m1 (m_feat m1) CRule (m_det_rule m1) PItem (m_det m1)
             | None => upd_tree m (m_feat m) CRule (m_det_rule m) PDetached (Some s)
             end
  | CNone => upd_tree m (m_feat m) CNone (m_det_rule m) PDetached (Some s)
  end.

Definition build_scenario (m : mstate) (outline : bool) (alias name : ustr) : mstate :=
  upd_tags (add_item m (mkPScen outline alias name (m_line m) (m_tags m) [] [] [])) [].

Definition build_examples (m : mstate) (alias name : ustr) : res mstate :=
  match get_stmt m with
  | Some (VScen s) =>
      if sc_outline s
      then let e := mkPEx alias name (m_line m) (m_tags m) None in
           let s' := mkPScen true (sc_kw s) (sc_name s) (sc_line s) (sc_tags s) (sc_descr s) (sc_steps s) (e :: sc_examples s) in
           ROk (upd_table (upd_tags (set_stmt m (VScen s')) []) (m_table m) true)
      else RErr (m_line m)
  | _ => RErr (m_line m)
  end.

(* ---- steps ---- *)
(* _select_last_background_step_type: the container's background (a rule of a feature with background always has
   one, possibly the empty default), its own steps or else the steps it inherits from the feature's background *)
Definition last_bg_type (m : mstate) : option stept :=
  let feature_bg_steps := match m_feat m with Some f => match f_bg f with Some fb => bg_steps fb | None => [] end | None => [] end in
  let steps :=
    match m_cont m with
    | CNone => []
    | CFeat => match cont_bg m with Some b => bg_steps b | None => [] end
    | CRule => match cont_bg m with
               | Some b => match bg_steps b with [] => feature_bg_steps | l => l end
               | None => feature_bg_steps
               end
    end in
  match steps with s :: _ => Some (ps_type s) | [] => None end.

Definition starts_with_star (k : ustr) : bool := match k with 42%N :: _ => true | _ => false end.

(* result: no step on this line | error | a step and the new "last step type" *)
Definition parse_step (m : mstate) (s : ustr) : res (option (pstep * mstate)) :=
  match step_fact (m_kw m) s with
  | None => ROk None
  | Some (rt, k, text) =>
      let mk := fun (t : stept) (m' : mstate) => ROk (Some (mkPStep (rstrip k) t text (m_line m) None None, m')) in
      match (if starts_with_star k then m_last m else None) with
      | Some t => mk t m
      | None =>
          match rt with
          | RGiven => mk SGiven (upd_last m (Some SGiven))
          | RWhen => mk SWhen (upd_last m (Some SWhen))
          | RThen => mk SThen (upd_last m (Some SThen))
          | _ =>
              match m_last m with
              | Some t => mk t m
              | None => match last_bg_type m with
                        | Some t => mk t (upd_last m (Some t))
                        | None => RErr (m_line m)
                        end
              end
          end
      end
  end.

Definition append_step (m : mstate) (st : pstep) : option mstate :=
  match get_stmt m with
  | Some v => match view_steps v with
              | Some l => Some (set_stmt m (view_set_steps v (st :: l)))
              | None => None
              end
  | None => None
  end.

(* ---- the actions ---- *)
Definition sub_taggable (m : mstate) (s : ustr) : res (option mstate) :=
  match s with
  | 64%N :: _ =>
      match tag_words (split_ws s) (m_line m) with
      | Some ts => ROk (Some (upd_st (upd_tags m (m_tags m ++ ts)) StTaggable))
      | None => RErr (m_line m)
      end
  | _ =>
      match first_alias (k_rule (m_kw m)) s with
      | Some (a, n) => rbind (build_rule m a n) (fun m' => ROk (Some (upd_st m' StRule)))
      | None =>
      match first_alias (k_scenario (m_kw m)) s with
      | Some (a, n) => ROk (Some (upd_st (build_scenario m false a n) StScenario))
      | None =>
      match first_alias (k_outline (m_kw m)) s with
      | Some (a, n) => ROk (Some (upd_st (build_scenario m true a n) StScenario))
      | None =>
      match first_alias (k_examples (m_kw m)) s with
      | Some (a, n) => rbind (build_examples m a n) (fun m' => ROk (Some (upd_st m' StTable)))
      | None => ROk None
      end end end end
  end.

Definition a_initial (m : mstate) (s : ustr) : res mstate :=
  match s with
  | 64%N :: _ => match tag_words (split_ws s) (m_line m) with
                 | Some ts => ROk (upd_tags m (m_tags m ++ ts))
                 | None => RErr (m_line m)
                 end
  | _ => match first_alias (k_feature (m_kw m)) s with
         | Some (a, n) => ROk (upd_st (build_feature m a n) StFeature)
         | None => RErr (m_line m)
         end
  end.

Definition add_feature_descr (m : mstate) (d : ustr) : res mstate :=
  match m_feat m with
  | Some f => ROk (upd_tree m (Some (mkPFeat (f_kw f) (f_name f) (f_line f) (f_tags f) (d :: f_descr f) (f_bg f) (f_items f) (f_lang f)))
                            (m_cont m) (m_det_rule m) (m_stmt m) (m_det m))
  | None => RErr (m_line m)
  end.

Definition a_feature (m : mstate) (s : ustr) : res mstate :=
  rbind (sub_taggable m s) (fun o =>
    match o with
    | Some m' => ROk m'
    | None => match first_alias (k_background (m_kw m)) s with
              | Some (a, n) => rbind (build_background m a n) (fun m' => ROk (upd_st m' StBackground))
              | None => add_feature_descr m s
              end
    end).

Definition a_taggable (m : mstate) (s : ustr) : res mstate :=
  rbind (sub_taggable m s) (fun o => match o with Some m' => ROk m' | None => RErr (m_line m) end).

Definition a_rule (m : mstate) (s : ustr) : res mstate :=
  rbind (sub_taggable m s) (fun o =>
    match o with
    | Some m' => ROk m'
    | None => match first_alias (k_background (m_kw m)) s with
              | Some (a, n) => rbind (build_background m a n) (fun m' => ROk (upd_st m' StBackground))
              | None => match cur_rule m with
                        | Some r => ROk (set_cur_rule m (mkPRule (r_kw r) (r_name r) (r_line r) (r_tags r) (s :: r_descr r) (r_bg r) (r_items r)))
                        | None => RErr (m_line m)
                        end
              end
    end).

Definition a_scenario (m0 : mstate) (s : ustr) : res mstate :=
  let m := upd_last m0 None in
  rbind (parse_step m s) (fun o =>
    match o with
    | Some (st, m1) => match append_step m1 st with Some m2 => ROk (upd_st m2 StSteps) | None => RErr (m_line m) end
    | None =>
        rbind (sub_taggable m s) (fun o2 =>
          match o2 with
          | Some m' => ROk m'
          | None => match get_stmt m with
                    | Some v => ROk (set_stmt m (view_add_descr v s))
                    | None => RErr (m_line m)
                    end
          end)
    end).

Definition stmt_has_steps (m : mstate) : bool :=
  match get_stmt m with Some v => match view_steps v with Some (_ :: _) => true | _ => false end | None => false end.

Definition set_last_step (m : mstate) (f : pstep -> pstep) : mstate :=
  match get_stmt m with
  | Some v => match view_steps v with
              | Some (st :: r) => set_stmt m (view_set_steps v (f st :: r))
              | _ => m
              end
  | None => m
  end.

Definition table_rows_in_order (t : ptable) : ptable := mkPTable (pt_head t) (rev (pt_rows t)) (pt_line t).

Definition close_table (m : mstate) : mstate :=
  match m_table m with
  | None => upd_table m None false          (* an Examples block without rows: its table stays None *)
  | Some t =>
      let t' := table_rows_in_order t in
      if m_in_examples m
      then match get_stmt m with
           | Some (VScen s) =>
               match sc_examples s with
               | e :: r => let e' := mkPEx (pe_kw e) (pe_name e) (pe_line e) (pe_tags e) (Some t') in
                           upd_table (set_stmt m (VScen (mkPScen (sc_outline s) (sc_kw s) (sc_name s) (sc_line s) (sc_tags s) (sc_descr s)
                                                                    (sc_steps s) (e' :: r)))) None false
               | [] => upd_table m None false
               end
           | _ => upd_table m None false
           end
      else upd_table (set_last_step m (fun st => mkPStep (ps_kw st) (ps_type st) (ps_name st) (ps_line st) (ps_text st) (Some t'))) None false
  end.

Definition a_table_row (m : mstate) (s : ustr) : res mstate :=
  let cells := row_cells s in
  match m_table m with
  | None => ROk (upd_table m (Some (mkPTable cells [] (m_line m))) (m_in_examples m))
  | Some t => if Nat.eqb (length cells) (length (pt_head t))
              then ROk (upd_table m (Some (mkPTable (pt_head t) ((cells, m_line m) :: pt_rows t) (pt_line t))) (m_in_examples m))
              else RErr (m_line m)
  end.

Definition a_steps (m : mstate) (line : ustr) : res mstate :=
  let s := strip line in
  match doc_fact line with
  | Some (term, col) =>
      if stmt_has_steps m then ROk (upd_st (upd_ml m (m_line m) col term (m_lines m)) StMultiline) else RErr (m_line m)
  | None =>
      rbind (parse_step m s) (fun o =>
        match o with
        | Some (st, m1) => match append_step m1 st with Some m2 => ROk m2 | None => RErr (m_line m) end
        | None =>
            rbind (sub_taggable m s) (fun o2 =>
              match o2 with
              | Some m' => ROk m'
              | None =>
                  match s with
                  | 124%N :: _ => if stmt_has_steps m then a_table_row (upd_st m StTable) s else RErr (m_line m)
                  | _ => RErr (m_line m)
                  end
              end)
        end)
  end.

(* a line that is no table row ends the table; action_table hands the *stripped* line on to action_steps *)
Definition a_table (m : mstate) (line : ustr) : res mstate :=
  let s := strip line in
  match s with
  | 124%N :: _ => a_table_row m s
  | _ => a_steps (upd_st (close_table m) StSteps) s
  end.

Definition a_multiline (m : mstate) (line : ustr) : res mstate :=
  if prefixb (m_ml_term m) (strip line)
  then let text := join [10%N] (rev (m_lines m)) in
       let m1 := set_last_step m (fun st => mkPStep (ps_kw st) (ps_type st) (ps_name st) (ps_line st) (Some (text, m_ml_start m)) (ps_table st)) in
       ROk (upd_st (upd_ml m1 (m_ml_start m) (m_ml_lead m) [] []) StSteps)
  else
    let m1 := upd_ml m (m_ml_start m) (m_ml_lead m) (m_ml_term m) (rstrip (skipn (m_ml_lead m) line) :: m_lines m) in
    match strip (firstn (m_ml_lead m) line) with
    | [] => ROk m1
    | _ => RErr (m_line m)
    end.

Fixpoint find_lang (code : ustr) (l : list (ustr * kwtable)) : option kwtable :=
  match l with [] => None | (c, k) :: r => if ustr_eqb c code then Some k else find_lang code r end.

Definition action (m : mstate) (line : ustr) : res mstate :=
  let s := strip line in
  match m_st m, s with
  | StMultiline, _ => a_multiline m line
  | st, 35%N :: _ =>
      (* comment: ignored, except for a language header before anything else in a feature file *)
      match st, m_tags m, m_variant m with
      | StInitial, [], VFeature =>
          match lang_comment s with
          | Some code => match find_lang code languages with
                         | Some k => ROk (upd_lang m code k)
                         | None => RErr (m_line m)
                         end
          | None => ROk m
          end
      | _, _, _ => ROk m
      end
  | StInitial, _ => a_initial m s
  | StFeature, _ => a_feature m s
  | StTaggable, _ => a_taggable m s
  | StBackground, _ => a_scenario m s
  | StRule, _ => a_rule m s
  | StScenario, _ => a_scenario m s
  | StSteps, _ => a_steps m line
  | StTable, _ => a_table m line
  end.

Definition feed (acc : res mstate) (line : ustr) : res mstate :=
  rbind acc (fun m =>
    let m := upd_line m (S (m_line m)) in
    match strip line, m_st m with
    | [], StMultiline => action m line
    | [], _ => ROk m
    | _, _ => action m line
    end).

(* after the last line: an open table is closed; _parse_loop ignores what action_steps says about the empty line *)
Definition finish_table (acc : res mstate) : res mstate :=
  rbind acc (fun m => match m_table m with Some _ => ROk (upd_st (close_table m) StSteps) | None => ROk m end).

Definition init_state (lang : ustr) (kw : kwtable) (v : variant) (st : pst) : mstate :=
  mkM st 0 None 0 0 [] lang kw v None CNone None PNone None [] [] None false.

Definition parse_loop (m0 : mstate) (text : ustr) : res mstate :=
  finish_table (fold_left feed (splitlines text) (ROk m0)).

(* ---- lists back into file order ---- *)
Definition fin_table (t : ptable) : ptable := t.
Definition fin_step (s : pstep) : pstep := s.
Definition fin_ex (e : pexamples) : pexamples := e.
Definition fin_scen (s : pscen) : pscen :=
  mkPScen (sc_outline s) (sc_kw s) (sc_name s) (sc_line s) (sc_tags s) (rev (sc_descr s)) (rev (sc_steps s)) (rev (sc_examples s)).
Definition fin_bg (b : pbg) : pbg := mkPBg (bg_kw b) (bg_name b) (bg_line b) (rev (bg_steps b)) (rev (bg_descr b)).
Definition fin_rule (r : prule) : prule :=
  mkPRule (r_kw r) (r_name r) (r_line r) (r_tags r) (rev (r_descr r)) (option_map fin_bg (r_bg r)) (rev (map fin_scen (r_items r))).
Definition fin_item (i : fitem) : fitem := match i with FScen s => FScen (fin_scen s) | FRule r => FRule (fin_rule r) end.
Definition fin_feature (f : pfeature) : pfeature :=
  mkPFeat (f_kw f) (f_name f) (f_line f) (f_tags f) (rev (f_descr f)) (option_map fin_bg (f_bg f)) (rev (map fin_item (f_items f))) (f_lang f).

(* ---- entry points ---- *)
Inductive entry := EFeature | ERule | EScenario | ESteps | ETags.
Inductive parsed :=
| PFeature (f : option pfeature) | PRule (r : option prule) | PScenario (s : option pscen) | PSteps (l : list pstep)
| PTags (t : list tag).

Definition lang_table (language : option ustr) : option (ustr * kwtable) :=
  let code := match language with Some c => c | None => default_language end in
  match find_lang code languages with Some k => Some (code, k) | None => None end.

(* module-level parse_tags(text): every line that is not blank must be a tag line *)
Definition first_is (c : N) (s : ustr) : bool := match s with x :: _ => N.eqb x c | [] => false end.

Fixpoint parse_tag_lines (lines : list ustr) (n : nat) : res (list tag) :=
  match lines with
  | [] => ROk []
  | l :: r =>
      let s := strip l in
      if match s with [] => true | _ => first_is cp_hash s end then parse_tag_lines r (S n)    (* blank and comment lines *)
      else if first_is cp_at s
           then match tag_words (split_ws s) n with
                | Some ts => rbind (parse_tag_lines r (S n)) (fun rest => ROk (ts ++ rest))
                | None => RErr n
                end
           else RErr n
  end.

Definition dummy_scenario (kw : kwtable) : pscen :=
  mkPScen false (match k_scenario kw with a :: _ => a | [] => [] end) [] 0 [] [] [] [].

Definition parse (e : entry) (language : option ustr) (text : ustr) : option (res parsed) :=
  match e with
  | ETags => Some (rbind (parse_tag_lines (splitlines text) 1) (fun t => ROk (PTags t)))
  | _ =>
      match lang_table language with
      | None => None           (* an unknown language argument: KeyError of the caller, outside the parser *)
      | Some (code, kw) =>
          Some (match e with
                | EFeature => rbind (parse_loop (init_state code kw VFeature StInitial) text)
                                    (fun m => ROk (PFeature (option_map fin_feature (m_feat m))))
                | ERule => rbind (parse_loop (init_state code kw VRuleEntry StRule) text)
                                 (fun m => ROk (PRule (option_map fin_rule (cur_rule m))))
                | EScenario => rbind (parse_loop (init_state code kw VOther StScenario) text)
                                     (fun m => ROk (PScenario (match get_stmt m with Some (VScen s) => Some (fin_scen s) | _ => None end)))
                | _ =>
                    let m0 := init_state code kw VOther StSteps in
                    let m1 := upd_tree m0 None CNone None PDetached (Some (dummy_scenario kw)) in
                    rbind (parse_loop m1 text)
                          (fun m => ROk (PSteps (match m_det m with Some s => rev (sc_steps s) | None => [] end)))
                end)
      end
  end.
