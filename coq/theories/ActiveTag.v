(* ActiveTag.v - behave.tag_matcher: the active-tag schema recogniser, grouping by category,
   is_tag_group_enabled, should_exclude_with, value objects, composite matcher, value providers.
   Model only; prefixes, separator, negation of prefixes and character classes are generated. *)
From BV Require Import Base UStr.
From BVGen Require Import UnicodeTables ActiveTagTables.

Definition is_word (c : N) : bool := memN c word_cps.
Definition cDOT : N := 46.

(* category: \w+(\.\w+)*  *)
Fixpoint cat_ok_aux (s : ustr) (need_word : bool) : bool :=
  match s with
  | [] => negb need_word
  | c :: r => if is_word c then cat_ok_aux r false
              else if N.eqb c cDOT && negb need_word then cat_ok_aux r true
              else false
  end.
Definition cat_ok (s : ustr) : bool := cat_ok_aux s true.

Fixpoint split_first (sep : N) (s : ustr) (acc : ustr) : option (ustr * ustr) :=
  match s with
  | [] => None
  | c :: r => if N.eqb c sep then Some (rev acc, r) else split_first sep r (c :: acc)
  end.

Definition with_ : ustr := [46; 119; 105; 116; 104; 95]%N.   (* dot w i t h underscore *)

Record atag := mkATag { at_neg : bool; at_cat : ustr; at_val : ustr }.

(* the tag schema regular expression: one of the prefixes, dot with_, a category made of word
   characters with single dots inside, the separator, and any value without a newline *)
Fixpoint recognise_with (prefixes : list ustr) (negs : list bool) (tag : ustr) : option atag :=
  match prefixes, negs with
  | p :: ps, n :: ns =>
      if prefixb (p ++ with_) tag then
        let rest := skipn (length (p ++ with_)) tag in
        match at_separator with
        | [sep] =>
            match split_first sep rest [] with
            | Some (cat, val) =>
                if cat_ok cat && negb (existsb (fun c => memN c [10]%N) val)
                then Some (mkATag n cat val)
                else recognise_with ps ns tag
            | None => recognise_with ps ns tag
            end
        | _ => None
        end
      else recognise_with ps ns tag
  | _, _ => None
  end.
Definition recognise (tag : ustr) : option atag := recognise_with at_prefixes at_negated tag.

(* ---- current values *)
Inductive cmpop := OpEq | OpGe | OpLe | OpGt | OpLt | OpNe.
Inductive cvalue :=
| VStr (s : ustr)                    (* plain value / ValueObject with operator.eq on strings *)
| VNum (n : Z) (op : cmpop)          (* NumberValueObject *)
| VBool (b : bool)                   (* BoolValueObject *)
| VNone.                             (* the category is known, its current value is None *)

Definition cmp_z (op : cmpop) (cur tag : Z) : bool :=
  match op with
  | OpEq => Z.eqb cur tag | OpNe => negb (Z.eqb cur tag)
  | OpGe => Z.leb tag cur | OpLe => Z.leb cur tag | OpGt => Z.ltb tag cur | OpLt => Z.ltb cur tag
  end.

(* int(text) for an optional sign and ASCII digits (what the generators use); None = ValueError *)
Fixpoint digits_val (s : ustr) (acc : Z) : option Z :=
  match s with
  | [] => Some acc
  | c :: r => if memN c ascii_digit_cps then digits_val r (acc * 10 + Z.of_N (c - 48)) else None
  end.
Definition parse_int (s : ustr) : option Z :=
  match s with
  | [] => None
  | c :: r => if N.eqb c 45 then match r with [] => None | _ => option_map Z.opp (digits_val r 0) end
              else if N.eqb c 43 then match r with [] => None | _ => digits_val r 0 end
              else digits_val s 0
  end.

Definition lower_cp (c : N) : N :=
  match find (fun p => N.eqb (fst p) c) lower_pairs with Some p => snd p | None => c end.
Definition lower (s : ustr) : ustr := map lower_cp s.

Definition parse_bool (s : ustr) : option bool :=
  if existsb (ustr_eqb (lower s)) bool_true_strings then Some true
  else if existsb (ustr_eqb (lower s)) bool_false_strings then Some false
  else None.

Definition value_matches (v : cvalue) (tagval : ustr) : bool :=
  match v with
  | VStr s => ustr_eqb s tagval
  | VNum n op => match parse_int tagval with Some t => cmp_z op n t | None => false end
  | VBool b => match parse_bool tagval with Some t => Bool.eqb b t | None => false end
  | VNone => false
  end.

(* ---- provider: category -> current value; None = unknown category *)
Definition provider := list (ustr * cvalue).
Fixpoint pget (p : provider) (cat : ustr) : option cvalue :=
  match p with
  | [] => None
  | (c, v) :: r => if ustr_eqb c cat then Some v else pget r cat
  end.

(* CompositeActiveTagValueProvider: the first provider that knows the category *)
Fixpoint composite_get (ps : list provider) (cat : ustr) : option cvalue :=
  match ps with
  | [] => None
  | p :: r => match pget p cat with Some v => Some v | None => composite_get r cat end
  end.

(* ---- grouping by category, in order of first occurrence *)
Fixpoint add_to_group (a : atag) (gs : list (ustr * list atag)) : list (ustr * list atag) :=
  match gs with
  | [] => [(at_cat a, [a])]
  | (c, l) :: r => if ustr_eqb c (at_cat a) then (c, l ++ [a]) :: r else (c, l) :: add_to_group a r
  end.

Definition active_tags (tags : list ustr) : list atag :=
  flat_map (fun t => match recognise t with Some a => [a] | None => [] end) tags.

Definition group_tags (ats : list atag) : list (ustr * list atag) := fold_left (fun gs a => add_to_group a gs) ats [].

Definition group_enabled (get : ustr -> option cvalue) (cat : ustr) (g : list atag) : bool :=
  match g with
  | [] => true
  | _ =>
      match get cat with
      | None => if at_ignore_unknown then true
                else (* the sentinel itself is wrapped and compared: nothing matches *)
                  match filter (fun a => negb (at_neg a)) g with [] => true | _ => false end
      | Some v =>
          let pos := map (fun a => value_matches v (at_val a)) (filter (fun a => negb (at_neg a)) g) in
          let neg := map (fun a => value_matches v (at_val a)) (filter at_neg g) in
          (match pos with [] => true | _ => existsb id pos end) && negb (existsb id neg)
      end
  end.

Definition should_exclude (get : ustr -> option cvalue) (tags : list ustr) : bool :=
  existsb (fun cg => negb (group_enabled get (fst cg) (snd cg))) (group_tags (active_tags tags)).

Definition composite_exclude (gets : list (ustr -> option cvalue)) (tags : list ustr) : bool :=
  existsb (fun g => should_exclude g tags) gets.

(* the documented formula, stated without grouping *)
Definition excluded_by_formula (get : ustr -> option cvalue) (tags : list ustr) : bool :=
  let ats := active_tags tags in
  existsb (fun a =>
             match get (at_cat a) with
             | None => false
             | Some v =>
                 let same := filter (fun b => ustr_eqb (at_cat b) (at_cat a)) ats in
                 let pos := filter (fun b => negb (at_neg b)) same in
                 let neg := filter at_neg same in
                 (match pos with [] => false | _ => negb (existsb (fun b => value_matches v (at_val b)) pos) end)
                 || existsb (fun b => value_matches v (at_val b)) neg
             end) ats.
