(* Protocol.v — the formatter event protocol of a whole run (C15) as an automaton, and the
   proof that the event stream of every run is accepted by it.
     run      ::= (uri [feature])* close
     feature  ::= FFeature [FBackground] (rule | scenario)* FEof
     rule     ::= FRuleEv [FBackground] scenario*
     scenario ::= FScenario FStepAnn* (FMatch FResult)*   -- results name the announced steps,
                                                             in order, at most one pair per step
   The automaton is the specification; the stream is that of Runner.v. *)
From BV Require Import Base Status Rollup Runner RunnerSteps RunnerQuiet Formatters FormattersProofs.
From BVGen Require Import StatusTable.

Inductive pstate :=
| PStart                                   (* between features, nothing pending *)
| PUri                                     (* uri announced; a feature may follow *)
| PFeat (ann : bool) (q : list nat) (m : bool)
    (* inside a feature; ann: the current scenario is still announcing its steps;
       q: announced steps not yet reported; m: a match is waiting for its result *)
| PClosed.

Definition proto_step (s : pstate) (e : fevent) : option pstate :=
  match s with
  | PStart => match e with FUri _ => Some PUri | FClose => Some PClosed | _ => None end
  | PUri =>
      match e with
      | FUri _ => Some PUri | FClose => Some PClosed | FFeature _ => Some (PFeat false [] false)
      | _ => None
      end
  | PFeat ann q false =>
      match e with
      | FBackground _ | FRuleEv _ => Some (PFeat false [] false)
      | FScenario _ => Some (PFeat true [] false)
      | FStepAnn id => if ann then Some (PFeat true (q ++ [id]) false) else None
      | FMatch _ => match q with [] => None | _ :: _ => Some (PFeat false q true) end
      | FEof => Some PStart
      | _ => None
      end
  | PFeat _ q true =>
      match e with
      | FResult sid _ =>
          match q with
          | id :: q' => if Nat.eqb sid id then Some (PFeat false q' false) else None
          | [] => None
          end
      | _ => None
      end
  | PClosed => None
  end.

Fixpoint proto_fold (s : pstate) (evs : list fevent) : option pstate :=
  match evs with
  | [] => Some s
  | e :: r => match proto_step s e with Some s' => proto_fold s' r | None => None end
  end.

Definition protocol_ok (evs : list fevent) : bool :=
  match proto_fold PStart evs with Some PClosed => true | _ => false end.

(* ------------------------------------------------------------------ proofs *)
Lemma proto_fold_app s a b :
  proto_fold s (a ++ b) = match proto_fold s a with Some s' => proto_fold s' b | None => None end.
Proof. revert s. induction a as [|e a IH]; intros s; cbn; [reflexivity|]. destruct (proto_step s e); auto. Qed.

(* "open": inside a feature with no match pending *)
Definition open (s : pstate) : Prop := exists a q, s = PFeat a q false.

Definition keeps_open (evs : list fevent) : Prop :=
  forall s, open s -> exists s', proto_fold s evs = Some s' /\ open s'.

Lemma keeps_open_nil : keeps_open [].
Proof. intros s H. exists s. auto. Qed.

Lemma keeps_open_app a b : keeps_open a -> keeps_open b -> keeps_open (a ++ b).
Proof.
  intros Ha Hb s Hs. destruct (Ha s Hs) as (s1 & E1 & O1). destruct (Hb s1 O1) as (s2 & E2 & O2).
  exists s2. rewrite proto_fold_app, E1. auto.
Qed.

Lemma fold_anns q (steps : list step) :
  proto_fold (PFeat true q false) (map (fun s => FStepAnn (st_id s)) steps)
  = Some (PFeat true (q ++ map st_id steps) false).
Proof.
  revert q. induction steps as [|s r IH]; intros q; cbn [map proto_fold proto_step].
  - now rewrite app_nil_r.
  - rewrite IH. now rewrite <- app_assoc.
Qed.

Lemma fold_processed n : forall a (steps : list step) sts,
  n <= length steps -> length sts = length steps ->
  exists a', proto_fold (PFeat a (map st_id steps) false) (processed n steps sts)
             = Some (PFeat a' (map st_id (skipn n steps)) false).
Proof.
  induction n as [|n IH]; intros a steps sts Hn Hl.
  - exists a. reflexivity.
  - destruct steps as [|s r]; [cbn in Hn; lia|]. destruct sts as [|x sts]; [discriminate|].
    cbn in Hn, Hl. unfold processed. cbn [combine firstn flat_map step_pair fst snd map app].
    cbn [proto_fold proto_step]. rewrite Nat.eqb_refl.
    destruct (IH false r sts) as (a' & E); [lia|lia|]. exists a'. exact E.
Qed.

Lemma scenario_stream_keeps_open shown id steps sts n :
  n <= length steps -> length sts = length steps -> (shown = false -> n = 0) ->
  keeps_open (announcement shown id steps ++ processed n steps sts).
Proof.
  intros Hn Hl Hs s (a & q & ->). destruct shown.
  - unfold announcement. cbn [app proto_fold proto_step]. rewrite proto_fold_app, fold_anns. cbn [app].
    destruct (fold_processed n true steps sts Hn Hl) as (a' & E). rewrite E.
    eexists; split; [reflexivity|]. eexists; eexists; reflexivity.
  - rewrite (Hs eq_refl). cbn. eexists; split; [reflexivity|]. eexists; eexists; reflexivity.
Qed.

Lemma run_scenario_keeps_open cfg st id all_steps oe eff own st' res fld ev :
  run_scenario cfg st id all_steps oe eff own = (st', res, fld, ev) -> keeps_open (fmt_of ev).
Proof.
  intros E. apply scenario_fmt_shape in E as (n & A & B & C & D). rewrite C.
  apply scenario_stream_keeps_open; auto.
  intros H. apply orb_false_iff in H as [H _]. auto.
Qed.

Lemma run_rows_keeps_open cfg all_steps oe anc rows : forall st stopped st' rs fld ev,
  run_rows cfg st all_steps oe anc rows stopped = (st', rs, fld, ev) -> keeps_open (fmt_of ev).
Proof.
  induction rows as [|rw r IH]; intros st stopped st' rs fld ev; cbn [run_rows].
  - intros E; inversion E; subst. apply keeps_open_nil.
  - destruct stopped.
    + destruct (run_rows cfg st all_steps oe anc r true) as [[[st2 rs2] f2] ev2] eqn:E2.
      intros E; inversion E; subst. eapply IH; eauto.
    + destruct (run_scenario cfg st (rw_id rw) all_steps oe (rw_tags rw ++ anc) (rw_tags rw))
        as [[[st1 res] fld1] ev1] eqn:E1.
      match goal with |- context [run_rows cfg st1 all_steps oe anc r ?B] =>
        destruct (run_rows cfg st1 all_steps oe anc r B) as [[[st2 rs2] f2] ev2] eqn:E2 end.
      intros E; inversion E; subst. rewrite fmt_of_app. apply keeps_open_app.
      * eapply run_scenario_keeps_open; eauto.
      * eapply IH; eauto.
Qed.

Lemma run_sitem_keeps_open cfg st bg anc it st' res fld ev :
  run_sitem cfg st bg anc it = (st', res, fld, ev) -> keeps_open (fmt_of ev).
Proof.
  destruct it as [s|o]; cbn [run_sitem].
  - match goal with |- context [run_scenario ?a ?b ?c0 ?d ?e ?f ?g] =>
      destruct (run_scenario a b c0 d e f g) as [[[st1 r1] f1] e1] eqn:E1 end.
    intros E; inversion E; subst. eapply run_scenario_keeps_open; eauto.
  - unfold run_outline.
    match goal with |- context [run_rows ?a ?b ?c0 ?d ?e ?f ?g] =>
      destruct (run_rows a b c0 d e f g) as [[[st1 r1] f1] e1] eqn:E1 end.
    intros E; inversion E; subst. eapply run_rows_keeps_open; eauto.
Qed.

Lemma run_sitems_keeps_open cfg bg anc items : forall st stopped st' rs fld ev,
  run_sitems cfg st bg anc items stopped = (st', rs, fld, ev) -> keeps_open (fmt_of ev).
Proof.
  induction items as [|it r IH]; intros st stopped st' rs fld ev; cbn [run_sitems].
  - intros E; inversion E; subst. apply keeps_open_nil.
  - destruct stopped.
    + destruct (run_sitems cfg st bg anc r true) as [[[st2 rs2] f2] ev2] eqn:E2.
      intros E; inversion E; subst. eapply IH; eauto.
    + destruct (run_sitem cfg st bg anc it) as [[[st1 res] fld1] ev1] eqn:E1.
      match goal with |- context [run_sitems cfg st1 bg anc r ?B] =>
        destruct (run_sitems cfg st1 bg anc r B) as [[[st2 rs2] f2] ev2] eqn:E2 end.
      intros E; inversion E; subst. rewrite fmt_of_app. apply keeps_open_app.
      * eapply run_sitem_keeps_open; eauto.
      * eapply IH; eauto.
Qed.

Lemma keeps_open_rule_ann rid (hb : bool) l :
  keeps_open (FRuleEv rid :: (if hb then [FBackground l] else [])).
Proof.
  intros s (a & q & ->). destruct hb; cbn; eexists; split; try reflexivity; eexists; eexists; reflexivity.
Qed.

Lemma run_rule_keeps_open cfg st r anc inh fhb st' res fld ev :
  run_rule cfg st r anc inh fhb = (st', res, fld, ev) -> keeps_open (fmt_of ev).
Proof.
  unfold run_rule. cbv zeta.
  set (hc := negb (c_dry cfg) && rule_runs cfg anc r).
  assert (F1 : forall st1 hf e, (if hc then
        let '(sa, b1, e1) := run_tag_hooks cfg (push st) HBeforeTag (r_tags r) in
        let '(sb, b2, e2) := run_hook cfg sa HBeforeRule (r_id r) in (sb, b1 || b2, e1 ++ e2)
      else (push st, false, [])) = (st1, hf, e) -> fmt_of e = []).
  { intros st1 hf e. destruct hc.
    - destruct (run_tag_hooks cfg (push st) HBeforeTag (r_tags r)) as [[sa b1] e1] eqn:E1.
      apply run_tag_hooks_fmt in E1.
      destruct (run_hook cfg sa HBeforeRule (r_id r)) as [[sb b2] e2] eqn:E2. apply run_hook_fmt in E2.
      intros E; inversion E; subst. now rewrite fmt_of_app, E1, E2.
    - intros E; inversion E; subst. reflexivity. }
  match goal with |- context [if hc then ?A else ?B] => destruct (if hc then A else B) as [[st1 hf] evb] end.
  specialize (F1 _ _ _ eq_refl).
  match goal with |- context [run_sitems ?a ?b ?c0 ?d ?e ?f] =>
    destruct (run_sitems a b c0 d e f) as [[[st2 rs] itf] evi] eqn:E3 end.
  apply run_sitems_keeps_open in E3.
  assert (F3 : forall st3 hf2 e, (if hc then
        let '(sa, b1, e1) := run_hook cfg st2 HAfterRule (r_id r) in
        let '(sb, b2, e2) := run_tag_hooks cfg sa HAfterTag (r_tags r) in (sb, hf || b1 || b2, e1 ++ e2)
      else (st2, hf, [])) = (st3, hf2, e) -> fmt_of e = []).
  { intros st3 hf2 e. destruct hc.
    - destruct (run_hook cfg st2 HAfterRule (r_id r)) as [[sa b1] e1] eqn:E1. apply run_hook_fmt in E1.
      destruct (run_tag_hooks cfg sa HAfterTag (r_tags r)) as [[sb b2] e2] eqn:E2.
      apply run_tag_hooks_fmt in E2.
      intros E; inversion E; subst. now rewrite fmt_of_app, E1, E2.
    - intros E; inversion E; subst. reflexivity. }
  match goal with |- context [if hc then ?A else ?B] => destruct (if hc then A else B) as [[st3 hf2] eva] end.
  specialize (F3 _ _ _ eq_refl).
  destruct (pop st3) as [[st4 cr] evp] eqn:E4. apply pop_fmt in E4.
  intros E; inversion E; subst; clear E.
  rewrite !fmt_of_app, F1, F3, E4. cbn [app]. rewrite app_nil_r.
  apply keeps_open_app; [|exact E3].
  destruct (rule_runs cfg anc r || c_show_skipped cfg); [|apply keeps_open_nil].
  cbn [fmt_of].
  replace (fmt_of (if match r_bg r with Some _ => true | None => fhb end
                   then [EFmt (FBackground (map st_id (opt_steps (r_bg r))))] else []))
    with (if match r_bg r with Some _ => true | None => fhb end
          then [FBackground (map st_id (opt_steps (r_bg r)))] else [])
    by (destruct (match r_bg r with Some _ => true | None => fhb end); reflexivity).
  apply keeps_open_rule_ann.
Qed.

Lemma run_fitem_keeps_open cfg st bg hb anc it st' res fld ev :
  run_fitem cfg st bg hb anc it = (st', res, fld, ev) -> keeps_open (fmt_of ev).
Proof.
  destruct it as [i|r]; cbn [run_fitem].
  - destruct (run_sitem cfg st bg anc i) as [[[st1 r1] f1] e1] eqn:E1.
    intros E; inversion E; subst. eapply run_sitem_keeps_open; eauto.
  - destruct (run_rule cfg st r anc bg hb) as [[[st1 r1] f1] e1] eqn:E1.
    intros E; inversion E; subst. eapply run_rule_keeps_open; eauto.
Qed.

Lemma run_fitems_keeps_open cfg bg hb anc items : forall st stopped st' rs fld ev,
  run_fitems cfg st bg hb anc items stopped = (st', rs, fld, ev) -> keeps_open (fmt_of ev).
Proof.
  induction items as [|it r IH]; intros st stopped st' rs fld ev; cbn [run_fitems].
  - intros E; inversion E; subst. apply keeps_open_nil.
  - destruct stopped.
    + destruct (run_fitems cfg st bg hb anc r true) as [[[st2 rs2] f2] ev2] eqn:E2.
      intros E; inversion E; subst. eapply IH; eauto.
    + destruct (run_fitem cfg st bg hb anc it) as [[[st1 res] fld1] ev1] eqn:E1.
      match goal with |- context [run_fitems cfg st1 bg hb anc r ?B] =>
        destruct (run_fitems cfg st1 bg hb anc r B) as [[[st2 rs2] f2] ev2] eqn:E2 end.
      intros E; inversion E; subst. rewrite fmt_of_app. apply keeps_open_app.
      * eapply run_fitem_keeps_open; eauto.
      * eapply IH; eauto.
Qed.

(* ---- an element that is neither selected nor shown reports nothing *)
Section Silent.
Variable cfg : config.
Hypothesis Hshow : c_show_skipped cfg = false.

Lemma silent_rows all_steps oe anc rows : forall st stopped st' rs fld ev,
  forallb (fun rw => negb (sel cfg (rw_tags rw ++ anc))) rows = true ->
  run_rows cfg st all_steps oe anc rows stopped = (st', rs, fld, ev) -> fmt_of ev = [].
Proof.
  induction rows as [|rw r IH]; intros st stopped st' rs fld ev Hall; cbn [run_rows].
  - intros E; inversion E; subst. reflexivity.
  - cbn [forallb] in Hall. apply andb_true_iff in Hall as [H1 H2]. apply negb_true_iff in H1.
    destruct stopped.
    + destruct (run_rows cfg st all_steps oe anc r true) as [[[st2 rs2] f2] ev2] eqn:E2.
      intros E; inversion E; subst. eapply IH; eauto.
    + rewrite (run_scenario_unselected _ _ _ _ _ _ _ H1). rewrite Hshow.
      match goal with |- context [run_rows cfg st all_steps oe anc r ?B] =>
        destruct (run_rows cfg st all_steps oe anc r B) as [[[st2 rs2] f2] ev2] eqn:E2 end.
      intros E; inversion E; subst. cbn [app]. eapply IH; eauto.
Qed.

Lemma existsb_false_forallb {A} (f : A -> bool) l :
  existsb f l = false -> forallb (fun x => negb (f x)) l = true.
Proof.
  induction l as [|x r IH]; cbn; [reflexivity|]. intros H. apply orb_false_iff in H as [H1 H2].
  now rewrite H1, IH.
Qed.

Lemma silent_sitem st bg anc it st' res fld ev :
  sitem_any_sel cfg anc it = false ->
  run_sitem cfg st bg anc it = (st', res, fld, ev) -> fmt_of ev = [].
Proof.
  destruct it as [s|o]; cbn [sitem_any_sel run_sitem]; intros Hs.
  - rewrite (run_scenario_unselected _ _ _ _ _ _ _ Hs). rewrite Hshow.
    intros E; inversion E; subst. reflexivity.
  - rename Hs into Hrows. apply existsb_false_forallb in Hrows.
    unfold run_outline.
    match goal with |- context [run_rows ?a ?b ?c0 ?d ?e ?f ?g] =>
      destruct (run_rows a b c0 d e f g) as [[[st1 r1] f1] e1] eqn:E1 end.
    intros E; inversion E; subst. eapply silent_rows; eauto.
Qed.

Lemma silent_sitems bg anc items : forall st stopped st' rs fld ev,
  forallb (fun it => negb (sitem_any_sel cfg anc it)) items = true ->
  run_sitems cfg st bg anc items stopped = (st', rs, fld, ev) -> fmt_of ev = [].
Proof.
  induction items as [|it r IH]; intros st stopped st' rs fld ev Hall; cbn [run_sitems].
  - intros E; inversion E; subst. reflexivity.
  - cbn [forallb] in Hall. apply andb_true_iff in Hall as [H1 H2]. apply negb_true_iff in H1.
    destruct stopped.
    + destruct (run_sitems cfg st bg anc r true) as [[[st2 rs2] f2] ev2] eqn:E2.
      intros E; inversion E; subst. eapply IH; eauto.
    + destruct (run_sitem cfg st bg anc it) as [[[st1 res] fld1] ev1] eqn:E1.
      apply silent_sitem in E1; [|assumption].
      match goal with |- context [run_sitems cfg st1 bg anc r ?B] =>
        destruct (run_sitems cfg st1 bg anc r B) as [[[st2 rs2] f2] ev2] eqn:E2 end.
      intros E; inversion E; subst. rewrite fmt_of_app, E1. cbn [app]. eapply IH; eauto.
Qed.

Lemma silent_rule st r anc inh fhb st' res fld ev :
  rule_runs cfg anc r = false ->
  run_rule cfg st r anc inh fhb = (st', res, fld, ev) -> fmt_of ev = [].
Proof.
  intros Hs. unfold run_rule. rewrite Hs, Hshow. rewrite andb_false_r. cbn [orb].
  assert (Hitems : forallb (fun it => negb (sitem_any_sel cfg (r_tags r ++ anc) it)) (r_items r) = true).
  { rewrite forallb_forall. intros x Hx. apply negb_true_iff.
    unfold rule_runs in Hs. apply andb_false_iff in Hs as [Hs|Hs].
    - apply sitem_any_sel_le. unfold rule_should_run in Hs. apply orb_false_iff in Hs as [_ Hi].
      destruct (sitem_should_run cfg (r_tags r ++ anc) x) eqn:Ex; [|reflexivity].
      assert (existsb (sitem_should_run cfg (r_tags r ++ anc)) (r_items r) = true)
        by (apply existsb_exists; exists x; auto). congruence.
    - apply sitem_any_sel_excluded. now apply negb_false_iff in Hs. }
  match goal with |- context [run_sitems ?a ?b ?c0 ?d ?e ?f] =>
    destruct (run_sitems a b c0 d e f) as [[[st2 rs] itf] evi] eqn:E3 end.
  apply silent_sitems in E3; [|assumption].
  destruct (pop st2) as [[st4 cr] evp] eqn:E4. apply pop_fmt in E4.
  intros E; inversion E; subst. cbn [app]. now rewrite !fmt_of_app, E3, E4.
Qed.

Lemma silent_fitems bg hb anc items : forall st stopped st' rs fld ev,
  forallb (fun it => negb (fitem_runs cfg anc it)) items = true ->
  run_fitems cfg st bg hb anc items stopped = (st', rs, fld, ev) -> fmt_of ev = [].
Proof.
  induction items as [|it r IH]; intros st stopped st' rs fld ev Hall; cbn [run_fitems].
  - intros E; inversion E; subst. reflexivity.
  - cbn [forallb] in Hall. apply andb_true_iff in Hall as [H1 H2]. apply negb_true_iff in H1.
    destruct stopped.
    + destruct (run_fitems cfg st bg hb anc r true) as [[[st2 rs2] f2] ev2] eqn:E2.
      intros E; inversion E; subst. eapply IH; eauto.
    + assert (S1 : forall st1 res fld1 ev1, run_fitem cfg st bg hb anc it = (st1, res, fld1, ev1) -> fmt_of ev1 = []).
      { intros st1 res fld1 ev1. destruct it as [i|rl]; cbn [run_fitem fitem_runs] in *.
        - destruct (run_sitem cfg st bg anc i) as [[[sa ra] fa] ea] eqn:Ea. apply silent_sitem in Ea; [|assumption].
          intros E; inversion E; subst. exact Ea.
        - destruct (run_rule cfg st rl anc bg hb) as [[[sa ra] fa] ea] eqn:Ea. apply silent_rule in Ea; [|assumption].
          intros E; inversion E; subst. exact Ea. }
      destruct (run_fitem cfg st bg hb anc it) as [[[st1 res] fld1] ev1] eqn:E1.
      specialize (S1 _ _ _ _ eq_refl).
      match goal with |- context [run_fitems cfg st1 bg hb anc r ?B] =>
        destruct (run_fitems cfg st1 bg hb anc r B) as [[[st2 rs2] f2] ev2] eqn:E2 end.
      intros E; inversion E; subst. rewrite fmt_of_app, S1. cbn [app]. eapply IH; eauto.
Qed.

End Silent.

(* ---- a feature: from "uri announced" back to "between features" *)
Definition outside (s : pstate) : Prop := s = PStart \/ s = PUri.

Lemma run_feature_protocol cfg st f st' res fld ev :
  run_feature cfg st f = (st', res, fld, ev) ->
  exists s', proto_fold PUri (fmt_of ev) = Some s' /\ outside s'.
Proof.
  unfold run_feature. cbv zeta.
  set (hc := negb (c_dry cfg) && feature_should_run cfg f).
  assert (F1 : forall st1 hf e, (if hc then
        let '(sa, b1, e1) := run_tag_hooks cfg (push st) HBeforeTag (f_tags f) in
        let '(sb, b2, e2) := run_hook cfg sa HBeforeFeature (f_id f) in (sb, b1 || b2, e1 ++ e2)
      else (push st, false, [])) = (st1, hf, e) -> fmt_of e = []).
  { intros st1 hf e. destruct hc.
    - destruct (run_tag_hooks cfg (push st) HBeforeTag (f_tags f)) as [[sa b1] e1] eqn:E1.
      apply run_tag_hooks_fmt in E1.
      destruct (run_hook cfg sa HBeforeFeature (f_id f)) as [[sb b2] e2] eqn:E2. apply run_hook_fmt in E2.
      intros E; inversion E; subst. now rewrite fmt_of_app, E1, E2.
    - intros E; inversion E; subst. reflexivity. }
  match goal with |- context [if hc then ?A else ?B] => destruct (if hc then A else B) as [[st1 hf] evb] end.
  specialize (F1 _ _ _ eq_refl).
  match goal with |- context [run_fitems ?a ?b ?c0 ?d ?e ?f0 ?g] =>
    destruct (run_fitems a b c0 d e f0 g) as [[[st2 rs] itf] evi] eqn:E3 end.
  assert (F3 : forall st3 hf2 e, (if hc then
        let '(sa, b1, e1) := run_hook cfg st2 HAfterFeature (f_id f) in
        let '(sb, b2, e2) := run_tag_hooks cfg sa HAfterTag (f_tags f) in (sb, hf || b1 || b2, e1 ++ e2)
      else (st2, hf, [])) = (st3, hf2, e) -> fmt_of e = []).
  { intros st3 hf2 e. destruct hc.
    - destruct (run_hook cfg st2 HAfterFeature (f_id f)) as [[sa b1] e1] eqn:E1. apply run_hook_fmt in E1.
      destruct (run_tag_hooks cfg sa HAfterTag (f_tags f)) as [[sb b2] e2] eqn:E2.
      apply run_tag_hooks_fmt in E2.
      intros E; inversion E; subst. now rewrite fmt_of_app, E1, E2.
    - intros E; inversion E; subst. reflexivity. }
  match goal with |- context [if hc then ?A else ?B] => destruct (if hc then A else B) as [[st3 hf2] eva] end.
  specialize (F3 _ _ _ eq_refl).
  destruct (pop st3) as [[st4 cr] evp] eqn:E4. apply pop_fmt in E4.
  intros E; inversion E; subst; clear E.
  rewrite !fmt_of_app, F1, F3, E4. cbn [app].
  destruct (feature_runs cfg hc f) eqn:Hs; cbn [orb].
  - (* shown: FFeature [FBackground] items FEof *)
    cbn [fmt_of proto_fold proto_step].
    apply run_fitems_keeps_open in E3.
    assert (O : exists s1, proto_fold (PFeat false [] false)
                (fmt_of (if match f_bg f with Some _ => true | None => false end
                         then [EFmt (FBackground (map st_id (opt_steps (f_bg f))))] else [])) = Some s1 /\ open s1).
    { destruct (f_bg f); cbn; eexists; split; try reflexivity; eexists; eexists; reflexivity. }
    destruct O as (s1 & O1 & O2). rewrite <- app_comm_cons. cbn [proto_fold proto_step]. rewrite proto_fold_app, O1.
    destruct (E3 s1 O2) as (s2 & P2 & (a & q & ->)). rewrite proto_fold_app, P2.
    cbn. exists PStart. split; [reflexivity|]. now left.
  - destruct (c_show_skipped cfg) eqn:Hsh.
    + cbn [fmt_of proto_fold proto_step].
      apply run_fitems_keeps_open in E3.
      assert (O : exists s1, proto_fold (PFeat false [] false)
                  (fmt_of (if match f_bg f with Some _ => true | None => false end
                           then [EFmt (FBackground (map st_id (opt_steps (f_bg f))))] else [])) = Some s1 /\ open s1).
      { destruct (f_bg f); cbn; eexists; split; try reflexivity; eexists; eexists; reflexivity. }
      destruct O as (s1 & O1 & O2). rewrite <- app_comm_cons. cbn [proto_fold proto_step]. rewrite proto_fold_app, O1.
      destruct (E3 s1 O2) as (s2 & P2 & (a & q & ->)). rewrite proto_fold_app, P2.
      cbn. exists PStart. split; [reflexivity|]. now left.
    + (* neither running nor shown: silent *)
      assert (Hitems : forallb (fun it => negb (fitem_runs (items_cfg cfg hc) (f_tags f) it)) (f_items f) = true).
      { rewrite forallb_forall. intros x Hx. apply negb_true_iff.
        unfold feature_runs in Hs. apply andb_false_iff in Hs as [Hs|Hs].
        - apply fitem_runs_le.
          change (fitem_should_run (items_cfg cfg hc) (f_tags f) x) with (fitem_should_run cfg (f_tags f) x).
          unfold feature_should_run in Hs. apply orb_false_iff in Hs as [_ Hi].
          destruct (fitem_should_run cfg (f_tags f) x) eqn:Ex; [|reflexivity].
          assert (existsb (fitem_should_run cfg (f_tags f)) (f_items f) = true)
            by (apply existsb_exists; exists x; auto). congruence.
        - apply negb_false_iff in Hs. destruct x as [i|r]; cbn [fitem_runs].
          + now apply sitem_any_sel_excluded.
          + unfold rule_runs. rewrite (excluded_inherited _ (r_tags r) _ Hs). apply andb_false_r. }
      apply (silent_fitems (items_cfg cfg hc) Hsh) in E3; [|assumption].
      rewrite E3. cbn. exists PUri. split; [reflexivity|]. now right.
Qed.

Lemma run_features_protocol cfg fs : forall st flag st' rs fld ev s,
  outside s ->
  run_features cfg st fs flag = (st', rs, fld, ev) ->
  exists s', proto_fold s (fmt_of ev) = Some s' /\ outside s'.
Proof.
  induction fs as [|f r IH]; intros st flag st' rs fld ev s Hs; cbn [run_features].
  - intros E; inversion E; subst. exists s. auto.
  - destruct flag.
    + destruct (run_feature cfg st f) as [[[st1 res] fld1] ev1] eqn:E1.
      apply run_feature_protocol in E1 as (s1 & P1 & O1).
      match goal with |- context [run_features cfg st1 r ?B] =>
        destruct (run_features cfg st1 r B) as [[[st2 rs2] f2] ev2] eqn:E2 end.
      intros E; inversion E; subst. cbn [fmt_of proto_fold].
      assert (U : proto_step s (FUri (f_id f)) = Some PUri) by (destruct Hs as [-> | ->]; reflexivity).
      rewrite U, fmt_of_app, proto_fold_app, P1. eapply IH; eauto.
    + destruct (run_features cfg st r false) as [[[st2 rs2] f2] ev2] eqn:E2.
      intros E; inversion E; subst. eapply IH; eauto.
Qed.

(* the event stream of every run - any program, configuration, selection, fault set - is a word
   of the protocol: features bracketed by their uri and end-of-feature, scenarios announcing
   their steps before reporting them, one (match, result) pair per processed step in step
   order, exactly one close, at the very end *)
Theorem run_stream_follows_the_protocol cfg fs rs verdict ab evs :
  run_model cfg fs = (rs, verdict, ab, evs) -> protocol_ok (fmt_of evs) = true.
Proof.
  unfold run_model.
  destruct (run_hook cfg (mkState false [[]]) HBeforeAll 0) as [[st1 b1] e1] eqn:E1. apply run_hook_fmt in E1.
  destruct (run_features cfg st1 fs (negb (aborted st1))) as [[[st2 rs2] af] e2] eqn:E2.
  eapply run_features_protocol in E2 as (s2 & P2 & O2); [|left; reflexivity].
  destruct (run_hook cfg st2 HAfterAll 0) as [[st3 b3] e3] eqn:E3. apply run_hook_fmt in E3.
  intros E; inversion E; subst; clear E.
  unfold protocol_ok. rewrite !fmt_of_app, E1, E3. cbn [app]. rewrite proto_fold_app, P2.
  assert (C : fmt_of (cleanup_events match stack st3 with [] => [] | fr :: _ => fr end) = []).
  { generalize (match stack st3 with [] => [] | fr :: _ => fr end). intros l. unfold cleanup_events.
    induction (rev l) as [|c r IH]; cbn; auto. }
  rewrite ?fmt_of_app, C. cbn. destruct O2 as [-> | ->]; reflexivity.
Qed.
