(* Status.v — the members of behave.model_core.Status (hand-written; the
   generator checks the member list of the working tree against [all_status]
   and emits gen/StatusTable.v with the predicates tabulated from the code). *)
From BV Require Import Base.

Inductive status : Type :=
| unknown | untested | executing | skipped | passed | xfailed | xpassed
| failed | error | hook_error | cleanup_error
| undefined | pending | pending_warn | untested_pending | untested_undefined.

Definition all_status : list status :=
  [unknown; untested; executing; skipped; passed; xfailed; xpassed;
   failed; error; hook_error; cleanup_error;
   undefined; pending; pending_warn; untested_pending; untested_undefined].

Definition status_eq_dec : forall a b : status, {a = b} + {a <> b}.
Proof. decide equality. Defined.

Definition status_eqb (a b : status) : bool :=
  if status_eq_dec a b then true else false.

Lemma status_eqb_eq a b : status_eqb a b = true <-> a = b.
Proof. unfold status_eqb; destruct (status_eq_dec a b); split; congruence. Qed.

Lemma status_eqb_refl a : status_eqb a a = true.
Proof. now apply status_eqb_eq. Qed.

Lemma all_status_complete : forall s, In s all_status.
Proof. intros []; cbn; tauto. Qed.

(* numeric code used in case files: position in all_status *)
Definition status_of_nat (n : nat) : status := nth n all_status unknown.
