(* ConfigOrder.v — which configuration file wins when several assign the same option: the files of
   the current directory ("good for per-project settings", docs/behave.rst) are read after all files of
   the home directory, whatever the files are called.  [file_order] is generated from
   config_filenames() on every run, so the statement is re-decided against what the code says now. *)
From BV Require Import Base UStr ConfigTypes Config.
From BVGen Require Import ConfigTables.

(* no entry of the home directory comes after an entry of the current directory *)
Fixpoint home_then_project (seen_project : bool) (l : list (bool * ustr * fkind)) : bool :=
  match l with
  | [] => true
  | (in_home, _, _) :: r =>
      if in_home then negb seen_project && home_then_project seen_project r
      else home_then_project true r
  end.

Lemma home_then_project_seen l : home_then_project true l = true -> forall e, In e l -> fst (fst e) = false.
Proof.
  induction l as [|[[h n] k] r IH]; intros H e Hin; [contradiction|].
  cbn [home_then_project] in H. destruct h; [discriminate|].
  destruct Hin as [<-|Hin]; [reflexivity|]. now apply IH.
Qed.

(* the meaning of the check: whatever comes after a current-directory entry is a current-directory entry *)
Lemma home_then_project_spec l1 n k l2 b :
  home_then_project b (l1 ++ (false, n, k) :: l2) = true -> forall e, In e l2 -> fst (fst e) = false.
Proof.
  revert b. induction l1 as [|[[h m] q] r IH]; intros b H e Hin; cbn [app home_then_project] in H.
  - eapply home_then_project_seen; eauto.
  - destruct h.
    + apply andb_true_iff in H as [_ H]. eapply IH; eauto.
    + eapply IH; eauto.
Qed.

Lemma project_files_are_read_after_home_files : home_then_project false file_order = true.
Proof. vm_compute. reflexivity. Qed.

Lemma both_places_are_searched :
  existsb (fun e => fst (fst e)) file_order = true /\ existsb (fun e => negb (fst (fst e))) file_order = true.
Proof. vm_compute. split; reflexivity. Qed.
