(* ConfigOrder.v — which configuration file wins when several assign the same option: the files of
   the current directory ("good for per-project settings", docs/behave.rst) are read after all files of
   the home directory, whatever the files are called.  [file_order] is generated from
   config_filenames() on every run, so the statement is re-decided against what the code says now. *)
From BV Require Import Base UStr ConfigTypes Config.
From BVGen Require Import ConfigTables.

(* no entry of the home directory comes after an entry of the current directory *)
Fixpoint home_then_project (seen_project : bool) (l : list (bool * ustr * fkind)) : bool :=
  match l with
  | [] => true
  | (in_home, _, _) :: r =>
      if in_home then negb seen_project && home_then_project seen_project r
      else home_then_project true r
  end.

Lemma home_then_project_seen l : home_then_project true l = true -> forall e, In e l -> fst (fst e) = false.
Proof.
  induction l as [|[[h n] k] r IH]; intros H e Hin; [contradiction|].
  cbn [home_then_project] in H. destruct h; [discriminate|].
  destruct Hin as [<-|Hin]; [reflexivity|]. now apply IH.
Qed.

(* the meaning of the check: whatever comes after a current-directory entry is a current-directory entry *)
Lemma home_then_project_spec l1 n k l2 b :
  home_then_project b (l1 ++ (false, n, k) :: l2) = true -> forall e, In e l2 -> fst (fst e) = false.
Proof.
  revert b. induction l1 as [|[[h m] q] r IH]; intros b H e Hin; cbn [app home_then_project] in H.
  - eapply home_then_project_seen; eauto.
  - destruct h.
    + apply andb_true_iff in H as [_ H]. eapply IH; eauto.
    + eapply IH; eauto.
Qed.

Lemma project_files_are_read_after_home_files : home_then_project false file_order = true.
Proof. vm_compute. reflexivity. Qed.

Lemma both_places_are_searched :
  existsb (fun e => fst (fst e)) file_order = true /\ existsb (fun e => negb (fst (fst e))) file_order = true.
Proof. vm_compute. split; reflexivity. Qed.

(* ------------------------------------------------------------------ what the order means for the loaded values *)
From BV Require Import ConfigProofs.

Definition in_home_slot (slot : bool * ustr * fkind) : bool := fst (fst slot).

Lemma all_project_filter l :
  home_then_project true l = true -> filter in_home_slot l = [] /\ filter (fun s => negb (in_home_slot s)) l = l.
Proof.
  induction l as [|[[h n] k] r IH]; intros H; [split; reflexivity|].
  cbn [home_then_project] in H. destruct h; [discriminate|]. destruct (IH H) as [A B].
  cbn [filter in_home_slot fst negb]. rewrite A, B. split; reflexivity.
Qed.

(* a search order that passes the check is: all home entries, then all current-directory entries *)
Lemma home_then_project_split l :
  home_then_project false l = true ->
  l = filter in_home_slot l ++ filter (fun s => negb (in_home_slot s)) l.
Proof.
  induction l as [|[[h n] k] r IH]; intros H; [reflexivity|].
  cbn [home_then_project] in H. destruct h.
  - cbn [negb andb] in H. cbn [filter in_home_slot fst negb app]. f_equal. now apply IH.
  - destruct (all_project_filter r H) as [A B].
    cbn [filter in_home_slot fst negb]. rewrite A, B. reflexivity.
Qed.

Definition slot_files (home : ustr) (files : list (bool * ustr * filedata)) (slot : bool * ustr * fkind)
  : list (ustr * filedata) :=
  let '(in_home, name, kind) := slot in
  match find_file (in_home, name) files with
  | None => []
  | Some f => match kind with KNone => [] | _ => [(if in_home then home else [46%N], f)] end
  end.

(* the configuration files found in the home directory / in the current directory, in search order *)
Definition present_home (home : ustr) files := flat_map (slot_files home files) (filter in_home_slot file_order).
Definition present_project (home : ustr) files :=
  flat_map (slot_files home files) (filter (fun s => negb (in_home_slot s)) file_order).

Lemma present_is_home_then_project home files :
  present home files = present_home home files ++ present_project home files.
Proof.
  unfold present_home, present_project. rewrite <- flat_map_app.
  rewrite <- (home_then_project_split file_order project_files_are_read_after_home_files). reflexivity.
Qed.

Lemma last_file_value_app k a b :
  last_file_value k (a ++ b) =
  match last_file_value k b with Some v => Some v | None => last_file_value k a end.
Proof. unfold last_file_value at 1. rewrite fold_left_app. apply last_file_value_from. Qed.

Lemma Forall2_app_inv_l' {A B} (R : A -> B -> Prop) l1 l2 l :
  Forall2 R (l1 ++ l2) l -> exists a b, l = a ++ b /\ Forall2 R l1 a /\ Forall2 R l2 b.
Proof.
  revert l. induction l1 as [|x l1 IH]; intros l H; cbn [app] in H.
  - exists [], l. repeat split; [constructor|exact H].
  - inversion H as [|x' y l' r Hxy Hr]; subst. destruct (IH _ Hr) as (a & b & -> & Fa & Fb).
    exists (y :: a), b. repeat split; [constructor; assumption|exact Fb].
Qed.

(* the value of an option after all files are read: what the last file of the current directory that assigns
   it says; only when none does, what the last such file of the home directory says; else the built-in default *)
Theorem project_files_win_over_home_files home files defs :
  load_configuration home files = inl defs ->
  exists hdatas pdatas,
    Forall2 (fun df d => read_file (fst df) (snd df) = inl d) (present_home home files) hdatas /\
    Forall2 (fun df d => read_file (fst df) (snd df) = inl d) (present_project home files) pdatas /\
    forall k, ns_get k defs =
      match last_file_value k pdatas with
      | Some v => Some v
      | None => match last_file_value k hdatas with Some v => Some v | None => ns_get k class_defaults end
      end.
Proof.
  intros H. destruct (load_configuration_spec _ _ _ H) as (datas & F & ->).
  rewrite present_is_home_then_project in F.
  destruct (Forall2_app_inv_l' _ _ _ _ F) as (a & b & -> & Fa & Fb).
  exists a, b. repeat split; try assumption. intros k.
  rewrite merged_get, last_file_value_app. destruct (last_file_value k b); reflexivity.
Qed.
