(* UserData.v - behave/userdata.py: parse_user_define, unqote, parse_bool, UserData.getas and the typed getters;
   Python's int() and float() text grammars (ASCII digits).  Model only. *)
From BV Require Import Base UStr ConfigTypes.
From BVGen Require Import ConfigTables.

Definition cp_dq : N := 34%N.
Definition cp_sq : N := 39%N.
Definition cp_eq : N := 61%N.

(* text[1:-1] when text starts and ends with the same quote character (a lone quote character gives "") *)
Definition unquote (s : ustr) : ustr :=
  match s with
  | [] => s
  | c :: _ =>
      let l := last s 0%N in
      if (N.eqb c cp_dq && N.eqb l cp_dq) || (N.eqb c cp_sq && N.eqb l cp_sq)
      then removelast (tl s) else s
  end.

(* text.split(sep, 1) when sep occurs *)
Fixpoint split_first (sep : N) (s : ustr) : option (ustr * ustr) :=
  match s with
  | [] => None
  | c :: r => if N.eqb c sep then Some ([], r)
              else match split_first sep r with Some (a, b) => Some (c :: a, b) | None => None end
  end.

Definition str_true : ustr := u "true".

Definition parse_user_define (text : ustr) : ustr * ustr :=
  let t := strip text in
  if memN cp_eq t then
    match split_first cp_eq (unquote t) with
    | Some (n, v) => (strip n, unquote (strip v))
    | None => (unquote t, str_true)          (* unreachable: see split_first_some *)
    end
  else (t, str_true).

Fixpoint assoc_n (c : N) (l : list (N * N)) : option N :=
  match l with [] => None | (a, b) :: r => if N.eqb a c then Some b else assoc_n c r end.
Definition lower_ascii (s : ustr) : ustr := map (fun c => match assoc_n c ascii_lower with Some d => d | None => c end) s.
Definition upper_ascii (s : ustr) : ustr := map (fun c => match assoc_n c ascii_upper with Some d => d | None => c end) s.

Definition mem_str (s : ustr) (l : list ustr) : bool := existsb (ustr_eqb s) l.

(* behave.userdata.parse_bool: text.lower().strip() *)
Definition parse_bool_text (s : ustr) : option bool :=
  let t := strip (lower_ascii s) in
  if mem_str t [u "yes"; u "true"; u "on"; u "1"] then Some true
  else if mem_str t [u "no"; u "false"; u "off"; u "0"] then Some false
  else None.

(* ---- int(text): blanks stripped, optional sign, digits with single underscores between digits ---- *)
Definition is_digit (c : N) : bool := N.leb 48 c && N.leb c 57.
Definition digit_val (c : N) : Z := Z.of_N (c - 48).

Fixpoint int_digits (s : ustr) (acc : Z) (prev_digit : bool) : option Z :=
  match s with
  | [] => if prev_digit then Some acc else None
  | c :: r =>
      if is_digit c then int_digits r (acc * 10 + digit_val c)%Z true
      else if N.eqb c 95 && prev_digit
           then match r with d :: _ => if is_digit d then int_digits r acc false else None | [] => None end
           else None
  end.

Definition py_int (s : ustr) : option Z :=
  match strip s with
  | 43%N :: r => int_digits r 0%Z false
  | 45%N :: r => option_map Z.opp (int_digits r 0%Z false)
  | t => int_digits t 0%Z false
  end.

(* ---- float(text): the real number denoted (mantissa * 10^exponent), or an infinity / nan ---- *)
Inductive fnum := FDec (negative : bool) (mant : Z) (exp10 : Z) | FInf (negative : bool) | FNan.

(* a digit group: digits with single underscores between digits; returns value, number of digits, rest *)
Fixpoint digit_group (s : ustr) (acc : Z) (n : Z) (prev_digit : bool) : option (Z * Z * ustr) :=
  match s with
  | [] => if prev_digit then Some (acc, n, []) else None
  | c :: r =>
      if is_digit c then digit_group r (acc * 10 + digit_val c)%Z (n + 1)%Z true
      else if N.eqb c 95
           then if prev_digit
                then match r with d :: _ => if is_digit d then digit_group r acc n false else None | [] => None end
                else None
           else if prev_digit then Some (acc, n, s) else None
  end.

Definition opt_group (s : ustr) : option (Z * Z * ustr) :=
  match s with
  | c :: _ => if is_digit c then digit_group s 0%Z 0%Z false else Some (0%Z, 0%Z, s)
  | [] => Some (0%Z, 0%Z, [])
  end.

Definition is_e (c : N) : bool := N.eqb c 101 || N.eqb c 69.

Definition float_exponent (s : ustr) : option Z :=
  match s with
  | [] => Some 0%Z
  | c :: r =>
      if is_e c then
        match r with
        | 43%N :: r' => match digit_group r' 0%Z 0%Z false with Some (e, _, []) => Some e | _ => None end
        | 45%N :: r' => match digit_group r' 0%Z 0%Z false with Some (e, _, []) => Some (- e)%Z | _ => None end
        | _ => match digit_group r 0%Z 0%Z false with Some (e, _, []) => Some e | _ => None end
        end
      else None
  end.

Definition float_body (neg : bool) (s : ustr) : option fnum :=
  let l := lower_ascii s in
  if ustr_eqb l (u "inf") || ustr_eqb l (u "infinity") then Some (FInf neg)
  else if ustr_eqb l (u "nan") then Some FNan
  else
    match opt_group s with
    | None => None
    | Some (ip, ni, rest) =>
        match rest with
        | 46%N :: rest' =>
            match opt_group rest' with
            | None => None
            | Some (fp, nf, rest'') =>
                if Z.eqb (ni + nf) 0 then None
                else match float_exponent rest'' with
                     | Some e => Some (FDec neg (ip * 10 ^ nf + fp)%Z (e - nf)%Z)
                     | None => None
                     end
            end
        | _ => if Z.eqb ni 0 then None
               else match float_exponent rest with Some e => Some (FDec neg ip e) | None => None end
        end
    end.

Definition py_float (s : ustr) : option fnum :=
  match strip s with
  | 43%N :: r => float_body false r
  | 45%N :: r => float_body true r
  | t => float_body false t
  end.

(* ---- UserData.getas and the typed getters ---- *)
Inductive uval := UText (s : ustr) | UBool (b : bool) | UInt (z : Z) | UFloat (id : nat).
Inductive gres := GDefault | GKeep (v : uval) | GInt (z : Z) | GBool (b : bool) | GFloat (f : fnum)
                | GValueError | GOtherError.

Fixpoint ud_get (name : ustr) (d : list (ustr * uval)) : option uval :=
  match d with [] => None | (k, v) :: r => if ustr_eqb k name then Some v else ud_get name r end.

Definition getint (d : list (ustr * uval)) (name : ustr) : gres :=
  match ud_get name d with
  | None => GDefault
  | Some (UInt z) => GKeep (UInt z)
  | Some (UBool b) => GKeep (UBool b)              (* bool is a subclass of int *)
  | Some (UText s) => match py_int s with Some z => GInt z | None => GValueError end
  | Some (UFloat _) => GOtherError                 (* int(float) truncates: not text, outside the property *)
  end.

Definition getbool (d : list (ustr * uval)) (name : ustr) : gres :=
  match ud_get name d with
  | None => GDefault
  | Some (UBool b) => GKeep (UBool b)
  | Some (UText s) => match parse_bool_text s with Some b => GBool b | None => GValueError end
  | Some _ => GOtherError                          (* parse_bool needs text: AttributeError *)
  end.

Definition getfloat (d : list (ustr * uval)) (name : ustr) : gres :=
  match ud_get name d with
  | None => GDefault
  | Some (UFloat i) => GKeep (UFloat i)
  | Some (UText s) => match py_float s with Some f => GFloat f | None => GValueError end
  | Some (UInt z) => GFloat (FDec (Z.ltb z 0) (Z.abs z) 0)
  | Some (UBool b) => GFloat (FDec false (if b then 1 else 0)%Z 0)
  end.
