(* Regex.v - a backtracking regular-expression matcher with Python's priority order (greedy / lazy quantifiers,
   leftmost alternative first, capturing groups numbered by their opening parenthesis, last iteration wins, groups of
   alternatives not taken stay unset), as used by behave's `re` and `re0` step matchers (RegexMatcher.check_match).
   Model only.  Quantified bodies that can match the empty string are outside the model (Python has special rules there). *)
From BV Require Import Base UStr StepMatch.

Inductive rx :=
| REps
| RChar (c : N)
| RClass (k : cls)                 (* one character of a class: CAny CWord CDigit CNonSpace CAlpha *)
| RSeq (a b : rx)
| RAlt (a b : rx)
| RStar (greedy : bool) (a : rx)
| RPlus (greedy : bool) (a : rx)
| ROpt (greedy : bool) (a : rx)
| RGroup (name : option ustr) (a : rx)   (* capturing *)
| RNGroup (a : rx).                      (* (?:...) *)

Definition class_ok (k : cls) (c : N) : bool :=
  match k with
  | CAny => negb (N.eqb c 10)
  | CWord => is_word_c c
  | CDigit => is_digit_c c
  | CNonSpace => negb (is_space c)
  | CAlpha => is_alpha_c c
  | _ => false
  end.

(* groups get their numbers in the order of their opening parentheses *)
Fixpoint number (r : rx) (next : nat) : nat :=
  match r with
  | REps | RChar _ | RClass _ => next
  | RSeq a b | RAlt a b => number b (number a next)
  | RStar _ a | RPlus _ a | ROpt _ a | RNGroup a => number a next
  | RGroup _ a => number a (S next)
  end.

Fixpoint group_names (r : rx) : list (option ustr) :=
  match r with
  | REps | RChar _ | RClass _ => []
  | RSeq a b | RAlt a b => group_names a ++ group_names b
  | RStar _ a | RPlus _ a | ROpt _ a | RNGroup a => group_names a
  | RGroup n a => n :: group_names a
  end.

Definition caps := list (nat * (nat * nat)).      (* group number -> span; the newest entry first *)
Fixpoint cap_get (i : nat) (cs : caps) : option (nat * nat) :=
  match cs with [] => None | (j, sp) :: r => if Nat.eqb i j then Some sp else cap_get i r end.

Definition kont := ustr -> nat -> caps -> option caps.

(* iterations of a quantified body: an iteration must consume at least one character; fuel bounds their number *)
Fixpoint star_loop (body : ustr -> nat -> caps -> kont -> option caps) (g : bool) (k : kont)
         (f : nat) (rest : ustr) (pos : nat) (cs : caps) {struct f} : option caps :=
  match f with
  | 0 => k rest pos cs
  | S f' =>
      let iter := body rest pos cs (fun rest' pos' cs' => if Nat.eqb pos' pos then None else star_loop body g k f' rest' pos' cs') in
      if g then match iter with Some res => Some res | None => k rest pos cs end
      else match k rest pos cs with Some res => Some res | None => iter end
  end.

(* idx: the number the next group opened inside r gets *)
Fixpoint mrx (r : rx) (idx : nat) (fuel : nat) (rest : ustr) (pos : nat) (cs : caps) (k : kont) {struct r} : option caps :=
  match r with
  | REps => k rest pos cs
  | RChar c => match rest with x :: t => if N.eqb x c then k t (S pos) cs else None | [] => None end
  | RClass cl => match rest with x :: t => if class_ok cl x then k t (S pos) cs else None | [] => None end
  | RSeq a b => mrx a idx fuel rest pos cs (fun rest' pos' cs' => mrx b (number a idx) fuel rest' pos' cs' k)
  | RAlt a b => match mrx a idx fuel rest pos cs k with
                | Some res => Some res
                | None => mrx b (number a idx) fuel rest pos cs k
                end
  | RGroup _ a => mrx a (S idx) fuel rest pos cs (fun rest' pos' cs' => k rest' pos' ((idx, (pos, pos')) :: cs'))
  | RNGroup a => mrx a idx fuel rest pos cs k
  | ROpt g a =>
      if g then match mrx a idx fuel rest pos cs k with Some res => Some res | None => k rest pos cs end
      else match k rest pos cs with Some res => Some res | None => mrx a idx fuel rest pos cs k end
  | RStar g a => star_loop (fun rest' pos' cs' k' => mrx a idx fuel rest' pos' cs' k') g k fuel rest pos cs
  | RPlus g a =>
      mrx a idx fuel rest pos cs
          (fun rest1 pos1 cs1 => star_loop (fun rest' pos' cs' k' => mrx a idx fuel rest' pos' cs' k') g k fuel rest1 pos1 cs1)
  end.

Definition final_k (anchored_end : bool) : kont :=
  fun rest _ cs => if anchored_end then match rest with [] => Some cs | _ => None end else Some cs.

Definition rx_match (anchored_end : bool) (r : rx) (text : ustr) : option caps :=
  mrx r 1 (S (length text)) text 0 [] (final_k anchored_end).

(* the arguments RegexMatcher.check_match builds: one per group, unset groups have no span and no text *)
Record rarg := mkRArg { ra_span : option (nat * nat); ra_text : option ustr; ra_name : option ustr }.

Fixpoint rargs_from (names : list (option ustr)) (i : nat) (text : ustr) (cs : caps) : list rarg :=
  match names with
  | [] => []
  | n :: r =>
      (match cap_get i cs with
       | Some (s, e) => mkRArg (Some (s, e)) (Some (firstn (e - s) (skipn s text))) n
       | None => mkRArg None None n
       end) :: rargs_from r (S i) text cs
  end.

Definition rx_check_match (anchored_end : bool) (r : rx) (text : ustr) : option (list rarg) :=
  match rx_match anchored_end r text with
  | Some cs => Some (rargs_from (group_names r) 1 text cs)
  | None => None
  end.
