(* GherkinBgItemsProofs.v - C04 at the level of the state machine: a feature with a description, a Background with steps,
   and then scenarios *and* scenario outlines (everything GherkinOutlineProofs covers) is read back exactly. *)
From BV Require Import Base UStr GherkinTypes Gherkin GherkinProofs GherkinRowProofs GherkinBlockProofs GherkinTagProofs
                       GherkinTableProofs GherkinDocProofs GherkinRichProofs GherkinDescrProofs GherkinBgProofs GherkinOutlineProofs.

Theorem a_feature_with_background_and_outlines_is_read_back_exactly kw code fline falias fname fds bline balias bname bsteps its :
  feature_line kw fline falias fname -> Forall (descr_line kw) fds ->
  background_line kw bline balias bname -> bsteps <> [] ->
  Forall (fun x => let '(line, t, k, text) := x in step_line kw line t k text) bsteps ->
  Forall (item_ok kw) its ->
  let lb := 1 + length fds in
  exists m',
    finish_table (fold_left feed (fline :: fds ++ bline :: map (fun x => fst (fst (fst x))) bsteps ++ flat_map item_lines its)
                            (ROk (init_state code kw VFeature StInitial))) = ROk m' /\
    m_table m' = None /\
    option_map fin_feature (m_feat m') =
    Some (mkPFeat falias fname 1 [] (map strip fds)
                  (Some (mkPBg balias bname (S lb) (steps_of bsteps (S lb)) []))
                  (expected_items its (S lb + length bsteps)) code).
Proof.
  intros [NB NC NT FA] FD BL BNE BS OK lb. set (m0 := init_state code kw VFeature StInitial).
  assert (F0 : feed (ROk m0) fline = ROk (upd_st (build_feature (upd_line m0 1) falias fname) StFeature)).
  { rewrite (feed_nonblank m0 fline NB). rewrite (action_dispatch _ fline NB NC). cbn [upd_line m_st m0 init_state].
    unfold a_initial. rewrite match_at, NT. cbn [upd_line m_kw m0 init_state]. now rewrite FA. }
  set (m1 := upd_st (build_feature (upd_line m0 1) falias fname) StFeature) in *.
  set (f1 := mkPFeat falias fname 1 [] [] None [] code).
  destruct (feature_descr_lines_are_read fds m1 f1 eq_refl eq_refl eq_refl eq_refl eq_refl eq_refl FD)
    as (mD & FDD & STD & TD & IED & LND & CD & FDf & LD & KD & TGD).
  set (fD := mkPFeat (f_kw f1) (f_name f1) (f_line f1) (f_tags f1) (rev (map strip fds) ++ f_descr f1) (f_bg f1) (f_items f1) (f_lang f1)) in *.
  assert (BLD : background_line (m_kw mD) bline balias bname) by (rewrite KD; exact BL).
  assert (TGD' : m_tags mD = []) by (rewrite TGD; reflexivity).
  destruct (feed_background_line mD fD bline balias bname STD CD FDf eq_refl eq_refl TGD' BLD)
    as (mB & FDB & STB & WB & LB & KB & TGB & TBB & IEB & LNB & GB).
  assert (BSB : Forall (fun x => let '(line, t, k, text) := x in step_line (m_kw mB) line t k text) bsteps) by (rewrite KB, KD; exact BS).
  destruct (bg_steps_are_read bsteps mB _ _ (or_introl STB) WB BSB) as (mS & fS & bS & FDS & STS & WS & FRS & LS & EBS & EFS).
  assert (STS' : m_st mS = StSteps) by (destruct STS as [X|[X _]]; [exact X|congruence]).
  destruct FRS as (_ & _ & _ & GS & KS & _ & _ & _ & _ & _ & TGS & LNS & TBS & IES).
  destruct WS as (AS & BSc & CS & DS & ES).
  assert (BODY : body mS fS).
  { split; [congruence|]. split; [congruence|]. left. split; [congruence|]. split; [right; left; exact STS'|]. split; assumption. }
  assert (OKS : Forall (item_ok (m_kw mS)) its) by (rewrite KS, KB, KD; exact OK).
  assert (TGS' : m_tags mS = []) by congruence.
  destruct (items_are_read its mS fS (or_introl BODY) TGS' OKS) as (m' & f' & FD' & B' & T' & K' & IT & HD).
  cbn [fold_left]. rewrite F0. rewrite fold_left_app, FDD. cbn [fold_left]. rewrite FDB. rewrite fold_left_app, FDS, FD'.
  destruct (finish_obody m' f' B') as (m'' & FIN & TB & FF).
  exists m''. split; [exact FIN|]. split; [exact TB|]. rewrite FF. cbn [option_map]. f_equal.
  unfold fin_feature. rewrite IT. rewrite LS, LB, LD.
  unfold with_items in HD. cbn in HD. inversion HD as [[H1 H2 H3 H4 H5 H6 H7]]. rewrite H1, H2, H3, H4, H5, H6, H7.
  rewrite EFS, EBS. rewrite ?LB, ?LD.
  cbn [set_feat_bg bg_with_steps fD f1 f_kw f_name f_line f_tags f_items f_descr f_bg f_lang map rev app option_map fin_bg
       bg_kw bg_name bg_line bg_steps bg_descr m_line m1 upd_st build_feature upd_tags upd_tree upd_line m0 init_state].
  unfold fin_bg, bg_with_steps, lb. cbn [bg_kw bg_name bg_line bg_steps bg_descr rev app].
  rewrite ?app_nil_r, ?rev_involutive. reflexivity.
Qed.
