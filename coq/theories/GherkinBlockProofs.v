(* GherkinBlockProofs.v - C04 at the level of the state machine: a block of step lines under a scenario of a feature is
   read into exactly those steps, in order, with their keywords, types, names and line numbers; nothing else changes. *)
From BV Require Import Base UStr GherkinTypes Gherkin GherkinProofs.

(* the statement being filled is the newest scenario of the feature *)
Definition at_feature_scenario (m : mstate) (f : pfeature) (s : pscen) (rest : list fitem) : Prop :=
  m_stmt m = PItem /\ m_cont m = CFeat /\ m_feat m = Some f /\ f_items f = FScen s :: rest.

Definition with_steps (s : pscen) (l : list pstep) : pscen :=
  mkPScen (sc_outline s) (sc_kw s) (sc_name s) (sc_line s) (sc_tags s) (sc_descr s) l (sc_examples s).
Definition with_items (f : pfeature) (l : list fitem) : pfeature :=
  mkPFeat (f_kw f) (f_name f) (f_line f) (f_tags f) (f_descr f) (f_bg f) l (f_lang f).

Lemma get_stmt_at m f s rest : at_feature_scenario m f s rest -> get_stmt m = Some (VScen s).
Proof. intros [A [B [C D]]]. unfold get_stmt. now rewrite A, B, C, D. Qed.

(* what stays the same while steps are appended *)
Definition frame_eq (m m' : mstate) : Prop :=
  m_ml_start m' = m_ml_start m /\ m_ml_lead m' = m_ml_lead m /\ m_ml_term m' = m_ml_term m /\ m_lang m' = m_lang m /\
  m_kw m' = m_kw m /\ m_variant m' = m_variant m /\ m_cont m' = m_cont m /\ m_det_rule m' = m_det_rule m /\
  m_stmt m' = m_stmt m /\ m_det m' = m_det m /\ m_tags m' = m_tags m /\ m_lines m' = m_lines m /\
  m_table m' = m_table m /\ m_in_examples m' = m_in_examples m.

Lemma frame_refl m : frame_eq m m.
Proof. unfold frame_eq. repeat split. Qed.
Lemma frame_trans a b c : frame_eq a b -> frame_eq b c -> frame_eq a c.
Proof. unfold frame_eq. intros H1 H2. decompose [and] H1. decompose [and] H2. repeat split; congruence. Qed.

Lemma append_step_at m f s rest st :
  at_feature_scenario m f s rest ->
  exists m', append_step m st = Some m' /\
             at_feature_scenario m' (with_items f (FScen (with_steps s (st :: sc_steps s)) :: rest)) (with_steps s (st :: sc_steps s)) rest /\
             frame_eq m m' /\ m_line m' = m_line m /\ m_last m' = m_last m /\ m_st m' = m_st m.
Proof.
  intros W. pose proof (get_stmt_at _ _ _ _ W) as G. destruct W as [A [B [C D]]].
  unfold append_step. rewrite G. cbn [view_steps view_set_steps]. eexists. split; [reflexivity|].
  unfold set_stmt. rewrite A. unfold set_item. rewrite B, C, D.
  split; [|split; [|repeat split]].
  - unfold at_feature_scenario. cbn. repeat split; auto.
  - unfold frame_eq. cbn. repeat split; auto.
Qed.

(* a plain step line: no doc-string delimiter, a Given / When / Then keyword that is not the generic "*" *)
Definition type_of (rt : rawt) : option stept :=
  match rt with RGiven => Some SGiven | RWhen => Some SWhen | RThen => Some SThen | _ => None end.

Record step_line (kw : kwtable) (line : ustr) (t : stept) (k text : ustr) : Prop := {
  sl_nodoc : doc_fact line = None;
  sl_nonblank : strip line <> [];
  sl_nocomment : first_is cp_hash (strip line) = false;
  sl_fact : exists rt, step_fact kw (strip line) = Some (rt, k, text) /\ type_of rt = Some t;
  sl_nostar : starts_with_star k = false }.

Lemma parse_step_plain m s rt k text t :
  step_fact (m_kw m) s = Some (rt, k, text) -> type_of rt = Some t -> starts_with_star k = false ->
  parse_step m s = ROk (Some (mkPStep (rstrip k) t text (m_line m) None None, upd_last m (Some t))).
Proof.
  intros S T ST. unfold parse_step. rewrite S, ST. destruct rt; cbn in T; inversion T; reflexivity.
Qed.

Lemma action_not_comment (c : N) (r : ustr) (A B : res mstate) :
  N.eqb c cp_hash = false ->
  match c :: r with 35%N :: _ => A | _ => B end = B.
Proof.
  intros H. unfold cp_hash in H. destruct c as [|p]; [reflexivity|].
  destruct p as [p|p|]; try reflexivity; destruct p as [p|p|]; try reflexivity; destruct p as [p|p|]; try reflexivity;
    destruct p as [p|p|]; try reflexivity; destruct p as [p|p|]; try reflexivity; destruct p as [p|p|]; try reflexivity; discriminate H.
Qed.

(* one step line in state "steps" *)
Lemma feed_step_line m f s rest line t k text :
  m_st m = StSteps -> at_feature_scenario m f s rest -> step_line (m_kw m) line t k text ->
  let st := mkPStep (rstrip k) t text (S (m_line m)) None None in
  exists m', feed (ROk m) line = ROk m' /\ m_st m' = StSteps /\
             at_feature_scenario m' (with_items f (FScen (with_steps s (st :: sc_steps s)) :: rest)) (with_steps s (st :: sc_steps s)) rest /\
             frame_eq m m' /\ m_line m' = S (m_line m) /\ m_last m' = Some t.
Proof.
  intros ST W [ND NB NC [rt [SF TY]] NS] st.
  set (m1 := upd_line m (S (m_line m))).
  assert (W1 : at_feature_scenario m1 f s rest) by (destruct W as [A [B [C D]]]; unfold at_feature_scenario; cbn; auto).
  assert (F : feed (ROk m) line = a_steps m1 line).
  { unfold feed. cbn [rbind]. fold m1. destruct (strip line) as [|c r] eqn:SL; [congruence|].
    unfold action. cbn [m1 upd_line m_st]. rewrite ST, SL.
    cbn [first_is] in NC. now rewrite (action_not_comment c r _ _ NC). }
  rewrite F. unfold a_steps. rewrite ND.
  rewrite (parse_step_plain m1 (strip line) rt k text t SF TY NS). cbn [rbind].
  set (m2 := upd_last m1 (Some t)).
  assert (W2 : at_feature_scenario m2 f s rest) by (destruct W1 as [A [B [C D]]]; unfold at_feature_scenario; cbn; auto).
  destruct (append_step_at m2 f s rest (mkPStep (rstrip k) t text (m_line m1) None None) W2) as [m3 [AP [W3 [FR [L3 [LA S3]]]]]].
  rewrite AP. exists m3. split; [reflexivity|]. split; [rewrite S3; exact ST|]. split; [exact W3|].
  split; [|split; [rewrite L3; reflexivity|rewrite LA; reflexivity]].
  apply (frame_trans m m2 m3); [|exact FR]. unfold frame_eq. cbn. repeat split.
Qed.

(* a block of step lines *)
Fixpoint steps_of (lines : list (ustr * stept * ustr * ustr)) (line_no : nat) : list pstep :=
  match lines with
  | [] => []
  | (_, t, k, text) :: r => mkPStep (rstrip k) t text (S line_no) None None :: steps_of r (S line_no)
  end.

Theorem a_block_of_step_lines_is_read_into_exactly_those_steps :
  forall lines m f s rest,
  m_st m = StSteps -> at_feature_scenario m f s rest ->
  Forall (fun x => let '(line, t, k, text) := x in step_line (m_kw m) line t k text) lines ->
  exists m' f' s',
    fold_left feed (map (fun x => fst (fst (fst x))) lines) (ROk m) = ROk m' /\ m_st m' = StSteps /\
    at_feature_scenario m' f' s' rest /\ frame_eq m m' /\ m_line m' = m_line m + length lines /\
    s' = with_steps s (rev (steps_of lines (m_line m)) ++ sc_steps s) /\ f' = with_items f (FScen s' :: rest).
Proof.
  induction lines as [|[[[line t] k] text] lines IH]; intros m f s rest ST W F.
  - exists m, f, s. cbn [map fold_left steps_of rev app length]. split; [reflexivity|]. split; [exact ST|]. split; [exact W|].
    split; [apply frame_refl|]. split; [lia|]. destruct W as [_ [_ [_ D]]]. destruct s, f; cbn in *. split; [reflexivity|]. now rewrite D.
  - inversion F as [|? ? H1 H2]. subst.
    destruct (feed_step_line m f s rest line t k text ST W H1) as [m1 [FD [ST1 [W1 [FR1 [L1 LA1]]]]]].
    set (st := mkPStep (rstrip k) t text (S (m_line m)) None None) in *.
    assert (KW : m_kw m1 = m_kw m) by (destruct FR1 as [_ [_ [_ [_ [K _]]]]]; exact K).
    assert (F1 : Forall (fun x => let '(line0, t0, k0, text0) := x in step_line (m_kw m1) line0 t0 k0 text0) lines) by (now rewrite KW).
    destruct (IH m1 _ _ rest ST1 W1 F1) as [m' [f' [s' [FD' [ST' [W' [FR' [L' [ES EF]]]]]]]]].
    exists m', f', s'. cbn [map fold_left fst]. rewrite FD. split; [exact FD'|]. split; [exact ST'|]. split; [exact W'|].
    split; [apply (frame_trans m m1 m'); assumption|]. split; [cbn [length]; lia|]. split.
    + rewrite ES. cbn [steps_of rev]. rewrite L1. fold st. unfold with_steps. cbn. now rewrite <- app_assoc.
    + rewrite EF. unfold with_items. cbn. reflexivity.
Qed.

(* ---- the same for the first step after the scenario line (state "scenario") ---- *)
Lemma feed_first_step_line m f s rest line t k text :
  m_st m = StScenario -> at_feature_scenario m f s rest -> step_line (m_kw m) line t k text ->
  let st := mkPStep (rstrip k) t text (S (m_line m)) None None in
  exists m', feed (ROk m) line = ROk m' /\ m_st m' = StSteps /\
             at_feature_scenario m' (with_items f (FScen (with_steps s (st :: sc_steps s)) :: rest)) (with_steps s (st :: sc_steps s)) rest /\
             frame_eq m m' /\ m_line m' = S (m_line m) /\ m_last m' = Some t.
Proof.
  intros ST W [ND NB NC [rt [SF TY]] NS] st.
  set (m1 := upd_line m (S (m_line m))).
  assert (W1 : at_feature_scenario m1 f s rest) by (destruct W as [A [B [C D]]]; unfold at_feature_scenario; cbn; auto).
  assert (F : feed (ROk m) line = a_scenario m1 (strip line)).
  { unfold feed. cbn [rbind]. fold m1. destruct (strip line) as [|c r] eqn:SL; [congruence|].
    unfold action. cbn [m1 upd_line m_st]. rewrite ST, SL.
    cbn [first_is] in NC. now rewrite (action_not_comment c r _ _ NC). }
  rewrite F. unfold a_scenario.
  set (m1' := upd_last m1 None).
  rewrite (parse_step_plain m1' (strip line) rt k text t SF TY NS). cbn [rbind].
  set (m2 := upd_last m1' (Some t)).
  assert (W2 : at_feature_scenario m2 f s rest) by (destruct W1 as [A [B [C D]]]; unfold at_feature_scenario; cbn; auto).
  destruct (append_step_at m2 f s rest (mkPStep (rstrip k) t text (m_line m1') None None) W2) as [m3 [AP [W3 [FR [L3 [LA S3]]]]]].
  rewrite AP. eexists. split; [reflexivity|]. split; [reflexivity|]. split.
  - destruct W3 as [A [B [C D]]]. unfold at_feature_scenario. cbn. auto.
  - split; [|split; [cbn; rewrite L3; reflexivity|cbn; rewrite LA; reflexivity]].
    apply (frame_trans m m2); [unfold frame_eq; cbn; repeat split|].
    destruct FR as [F1 [F2 [F3 [F4 [F5 [F6 [F7 [F8 [F9 [F10 [F11 [F12 [F13 F14]]]]]]]]]]]]]. unfold frame_eq. cbn. repeat split; assumption.
Qed.

(* ---- a scenario line opens a new scenario at the end of the feature ---- *)
Record scenario_line (kw : kwtable) (line alias name : ustr) : Prop := {
  cl_nodoc : doc_fact line = None;
  cl_nonblank : strip line <> [];
  cl_nocomment : first_is cp_hash (strip line) = false;
  cl_notag : starts_at (strip line) = false;
  cl_nostep : step_fact kw (strip line) = None;
  cl_norule : first_alias (k_rule kw) (strip line) = None;
  cl_scenario : first_alias (k_scenario kw) (strip line) = Some (alias, name) }.

Definition new_scenario (m : mstate) (alias name : ustr) : pscen := mkPScen false alias name (S (m_line m)) (m_tags m) [] [] [].

Lemma sub_taggable_scenario m s alias name :
  starts_at s = false -> first_alias (k_rule (m_kw m)) s = None -> first_alias (k_scenario (m_kw m)) s = Some (alias, name) ->
  sub_taggable m s = ROk (Some (upd_st (build_scenario m false alias name) StScenario)).
Proof. intros A R S. unfold sub_taggable. rewrite match_at, A, R, S. reflexivity. Qed.

Lemma feed_nonblank m line : strip line <> [] -> feed (ROk m) line = action (upd_line m (S (m_line m))) line.
Proof. intros NB. unfold feed. cbn [rbind]. destruct (strip line); [congruence|reflexivity]. Qed.

Lemma action_dispatch m line :
  strip line <> [] -> first_is cp_hash (strip line) = false ->
  action m line = match m_st m with
                  | StMultiline => a_multiline m line
                  | StInitial => a_initial m (strip line)
                  | StFeature => a_feature m (strip line)
                  | StTaggable => a_taggable m (strip line)
                  | StBackground | StScenario => a_scenario m (strip line)
                  | StRule => a_rule m (strip line)
                  | StSteps => a_steps m line
                  | StTable => a_table m line
                  end.
Proof.
  intros NB NC. unfold action. destruct (strip line) as [|c r] eqn:SL; [congruence|]. cbn [first_is] in NC.
  destruct (m_st m); try reflexivity; now rewrite (action_not_comment c r _ _ NC).
Qed.

Lemma feed_scenario_line m f line alias name :
  m_cont m = CFeat -> m_feat m = Some f -> (m_st m = StFeature \/ m_st m = StSteps \/ m_st m = StScenario) ->
  scenario_line (m_kw m) line alias name ->
  exists m', feed (ROk m) line = ROk m' /\ m_st m' = StScenario /\
             at_feature_scenario m' (with_items f (FScen (new_scenario m alias name) :: f_items f)) (new_scenario m alias name) (f_items f) /\
             m_line m' = S (m_line m) /\ m_kw m' = m_kw m /\ m_tags m' = [] /\ m_lang m' = m_lang m /\ m_table m' = m_table m /\
             m_in_examples m' = m_in_examples m /\ m_lines m' = m_lines m.
Proof.
  intros C F ST [ND NB NC NT NS NR SC].
  set (m1 := upd_line m (S (m_line m))).
  assert (RES : forall m0, m_cont m0 = CFeat -> m_feat m0 = Some f -> m_line m0 = S (m_line m) -> m_kw m0 = m_kw m ->
                           m_tags m0 = m_tags m -> m_lang m0 = m_lang m ->
     let mx := upd_st (build_scenario m0 false alias name) StScenario in
     m_st mx = StScenario /\
     at_feature_scenario mx (with_items f (FScen (new_scenario m alias name) :: f_items f)) (new_scenario m alias name) (f_items f) /\
     m_line mx = S (m_line m) /\ m_kw mx = m_kw m /\ m_tags mx = [] /\ m_lang mx = m_lang m /\ m_table mx = m_table m0 /\
     m_in_examples mx = m_in_examples m0 /\ m_lines mx = m_lines m0).
  { intros m0 C0 F0 L0 K0 T0 G0 mx. unfold mx, build_scenario, add_item. rewrite C0, F0.
    unfold at_feature_scenario, new_scenario, with_items. cbn. rewrite L0, T0. repeat split; assumption. }
  rewrite (feed_nonblank m line NB). fold m1. rewrite (action_dispatch m1 line NB NC). cbn [m1 upd_line m_st].
  destruct ST as [ST|[ST|ST]]; rewrite ST.
  - unfold a_feature. rewrite (sub_taggable_scenario m1 (strip line) alias name NT NR SC). cbn [rbind].
    eexists. split; [reflexivity|]. apply (RES m1); reflexivity || assumption.
  - unfold a_steps. rewrite ND. unfold parse_step. cbn [m1 upd_line m_kw]. rewrite NS. cbn [rbind].
    rewrite (sub_taggable_scenario m1 (strip line) alias name NT NR SC). cbn [rbind].
    eexists. split; [reflexivity|]. apply (RES m1); reflexivity || assumption.
  - unfold a_scenario. unfold parse_step. cbn [upd_last m1 upd_line m_kw]. rewrite NS. cbn [rbind].
    rewrite (sub_taggable_scenario (upd_last m1 None) (strip line) alias name NT NR SC). cbn [rbind].
    eexists. split; [reflexivity|]. apply (RES (upd_last m1 None)); reflexivity || assumption.
Qed.

(* ---- the step lines of one scenario, directly after its scenario line or after earlier steps ---- *)
Lemma steps_of_a_scenario lines : forall m f s rest,
  (m_st m = StScenario \/ m_st m = StSteps) -> at_feature_scenario m f s rest ->
  Forall (fun x => let '(line, t, k, text) := x in step_line (m_kw m) line t k text) lines ->
  exists m' f' s',
    fold_left feed (map (fun x => fst (fst (fst x))) lines) (ROk m) = ROk m' /\ (m_st m' = StScenario \/ m_st m' = StSteps) /\
    at_feature_scenario m' f' s' rest /\ frame_eq m m' /\ m_line m' = m_line m + length lines /\
    s' = with_steps s (rev (steps_of lines (m_line m)) ++ sc_steps s) /\ f' = with_items f (FScen s' :: rest).
Proof.
  intros m f s rest ST W F. destruct ST as [ST|ST].
  - destruct lines as [|[[[line t] k] text] lines].
    + exists m, f, s. cbn [map fold_left steps_of rev app length]. split; [reflexivity|]. split; [now left|]. split; [exact W|].
      split; [apply frame_refl|]. split; [lia|]. destruct W as [_ [_ [_ D]]]. destruct s, f; cbn in *. split; [reflexivity|]. now rewrite D.
    + inversion F as [|? ? H1 H2]. subst.
      destruct (feed_first_step_line m f s rest line t k text ST W H1) as [m1 [FD [ST1 [W1 [FR1 [L1 LA1]]]]]].
      assert (KW : m_kw m1 = m_kw m) by (destruct FR1 as [_ [_ [_ [_ [K _]]]]]; exact K).
      assert (F1 : Forall (fun x => let '(line0, t0, k0, text0) := x in step_line (m_kw m1) line0 t0 k0 text0) lines) by (now rewrite KW).
      destruct (a_block_of_step_lines_is_read_into_exactly_those_steps lines m1 _ _ rest ST1 W1 F1)
        as [m' [f' [s' [FD' [ST' [W' [FR' [L' [ES EF]]]]]]]]].
      exists m', f', s'. cbn [map fold_left fst]. rewrite FD. split; [exact FD'|]. split; [now right|]. split; [exact W'|].
      split; [apply (frame_trans m m1 m'); assumption|]. split; [cbn [length]; lia|]. split.
      * rewrite ES. cbn [steps_of rev]. rewrite L1. unfold with_steps. cbn. now rewrite <- app_assoc.
      * rewrite EF. unfold with_items. cbn. reflexivity.
  - destruct (a_block_of_step_lines_is_read_into_exactly_those_steps lines m f s rest ST W F)
      as [m' [f' [s' [FD' [ST' [W' [FR' [L' [ES EF]]]]]]]]].
    exists m', f', s'. split; [exact FD'|]. split; [now right|]. split; [exact W'|]. split; [exact FR'|]. split; [exact L'|]. split; [exact ES|exact EF].
Qed.

(* ---- a feature of plain scenarios ---- *)
Record feature_line (kw : kwtable) (line alias name : ustr) : Prop := {
  fl_nonblank : strip line <> [];
  fl_nocomment : first_is cp_hash (strip line) = false;
  fl_notag : starts_at (strip line) = false;
  fl_feature : first_alias (k_feature kw) (strip line) = Some (alias, name) }.

Definition ascen : Type := (ustr * ustr * ustr * list (ustr * stept * ustr * ustr))%type.   (* line, alias, name, step lines *)
Definition ascen_lines (sc : ascen) : list ustr :=
  let '(line, _, _, steps) := sc in line :: map (fun x => fst (fst (fst x))) steps.
Definition ascen_ok (kw : kwtable) (sc : ascen) : Prop :=
  let '(line, alias, name, steps) := sc in
  scenario_line kw line alias name /\ Forall (fun x => let '(l, t, k, text) := x in step_line kw l t k text) steps.

(* the scenarios as the parser should deliver them (file order), the first one starting on the line after `line_no` *)
Fixpoint expected_scenarios (scens : list ascen) (line_no : nat) : list fitem :=
  match scens with
  | [] => []
  | (_, alias, name, steps) :: r =>
      FScen (mkPScen false alias name (S line_no) [] [] (steps_of steps (S line_no)) []) ::
      expected_scenarios r (S line_no + length steps)
  end.

Lemma fin_scen_with_steps alias name ln steps :
  fin_scen (with_steps (mkPScen false alias name ln [] [] [] []) (rev steps ++ [])) = mkPScen false alias name ln [] [] steps [].
Proof. unfold fin_scen, with_steps. cbn. now rewrite app_nil_r, rev_involutive. Qed.


Lemma scenarios_are_read scens : forall m f,
  m_cont m = CFeat -> m_feat m = Some f -> (m_st m = StFeature \/ m_st m = StSteps \/ m_st m = StScenario) -> m_tags m = [] ->
  Forall (ascen_ok (m_kw m)) scens ->
  exists m' f',
    fold_left feed (flat_map ascen_lines scens) (ROk m) = ROk m' /\ m_cont m' = CFeat /\ m_feat m' = Some f' /\
    m_table m' = m_table m /\
    rev (map fin_item (f_items f')) = rev (map fin_item (f_items f)) ++ expected_scenarios scens (m_line m) /\
    with_items f' [] = with_items f [].
Proof.
  induction scens as [|[[[line alias] name] steps] scens IH]; intros m f C F ST T OK.
  - exists m, f. cbn [flat_map fold_left expected_scenarios]. rewrite app_nil_r. split; [reflexivity|]. split; [exact C|].
    split; [exact F|]. split; [reflexivity|]. split; reflexivity.
  - inversion OK as [|? ? H1 OK']. subst. cbn in H1. destruct H1 as [SL STP].
    destruct (feed_scenario_line m f line alias name C F ST SL) as [m1 [FD1 [ST1 [W1 [L1 [K1 [T1 [G1 [TB1 _]]]]]]]]].
    assert (STP1 : Forall (fun x => let '(l, t, k, text) := x in step_line (m_kw m1) l t k text) steps) by (now rewrite K1).
    destruct (steps_of_a_scenario steps m1 _ _ (f_items f) (or_introl ST1) W1 STP1) as [m2 [f2 [s2 [FD2 [ST2 [W2 [FR2 [L2 [ES EF]]]]]]]]].
    destruct W2 as [A2 [B2 [C2 D2]]].
    destruct FR2 as [_ [_ [_ [_ [K2 [_ [_ [_ [_ [_ [T2 [_ [TB2 _]]]]]]]]]]]]].
    assert (OK2 : Forall (ascen_ok (m_kw m2)) scens) by (rewrite K2, K1; exact OK').
    assert (ST2' : m_st m2 = StFeature \/ m_st m2 = StSteps \/ m_st m2 = StScenario) by (destruct ST2; auto).
    assert (T2' : m_tags m2 = []) by congruence.
    destruct (IH m2 f2 B2 C2 ST2' T2' OK2) as [m' [f' [FD' [C' [F' [TB' [IT' HD']]]]]]].
    exists m', f'. cbn [flat_map ascen_lines]. rewrite fold_left_app. cbn [fold_left]. rewrite FD1, FD2.
    split; [exact FD'|]. split; [exact C'|]. split; [exact F'|]. split; [congruence|]. split.
    + rewrite IT'. rewrite EF. cbn [with_items f_items map rev fin_item]. rewrite ES.
      assert (FS : fin_scen (with_steps (new_scenario m alias name) (rev (steps_of steps (m_line m1)) ++ sc_steps (new_scenario m alias name))) =
                   mkPScen false alias name (S (m_line m)) [] [] (steps_of steps (S (m_line m))) []).
      { unfold new_scenario. rewrite T. cbn [sc_steps]. rewrite L1. apply fin_scen_with_steps. }
      rewrite FS. rewrite <- app_assoc. cbn [app expected_scenarios]. rewrite L2, L1. reflexivity.
    + rewrite HD', EF. unfold with_items. cbn. reflexivity.
Qed.

(* C04 for features made of plain scenarios: the model delivered is exactly the feature, its scenarios and their steps as
   written, in file order, with keywords, names, step types and line numbers *)
Theorem a_feature_of_plain_scenarios_is_read_back_exactly kw code fline falias fname scens :
  feature_line kw fline falias fname -> Forall (ascen_ok kw) scens ->
  exists m',
    fold_left feed (fline :: flat_map ascen_lines scens) (ROk (init_state code kw VFeature StInitial)) = ROk m' /\
    m_table m' = None /\
    option_map fin_feature (m_feat m') = Some (mkPFeat falias fname 1 [] [] None (expected_scenarios scens 1) code).
Proof.
  intros [NB NC NT FA] OK. set (m0 := init_state code kw VFeature StInitial).
  assert (F0 : feed (ROk m0) fline = ROk (upd_st (build_feature (upd_line m0 1) falias fname) StFeature)).
  { rewrite (feed_nonblank m0 fline NB). rewrite (action_dispatch _ fline NB NC). cbn [upd_line m_st m0 init_state].
    unfold a_initial. rewrite match_at, NT. cbn [upd_line m_kw m0 init_state]. now rewrite FA. }
  set (m1 := upd_st (build_feature (upd_line m0 1) falias fname) StFeature) in *.
  destruct (scenarios_are_read scens m1 (mkPFeat falias fname 1 [] [] None [] code)) as [m' [f' [FD [C' [F' [TB [IT HD]]]]]]];
    try reflexivity; [now left|exact OK|].
  exists m'. cbn [fold_left]. rewrite F0. split; [exact FD|]. split; [rewrite TB; reflexivity|].
  rewrite F'. cbn [option_map]. f_equal. unfold fin_feature. rewrite IT. cbn [f_items map rev app m_line m1 upd_st build_feature upd_tags upd_tree upd_line m0 init_state].
  unfold with_items in HD. cbn in HD. inversion HD as [[H1 H2 H3 H4 H5 H6 H7]]. rewrite H1, H2, H3, H4, H5, H6, H7. reflexivity.
Qed.

(* non-vacuity: the hypotheses hold for ordinary English lines *)
Example english_lines_satisfy_the_hypotheses :
  let kw := english in
  feature_line kw [70; 101; 97; 116; 117; 114; 101; 58; 32; 70]%N [70; 101; 97; 116; 117; 114; 101]%N [70%N] /\
  scenario_line kw [32; 32; 83; 99; 101; 110; 97; 114; 105; 111; 58; 32; 83]%N [83; 99; 101; 110; 97; 114; 105; 111]%N [83%N] /\
  step_line kw [32; 32; 32; 32; 71; 105; 118; 101; 110; 32; 97; 32; 117; 115; 101; 114]%N SGiven [71; 105; 118; 101; 110; 32]%N [97; 32; 117; 115; 101; 114]%N /\
  step_line kw [9; 84; 104; 101; 110; 32; 120; 32]%N SThen [84; 104; 101; 110; 32]%N [120%N].
Proof.
  repeat split; try (vm_compute; congruence); try (vm_compute; reflexivity).
  - exists RGiven. split; vm_compute; reflexivity.
  - exists RThen. split; vm_compute; reflexivity.
Qed.
