(* RollupOutlineError.v — the first failing row of an outline decides, with its documented outer status:
   an error-class row (error, hook_error, cleanup_error, undefined, pending) in front of every failed row
   makes the outline error, a failed row in front of every error-class row makes it failed. *)
From BV Require Import Base Status Rollup RollupProofs.
From BVGen Require Import StatusTable.

Definition quiet_row (s : status) : bool :=
  negb (has_failed (from_inner s)) && negb (status_eqb s untested).

Lemma outline_loop_first_failing pre : forall s post sk pc,
  forallb quiet_row pre = true -> has_failed (from_inner s) = true ->
  outline_loop (pre ++ s :: post) sk pc = inl (from_inner s).
Proof.
  induction pre as [|x r IH]; intros s post sk pc Hq Hf; cbn [app].
  - cbn [outline_loop]. now rewrite Hf.
  - cbn [forallb] in Hq. apply andb_true_iff in Hq as [Hx Hr]. unfold quiet_row in Hx.
    apply andb_true_iff in Hx as [Hx1 Hx2]. apply negb_true_iff in Hx1. apply negb_true_iff in Hx2.
    cbn [outline_loop]. rewrite Hx1, Hx2.
    destruct (status_eqb x skipped); [now apply IH|]. destruct (status_eqb x passed); now apply IH.
Qed.

Lemma outline_first_failing_row_decides expected pre s post :
  forallb quiet_row pre = true -> has_failed (from_inner s) = true ->
  outline_compute expected (pre ++ s :: post) = from_inner s.
Proof.
  intros Hq Hf. unfold outline_compute.
  destruct (pre ++ s :: post) as [|x xs] eqn:L; [destruct pre; discriminate|]. rewrite <- L.
  now rewrite (outline_loop_first_failing pre s post 0 0 Hq Hf).
Qed.

(* the documented classes: every error-class row status reads error from outside, failed reads failed *)
Lemma error_class_rows_read_error s : is_error s = true -> from_inner s = error /\ has_failed (from_inner s) = true.
Proof. destruct s; vm_compute; intros H; try discriminate; split; reflexivity. Qed.

Lemma outline_error_row_first_gives_error expected pre s post :
  forallb quiet_row pre = true -> is_error s = true ->
  outline_compute expected (pre ++ s :: post) = error.
Proof.
  intros Hq He. destruct (error_class_rows_read_error s He) as [E F].
  rewrite (outline_first_failing_row_decides expected pre s post Hq F). exact E.
Qed.

Lemma outline_failed_row_first_gives_failed expected pre post :
  forallb quiet_row pre = true -> outline_compute expected (pre ++ failed :: post) = failed.
Proof. intros Hq. now rewrite (outline_first_failing_row_decides expected pre failed post Hq eq_refl). Qed.

Example a_row_with_a_raising_hook : outline_compute 3 [passed; hook_error; passed] = error.
Proof. reflexivity. Qed.
